package main

import (
	"fmt"
	"go/ast"
	"go/token"
	"go/types"
	"strings"
)

func isFloat(t types.Type) bool {
	b, ok := t.Underlying().(*types.Basic)
	return ok && b.Info()&types.IsFloat != 0
}

func isInteger(t types.Type) bool {
	b, ok := t.Underlying().(*types.Basic)
	return ok && b.Info()&types.IsInteger != 0
}

// floatToIntConv: expression contains a conversion of a floating-point value to an integer type.
func floatToIntConv(info *types.Info, x ast.Expr) bool {
	found := false
	ast.Inspect(x, func(n ast.Node) bool {
		call, ok := n.(*ast.CallExpr)
		if !ok || len(call.Args) != 1 {
			return true
		}
		if tv, ok := info.Types[call.Fun]; ok && tv.IsType() && isInteger(tv.Type) {
			if av, ok := info.Types[call.Args[0]]; ok && isFloat(av.Type) {
				found = true
			}
		}
		return true
	})
	return found
}

// ruleClampSymmetry (G3): the two cell indices of a grid access are bounded the same way.
func ruleClampSymmetry(r *Run) {
	if r.broken() {
		return
	}
	n := 0
	for _, fn := range r.P.All {
		if fn.Pkg.PkgPath != repoMod+"/modules/dagaz" {
			continue
		}
		info := fn.Info()
		// clamp assignments: v = T(math.Min(float64(s), float64(len(...)-1)))
		type clamp struct {
			dst, src types.Object
			pos      token.Pos
			node     *ast.AssignStmt
		}
		var clamps []clamp
		clamped := map[types.Object]bool{}
		ast.Inspect(fn.Body, func(nd ast.Node) bool {
			as, ok := nd.(*ast.AssignStmt)
			if !ok || len(as.Lhs) != 1 || len(as.Rhs) != 1 {
				return true
			}
			dstID, ok := ast.Unparen(as.Lhs[0]).(*ast.Ident)
			if !ok {
				return true
			}
			var minCall *ast.CallExpr
			ast.Inspect(as.Rhs[0], func(m ast.Node) bool {
				if c, ok := m.(*ast.CallExpr); ok {
					if f, ok := calleeObj(info, c).(*types.Func); ok && len(c.Args) == 2 && (f.FullName() == "math.Min" || r.isClampHelper(f)) {
						if r.mentionsLen(fn, c.Args[1]) || r.mentionsLen(fn, c.Args[0]) {
							minCall = c
						}
					}
					if b, ok := calleeObj(info, c).(*types.Builtin); ok && b.Name() == "min" && len(c.Args) == 2 {
						if r.mentionsLen(fn, c.Args[1]) || r.mentionsLen(fn, c.Args[0]) {
							minCall = c // the builtin
						}
					}
				}
				return true
			})
			if minCall == nil {
				return true
			}
			var srcObj types.Object
			for _, a := range minCall.Args {
				if r.mentionsLen(fn, a) {
					continue
				}
				ast.Inspect(a, func(m ast.Node) bool {
					if id, ok := m.(*ast.Ident); ok {
						if v, ok := info.Uses[id].(*types.Var); ok && !v.IsField() {
							srcObj = v
						}
					}
					return true
				})
			}
			dst := info.Uses[dstID]
			if dst == nil {
				// lastRow := min(maxRow, len-1): a new variable that holds the bounded value (a loop bound); nothing
				// loses its value. Whether it is then used for the right axis is G3b / Q1.
				return true
			}
			if dst != nil && srcObj != nil {
				clamps = append(clamps, clamp{dst, srcObj, as.Pos(), as})
				clamped[dst] = true
			}
			return true
		})
		for _, c := range clamps {
			n++
			r.Check("G3", fmt.Sprintf("%s:clamp[%s<-%s]", fn.Name, c.dst.Name(), c.src.Name()), c.dst == c.src, c.pos,
				"the value of %s, bounded by a length, is stored into %s: %s keeps its unbounded value and %s loses its own (a finite ray entering the grid from outside indexes out of range)", c.src.Name(), c.dst.Name(), c.src.Name(), c.dst.Name())
		}
		if len(clamps) == 0 {
			continue
		}
		// every two-level grid access grid.Grid[a][b] with identifier indices: both or neither clamped
		seen := map[string]bool{}
		ast.Inspect(fn.Body, func(nd ast.Node) bool {
			outer, ok := nd.(*ast.IndexExpr)
			if !ok {
				return true
			}
			inner, ok := ast.Unparen(outer.X).(*ast.IndexExpr)
			if !ok {
				return true
			}
			se, ok := ast.Unparen(inner.X).(*ast.SelectorExpr)
			if !ok || se.Sel.Name != "Grid" {
				return true
			}
			a, okA := ast.Unparen(inner.Index).(*ast.Ident)
			b, okB := ast.Unparen(outer.Index).(*ast.Ident)
			if !okA || !okB {
				return true
			}
			oa, ob := info.Uses[a], info.Uses[b]
			// only accesses after the clamps (same block scope as a clamp's destination or source)
			relevant := false
			for _, c := range clamps {
				if (c.dst == oa || c.dst == ob || c.src == oa || c.src == ob) && outer.Pos() > c.pos {
					relevant = true
				}
			}
			if !relevant {
				return true
			}
			k := a.Name + "/" + b.Name
			if seen[k] {
				return true
			}
			seen[k] = true
			n++
			r.Check("G3", fmt.Sprintf("%s:access[Grid[%s][%s]]", fn.Name, a.Name, b.Name), clamped[oa] == clamped[ob], outer.Pos(),
				"of the two indices of Grid[%s][%s], computed by the same float-to-cell arithmetic, one is bounded by the grid size and the other is not (bounded: %s=%v, %s=%v)", a.Name, b.Name, a.Name, clamped[oa], b.Name, clamped[ob])
			return true
		})
	}
	r.Floor("G3", "clamp sites and clamped grid accesses", n, 2)
}

// ruleTaintAlloc (G4): a client-supplied floating-point value must not decide how much is allocated
// without a bound.
func ruleTaintAlloc(r *Run) {
	if r.broken() {
		return
	}
	n := 0
	for _, fn := range r.P.All {
		if !strings.HasPrefix(fn.Pkg.PkgPath, repoMod+"/modules") {
			continue
		}
		info := fn.Info()
		// integer locals that receive a float->int conversion somewhere
		tainted := map[types.Object]bool{}
		for obj, sites := range fn.Defs().sites {
			if v, ok := obj.(*types.Var); !ok || !isInteger(v.Type()) {
				continue
			}
			for _, s := range sites {
				if s.rhs != nil && floatToIntConv(info, s.rhs) {
					tainted[obj] = true
				}
			}
		}
		// propagate once through integer arithmetic
		for pass := 0; pass < 3; pass++ {
			for obj, sites := range fn.Defs().sites {
				if v, ok := obj.(*types.Var); !ok || !isInteger(v.Type()) {
					continue
				}
				for _, s := range sites {
					if s.rhs == nil {
						continue
					}
					ast.Inspect(s.rhs, func(m ast.Node) bool {
						if id, ok := m.(*ast.Ident); ok && tainted[info.Uses[id]] {
							tainted[obj] = true
						}
						return true
					})
				}
			}
		}
		if len(tainted) == 0 {
			continue
		}
		paths := r.Paths(fn)
		paths = r.capPaths(fn, paths, 20000)
		r.Analysed(fn, len(paths))
		for pi := range paths {
			path := &paths[pi]
			r.at(path)
			bounded := map[types.Object]bool{}
			for _, ev := range path.Events {
				if ev.Kind == EvGuard && ev.Cond != nil {
					if be, ok := ast.Unparen(ev.Cond).(*ast.BinaryExpr); ok && (be.Op == token.LSS || be.Op == token.LEQ || be.Op == token.GTR || be.Op == token.GEQ) {
						for _, side := range [][2]ast.Expr{{be.X, be.Y}, {be.Y, be.X}} {
							if id, ok := ast.Unparen(side[0]).(*ast.Ident); ok {
								if tv, ok := info.Types[side[1]]; ok && tv.Value != nil {
									bounded[info.Uses[id]] = true
								}
							}
						}
					}
				}
				if ev.Kind != EvCall || ev.Call == nil {
					continue
				}
				b, ok := ev.Callee.(*types.Builtin)
				if !ok || b.Name() != "make" || len(ev.Call.Args) < 2 {
					continue
				}
				for _, szArg := range ev.Call.Args[1:] {
					var culprit types.Object
					ast.Inspect(szArg, func(m ast.Node) bool {
						if id, ok := m.(*ast.Ident); ok {
							if o := info.Uses[id]; tainted[o] && !bounded[o] {
								culprit = o
							}
						}
						return true
					})
					direct := floatToIntConv(info, szArg)
					if culprit == nil && !direct {
						continue
					}
					n++
					name := "expr"
					if culprit != nil {
						name = culprit.Name()
					}
					r.CheckT("G4", fmt.Sprintf("%s:alloc[%s]", fn.Name, name), false, ev.Pos, path,
						"the length of this allocation (%s) is computed from floating-point coordinates supplied by a client and is not bounded on this path: one message with a distant (or non-finite) coordinate makes the server allocate without limit", r.P.exprStr(szArg))
				}
			}
		}
	}
	r.Check("G4", "examined", true, 0, "allocation sizes derived from float-to-int conversions examined in the modules (%d unbounded)", n)
}

// isClampHelper: a two-parameter function of the package whose whole body returns a math.Min of its two
// parameters (clampIndex(v, n) = min(v, n-1)).
func (r *Run) isClampHelper(f *types.Func) bool {
	def := r.P.Funcs[f]
	if def == nil || def.Pkg.PkgPath != pkgDagaz || def.Body == nil || len(def.Body.List) != 1 {
		return false
	}
	rs, ok := def.Body.List[0].(*ast.ReturnStmt)
	if !ok || len(rs.Results) != 1 {
		return false
	}
	found := false
	ast.Inspect(rs.Results[0], func(n ast.Node) bool {
		if c, ok := n.(*ast.CallExpr); ok {
			if g, ok := calleeObj(def.Info(), c).(*types.Func); ok && g.FullName() == "math.Min" {
				found = true
			}
		}
		return true
	})
	return found
}

// mentionsLen: the expression contains len(…), directly or through a helper whose whole body returns an
// expression with len(…) (rowCount(), colCount()).
func (r *Run) mentionsLen(fn *Func, x ast.Expr) bool {
	if strings.Contains(types.ExprString(x), "len(") {
		return true
	}
	found := false
	ast.Inspect(x, func(n ast.Node) bool {
		c, ok := n.(*ast.CallExpr)
		if !ok || found {
			return !found
		}
		if f, ok := calleeObj(fn.Info(), c).(*types.Func); ok && r.P.isGlue(f) {
			if def := r.P.Funcs[f]; def != nil && len(def.Body.List) == 1 {
				if rs, ok := def.Body.List[0].(*ast.ReturnStmt); ok && len(rs.Results) == 1 && strings.Contains(types.ExprString(rs.Results[0]), "len(") {
					found = true
				}
			}
		}
		return true
	})
	return found
}

// ruleGridAxes (G3b): a cell index is bounded by the count of its own axis. In every dagaz function the
// variables used as first index of Grid[a][b] are row indices and those used as second index are column
// indices; a comparison (or math.Min clamp) of such a variable with a count must use len(Grid) for a row
// index and len(Grid[k]) for a column index — directly, through a local that holds the count, through a
// helper that returns it (rowCount()), or through a helper that is handed the index and compares it
// (hasCell(x, y)). Only the pairing is checked, not the arithmetic.
func ruleGridAxes(r *Run) {
	if r.broken() {
		return
	}
	isGridSel := func(x ast.Expr) bool {
		se, ok := ast.Unparen(x).(*ast.SelectorExpr)
		return ok && se.Sel.Name == "Grid"
	}
	// countKind: "row" for len(X.Grid), "col" for len(X.Grid[k]); through helpers and single-assignment locals
	var countKind func(fn *Func, x ast.Expr, depth int) string
	countKind = func(fn *Func, x ast.Expr, depth int) string {
		if depth > 3 {
			return ""
		}
		kind := ""
		ast.Inspect(x, func(n ast.Node) bool {
			if kind != "" {
				return false
			}
			switch v := n.(type) {
			case *ast.CallExpr:
				if b, ok := calleeObj(fn.Info(), v).(*types.Builtin); ok && b.Name() == "len" && len(v.Args) == 1 {
					a := ast.Unparen(v.Args[0])
					if isGridSel(a) {
						kind = "row"
					} else if ix, ok := a.(*ast.IndexExpr); ok && isGridSel(ix.X) {
						kind = "col"
					}
					return false
				}
				if f, ok := calleeObj(fn.Info(), v).(*types.Func); ok && r.P.isGlue(f) {
					if def := r.P.Funcs[f]; def != nil && len(def.Body.List) == 1 {
						if rs, ok := def.Body.List[0].(*ast.ReturnStmt); ok && len(rs.Results) == 1 {
							kind = countKind(def, rs.Results[0], depth+1)
						}
					}
					return false
				}
			case *ast.SelectorExpr:
				// a field of a local struct built by a literal: the value given to that field
				if id, ok := ast.Unparen(v.X).(*ast.Ident); ok {
					if obj, ok := fn.Info().Uses[id].(*types.Var); ok && !obj.IsField() {
						if ds, ok := fn.Defs().singleDef(obj); ok && ds.kind == "assign" && !ds.multi && ds.rhs != nil {
							rhs := ast.Unparen(ds.rhs)
							if u, ok := rhs.(*ast.UnaryExpr); ok && u.Op == token.AND {
								rhs = ast.Unparen(u.X)
							}
							if cl, ok := rhs.(*ast.CompositeLit); ok {
								if fv := litField(cl, v.Sel.Name); fv != nil {
									kind = countKind(fn, fv, depth+1)
								}
								return false
							}
						}
					}
				}
			case *ast.Ident:
				if obj, ok := fn.Info().Uses[v].(*types.Var); ok && !obj.IsField() {
					if ds, ok := fn.Defs().singleDef(obj); ok && ds.kind == "assign" && !ds.multi && ds.rhs != nil {
						kind = countKind(fn, ds.rhs, depth+1)
					}
				}
			}
			return true
		})
		return kind
	}
	indexVar := func(fn *Func, x ast.Expr) *types.Var {
		// the variable under conversions: uint(v), (float64)(v)
		for {
			x = ast.Unparen(x)
			if c, ok := x.(*ast.CallExpr); ok && len(c.Args) == 1 {
				if tv, ok := fn.Info().Types[c.Fun]; ok && tv.IsType() {
					x = c.Args[0]
					continue
				}
			}
			break
		}
		if id, ok := x.(*ast.Ident); ok {
			if v, ok := fn.Info().Uses[id].(*types.Var); ok && !v.IsField() {
				return v
			}
		}
		return nil
	}
	// per function: what each variable is compared with
	type bound struct {
		v    *types.Var
		kind string
		pos  token.Pos
	}
	boundsOf := func(fn *Func) []bound {
		var out []bound
		ast.Inspect(fn.Body, func(n ast.Node) bool {
			switch v := n.(type) {
			case *ast.BinaryExpr:
				switch v.Op {
				case token.LSS, token.LEQ, token.GTR, token.GEQ, token.EQL, token.NEQ:
					for _, pair := range [][2]ast.Expr{{v.X, v.Y}, {v.Y, v.X}} {
						if iv := indexVar(fn, pair[0]); iv != nil {
							if k := countKind(fn, pair[1], 0); k != "" && countKind(fn, pair[0], 0) == "" {
								out = append(out, bound{iv, k, v.Pos()})
							}
						}
					}
				}
			case *ast.CallExpr:
				isMin := false
				if f, ok := calleeObj(fn.Info(), v).(*types.Func); ok && f.FullName() == "math.Min" {
					isMin = true
				}
				if b, ok := calleeObj(fn.Info(), v).(*types.Builtin); ok && b.Name() == "min" {
					isMin = true
				}
				if isMin && len(v.Args) == 2 {
					for _, pair := range [][2]ast.Expr{{v.Args[0], v.Args[1]}, {v.Args[1], v.Args[0]}} {
						if iv := indexVar(fn, pair[0]); iv != nil {
							if k := countKind(fn, pair[1], 0); k != "" && countKind(fn, pair[0], 0) == "" {
								out = append(out, bound{iv, k, v.Pos()})
							}
						}
					}
				}
			}
			return true
		})
		return out
	}
	n := 0
	for _, fn := range r.P.All {
		if fn.Pkg.PkgPath != pkgDagaz {
			continue
		}
		info := fn.Info()
		role := map[*types.Var]string{}
		conflict := map[*types.Var]bool{}
		setRole := func(x ast.Expr, k string) {
			if v := indexVar(fn, x); v != nil {
				if role[v] != "" && role[v] != k {
					conflict[v] = true
				}
				role[v] = k
			}
		}
		ast.Inspect(fn.Body, func(nd ast.Node) bool {
			outer, ok := nd.(*ast.IndexExpr)
			if !ok {
				return true
			}
			inner, ok := ast.Unparen(outer.X).(*ast.IndexExpr)
			if !ok || !isGridSel(inner.X) {
				return true
			}
			setRole(inner.Index, "row")
			setRole(outer.Index, "col")
			return true
		})
		if len(role) == 0 {
			continue
		}
		for _, b := range boundsOf(fn) {
			if role[b.v] == "" || conflict[b.v] {
				continue
			}
			n++
			r.Check("G3b", fmt.Sprintf("%s:bound[%s]", fn.Name, b.v.Name()), role[b.v] == b.kind, b.pos,
				"%s indexes the grid's %ss but is bounded by the %s count: in a non-square grid the test admits cells that do not exist and rejects cells that do", b.v.Name(), role[b.v], b.kind)
		}
		// indices handed to a helper that bounds them
		ast.Inspect(fn.Body, func(nd ast.Node) bool {
			call, ok := nd.(*ast.CallExpr)
			if !ok {
				return true
			}
			f, ok := calleeObj(info, call).(*types.Func)
			if !ok || !r.P.isGlue(f) {
				return true
			}
			def := r.P.Funcs[f]
			if def == nil || def.Pkg.PkgPath != pkgDagaz {
				return true
			}
			for _, hb := range boundsOf(def) {
				k := paramIndex(def, hb.v)
				if k < 0 || k >= len(call.Args) {
					continue
				}
				av := indexVar(fn, call.Args[k])
				if av == nil || role[av] == "" || conflict[av] {
					continue
				}
				n++
				r.Check("G3b", fmt.Sprintf("%s:bound[%s via %s]", fn.Name, av.Name(), shortFuncName(f)), role[av] == hb.kind, call.Pos(),
					"%s indexes the grid's %ss but %s bounds its parameter %d by the %s count", av.Name(), role[av], shortFuncName(f), k, hb.kind)
			}
			return true
		})
	}
	r.Floor("G3b", "index bounds paired with an axis", n, 4)
}
