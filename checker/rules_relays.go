package main

import (
	"fmt"
	"go/ast"
	"go/constant"
	"go/token"
	"go/types"
	"strings"
)

// handlerFuncs: every dispatched handler plus the leave function(s).
func (r *Run) handlerFuncs() []*Func {
	m := r.M()
	var out []*Func
	seen := map[*Func]bool{}
	for _, hi := range m.Handlers {
		if !seen[hi.Fn] {
			seen[hi.Fn] = true
			out = append(out, hi.Fn)
		}
	}
	for _, f := range m.Leave {
		if !seen[f] {
			seen[f] = true
			out = append(out, f)
		}
	}
	return out
}

type enterFrame struct {
	Idx int
	Ev  Event
}

// enterStack returns, for event index i, the stack of closure entries that enclose it.
func enterStack(path *Path, i int) []enterFrame {
	var st []enterFrame
	for j := 0; j < i; j++ {
		switch path.Events[j].Kind {
		case EvEnter:
			st = append(st, enterFrame{j, path.Events[j]})
		case EvExit:
			if len(st) > 0 {
				st = st[:len(st)-1]
			}
		}
	}
	return st
}

func hasSkip(path *Path) bool {
	for _, ev := range path.Events {
		if ev.Kind == EvSkip {
			return true
		}
	}
	return false
}

// ruleMutateRelay (C1): every accepted replicated change is followed by exactly one relay of its
// class on the same path; no relay without a change (except relay-only classes).
func ruleMutateRelay(r *Run) {
	if r.broken() {
		return
	}
	r.resolveMutatorTable()
	nMut, nRel := 0, 0
	classesSeen := map[string]bool{}
	for _, fn := range r.handlerFuncs() {
		paths := r.Paths(fn)
		r.Analysed(fn, len(paths))
		for pi := range paths {
			path := &paths[pi]
			r.at(path)
			sig := r.pathSig(path)
			type item struct {
				idx   int
				class string
				mut   bool
				name  string
			}
			var items []item
			refused := false
			for _, a := range r.answersOn(path) {
				if a.Kind == "error" {
					refused = true
				}
			}
			for _, me := range r.mutEvents(path) {
				if !me.Direct {
					continue
				}
				mi, _ := r.mutInfo(me.Callee)
				if mi.Relay == "" || r.isConstruction(path, me) || r.reportedFailure(path, me) {
					continue
				}
				items = append(items, item{me.Idx, mi.Relay, true, shortFuncName(me.Callee)})
			}
			for i, ev := range path.Events {
				if r.isRelay(ev) {
					ml := r.relayMsg(ev)
					if ml == nil || ml.TypeC == nil {
						r.CheckT("C1", fmt.Sprintf("%s:relay-unresolved", fn.Name), false, ev.Pos, path, "relayed message cannot be resolved to a literal with a constant Type")
						continue
					}
					items = append(items, item{i, ml.TypeConstName(), false, ""})
				}
			}
			// order by position on the path
			for a := 1; a < len(items); a++ {
				for b := a; b > 0 && items[b].idx < items[b-1].idx; b-- {
					items[b], items[b-1] = items[b-1], items[b]
				}
			}
			full := !hasSkip(path)
			for k, it := range items {
				if it.mut {
					nMut++
					classesSeen[it.class] = true
					// relays of this class between this mutator and the next mutator of the class
					cnt := 0
					for _, nx := range items[k+1:] {
						if nx.mut && nx.class == it.class {
							break
						}
						if !nx.mut && nx.class == it.class {
							cnt++
						}
					}
					site := fmt.Sprintf("%s:change[%s->%s]", fn.Name, it.name, it.class)
					if refused {
						continue // B5 reports mutations on refusal paths
					}
					if full {
						r.CheckT("C1", site, cnt == 1, path.Events[it.idx].Pos, path,
							"accepted change %s is followed by %d relay(s) of class %s on the path with every flag unset and a subscriber present (expected exactly 1) [path %s]", it.name, cnt, it.class, sig)
					} else {
						r.CheckT("C1", site+":nodup", cnt <= 1, path.Events[it.idx].Pos, path, "change %s is relayed %d times on one path", it.name, cnt)
					}
				} else {
					nRel++
					if why, ok := relayOnlyClasses[it.class]; ok {
						_ = why
						cnt := 0
						for _, o := range items {
							if !o.mut && o.class == it.class {
								cnt++
							}
						}
						r.CheckT("C1", fmt.Sprintf("%s:relay-only[%s]", fn.Name, it.class), cnt == 1, path.Events[it.idx].Pos, path, "%d relays of %s on one path (expected 1)", cnt, it.class)
						continue
					}
					// must be preceded by a mutator of its class
					found := false
					for _, o := range items[:k] {
						if o.mut && o.class == it.class {
							found = true
						}
					}
					r.CheckT("C1", fmt.Sprintf("%s:relay[%s]", fn.Name, it.class), found, path.Events[it.idx].Pos, path,
						"relay of class %s without a preceding accepted change of that class on the path [path %s]", it.class, sig)
				}
			}
		}
	}
	r.Floor("C1", "replicated mutator events", nMut, 12)
	r.Floor("C1", "relay events", nRel, 12)
	r.Floor("C1", "replicated classes seen", len(classesSeen), 10)
}

// ruleSenderExcluded (C2): the sender argument of every relay is the acting participant; the relay
// goes to the acting connection's own session.
func ruleSenderExcluded(r *Run) {
	if r.broken() {
		return
	}
	n := 0
	for _, fn := range r.handlerFuncs() {
		paths := r.Paths(fn)
		r.Analysed(fn, len(paths))
		for pi := range paths {
			path := &paths[pi]
			r.at(path)
			for _, ev := range path.Events {
				if !r.isRelay(ev) {
					continue
				}
				n++
				ml := r.relayMsg(ev)
				sender := r.P.Canon(ev.Fn, ev.Call.Args[0])
				okSender := sender == "recv.currentParticipant" || strings.HasPrefix(sender, "&lit:models.Participant@")
				r.CheckT("C2", fmt.Sprintf("%s:relay[%s]:sender", fn.Name, ml.TypeConstNameOr("?")), okSender, ev.Pos, path,
					"relay excludes %q; expected the acting participant (the connection's own participant or the one just created by join)", sender)
				sess := r.P.Canon(ev.Fn, ev.Recv)
				okSess := sess == "recv.currentSession" || r.isJoinLocalSession(ev.Fn, ev.Recv)
				r.CheckT("J1", fmt.Sprintf("%s:relay[%s]:session", fn.Name, ml.TypeConstNameOr("?")), okSess, ev.Pos, path,
					"relay goes to session %q; expected the connection's own session", sess)
			}
		}
	}
	r.Floor("C2", "relay call sites on paths", n, 13)
}

// isJoinLocalSession: a local variable whose every definition is SessionStore.GetByGlobalID(<request
// session id>) or models.NewSession(...): the session being joined.
func (r *Run) isJoinLocalSession(fn *Func, x ast.Expr) bool {
	fn, x = resolveBound(fn, x)
	id, ok := ast.Unparen(x).(*ast.Ident)
	if !ok {
		return false
	}
	obj := fn.Info().Uses[id]
	if obj == nil {
		return false
	}
	sites := fn.Defs().sites[obj]
	if len(sites) == 0 {
		return false
	}
	for _, s := range sites {
		if s.kind != "assign" || s.rhs == nil {
			return false
		}
		f, _ := r.calleeOfExpr(fn, r.throughLocals(fn, s.rhs))
		if f == nil {
			return false
		}
		switch funcName(f) {
		case "models.(*SessionStore).GetByGlobalID", "models.NewSession":
		default:
			if !r.returnsNewSession(f) {
				return false
			}
		}
	}
	return true
}

// resolveBound: when x is a parameter of a looked-into helper instance, the caller and the argument
// expression it is bound to (repeatedly); otherwise fn and x unchanged.
func resolveBound(fn *Func, x ast.Expr) (*Func, ast.Expr) {
	for i := 0; i < 6; i++ {
		id, ok := ast.Unparen(x).(*ast.Ident)
		if !ok {
			return fn, x
		}
		vr, ok := fn.Info().Uses[id].(*types.Var)
		if !ok {
			return fn, x
		}
		if rt := fn.root(); rt.Recv != nil && vr == rt.Recv {
			// receiver of a looked-into method instance: the caller's receiver expression
			if rt.bind != nil && rt.bind.recv != nil {
				fn, x = rt.bind.caller, rt.bind.recv
				continue
			}
			return fn, x
		}
		if !isParamOf(fn, vr) {
			return fn, x
		}
		moved := false
		for f := fn; f != nil; f = f.Outer {
			if k := paramIndex(f, vr); k >= 0 {
				if f.bind != nil && f.bind.call != nil && k < len(f.bind.argv()) {
					fn, x, moved = f.bind.caller, f.bind.argv()[k], true
				}
				break
			}
		}
		if !moved {
			return fn, x
		}
	}
	return fn, x
}

// throughLocals follows single-assignment locals to the expression that defines them.
func (r *Run) throughLocals(fn *Func, x ast.Expr) ast.Expr {
	for i := 0; i < 4; i++ {
		id, ok := ast.Unparen(x).(*ast.Ident)
		if !ok {
			return x
		}
		obj := fn.Info().Uses[id]
		if obj == nil {
			return x
		}
		ds, ok := fn.Defs().singleDef(obj)
		if !ok || ds.kind != "assign" || ds.rhs == nil {
			return x
		}
		x = ds.rhs
	}
	return x
}

// returnsNewSession: an unexported repository helper whose first result is, on every return, nil or
// a session freshly made by models.NewSession.
func (r *Run) returnsNewSession(f *types.Func) bool {
	def := r.P.Funcs[f]
	if def == nil || !r.P.isGlue(f) {
		return false
	}
	ok, n := true, 0
	ast.Inspect(def.Body, func(nd ast.Node) bool {
		if _, isLit := nd.(*ast.FuncLit); isLit {
			return false
		}
		rs, isRet := nd.(*ast.ReturnStmt)
		if !isRet || len(rs.Results) == 0 {
			return true
		}
		n++
		x := rs.Results[0]
		if isNilIdent(def.Info(), x) {
			return true
		}
		c := r.P.canon(def, x, 0)
		if !strings.HasPrefix(c, "call:models.NewSession(") && !r.isJoinLocalSession(def, x) {
			ok = false // (a helper may also hand back its own join-local session: looked up by id or newly made)
		}
		return true
	})
	return ok && n > 0
}

// sessionCanonOK: expression denotes the connection's own session (field, getter, or the join local).
func (r *Run) sessionCanonOK(fn *Func, x ast.Expr) bool {
	c := r.P.Canon(fn, x)
	return c == "recv.currentSession" || r.isJoinLocalSession(fn, x)
}

// ---------------------------------------------------------------------------------------------
// C4 FLAG-WRAP (C17) and C5 NOTIFY-GATED (C13)

type parentMap map[ast.Node]ast.Node

func buildParents(root ast.Node) parentMap {
	pm := parentMap{}
	var stack []ast.Node
	ast.Inspect(root, func(n ast.Node) bool {
		if n == nil {
			stack = stack[:len(stack)-1]
			return true
		}
		if len(stack) > 0 {
			pm[n] = stack[len(stack)-1]
		}
		stack = append(stack, n)
		return true
	})
	return pm
}

// flagOfClass: derive DISABLE_X <-> MSG_TYPE_X from the declared flag constants.
func (r *Run) flagClasses() map[*types.Const]string {
	out := map[*types.Const]string{}
	pk := r.P.ByPth[pkgFF]
	if pk == nil {
		r.Undecide("C4", "package featureflag not loaded")
		return out
	}
	flagT := pk.Types.Scope().Lookup("Flag")
	for _, nm := range pk.Types.Scope().Names() {
		c, ok := pk.Types.Scope().Lookup(nm).(*types.Const)
		if !ok || flagT == nil || !types.Identical(c.Type(), flagT.Type()) {
			continue
		}
		val := strings.Trim(c.Val().ExactString(), "\"")
		if strings.HasPrefix(val, "DISABLE_") {
			out[c] = "MSG_TYPE_" + strings.TrimPrefix(val, "DISABLE_")
		} else {
			out[c] = ""
		}
	}
	return out
}

func ruleFlagWrap(r *Run) {
	m := r.M()
	if r.broken() {
		return
	}
	fc := r.flagClasses()
	classFlag := map[string]*types.Const{}
	for c, k := range fc {
		if k != "" {
			classFlag[k] = c
		}
	}
	// (a) one flag per flagged class, by name
	for _, k := range flaggedClasses {
		r.Check("C4a", "flag-for["+k+"]", classFlag[k] != nil, 0, "a DISABLE_* flag constant exists whose value names message class %s", k)
	}
	for c, k := range fc {
		isFlagged := false
		for _, fk := range flaggedClasses {
			if fk == k {
				isFlagged = true
			}
		}
		r.Check("C4a", "class-for["+c.Name()+"]", isFlagged, c.Pos(), "flag %s (%s) names a known message class", c.Name(), c.Val().ExactString())
	}
	flagged := map[string]bool{}
	for _, k := range flaggedClasses {
		flagged[k] = true
	}
	// flag-gated helpers: a repository function G(…, flag, …, f) whose body runs IfNotSet(flag, literal) where the
	// literal only calls f or hands it to Notify: G(…, FLAG, …, lit) is IfNotSet(FLAG, lit)
	type gated struct {
		flagIdx, fnIdx int
		table          map[int64]*types.Const // the helper is handed an index into a constant table of flags
	}
	// flagAt: the flag constant a call of a gated helper stands for
	flagAt := func(info *types.Info, call *ast.CallExpr, g gated) *types.Const {
		if g.flagIdx >= len(call.Args) {
			return nil
		}
		if g.table == nil {
			return constOf(info, call.Args[g.flagIdx])
		}
		if tv, ok := info.Types[call.Args[g.flagIdx]]; ok && tv.Value != nil {
			if k, exact := constant.Int64Val(constant.ToInt(tv.Value)); exact {
				return g.table[k]
			}
		}
		return nil
	}
	// constTable: a package-level array / slice variable initialised with a literal of declared constants and never
	// written: index -> constant
	constTable := func(v *types.Var) map[int64]*types.Const {
		if v == nil || v.Pkg() == nil || v.Parent() != v.Pkg().Scope() {
			return nil
		}
		pk := r.P.ByPth[v.Pkg().Path()]
		if pk == nil {
			return nil
		}
		var lit *ast.CompositeLit
		for _, f := range pk.Syntax {
			for _, d := range f.Decls {
				gd, ok := d.(*ast.GenDecl)
				if !ok || gd.Tok != token.VAR {
					continue
				}
				for _, sp := range gd.Specs {
					vs := sp.(*ast.ValueSpec)
					for i, nm := range vs.Names {
						if pk.TypesInfo.Defs[nm] == types.Object(v) && i < len(vs.Values) {
							lit, _ = ast.Unparen(vs.Values[i]).(*ast.CompositeLit)
						}
					}
				}
			}
		}
		if lit == nil {
			return nil
		}
		// never written
		for _, fn := range r.P.All {
			written := false
			ast.Inspect(fn.Body, func(n ast.Node) bool {
				if as, ok := n.(*ast.AssignStmt); ok {
					for _, l := range as.Lhs {
						x := ast.Unparen(l)
						if ix, ok := x.(*ast.IndexExpr); ok {
							x = ast.Unparen(ix.X)
						}
						if id, ok := x.(*ast.Ident); ok && fn.Info().Uses[id] == types.Object(v) {
							written = true
						}
					}
				}
				return true
			})
			if written {
				return nil
			}
		}
		out := map[int64]*types.Const{}
		next := int64(0)
		for _, el := range lit.Elts {
			val := el
			if kv, ok := el.(*ast.KeyValueExpr); ok {
				tv, ok := pk.TypesInfo.Types[kv.Key]
				if !ok || tv.Value == nil {
					return nil
				}
				k, exact := constant.Int64Val(constant.ToInt(tv.Value))
				if !exact {
					return nil
				}
				next = k
				val = kv.Value
			}
			c := constOf(pk.TypesInfo, val)
			if c == nil {
				return nil
			}
			out[next] = c
			next++
		}
		return out
	}
	gatedHelpers := map[*types.Func]gated{}
	gatedInner := map[*ast.CallExpr]bool{} // the IfNotSet calls inside such helpers
	isGatedHelper := func(f *types.Func) bool { _, ok := gatedHelpers[f]; return ok }
	for _, fn := range r.P.All {
		if fn.Pkg.PkgPath == pkgFF || fn.Obj == nil {
			continue
		}
		info := fn.Info()
		ast.Inspect(fn.Body, func(n ast.Node) bool {
			call, ok := n.(*ast.CallExpr)
			if !ok || len(call.Args) != 2 {
				return true
			}
			if callee, _ := calleeObj(info, call).(*types.Func); callee != m.IfNotSet {
				return true
			}
			var table map[int64]*types.Const
			flagExpr := ast.Unparen(call.Args[0])
			if ix, isIx := flagExpr.(*ast.IndexExpr); isIx {
				// IfNotSet(flagOfClass[class], …): a constant table indexed by the parameter
				if tid, ok := ast.Unparen(ix.X).(*ast.Ident); ok {
					if tv, ok := info.Uses[tid].(*types.Var); ok {
						table = constTable(tv)
					}
				}
				if table == nil {
					return true
				}
				flagExpr = ast.Unparen(ix.Index)
			}
			fid, ok := flagExpr.(*ast.Ident)
			if !ok {
				return true
			}
			fv, ok := info.Uses[fid].(*types.Var)
			if !ok || paramIndex(fn, fv) < 0 {
				return true
			}
			// IfNotSet(flag, f): the function parameter handed on as it is
			if pid, isID := ast.Unparen(call.Args[1]).(*ast.Ident); isID {
				if pv, ok := info.Uses[pid].(*types.Var); ok && paramIndex(fn, pv) >= 0 {
					if _, isSig := pv.Type().Underlying().(*types.Signature); isSig {
						gatedHelpers[fn.Obj] = gated{paramIndex(fn, fv), paramIndex(fn, pv), table}
						gatedInner[call] = true
					}
				}
				return true
			}
			lit, ok := ast.Unparen(call.Args[1]).(*ast.FuncLit)
			if !ok {
				return true
			}
			// the literal: a single statement that calls a function-typed parameter or hands it to Notify
			fnIdx := -1
			if len(lit.Body.List) == 1 {
				if es, ok := lit.Body.List[0].(*ast.ExprStmt); ok {
					if c2, ok := ast.Unparen(es.X).(*ast.CallExpr); ok {
						if id, ok := ast.Unparen(c2.Fun).(*ast.Ident); ok {
							if pv, ok := info.Uses[id].(*types.Var); ok {
								fnIdx = paramIndex(fn, pv)
							}
						}
						if f2, _ := calleeObj(info, c2).(*types.Func); f2 == m.Notify {
							for _, a := range c2.Args {
								if id, ok := ast.Unparen(a).(*ast.Ident); ok {
									if pv, ok := info.Uses[id].(*types.Var); ok && paramIndex(fn, pv) >= 0 {
										if _, isSig := pv.Type().Underlying().(*types.Signature); isSig {
											fnIdx = paramIndex(fn, pv)
										}
									}
								}
							}
						}
					}
				}
			}
			if fnIdx >= 0 {
				gatedHelpers[fn.Obj] = gated{paramIndex(fn, fv), fnIdx, table}
				gatedInner[call] = true
			}
			return true
		})
	}
	// (b),(c),(f): every emission site of a flagged class, repo-wide, sits inside IfNotSet(<its flag>, closure)
	nSites := 0
	classSites := map[string]int{}
	for _, fn := range r.P.All {
		if fn.Pkg.PkgPath == pkgFF {
			continue
		}
		info := fn.Info()
		pm := buildParents(fn.Decl)
		ast.Inspect(fn.Body, func(n ast.Node) bool {
			call, ok := n.(*ast.CallExpr)
			if !ok {
				return true
			}
			callee, _ := calleeObj(info, call).(*types.Func)
			if callee == nil {
				return true
			}
			// locate the literal function that lexically encloses the call
			holder := fn
			for p := pm[n]; p != nil; p = pm[p] {
				if lit, ok := p.(*ast.FuncLit); ok {
					if lf := r.P.Lits[lit]; lf != nil {
						holder = lf
					}
					break
				}
			}
			var ml *MsgLit
			switch {
			case callee == m.Broadcast || callee == m.BroadcastTo:
				if len(call.Args) >= 2 {
					ml = r.msgLiteral(holder, call.Args[1])
				}
			case callee == m.Send || (callee.Name() == "Send" && r.implementsSender(callee)):
				if len(call.Args) >= 1 {
					ml = r.msgLiteral(holder, call.Args[0])
				}
			case isGatedHelper(callee):
				// a flag-gated helper called with (flag, literal): as IfNotSet(flag, literal)
				g := gatedHelpers[callee]
				if g.flagIdx < len(call.Args) && g.fnIdx < len(call.Args) {
					c := flagAt(info, call, g)
					_, known := fc[c]
					r.Check("C4f", fmt.Sprintf("%s:flag-arg[%s]", fn.Name, r.P.exprStr(call.Args[g.flagIdx])), c != nil && known, call.Pos(), "feature-flag argument is one of the declared DISABLE_* constants")
					if lit, ok := ast.Unparen(call.Args[g.fnIdx]).(*ast.FuncLit); ok && c != nil && known && g.table != nil {
						r.checkFlagClosure(fn, lit, fc[c])
					}
				}
				return true
			case (callee == m.IfNotSet || callee == m.IfSet) && gatedInner[call]:
				return true // judged at the helper's call sites
			case callee == m.IfNotSet || callee == m.IfSet:
				// (f) flag argument is a declared constant
				c := constOf(info, call.Args[0])
				_, known := fc[c]
				r.Check("C4f", fmt.Sprintf("%s:flag-arg[%s]", fn.Name, r.P.exprStr(call.Args[0])), c != nil && known, call.Pos(), "feature-flag argument is one of the declared DISABLE_* constants")
				if lit, ok := ast.Unparen(call.Args[1]).(*ast.FuncLit); ok {
					r.checkFlagClosure(fn, lit, fc[c])
				} else {
					r.Check("C4c", fmt.Sprintf("%s:flag-closure[%s]", fn.Name, fc[c]), false, call.Pos(), "the function run under a feature flag is not a literal and cannot be inspected")
				}
				return true
			default:
				return true
			}
			if ml == nil || ml.TypeC == nil {
				return true
			}
			class := ml.TypeConstName()
			if !flagged[class] {
				return true
			}
			nSites++
			classSites[class]++
			// walk up to the enclosing IfNotSet closure
			okWrap := false
			var wrapLit *ast.FuncLit
			for p := pm[n]; p != nil; p = pm[p] {
				lit, isLit := p.(*ast.FuncLit)
				if !isLit {
					continue
				}
				pc, isCall := pm[lit].(*ast.CallExpr)
				if !isCall {
					break // literal not passed directly to a call: not a flag closure
				}
				pcallee, _ := calleeObj(info, pc).(*types.Func)
				if pcallee == m.IfNotSet && len(pc.Args) == 2 && ast.Unparen(pc.Args[1]) == lit {
					if c := constOf(info, pc.Args[0]); c != nil && fc[c] == class {
						okWrap = true
						wrapLit = lit
					}
					break
				}
				if pcallee == m.Notify {
					continue // component relays sit in Notify's callback inside the flag closure
				}
				if g, isGated := gatedHelpers[pcallee]; isGated && g.fnIdx < len(pc.Args) && g.flagIdx < len(pc.Args) && ast.Unparen(pc.Args[g.fnIdx]) == lit {
					if c := flagAt(info, pc, g); c != nil && fc[c] == class {
						okWrap = true
						wrapLit = lit
					}
				}
				break
			}
			r.Check("C4b", fmt.Sprintf("%s:emit[%s]", fn.Name, class), okWrap, call.Pos(), "message of class %s is emitted only inside IfNotSet(%s, …)", class, flagNameFor(classFlag[class]))
			_ = wrapLit
			return true
		})
	}
	for _, k := range flaggedClasses {
		r.Check("C4b", "class-emitted["+k+"]", classSites[k] >= 1, 0, "class %s has at least one emission site (vacuity guard)", k)
	}
	r.Floor("C4b", "flagged emission sites", nSites, 10) // one per flagged class (class-emitted checks each class separately)
	// (d) FeatureFlags is read nowhere else
	ffField := r.P.LookupField(pkgWS, "RealtimeHandler", "FeatureFlags")
	if ffField == nil {
		r.Undecide("C4d", "field RealtimeHandler.FeatureFlags not found")
	} else {
		uses := 0
		for _, fn := range r.P.All {
			info := fn.Info()
			pm := buildParents(fn.Decl)
			ast.Inspect(fn.Body, func(n ast.Node) bool {
				se, ok := n.(*ast.SelectorExpr)
				if !ok {
					return true
				}
				if sel, ok := info.Selections[se]; !ok || sel.Obj() != ffField {
					return true
				}
				uses++
				// accepted: receiver of IfNotSet / IfSet
				okUse := false
				if pse, ok := pm[se].(*ast.SelectorExpr); ok {
					if pc, ok := pm[pse].(*ast.CallExpr); ok && ast.Unparen(pc.Fun) == pse {
						if f, _ := calleeObj(info, pc).(*types.Func); f == m.IfNotSet || f == m.IfSet {
							okUse = true
						}
					}
				}
				r.Check("C4d", fmt.Sprintf("%s:flags-read", fn.Name), okUse, se.Pos(), "the feature-flag set is consulted only through IfNotSet/IfSet (nothing else may depend on it)")
				return true
			})
		}
		// (sites may be merged into a flag-gated helper: its call sites are reads of the flag set too)
		for _, fn := range r.P.All {
			ast.Inspect(fn.Body, func(n ast.Node) bool {
				if call, ok := n.(*ast.CallExpr); ok {
					if callee, _ := calleeObj(fn.Info(), call).(*types.Func); callee != nil && isGatedHelper(callee) {
						uses++
					}
				}
				return true
			})
		}
		r.Floor("C4d", "reads of RealtimeHandler.FeatureFlags", uses, 4)
	}
	// values of type FeatureFlag are indexed only inside package featureflag
	ffT := r.P.LookupType(pkgFF, "FeatureFlag")
	for _, fn := range r.P.All {
		if fn.Pkg.PkgPath == pkgFF || ffT == nil {
			continue
		}
		info := fn.Info()
		ast.Inspect(fn.Body, func(n ast.Node) bool {
			switch v := n.(type) {
			case *ast.IndexExpr:
				if tv, ok := info.Types[v.X]; ok && types.Identical(tv.Type, ffT.Type()) {
					r.Check("C4d", fmt.Sprintf("%s:flags-indexed", fn.Name), false, v.Pos(), "feature-flag map is indexed outside package featureflag")
				}
			case *ast.RangeStmt:
				if tv, ok := info.Types[v.X]; ok && types.Identical(tv.Type, ffT.Type()) {
					r.Check("C4d", fmt.Sprintf("%s:flags-ranged", fn.Name), false, v.Pos(), "feature-flag map is iterated outside package featureflag")
				}
			}
			return true
		})
	}
	// (g) New: the configured names become the set verbatim (no trimming, folding or aliasing)
	if nf := r.P.FuncByName("featureflag.New"); nf != nil {
		paths := r.Paths(nf)
		r.Analysed(nf, len(paths))
		writes := 0
		for pi := range paths {
			path := &paths[pi]
			r.at(path)
			r.loopsComplete("C4g", nf, path)
			for i, ev := range path.Events {
				if ev.Kind == EvGuard && ev.GKind != GRange {
					r.CheckT("C4g", nf.Name+":unconditional", false, ev.Pos, path, "whether a configured name enters the flag set depends on %s", r.Classify(path, i))
				}
			}
			for _, op := range r.mapOps(nf, path) {
				writes++
				r.CheckT("C4g", nf.Name+":verbatim", op.Kind == "write" && op.Key == "conv:featureflag.Flag(rangeval(param:#0))", path.Events[op.Idx].Pos, path,
					"each configured name is entered into the flag set verbatim (key %s): a name that is not exactly a DISABLE_* constant must not act as one", op.Key)
			}
		}
		r.Check("C4g", nf.Name+":fills-set", writes >= 1, nf.Body.Pos(), "New enters the configured names into the set")
	} else {
		r.Undecide("C4g", "featureflag.New not found")
	}
	// (e) IfNotSet / IfSet: membership test and the call
	for _, which := range []struct {
		f       *types.Func
		callOn  string // outcome of the membership test on which `do` runs
		skipOn  string
		display string
	}{{m.IfNotSet, "miss", "hit", "IfNotSet"}, {m.IfSet, "hit", "miss", "IfSet"}} {
		def := r.P.Funcs[which.f]
		if def == nil {
			r.Undecide("C4e", "%s has no body", which.display)
			continue
		}
		sig := which.f.Type().(*types.Signature)
		doParam := sig.Params().At(1)
		paths := r.Paths(def)
		r.Analysed(def, len(paths))
		for pi := range paths {
			path := &paths[pi]
			r.at(path)
			calls := 0
			outcome := ""
			for i, ev := range path.Events {
				if ev.Kind == EvCall && ev.Callee == doParam {
					calls++
				}
				if ev.Kind == EvGuard {
					g := r.Classify(path, i)
					if strings.HasPrefix(g.Subject, "maplookup:") {
						outcome = g.Outcome
						// the flag argument is looked up in the receiver set
						r.Check("C4e", which.display+":key", g.Subject == "maplookup:recv[param:#0]", ev.Pos, "membership test looks the flag argument up in the receiver set (%s)", g.Subject)
					}
				}
			}
			want := 0
			if outcome == which.callOn {
				want = 1
			}
			r.CheckT("C4e", fmt.Sprintf("%s:path[%s]", which.display, outcome), outcome != "" && calls == want, def.Body.Pos(), path,
				"%s runs its function %d time(s) when the flag lookup is a %s (expected %d)", which.display, calls, outcome, want)
		}
	}
}

func flagNameFor(c *types.Const) string {
	if c == nil {
		return "<no flag>"
	}
	return c.Name()
}

// checkFlagClosure (C4c): the closure under a flag only builds and emits messages of its class.
func (r *Run) checkFlagClosure(outer *Func, lit *ast.FuncLit, class string) {
	lf := r.P.Lits[lit]
	if lf == nil {
		return
	}
	m := r.M()
	info := lf.Info()
	site := fmt.Sprintf("%s:flag-closure[%s]", outer.Name, class)
	ok := true
	why := ""
	ast.Inspect(lit.Body, func(n ast.Node) bool {
		switch v := n.(type) {
		case *ast.CallExpr:
			f, _ := calleeObj(info, v).(*types.Func)
			if f == nil {
				return true
			}
			if f == m.Broadcast || f == m.BroadcastTo || f == m.Notify {
				return true
			}
			if f == m.Send || (f.Name() == "Send" && r.implementsSender(f)) {
				holder := lf
				if ml := r.msgLiteral(holder, v.Args[0]); ml == nil || ml.TypeConstName() != class {
					ok, why = false, "sends a message of another class (an answer must not depend on the flag)"
				}
				return true
			}
			if isRepoPkg(f.Pkg()) {
				if eff := r.effects(f); len(eff) > 0 {
					ok, why = false, "calls "+shortFuncName(f)+", which changes server state"
				}
			}
		case *ast.AssignStmt:
			for _, l := range v.Lhs {
				// assignment to anything not declared inside the closure
				root := l
				for {
					switch x := ast.Unparen(root).(type) {
					case *ast.SelectorExpr:
						root = x.X
						continue
					case *ast.IndexExpr:
						root = x.X
						continue
					case *ast.StarExpr:
						root = x.X
						continue
					}
					break
				}
				if id, isId := ast.Unparen(root).(*ast.Ident); isId {
					obj := info.Uses[id]
					if obj == nil {
						obj = info.Defs[id]
					}
					if obj != nil && !(lit.Pos() <= obj.Pos() && obj.Pos() < lit.End()) {
						ok, why = false, "assigns to "+id.Name+", which is declared outside the flag closure"
					}
				}
			}
		case *ast.IncDecStmt, *ast.GoStmt, *ast.DeferStmt:
			ok, why = false, "contains a statement other than building and emitting the message"
		}
		return true
	})
	r.Check("C4c", site, ok, lit.Pos(), "the closure guarded by the flag only builds and emits %s%s", class, tern(ok, "", ": it "+why))
}

// ruleNotifyGated (C5): component relays sit in Notify's callback for that component's type id;
// updates go to the callback's subscriber list.
func ruleNotifyGated(r *Run) {
	m := r.M()
	if r.broken() {
		return
	}
	classes := map[string]string{
		"MSG_TYPE_ENTITY_COMPONENT_ADD_BROADCAST":    "all",
		"MSG_TYPE_ENTITY_COMPONENT_DELETE_BROADCAST": "all",
		"MSG_TYPE_ENTITY_COMPONENT_UPDATE_BROADCAST": "subscribers",
	}
	seen := map[string]int{}
	for _, fn := range r.handlerFuncs() {
		paths := r.Paths(fn)
		r.Analysed(fn, len(paths))
		for pi := range paths {
			path := &paths[pi]
			r.at(path)
			for i, ev := range path.Events {
				if !r.isRelay(ev) {
					continue
				}
				ml := r.relayMsg(ev)
				class := ml.TypeConstNameOr("")
				mode, isComp := classes[class]
				if !isComp {
					continue
				}
				seen[class]++
				site := fmt.Sprintf("%s:relay[%s]", fn.Name, class)
				var notify *enterFrame
				st := enterStack(path, i)
				for k := len(st) - 1; k >= 0; k-- {
					if st[k].Ev.Via == m.Notify {
						notify = &st[k]
						break
					}
				}
				if !r.CheckT("C5", site+":gated", notify != nil, ev.Pos, path, "component relay of class %s is sent from inside EntityComponentStore.Notify's callback (only when somebody subscribed)", class) {
					continue
				}
				// Notify(<type id of this component>, cb) on this session's store
				nc := notify.Ev.ViaCall
				typeArg := r.P.Canon(ev.Fn, nc.Args[0])
				var compType string
				if ecx := litField(ml.Lit, "EntityComponent"); ecx != nil {
					if cl, cfn := r.P.compositeOfIn(ml.Fn, ecx); cl != nil {
						if tx := litField(cl, "EntityComponentTypeId"); tx != nil {
							compType = r.P.Canon(cfn, tx)
						}
					}
				}
				r.CheckT("C5", site+":type", compType != "" && compType == typeArg, ev.Pos, path,
					"Notify is asked about component type %q while the relayed component has type %q", typeArg, compType)
				store := r.P.Canon(ev.Fn, recvExpr(nc))
				r.CheckT("C5", site+":store", store == "recv.currentSession.entityComponents", ev.Pos, path, "Notify is called on %q (expected the own session's component store)", store)
				switch mode {
				case "subscribers":
					okTo := ev.Callee == m.BroadcastTo
					if okTo {
						// variadic argument is the callback's parameter
						last := ev.Call.Args[len(ev.Call.Args)-1]
						c := r.P.Canon(ev.Fn, last)
						okTo = ev.Call.Ellipsis.IsValid() && strings.HasPrefix(c, "param:lit@") && notify.Ev.Lit != nil &&
							strings.HasPrefix(c, fmt.Sprintf("param:lit@%d.", notify.Ev.Lit.Pos()))
					}
					r.CheckT("C5", site+":recipients", okTo, ev.Pos, path, "component update is relayed with BroadcastTo to exactly the subscriber ids Notify hands to its callback")
				case "all":
					r.CheckT("C5", site+":recipients", ev.Callee == m.Broadcast, ev.Pos, path, "component add/delete is relayed to every other member once somebody is subscribed")
				}
			}
		}
	}
	for k := range classes {
		r.Check("C5", "class-seen["+k+"]", seen[k] > 0, 0, "component relay class %s found on at least one handler path (vacuity guard)", k)
	}
}

// ---------------------------------------------------------------------------------------------
// D1 OWNER-GUARD, E4 CASCADE

var ownerRestricted = map[string]string{
	"models.(*Session).RemoveEntity":         "delete",
	"models.(*Entity).SetPose":               "move",
	"modules/odal.(*State).SetAssetInstance": "attach an asset to",
}

func ruleOwnerGuard(r *Run) {
	m := r.M()
	if r.broken() {
		return
	}
	n := 0
	for _, hi := range m.Handlers {
		fn := hi.Fn
		paths := r.Paths(fn)
		r.Analysed(fn, len(paths))
		for pi := range paths {
			path := &paths[pi]
			r.at(path)
			for _, me := range r.mutEvents(path) {
				if !me.Direct {
					continue
				}
				verb, restricted := ownerRestricted[funcName(me.Callee)]
				if !restricted || r.isConstruction(path, me) {
					continue
				}
				inLeave := false
				for _, lf := range m.Leave {
					if path.Events[me.Idx].Fn.root().origOrSelf() == lf {
						inLeave = true
					}
				}
				if inLeave {
					continue // the leave function removes the leaver's own entities (rules E1, D2)
				}
				n++
				ev := path.Events[me.Idx]
				// which entity is touched
				var entCanon string
				switch verb {
				case "delete":
					entCanon = r.P.Canon(ev.Fn, ev.Call.Args[0])
				case "move":
					entCanon = r.P.Canon(ev.Fn, ev.Recv)
				default:
					if lit, lfn := r.P.compositeOfIn(ev.Fn, ev.Call.Args[0]); lit != nil {
						if ex := litField(lit, "EntityId"); ex != nil {
							entCanon = strings.TrimSuffix(r.P.Canon(lfn, ex), ".ID")
						}
					}
				}
				site := fmt.Sprintf("%s:%s", fn.Name, shortFuncName(me.Callee))
				okLookup := strings.Contains(entCanon, "call:Session.EntityByID(var:") && strings.HasSuffix(entCanon, "#0") && strings.HasPrefix(entCanon, "recv.currentSession.")
				r.CheckT("D1", site+":entity", okLookup, ev.Pos, path, "the entity to %s is %q; expected the entity looked up in the caller's own session by the id in the request", verb, entCanon)
				guarded := false
				for j := 0; j < me.Idx; j++ {
					if path.Events[j].Kind != EvGuard {
						continue
					}
					g := r.Classify(path, j)
					if !strings.HasPrefix(g.Subject, "owner:") || g.Outcome != "match" {
						continue
					}
					parts := strings.SplitN(strings.TrimPrefix(g.Subject, "owner:"), "~", 2)
					a, b := parts[0], parts[1]
					if a == "recv.currentParticipant.ID" {
						a, b = b, a
					}
					if a == entCanon+".ParticipantID" && b == "recv.currentParticipant.ID" {
						guarded = true
					}
				}
				r.CheckT("D1", site+":guard", guarded, ev.Pos, path,
					"%s reaches the entity without first establishing that its creator (%s.ParticipantID) is the acting participant", shortFuncName(me.Callee), entCanon)
			}
		}
	}
	r.Floor("D1", "owner-restricted mutation events on handler paths", n, 3)
}

// ruleCascade (E4): removing an entity is preceded by dropping its components from the same session.
func ruleCascade(r *Run) {
	if r.broken() {
		return
	}
	n := 0
	for _, fn := range r.handlerFuncs() {
		paths := r.Paths(fn)
		r.Analysed(fn, len(paths))
		for pi := range paths {
			path := &paths[pi]
			r.at(path)
			for i, ev := range path.Events {
				f, _ := ev.Callee.(*types.Func)
				if ev.Kind != EvCall || f == nil || funcName(f) != "models.(*Session).RemoveEntity" {
					continue
				}
				n++
				ent := r.P.Canon(ev.Fn, ev.Call.Args[0])
				sess := r.P.Canon(ev.Fn, ev.Recv)
				found := false
				for j := i - 1; j >= 0; j-- {
					pe := path.Events[j]
					pf, _ := pe.Callee.(*types.Func)
					if pe.Kind == EvCall && pf != nil && funcName(pf) == "models.(*EntityComponentStore).DeleteByEntityID" {
						if r.P.Canon(pe.Fn, pe.Call.Args[0]) == ent+".ID" && r.P.Canon(pe.Fn, pe.Recv) == sess+".entityComponents" {
							found = true
						}
					}
					if pe.Kind == EvGuard && pe.GKind == GRange {
						break // stay within the same loop iteration
					}
				}
				r.CheckT("E4", fmt.Sprintf("%s:RemoveEntity", fn.Name), found, ev.Pos, path,
					"entity %q is removed from the session without first deleting its components (DeleteByEntityID(%s.ID) on the same session)", ent, ent)
			}
		}
	}
	r.Floor("E4", "RemoveEntity events", n, 2)
}
