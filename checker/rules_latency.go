package main

import (
	"fmt"
	"go/ast"
	"go/token"
	"go/types"
	"strings"
)

// ruleLatencyReport (I1, I2, I4 and the answer shape of a measurement).
func ruleLatencyReport(r *Run) {
	if r.broken() {
		return
	}
	on := r.modelFunc("models.(*SignedLatency).OnPing")
	start := r.modelFunc("models.(*SignedLatency).Start")
	sendPing := r.modelFunc("models.(*SignedLatency).sendPingRequest")
	if on == nil || start == nil || sendPing == nil {
		return
	}
	// Start binds the state from its parameters and issues the first ping
	for _, path := range r.Paths(start) {
		r.at(&path)
		got := map[string]string{}
		pings := 0
		for _, ev := range path.Events {
			if ev.Kind == EvAssign && len(ev.Lhs) == 1 && len(ev.Rhs) == 1 {
				got[r.P.Canon(ev.Fn, ev.Lhs[0])] = r.P.Canon(ev.Fn, ev.Rhs[0])
			}
			if ev.Kind == EvCall && ev.Callee == sendPing.Obj {
				pings++
			}
		}
		want := map[string]string{"recv.RequestID": "param:#2", "recv.Iteration": "param:#3", "recv.sender": "param:#1", "recv.SessionID": "param:#4",
			"recv.ClientID": "param:#5", "recv.WalletAddress": "param:#6", "recv.privateKey": "param:#0"}
		ok := true
		for k, v := range want {
			if got[k] != v {
				ok = false
			}
		}
		r.CheckT("I2", start.Name+":binds", ok && strings.HasPrefix(got["recv.PingRequests"], "make("), start.Body.Pos(), &path, "Start records exactly what it is given and begins with an empty set of ping rounds")
		r.CheckT("I4", start.Name+":first-ping", pings == 1, start.Body.Pos(), &path, "Start issues the first ping (%d)", pings)
	}
	r.Analysed(start, 1)
	// sendPingRequest: the id entered into PingRequests is the id sent
	for _, path := range r.Paths(sendPing) {
		r.at(&path)
		var entered, sent string
		for _, op := range r.mapOps(sendPing, &path) {
			if op.Kind == "write" && op.Map == "recv.PingRequests" {
				entered = op.Key
			}
		}
		for _, ev := range path.Events {
			if r.isSendCall(ev) {
				if ml := r.sendMsg(ev); ml != nil {
					sent = r.P.Canon(sendPing, litField(ml.Lit, "RequestId"))
					r.CheckT("I2", sendPing.Name+":ping-type", ml.TypeConstName() == "MSG_TYPE_PING_REQUEST" && r.P.Canon(sendPing, ev.Recv) == "recv.sender", ev.Pos, &path, "a round is a PING_REQUEST to the measurement's own requester")
				}
			}
		}
		r.CheckT("I2", sendPing.Name+":id-recorded", entered != "" && entered == sent, sendPing.Body.Pos(), &path, "every ping id sent is recorded as an outstanding round, and only those (%q / %q)", entered, sent)
	}
	r.Analysed(sendPing, 1)
	for _, c := range r.callersOf(sendPing.Obj) {
		r.Check("I4", "ping-issuer["+c.Name+"]", c == start || c == on || r.onlyFrom(c, start.Name, on.Name), c.Body.Pos(), "ping rounds are issued only by Start and OnPing")
	}
	// OnPing
	paths := r.Paths(on)
	r.Analysed(on, len(paths))
	nFinal, nNext, nRefused := 0, 0, 0
	entry := "recv.PingRequests[param:#0]"
	for pi := range paths {
		path := &paths[pi]
		r.at(path)
		g := r.guardMap(path)
		ret := r.retCanon(on, path)
		isErr := len(ret) == 1 && ret[0] != "nil"
		decs, stores := 0, 0
		valueTested, unanswered, endSet := false, false, false
		var iterOutcome string
		for i, ev := range path.Events {
			if ev.Kind == EvAssign && r.P.Canon(ev.Fn, ev.Lhs[0]) == "recv.Iteration" {
				switch {
				case ev.Tok == token.DEC:
					decs++
				case ev.Tok == token.SUB_ASSIGN && len(ev.Rhs) == 1 && r.P.Canon(ev.Fn, ev.Rhs[0]) == "1":
					decs++
				default:
					decs += 100 // any other write to the round counter
				}
			}
			if ev.Kind == EvAssign && len(ev.Lhs) == 1 && len(ev.Rhs) == 1 {
				if se, ok := ast.Unparen(ev.Lhs[0]).(*ast.SelectorExpr); ok && se.Sel.Name == "End" && r.P.Canon(ev.Fn, se.X) == entry &&
					strings.HasPrefix(r.P.Canon(ev.Fn, ev.Rhs[0]), "call:time.Now(") {
					endSet = true
				}
			}
			if ev.Kind == EvGuard && ev.Cond != nil {
				// "this round has not been answered yet": <entry>.End.IsZero() holds on this path
				cx, neg := ast.Unparen(ev.Cond), false
				for {
					u, ok := cx.(*ast.UnaryExpr)
					if !ok || u.Op != token.NOT {
						break
					}
					cx, neg = ast.Unparen(u.X), !neg
				}
				if call, ok := cx.(*ast.CallExpr); ok {
					if f, _ := calleeObj(ev.Fn.Info(), call).(*types.Func); f != nil && f.FullName() == "(time.Time).IsZero" {
						if rx := recvExpr(call); rx != nil && r.P.Canon(ev.Fn, rx) == entry+".End" {
							valueTested = true
							unanswered = ev.Val != neg
						}
					}
				}
				gc := r.Classify(path, i)
				if strings.HasPrefix(gc.Subject, "cmp:recv.Iteration>") || strings.HasPrefix(gc.Subject, "zero:recv.Iteration") {
					iterOutcome = gc.Subject + "=" + gc.Outcome
				}
			}
		}
		for _, op := range r.mapOps(on, path) {
			if op.Kind == "write" && op.Map == "recv.PingRequests" && op.Key == "param:#0" {
				stores++
			}
		}
		sends := 0
		var ld *ast.CompositeLit
		var final *MsgLit
		pings := 0
		for _, ev := range path.Events {
			if r.isSendCall(ev) {
				ml := r.sendMsg(ev)
				if ml != nil && ml.TypeConstName() == "MSG_TYPE_PING_REQUEST" {
					continue // the ping sent by sendPingRequest (seen when the helper is looked into)
				}
				sends++
				final = ml
			}
			if ev.Kind == EvCall && ev.Callee == sendPing.Obj {
				pings++
			}
		}
		if g["maplookup:"+entry] == "miss" {
			nRefused++
			r.CheckT("I4", on.Name+":unknown-refused", isErr && decs == 0 && stores == 0 && sends == 0 && pings == 0, on.Body.Pos(), path, "a ping response with an unknown id is refused and advances nothing")
			continue
		}
		if decs == 0 && stores == 0 {
			if isErr {
				nRefused++
				r.CheckT("I4", on.Name+":refused-pure", sends == 0 && pings == 0, on.Body.Pos(), path, "a refused ping response sends nothing")
			}
			continue
		}
		// an advancing path
		r.CheckT("I4", on.Name+":end-recorded", endSet, on.Body.Pos(), path,
			"an accepted ping response records the round's end time (now) in the entry it stores: without it an answered round cannot be told from an outstanding one")
		r.CheckT("I4", on.Name+":answered-once", valueTested && unanswered, on.Body.Pos(), path,
			"the measurement advances (round counter decremented, end time stored) for any id that is present, without looking at whether that round was already answered: answering one ping twice, or replaying ids after completion, advances the measurement")
		r.CheckT("I4", on.Name+":one-step", decs == 1 && stores == 1, on.Body.Pos(), path, "an accepted ping response counts exactly one round and stores exactly its own end time (%d, %d)", decs, stores)
		if isErr {
			r.CheckT("I4", on.Name+":failure-sends-nothing", sends == 0, on.Body.Pos(), path, "a failed report sends nothing")
			continue
		}
		switch {
		case pings == 1:
			nNext++
			r.CheckT("I4", on.Name+":next-round", sends == 0 && strings.HasSuffix(iterOutcome, "=true") || strings.HasSuffix(iterOutcome, "=nonzero"), on.Body.Pos(), path, "another ping is issued exactly while rounds remain (%s)", iterOutcome)
		case final != nil:
			nFinal++
			r.CheckT("I4", on.Name+":final-once", sends == 1 && final.TypeConstName() == "MSG_TYPE_SIGNED_LATENCY_RESPONSE" && (strings.HasSuffix(iterOutcome, "=false") || strings.HasSuffix(iterOutcome, "=zero")), on.Body.Pos(), path,
				"the signed report is sent exactly once, when no rounds remain (%s)", iterOutcome)
			lit := final.Lit
			data := r.P.Canon(on, litField(lit, "Data"))
			sig := r.P.Canon(on, litField(lit, "Signature"))
			rid := r.P.Canon(on, litField(lit, "RequestId"))
			wantSig := "call:hexutil.Encode(call:crypto.Sign(call:crypto.Keccak256Hash(" + data + ").call:Hash.Bytes(),recv.privateKey)#0)"
			r.CheckT("I1", on.Name+":signs-what-it-sends", strings.HasPrefix(data, "call:proto.Marshal(") && strings.HasSuffix(data, "#0") && sig == wantSig, on.Body.Pos(), path,
				"the signature is over the Keccak-256 of exactly the bytes returned as data, made with the key Start was given (data %s, signature %s)", data, sig)
			r.CheckT("I1", on.Name+":echoes-request", rid == "recv.RequestID", on.Body.Pos(), path, "the report answers the request that started the measurement")
			// the data: a LatencyData literal in OnPing or in an unexported helper of the same type
			ld = nil
			ldFn := on
			cands := []*Func{on}
			for _, f2 := range r.P.All {
				if f2 != on && f2.Recv != nil && f2.Obj != nil && !f2.Obj.Exported() && on.Recv != nil && types.Identical(f2.Recv.Type(), on.Recv.Type()) && r.onlyFrom(f2, on.Name) {
					cands = append(cands, f2)
				}
			}
			for _, cf := range cands {
				ast.Inspect(cf.Body, func(n ast.Node) bool {
					if cl, ok := n.(*ast.CompositeLit); ok {
						if _, tn := litTypeName(cf.Info(), cl); tn == "LatencyData" {
							ld, ldFn = cl, cf
						}
					}
					return true
				})
			}
			if r.Check("I2", on.Name+":latency-data", ld != nil, on.Body.Pos(), "the report is built from a LatencyData literal") {
				want := map[string]string{"SessionId": "recv.SessionID", "ClientId": "recv.ClientID", "WalletAddress": "recv.WalletAddress", "IterationCount": "conv:uint32(len(recv.PingRequests))"}
				ok := true
				got := map[string]string{}
				for k, v := range want {
					got[k] = r.P.canon(ldFn, litField(ld, k), 0)
					if got[k] != v {
						ok = false
					}
				}
				r.CheckT("I2", on.Name+":bound-fields", ok, ld.Pos(), path, "the report names the session, client and wallet the measurement was started with and counts the recorded rounds (%v)", got)
				marshalsIt := strings.Contains(data, fmt.Sprintf("@%d", ld.Pos()))
				if !marshalsIt && ldFn != on {
					// proto.Marshal(s.helper(...)) where every return of the helper is that literal
					allRet := true
					nRet := 0
					ast.Inspect(ldFn.Body, func(n ast.Node) bool {
						if _, isLit := n.(*ast.FuncLit); isLit {
							return false
						}
						if rs, ok := n.(*ast.ReturnStmt); ok && len(rs.Results) == 1 {
							nRet++
							if r.P.compositeOf(ldFn, rs.Results[0]) != ld {
								allRet = false
							}
						}
						return true
					})
					marshalsIt = allRet && nRet > 0 && strings.Contains(data, "call:"+shortFuncName(ldFn.Obj)+"(")
				}
				r.CheckT("I2", on.Name+":marshals-that-data", marshalsIt, ld.Pos(), path, "the bytes signed and returned are the marshalled LatencyData (%s)", data)
			}
			// ping ids listed = keys of PingRequests
			listed := false
			if ld != nil {
				m, ok := r.keyListOf(ldFn, litField(ld, "PingRequestIds"), 0)
				listed = ok && m == "recv.PingRequests"
			}
			r.CheckT("I2", on.Name+":lists-issued-ids", listed, on.Body.Pos(), path, "the report lists exactly the ids of the recorded rounds")
		}
	}
	r.Check("I4", on.Name+":cases", nFinal >= 1 && nNext >= 1 && nRefused >= 1, on.Body.Pos(), "OnPing has refusing, continuing and reporting paths (%d, %d, %d)", nRefused, nNext, nFinal)
	// round counter written only in Start (set) and OnPing (decrement)
	for _, f2 := range r.P.All {
		if f2 != start && f2 != on && r.writesField(f2, pkgModels, "SignedLatency", "Iteration") && !r.onlyFrom(f2, start.Name, on.Name) {
			r.Check("I4", f2.Name+":writes[Iteration]", false, f2.Body.Pos(), "the round counter is written outside Start/OnPing")
		}
	}
}

func isBlank(x ast.Expr) bool {
	id, ok := x.(*ast.Ident)
	return ok && id.Name == "_"
}

// ruleMapOrderFree (I3): no positional read of a slice that was filled while ranging over a map,
// unless the slice was sorted in between (map iteration order is random).
func ruleMapOrderFree(r *Run) {
	if r.broken() {
		return
	}
	n := 0
	for _, fn := range r.P.All {
		info := fn.Info()
		// candidates: slices appended to inside a range over a map
		cands := map[types.Object]bool{}
		ast.Inspect(fn.Body, func(nd ast.Node) bool {
			rs, ok := nd.(*ast.RangeStmt)
			if !ok {
				return true
			}
			tv, ok := info.Types[rs.X]
			if !ok {
				return true
			}
			if _, isMap := tv.Type.Underlying().(*types.Map); !isMap {
				return true
			}
			ast.Inspect(rs.Body, func(m ast.Node) bool {
				as, ok := m.(*ast.AssignStmt)
				if !ok || len(as.Lhs) != 1 || len(as.Rhs) != 1 {
					return true
				}
				call, ok := ast.Unparen(as.Rhs[0]).(*ast.CallExpr)
				if !ok {
					return true
				}
				if b, ok := calleeObj(info, call).(*types.Builtin); !ok || b.Name() != "append" {
					return true
				}
				if id, ok := ast.Unparen(as.Lhs[0]).(*ast.Ident); ok {
					if o := info.Uses[id]; o != nil {
						cands[o] = true
					} else if o := info.Defs[id]; o != nil {
						cands[o] = true
					}
				}
				return true
			})
			return true
		})
		if len(cands) == 0 {
			continue
		}
		n += len(cands)
		paths := r.Paths(fn)
		r.Analysed(fn, len(paths))
		for pi := range paths {
			path := &paths[pi]
			r.at(path)
			filled := map[types.Object]bool{}
			for _, ev := range path.Events {
				// appends inside a map range mark; sort clears; positional reads are checked
				if ev.Kind == EvCall && ev.Call != nil {
					if f, ok := ev.Callee.(*types.Func); ok && f.Pkg() != nil && (f.Pkg().Path() == "sort" || f.Pkg().Path() == "slices") && len(ev.Call.Args) > 0 {
						if id, ok := ast.Unparen(ev.Call.Args[0]).(*ast.Ident); ok {
							delete(filled, info.Uses[id])
						}
					}
				}
				if ev.Kind == EvAssign && ev.Loop && len(ev.Lhs) == 1 && len(ev.Rhs) == 1 {
					if id, ok := ast.Unparen(ev.Lhs[0]).(*ast.Ident); ok {
						o := info.Uses[id]
						if o == nil {
							o = info.Defs[id]
						}
						if cands[o] {
							if call, ok := ast.Unparen(ev.Rhs[0]).(*ast.CallExpr); ok {
								if b, ok := calleeObj(info, call).(*types.Builtin); ok && b.Name() == "append" {
									filled[o] = true
								}
							}
						}
					}
				}
				// positional reads in this event's expressions
				var exprs []ast.Expr
				switch ev.Kind {
				case EvAssign:
					exprs = append(exprs, ev.Rhs...)
				case EvReturn:
					exprs = append(exprs, ev.Results...)
				case EvGuard:
					if ev.Cond != nil {
						exprs = append(exprs, ev.Cond)
					}
				case EvCall:
					if ev.Call != nil && ev.Depth == 0 {
						exprs = append(exprs, ev.Call.Args...)
					}
				}
				for _, x := range exprs {
					ast.Inspect(x, func(m ast.Node) bool {
						if _, isLit := m.(*ast.FuncLit); isLit {
							return false
						}
						ix, ok := m.(*ast.IndexExpr)
						if !ok {
							return true
						}
						if id, ok := ast.Unparen(ix.X).(*ast.Ident); ok {
							if o := info.Uses[id]; o != nil && filled[o] {
								r.CheckT("I3", fmt.Sprintf("%s:positional-read[%s]", fn.Name, id.Name), false, ix.Pos(), path,
									"%s[%s] reads a fixed position of a slice that was filled while ranging over a map and not sorted since: which element that is changes from run to run", id.Name, r.P.exprStr(ix.Index))
							}
						}
						return true
					})
				}
			}
		}
	}
	r.Check("I3", "candidates", n >= 1, 0, "slices filled from map iteration were found and examined (%d)", n)
}

// keyListOf: x denotes a slice that holds exactly the keys of one map: a local whose only definitions
// are its zero value and `l = append(l, k)` inside `for k := range m`, or the result of a helper of
// the same receiver that returns such a local. Returns the canonical map (in fn's terms).
func (r *Run) keyListOf(fn *Func, x ast.Expr, depth int) (string, bool) {
	if x == nil || depth > 2 {
		return "", false
	}
	switch v := ast.Unparen(x).(type) {
	case *ast.Ident:
		obj := fn.Info().Uses[v]
		if obj == nil {
			return "", false
		}
		sites := fn.Defs().sites[obj]
		m, nApp := "", 0
		for _, s := range sites {
			c := ""
			if s.rhs != nil {
				c = r.P.canon(fn, s.rhs, 0)
			}
			switch {
			case s.kind == "zero":
			case s.kind == "assign" && isEmptyMake(fn.Info(), s.rhs):
				// make([]T, 0, n): starts empty
			case s.kind == "assign" && strings.HasPrefix(c, "append(local:") && strings.Contains(c, ",rangekey(") && strings.HasSuffix(c, "))"):
				nApp++
				m = c[strings.Index(c, ",rangekey(")+len(",rangekey(") : len(c)-2]
			case s.kind == "assign" && len(sites) == 1:
				// single definition: an alias of / a call producing the list
				return r.keyListOf(fn, s.rhs, depth+1)
			default:
				return "", false
			}
		}
		return m, nApp == 1
	case *ast.CallExpr:
		// slices.Collect(maps.Keys(m)) / slices.Sorted(maps.Keys(m)) / slices.AppendSeq(empty, maps.Keys(m))
		if kind, m := seqOverMap(fn.Info(), v); kind == "keys" {
			return r.P.canon(fn, m, 0), true
		}
		f, _ := calleeObj(fn.Info(), v).(*types.Func)
		def := r.P.Funcs[f]
		if f == nil || def == nil || !r.P.isGlue(f) {
			return "", false
		}
		// same receiver: the helper's "recv" is the caller's receiver expression
		rc := ""
		if re := recvExpr(v); re != nil {
			rc = r.P.canon(fn, re, 0)
		}
		var m string
		okAll, n := true, 0
		ast.Inspect(def.Body, func(nd ast.Node) bool {
			if _, isLit := nd.(*ast.FuncLit); isLit {
				return false
			}
			rs, isRet := nd.(*ast.ReturnStmt)
			if !isRet {
				return true
			}
			n++
			if len(rs.Results) != 1 {
				okAll = false
				return true
			}
			mm, ok := r.keyListOf(def, rs.Results[0], depth+1)
			if !ok || (m != "" && m != mm) {
				okAll = false
			}
			m = mm
			return true
		})
		if !okAll || n == 0 {
			return "", false
		}
		if rc != "" && (m == "recv" || strings.HasPrefix(m, "recv.")) {
			m = rc + m[len("recv"):]
		}
		// keys of a map handed in (mapKeys(s.PingRequests)): the caller's argument
		for k, a := range v.Args {
			pk := fmt.Sprintf("param:#%d", k)
			if m == pk || strings.HasPrefix(m, pk+".") {
				m = r.P.canon(fn, a, 0) + m[len(pk):]
				break
			}
		}
		return m, true
	}
	return "", false
}

// isEmptyMake: make(T, 0) / make(T, 0, n) — a slice that starts empty.
func isEmptyMake(info *types.Info, x ast.Expr) bool {
	call, ok := ast.Unparen(x).(*ast.CallExpr)
	if !ok || len(call.Args) < 2 {
		return false
	}
	if b, ok := calleeObj(info, call).(*types.Builtin); !ok || b.Name() != "make" {
		return false
	}
	c, isC := intConstVal(info, call.Args[1])
	return isC && c == 0
}
