package main

// Construction normal form. `p := new(T)` (or `p := &T{…}`, `p := T{…}`) immediately followed by
// consecutive assignments `p.f = e` to distinct direct fields of T, where no e mentions p, builds exactly
// the value `&T{…, f: e}` (or `T{…, f: e}`) before anybody else can see it. The loader rewrites this shape
// — in memory, after type checking, with the type information of the new nodes registered — into the
// composite literal, so that every rule sees one form of construction, whether a constructor initialises
// field by field or with a literal.

import (
	"go/ast"
	"go/token"
	"go/types"

	"golang.org/x/tools/go/packages"
)

func normalizeConstructions(pk *packages.Package) int {
	info := pk.TypesInfo
	n := 0
	mentions := func(x ast.Expr, obj types.Object) bool {
		found := false
		ast.Inspect(x, func(nd ast.Node) bool {
			if id, ok := nd.(*ast.Ident); ok && (info.Uses[id] == obj) {
				found = true
			}
			return !found
		})
		return found
	}
	rewriteList := func(list []ast.Stmt) []ast.Stmt {
		for i := 0; i < len(list); i++ {
			as, ok := list[i].(*ast.AssignStmt)
			if !ok || as.Tok != token.DEFINE || len(as.Lhs) != 1 || len(as.Rhs) != 1 {
				continue
			}
			id, ok := as.Lhs[0].(*ast.Ident)
			if !ok {
				continue
			}
			obj := info.Defs[id]
			if obj == nil {
				continue
			}
			// the allocation: new(T) | &T{...} | T{...}
			var lit *ast.CompositeLit
			var typeExpr ast.Expr
			ptr := false
			rhs := ast.Unparen(as.Rhs[0])
			switch v := rhs.(type) {
			case *ast.CallExpr:
				if fid, ok := ast.Unparen(v.Fun).(*ast.Ident); ok && len(v.Args) == 1 {
					if b, ok := info.Uses[fid].(*types.Builtin); ok && b.Name() == "new" {
						typeExpr, ptr = v.Args[0], true
					}
				}
			case *ast.UnaryExpr:
				if cl, ok := ast.Unparen(v.X).(*ast.CompositeLit); ok && v.Op == token.AND {
					lit, ptr = cl, true
				}
			case *ast.CompositeLit:
				lit = v
			}
			if lit == nil && typeExpr == nil {
				continue
			}
			var st *types.Struct
			var T types.Type
			if lit != nil {
				T = info.TypeOf(lit)
			} else {
				T = info.TypeOf(typeExpr)
			}
			if T == nil {
				continue
			}
			if _, named := T.(*types.Named); !named {
				continue
			}
			st, ok = T.Underlying().(*types.Struct)
			if !ok {
				continue
			}
			// existing keyed elements
			have := map[string]bool{}
			if lit != nil {
				keyed := true
				for _, el := range lit.Elts {
					kv, ok := el.(*ast.KeyValueExpr)
					if !ok {
						keyed = false
						break
					}
					if k, ok := kv.Key.(*ast.Ident); ok {
						have[k.Name] = true
					}
				}
				if !keyed {
					continue
				}
			}
			// the run of field assignments that follows
			var adds []*ast.KeyValueExpr
			nested := map[string]*ast.CompositeLit{}
			j := i + 1
			for ; j < len(list); j++ {
				fa, ok := list[j].(*ast.AssignStmt)
				if !ok || fa.Tok != token.ASSIGN || len(fa.Lhs) != 1 || len(fa.Rhs) != 1 {
					break
				}
				se, ok := fa.Lhs[0].(*ast.SelectorExpr)
				if !ok {
					break
				}
				// p.part.f = e, part a by-value struct field: a field of the nested literal `part: T2{f: e}`
				if inner, ok := se.X.(*ast.SelectorExpr); ok {
					base, ok := inner.X.(*ast.Ident)
					if !ok || info.Uses[base] != obj || mentions(fa.Rhs[0], obj) {
						break
					}
					isel, ok1 := info.Selections[inner]
					fsel, ok2 := info.Selections[se]
					if !ok1 || !ok2 || isel.Kind() != types.FieldVal || fsel.Kind() != types.FieldVal || len(isel.Index()) != 1 || len(fsel.Index()) != 1 {
						break
					}
					pt, named := isel.Obj().Type().(*types.Named)
					if !named {
						break
					}
					if _, isStruct := pt.Underlying().(*types.Struct); !isStruct {
						break
					}
					key := inner.Sel.Name + "." + se.Sel.Name
					if have[key] || (have[inner.Sel.Name] && nested[inner.Sel.Name] == nil) {
						break
					}
					nl := nested[inner.Sel.Name]
					if nl == nil {
						tid := &ast.Ident{NamePos: inner.Sel.Pos(), Name: pt.Obj().Name()}
						info.Uses[tid] = pt.Obj()
						nl = &ast.CompositeLit{Type: tid, Lbrace: inner.Sel.Pos(), Rbrace: inner.Sel.End()}
						info.Types[nl] = types.TypeAndValue{Type: pt}
						nested[inner.Sel.Name] = nl
						k := &ast.Ident{NamePos: inner.Sel.Pos(), Name: inner.Sel.Name}
						info.Uses[k] = isel.Obj()
						adds = append(adds, &ast.KeyValueExpr{Key: k, Colon: fa.TokPos, Value: nl})
						have[inner.Sel.Name] = true
					}
					fk := &ast.Ident{NamePos: se.Sel.Pos(), Name: se.Sel.Name}
					info.Uses[fk] = fsel.Obj()
					nl.Elts = append(nl.Elts, &ast.KeyValueExpr{Key: fk, Colon: fa.TokPos, Value: fa.Rhs[0]})
					have[key] = true
					continue
				}
				base, ok := se.X.(*ast.Ident)
				if !ok || info.Uses[base] != obj {
					break
				}
				sel, ok := info.Selections[se]
				if !ok || sel.Kind() != types.FieldVal || len(sel.Index()) != 1 {
					break
				}
				if have[se.Sel.Name] || mentions(fa.Rhs[0], obj) {
					break
				}
				direct := false
				for k := 0; k < st.NumFields(); k++ {
					if st.Field(k) == sel.Obj() {
						direct = true
					}
				}
				if !direct {
					break
				}
				have[se.Sel.Name] = true
				key := &ast.Ident{NamePos: se.Sel.Pos(), Name: se.Sel.Name}
				info.Uses[key] = sel.Obj()
				adds = append(adds, &ast.KeyValueExpr{Key: key, Colon: fa.TokPos, Value: fa.Rhs[0]})
			}
			if len(adds) == 0 {
				continue
			}
			if lit == nil {
				lit = &ast.CompositeLit{Type: typeExpr, Lbrace: rhs.Pos(), Rbrace: rhs.End() - 1}
				info.Types[lit] = types.TypeAndValue{Type: T}
				newRhs := &ast.UnaryExpr{OpPos: rhs.Pos(), Op: token.AND, X: lit}
				if tv, ok := info.Types[rhs]; ok {
					info.Types[newRhs] = types.TypeAndValue{Type: tv.Type}
				} else {
					info.Types[newRhs] = types.TypeAndValue{Type: types.NewPointer(T)}
				}
				as.Rhs[0] = newRhs
			}
			_ = ptr
			for _, kv := range adds {
				lit.Elts = append(lit.Elts, kv)
			}
			list = append(list[:i+1], list[j:]...)
			n++
		}
		return list
	}
	for _, f := range pk.Syntax {
		ast.Inspect(f, func(nd ast.Node) bool {
			switch v := nd.(type) {
			case *ast.BlockStmt:
				v.List = rewriteList(v.List)
			case *ast.CaseClause:
				v.Body = rewriteList(v.Body)
			case *ast.CommClause:
				v.Body = rewriteList(v.Body)
			}
			return true
		})
	}
	return n
}
