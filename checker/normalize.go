package main

// Construction normal form. `p := new(T)` (or `p := &T{…}`, `p := T{…}`) immediately followed by
// consecutive assignments `p.f = e` to distinct direct fields of T, where no e mentions p, builds exactly
// the value `&T{…, f: e}` (or `T{…, f: e}`) before anybody else can see it. The loader rewrites this shape
// — in memory, after type checking, with the type information of the new nodes registered — into the
// composite literal, so that every rule sees one form of construction, whether a constructor initialises
// field by field or with a literal.

import (
	"go/ast"
	"go/token"
	"go/types"
	"reflect"

	"golang.org/x/tools/go/packages"
)

func normalizeConstructions(pk *packages.Package) int {
	info := pk.TypesInfo
	n := 0
	mentions := func(x ast.Expr, obj types.Object) bool {
		found := false
		ast.Inspect(x, func(nd ast.Node) bool {
			if id, ok := nd.(*ast.Ident); ok && (info.Uses[id] == obj) {
				found = true
			}
			return !found
		})
		return found
	}
	rewriteList := func(list []ast.Stmt) []ast.Stmt {
		for i := 0; i < len(list); i++ {
			as, ok := list[i].(*ast.AssignStmt)
			if !ok || as.Tok != token.DEFINE || len(as.Lhs) != 1 || len(as.Rhs) != 1 {
				continue
			}
			id, ok := as.Lhs[0].(*ast.Ident)
			if !ok {
				continue
			}
			obj := info.Defs[id]
			if obj == nil {
				continue
			}
			// the allocation: new(T) | &T{...} | T{...}
			var lit *ast.CompositeLit
			var typeExpr ast.Expr
			ptr := false
			rhs := ast.Unparen(as.Rhs[0])
			switch v := rhs.(type) {
			case *ast.CallExpr:
				if fid, ok := ast.Unparen(v.Fun).(*ast.Ident); ok && len(v.Args) == 1 {
					if b, ok := info.Uses[fid].(*types.Builtin); ok && b.Name() == "new" {
						typeExpr, ptr = v.Args[0], true
					}
				}
			case *ast.UnaryExpr:
				if cl, ok := ast.Unparen(v.X).(*ast.CompositeLit); ok && v.Op == token.AND {
					lit, ptr = cl, true
				}
			case *ast.CompositeLit:
				lit = v
			}
			if lit == nil && typeExpr == nil {
				continue
			}
			var st *types.Struct
			var T types.Type
			if lit != nil {
				T = info.TypeOf(lit)
			} else {
				T = info.TypeOf(typeExpr)
			}
			if T == nil {
				continue
			}
			if _, named := T.(*types.Named); !named {
				continue
			}
			st, ok = T.Underlying().(*types.Struct)
			if !ok {
				continue
			}
			// existing keyed elements
			have := map[string]bool{}
			if lit != nil {
				keyed := true
				for _, el := range lit.Elts {
					kv, ok := el.(*ast.KeyValueExpr)
					if !ok {
						keyed = false
						break
					}
					if k, ok := kv.Key.(*ast.Ident); ok {
						have[k.Name] = true
					}
				}
				if !keyed {
					continue
				}
			}
			// the run of field assignments that follows
			var adds []*ast.KeyValueExpr
			nested := map[string]*ast.CompositeLit{}
			j := i + 1
			for ; j < len(list); j++ {
				fa, ok := list[j].(*ast.AssignStmt)
				if !ok || fa.Tok != token.ASSIGN || len(fa.Lhs) != 1 || len(fa.Rhs) != 1 {
					break
				}
				se, ok := fa.Lhs[0].(*ast.SelectorExpr)
				if !ok {
					break
				}
				// p.part.f = e, part a by-value struct field: a field of the nested literal `part: T2{f: e}`
				if inner, ok := se.X.(*ast.SelectorExpr); ok {
					base, ok := inner.X.(*ast.Ident)
					if !ok || info.Uses[base] != obj || mentions(fa.Rhs[0], obj) {
						break
					}
					isel, ok1 := info.Selections[inner]
					fsel, ok2 := info.Selections[se]
					if !ok1 || !ok2 || isel.Kind() != types.FieldVal || fsel.Kind() != types.FieldVal || len(isel.Index()) != 1 || len(fsel.Index()) != 1 {
						break
					}
					pt, named := isel.Obj().Type().(*types.Named)
					if !named {
						break
					}
					if _, isStruct := pt.Underlying().(*types.Struct); !isStruct {
						break
					}
					key := inner.Sel.Name + "." + se.Sel.Name
					if have[key] || (have[inner.Sel.Name] && nested[inner.Sel.Name] == nil) {
						break
					}
					nl := nested[inner.Sel.Name]
					if nl == nil {
						tid := &ast.Ident{NamePos: inner.Sel.Pos(), Name: pt.Obj().Name()}
						info.Uses[tid] = pt.Obj()
						nl = &ast.CompositeLit{Type: tid, Lbrace: inner.Sel.Pos(), Rbrace: inner.Sel.End()}
						info.Types[nl] = types.TypeAndValue{Type: pt}
						nested[inner.Sel.Name] = nl
						k := &ast.Ident{NamePos: inner.Sel.Pos(), Name: inner.Sel.Name}
						info.Uses[k] = isel.Obj()
						adds = append(adds, &ast.KeyValueExpr{Key: k, Colon: fa.TokPos, Value: nl})
						have[inner.Sel.Name] = true
					}
					fk := &ast.Ident{NamePos: se.Sel.Pos(), Name: se.Sel.Name}
					info.Uses[fk] = fsel.Obj()
					nl.Elts = append(nl.Elts, &ast.KeyValueExpr{Key: fk, Colon: fa.TokPos, Value: fa.Rhs[0]})
					have[key] = true
					continue
				}
				base, ok := se.X.(*ast.Ident)
				if !ok || info.Uses[base] != obj {
					break
				}
				sel, ok := info.Selections[se]
				if !ok || sel.Kind() != types.FieldVal || len(sel.Index()) != 1 {
					break
				}
				if have[se.Sel.Name] || mentions(fa.Rhs[0], obj) {
					break
				}
				direct := false
				for k := 0; k < st.NumFields(); k++ {
					if st.Field(k) == sel.Obj() {
						direct = true
					}
				}
				if !direct {
					break
				}
				have[se.Sel.Name] = true
				key := &ast.Ident{NamePos: se.Sel.Pos(), Name: se.Sel.Name}
				info.Uses[key] = sel.Obj()
				adds = append(adds, &ast.KeyValueExpr{Key: key, Colon: fa.TokPos, Value: fa.Rhs[0]})
			}
			if len(adds) == 0 {
				continue
			}
			if lit == nil {
				lit = &ast.CompositeLit{Type: typeExpr, Lbrace: rhs.Pos(), Rbrace: rhs.End() - 1}
				info.Types[lit] = types.TypeAndValue{Type: T}
				newRhs := &ast.UnaryExpr{OpPos: rhs.Pos(), Op: token.AND, X: lit}
				if tv, ok := info.Types[rhs]; ok {
					info.Types[newRhs] = types.TypeAndValue{Type: tv.Type}
				} else {
					info.Types[newRhs] = types.TypeAndValue{Type: types.NewPointer(T)}
				}
				as.Rhs[0] = newRhs
			}
			_ = ptr
			for _, kv := range adds {
				lit.Elts = append(lit.Elts, kv)
			}
			list = append(list[:i+1], list[j:]...)
			n++
		}
		return list
	}
	for _, f := range pk.Syntax {
		ast.Inspect(f, func(nd ast.Node) bool {
			switch v := nd.(type) {
			case *ast.BlockStmt:
				v.List = rewriteList(v.List)
			case *ast.CaseClause:
				v.Body = rewriteList(v.Body)
			case *ast.CommClause:
				v.Body = rewriteList(v.Body)
			}
			return true
		})
	}
	return n
}

// Loops over constant function tables. `for _, f := range table { BODY }`, where table is a package-level
// variable (or a local of the function) initialised once with a slice / array literal of at most eight
// function values, never written afterwards, and BODY neither breaks, continues, jumps nor assigns f, runs
// BODY once per entry, in order, with f standing for that entry. The loader rewrites it — in memory, with
// the type information of the copied nodes registered — into that sequence of blocks, so that "run every
// check of the table" is the same straight-line code for every rule as the calls written out one by one.
func unrollFunctionTables(pk *packages.Package) int {
	info := pk.TypesInfo
	// package-level tables: var T = []F{e1, …}
	tables := map[types.Object]*ast.CompositeLit{}
	for _, f := range pk.Syntax {
		for _, d := range f.Decls {
			gd, ok := d.(*ast.GenDecl)
			if !ok || gd.Tok != token.VAR {
				continue
			}
			for _, sp := range gd.Specs {
				vs, ok := sp.(*ast.ValueSpec)
				if !ok || len(vs.Names) != len(vs.Values) {
					continue
				}
				for i, nm := range vs.Names {
					if cl, ok := ast.Unparen(vs.Values[i]).(*ast.CompositeLit); ok && isFuncTable(info, cl) {
						if obj := info.Defs[nm]; obj != nil {
							tables[obj] = cl
						}
					}
				}
			}
		}
	}
	if len(tables) > 0 {
		// a table that is written, indexed for writing, appended to, or whose address is taken is not constant
		for _, f := range pk.Syntax {
			ast.Inspect(f, func(n ast.Node) bool {
				switch v := n.(type) {
				case *ast.AssignStmt:
					for _, l := range v.Lhs {
						if o := rootIdentObj(info, l); o != nil {
							delete(tables, o)
						}
					}
				case *ast.UnaryExpr:
					if v.Op == token.AND {
						if o := rootIdentObj(info, v.X); o != nil {
							delete(tables, o)
						}
					}
				case *ast.CallExpr:
					for _, a := range v.Args {
						if id, ok := ast.Unparen(a).(*ast.Ident); ok {
							if o := info.Uses[id]; o != nil && tables[o] != nil {
								if b, isB := info.Uses[identOf(v.Fun)].(*types.Builtin); !isB || b.Name() != "len" {
									delete(tables, o)
								}
							}
						}
					}
				}
				return true
			})
		}
	}
	n := 0
	rewriteList := func(list []ast.Stmt) []ast.Stmt {
		for i, st := range list {
			rs, ok := st.(*ast.RangeStmt)
			if !ok || rs.Tok != token.DEFINE || rs.Value == nil {
				continue
			}
			if k, ok := rs.Key.(*ast.Ident); !ok || k.Name != "_" {
				continue
			}
			vid, ok := rs.Value.(*ast.Ident)
			if !ok {
				continue
			}
			vobj := info.Defs[vid]
			tid, ok := ast.Unparen(rs.X).(*ast.Ident)
			if !ok || vobj == nil {
				continue
			}
			cl := tables[info.Uses[tid]]
			if cl == nil || !bodyIsUnrollable(info, rs.Body, vobj) {
				continue
			}
			blk := &ast.BlockStmt{Lbrace: rs.Pos(), Rbrace: rs.End()}
			for _, el := range cl.Elts {
				m := &astCloner{info: info, subst: vobj, with: el}
				blk.List = append(blk.List, m.clone(rs.Body).(*ast.BlockStmt))
			}
			list[i] = blk
			n++
		}
		return list
	}
	for _, f := range pk.Syntax {
		ast.Inspect(f, func(nd ast.Node) bool {
			switch v := nd.(type) {
			case *ast.BlockStmt:
				v.List = rewriteList(v.List)
			case *ast.CaseClause:
				v.Body = rewriteList(v.Body)
			case *ast.CommClause:
				v.Body = rewriteList(v.Body)
			}
			return true
		})
	}
	return n
}

func identOf(x ast.Expr) *ast.Ident {
	id, _ := ast.Unparen(x).(*ast.Ident)
	return id
}

func rootIdentObj(info *types.Info, x ast.Expr) types.Object {
	for {
		switch v := ast.Unparen(x).(type) {
		case *ast.IndexExpr:
			x = v.X
			continue
		case *ast.SliceExpr:
			x = v.X
			continue
		case *ast.Ident:
			if o := info.Uses[v]; o != nil {
				return o
			}
			return info.Defs[v]
		}
		return nil
	}
}

// isFuncTable: a slice or array literal of one to eight elements, each a declared function or a literal.
func isFuncTable(info *types.Info, cl *ast.CompositeLit) bool {
	t := info.TypeOf(cl)
	if t == nil {
		return false
	}
	var elem types.Type
	switch u := t.Underlying().(type) {
	case *types.Slice:
		elem = u.Elem()
	case *types.Array:
		elem = u.Elem()
	default:
		return false
	}
	if _, ok := elem.Underlying().(*types.Signature); !ok || len(cl.Elts) == 0 || len(cl.Elts) > 8 {
		return false
	}
	for _, el := range cl.Elts {
		switch v := ast.Unparen(el).(type) {
		case *ast.Ident:
			if _, ok := info.Uses[v].(*types.Func); !ok {
				return false
			}
		case *ast.SelectorExpr:
			if _, ok := info.Uses[v.Sel].(*types.Func); !ok {
				return false
			}
		default:
			return false
		}
	}
	return true
}

func bodyIsUnrollable(info *types.Info, body *ast.BlockStmt, v types.Object) bool {
	ok := true
	ast.Inspect(body, func(n ast.Node) bool {
		switch s := n.(type) {
		case *ast.BranchStmt, *ast.LabeledStmt, *ast.FuncLit, *ast.GoStmt, *ast.DeferStmt:
			ok = false
		case *ast.AssignStmt:
			for _, l := range s.Lhs {
				if id, isID := ast.Unparen(l).(*ast.Ident); isID && info.Uses[id] == v {
					ok = false
				}
			}
		case *ast.UnaryExpr:
			if id, isID := ast.Unparen(s.X).(*ast.Ident); isID && s.Op == token.AND && info.Uses[id] == v {
				ok = false
			}
		}
		return ok
	})
	return ok
}

// astCloner deep-copies a syntax tree, registers the type information of the copies, and replaces the uses
// of one variable by (a copy of) an expression.
type astCloner struct {
	info  *types.Info
	subst types.Object
	with  ast.Expr
}

var nodeType = reflect.TypeOf((*ast.Node)(nil)).Elem()

func (c *astCloner) clone(n ast.Node) ast.Node {
	if n == nil || reflect.ValueOf(n).IsNil() {
		return n
	}
	if id, ok := n.(*ast.Ident); ok && c.subst != nil && c.info.Uses[id] == c.subst {
		sub := &astCloner{info: c.info}
		r := sub.clone(c.with).(ast.Expr)
		return r
	}
	ov := reflect.ValueOf(n).Elem()
	nv := reflect.New(ov.Type())
	for i := 0; i < ov.NumField(); i++ {
		of, nf := ov.Field(i), nv.Elem().Field(i)
		if !nf.CanSet() {
			continue
		}
		switch {
		case of.Type() == reflect.TypeOf((*ast.Object)(nil)) || of.Type() == reflect.TypeOf((*ast.Scope)(nil)):
			// deprecated resolver links: not used
		case of.Kind() == reflect.Interface && of.Type().Implements(nodeType), of.Kind() == reflect.Ptr && of.Type().Implements(nodeType):
			if !of.IsNil() {
				nf.Set(reflect.ValueOf(c.clone(of.Interface().(ast.Node))))
			}
		case of.Kind() == reflect.Slice && (of.Type().Elem().Implements(nodeType)):
			if !of.IsNil() {
				ns := reflect.MakeSlice(of.Type(), of.Len(), of.Len())
				for k := 0; k < of.Len(); k++ {
					if e := of.Index(k); !(e.Kind() == reflect.Interface || e.Kind() == reflect.Ptr) || !e.IsNil() {
						ns.Index(k).Set(reflect.ValueOf(c.clone(e.Interface().(ast.Node))))
					}
				}
				nf.Set(ns)
			}
		default:
			nf.Set(of)
		}
	}
	out := nv.Interface().(ast.Node)
	// type information of the copy
	if oe, ok := n.(ast.Expr); ok {
		if tv, ok := c.info.Types[oe]; ok {
			c.info.Types[out.(ast.Expr)] = tv
		}
	}
	switch o := n.(type) {
	case *ast.Ident:
		ni := out.(*ast.Ident)
		if u, ok := c.info.Uses[o]; ok {
			c.info.Uses[ni] = u
		}
		if d, ok := c.info.Defs[o]; ok {
			c.info.Defs[ni] = d
		}
		if in, ok := c.info.Instances[o]; ok {
			c.info.Instances[ni] = in
		}
	case *ast.SelectorExpr:
		if s, ok := c.info.Selections[o]; ok {
			c.info.Selections[out.(*ast.SelectorExpr)] = s
		}
	}
	if im, ok := c.info.Implicits[n]; ok {
		c.info.Implicits[out] = im
	}
	if sc, ok := c.info.Scopes[n]; ok {
		c.info.Scopes[out] = sc
	}
	return out
}

// normalizeFlagGates rewrites, in memory, the statement form of a combinator gate into the combinator form the
// rules know:
//
//	if !X.Has(F) { BODY }   ->   X.IfNotSet(F, func() { BODY })
//	if X.Has(F) { BODY }    ->   X.IfSet(F, func() { BODY })
//
// where Has is a pure membership test of X's type (`_, ok := recv[flag]; return ok`), the type has the combinator
// with the signature (flag, func()), there is no else branch and no init statement, and BODY does not leave
// itself (no return, break, continue, goto, defer or label). The package that declares the type is left alone
// (its combinators may themselves be written over Has). New nodes get their type information from
// types.CheckExpr; BODY keeps the information it has.
func normalizeFlagGates(pk *packages.Package, decls map[types.Object]*ast.FuncDecl) int {
	info := pk.TypesInfo
	isMembership := func(m *types.Func) bool {
		d := decls[m]
		if d == nil || d.Body == nil || d.Recv == nil || len(d.Recv.List) != 1 || len(d.Recv.List[0].Names) != 1 || len(d.Body.List) != 2 {
			return false
		}
		sig := m.Type().(*types.Signature)
		if sig.Params().Len() != 1 || sig.Results().Len() != 1 {
			return false
		}
		as, ok := d.Body.List[0].(*ast.AssignStmt)
		if !ok || as.Tok != token.DEFINE || len(as.Lhs) != 2 || len(as.Rhs) != 1 {
			return false
		}
		if id, ok := as.Lhs[0].(*ast.Ident); !ok || id.Name != "_" {
			return false
		}
		okID, ok := as.Lhs[1].(*ast.Ident)
		if !ok {
			return false
		}
		ix, ok := ast.Unparen(as.Rhs[0]).(*ast.IndexExpr)
		if !ok {
			return false
		}
		rx, ok1 := ast.Unparen(ix.X).(*ast.Ident)
		px, ok2 := ast.Unparen(ix.Index).(*ast.Ident)
		if !ok1 || !ok2 || rx.Name != d.Recv.List[0].Names[0].Name {
			return false
		}
		if d.Type.Params == nil || len(d.Type.Params.List) != 1 || len(d.Type.Params.List[0].Names) != 1 || px.Name != d.Type.Params.List[0].Names[0].Name {
			return false
		}
		rs, ok := d.Body.List[1].(*ast.ReturnStmt)
		if !ok || len(rs.Results) != 1 {
			return false
		}
		rid, ok := ast.Unparen(rs.Results[0]).(*ast.Ident)
		return ok && rid.Name == okID.Name
	}
	staysInside := func(body *ast.BlockStmt) bool {
		ok := true
		ast.Inspect(body, func(n ast.Node) bool {
			switch n.(type) {
			case *ast.FuncLit:
				return false
			case *ast.ReturnStmt, *ast.BranchStmt, *ast.DeferStmt, *ast.LabeledStmt:
				ok = false
			}
			return ok
		})
		return ok
	}
	n := 0
	rewrite := func(list []ast.Stmt) {
		for i, st := range list {
			ifs, ok := st.(*ast.IfStmt)
			if !ok || ifs.Init != nil || ifs.Else != nil {
				continue
			}
			cond := ast.Unparen(ifs.Cond)
			comb := "IfSet"
			if u, isNot := cond.(*ast.UnaryExpr); isNot && u.Op == token.NOT {
				cond = ast.Unparen(u.X)
				comb = "IfNotSet"
			}
			call, ok := cond.(*ast.CallExpr)
			if !ok || len(call.Args) != 1 {
				continue
			}
			se, ok := ast.Unparen(call.Fun).(*ast.SelectorExpr)
			if !ok {
				continue
			}
			m, ok := info.Uses[se.Sel].(*types.Func)
			if !ok || m.Pkg() == nil || m.Pkg() == pk.Types || !isMembership(m) {
				continue
			}
			recvT := m.Type().(*types.Signature).Recv().Type()
			cobj, _, _ := types.LookupFieldOrMethod(recvT, true, m.Pkg(), comb)
			cf, ok := cobj.(*types.Func)
			if !ok || !cf.Exported() {
				continue
			}
			csig := cf.Type().(*types.Signature)
			if csig.Params().Len() != 2 || csig.Results().Len() != 0 || !types.Identical(csig.Params().At(0).Type(), m.Type().(*types.Signature).Params().At(0).Type()) {
				continue
			}
			if fs, isSig := csig.Params().At(1).Type().Underlying().(*types.Signature); !isSig || fs.Params().Len() != 0 || fs.Results().Len() != 0 {
				continue
			}
			if !staysInside(ifs.Body) {
				continue
			}
			lit := &ast.FuncLit{Type: &ast.FuncType{Func: ifs.Body.Lbrace, Params: &ast.FieldList{Opening: ifs.Body.Lbrace, Closing: ifs.Body.Lbrace}}, Body: ifs.Body}
			nc := &ast.CallExpr{
				Fun:    &ast.SelectorExpr{X: se.X, Sel: &ast.Ident{NamePos: se.Sel.NamePos, Name: comb}},
				Lparen: call.Lparen,
				Args:   []ast.Expr{call.Args[0], lit},
				Rparen: ifs.Body.Rbrace,
			}
			if err := types.CheckExpr(pk.Fset, pk.Types, ifs.Pos(), nc, info); err != nil {
				continue
			}
			list[i] = &ast.ExprStmt{X: nc}
			n++
		}
	}
	for _, f := range pk.Syntax {
		ast.Inspect(f, func(nd ast.Node) bool {
			switch v := nd.(type) {
			case *ast.BlockStmt:
				rewrite(v.List)
			case *ast.CaseClause:
				rewrite(v.Body)
			case *ast.CommClause:
				rewrite(v.Body)
			}
			return true
		})
	}
	return n
}
