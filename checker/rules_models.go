package main

import (
	"fmt"
	"go/ast"
	"go/token"
	"go/types"
	"sort"
	"strings"
)

// mapOp is a write to / delete from a map (or slice element) reached from the receiver.
type mapOp struct {
	Idx   int
	Kind  string // "write", "delete"
	Map   string // canonical map expression
	Key   string
	Val   string
	Depth int // number of index levels below a receiver field ("recv.f[a][b]" = 2)
	Loop  bool
}

func (r *Run) mapOps(fn *Func, path *Path) []mapOp {
	var out []mapOp
	// an operation inside a looked-into helper is in a loop when the call of the helper is
	var lookIn []bool
	for i, ev := range path.Events {
		if ev.Helper && ev.Kind == EvEnter {
			lookIn = append(lookIn, ev.Loop || (len(lookIn) > 0 && lookIn[len(lookIn)-1]))
			continue
		}
		if ev.Helper && ev.Kind == EvExit {
			if len(lookIn) > 0 {
				lookIn = lookIn[:len(lookIn)-1]
			}
			continue
		}
		if len(lookIn) > 0 && lookIn[len(lookIn)-1] {
			ev.Loop = true
		}
		switch ev.Kind {
		case EvAssign:
			if ev.Tok != token.ASSIGN && ev.Tok != token.DEFINE {
				continue
			}
			for k, l := range ev.Lhs {
				ix, ok := ast.Unparen(l).(*ast.IndexExpr)
				if !ok {
					continue
				}
				val := ""
				if len(ev.Rhs) == len(ev.Lhs) {
					val = r.P.Canon(ev.Fn, ev.Rhs[k])
				}
				mc := r.P.Canon(ev.Fn, ix.X)
				out = append(out, mapOp{Idx: i, Kind: "write", Map: mc, Key: r.P.Canon(ev.Fn, ix.Index), Val: val, Depth: strings.Count(mc, "[") + 1, Loop: ev.Loop})
			}
		case EvDelete:
			mc := r.P.Canon(ev.Fn, ev.Call.Args[0])
			out = append(out, mapOp{Idx: i, Kind: "delete", Map: mc, Key: r.P.Canon(ev.Fn, ev.Call.Args[1]), Depth: strings.Count(mc, "[") + 1, Loop: ev.Loop})
		}
	}
	return out
}

// loopsComplete: every range iteration on the path returns to its loop header (no break / early
// return out of a loop that must visit every element).
func (r *Run) loopsComplete(rule string, fn *Func, path *Path) {
	for i, ev := range path.Events {
		if ev.Kind != EvGuard || ev.GKind != GRange || !ev.Val {
			continue
		}
		back := false
		for j := i + 1; j < len(path.Events); j++ {
			pe := path.Events[j]
			if pe.Kind == EvGuard && pe.GKind == GRange && pe.Stmt == ev.Stmt {
				back = true
				break
			}
		}
		r.CheckT(rule, fn.Name+":loop-complete["+r.P.Canon(ev.Fn, ev.Over)+"]", back, ev.Pos, path, "the loop over %s is left before every element was visited (break or early return)", r.P.Canon(ev.Fn, ev.Over))
	}
}

func (r *Run) guardMap(path *Path) map[string]string {
	out := map[string]string{}
	for i, ev := range path.Events {
		if ev.Kind == EvGuard {
			g := r.Classify(path, i)
			out[g.Subject] = g.Outcome
		}
	}
	return out
}

// retExprs returns the canonical results of the function-level return of a path; err result class.
func (r *Run) retCanon(fn *Func, path *Path) []string {
	for k := len(path.Events) - 1; k >= 0; k-- {
		re := path.Events[k]
		if re.Kind == EvReturn && re.Depth == 0 {
			return r.retCanonAt(path, k, 0)
		}
	}
	return nil
}

// retCanonAt: the canonical forms of what the return event at index k hands back; `return helper(x)` with a
// looked-into helper of several results is what the helper's own return (on this path) hands back.
func (r *Run) retCanonAt(path *Path, k int, depth int) []string {
	re := path.Events[k]
	if len(re.Results) == 1 && depth < 4 {
		if call, isCall := ast.Unparen(re.Results[0]).(*ast.CallExpr); isCall {
			if tv, ok := re.Fn.Info().Types[call]; ok {
				if tup, isTuple := tv.Type.(*types.Tuple); isTuple && tup.Len() > 1 {
					// the helper's return: the last return one level deeper before k, inside the look-in of this call
					for j := k - 1; j >= 0; j-- {
						pe := path.Events[j]
						if pe.Kind == EvEnter && pe.Depth == re.Depth && pe.Helper && pe.ViaCall == call {
							break
						}
						if pe.Kind == EvReturn && pe.Depth == re.Depth+1 {
							inLook := false
							for i := j - 1; i >= 0; i-- {
								if e := path.Events[i]; e.Kind == EvEnter && e.Helper && e.ViaCall == call {
									inLook = true
									break
								}
							}
							if inLook && len(pe.Results) == tup.Len() {
								return r.retCanonAt(path, j, depth+1)
							}
							break
						}
					}
				}
			}
		}
	}
	var out []string
	for _, res := range re.Results {
		c := r.P.Canon(re.Fn, res)
		if id, ok := ast.Unparen(res).(*ast.Ident); ok && (strings.HasPrefix(c, "local:") || depth > 0) {
			if rhs, idx, ok := lastDefOnPath(re.Fn, path, k, re.Fn.Info().Uses[id]); ok && rhs != nil {
				c = r.P.Canon(re.Fn, rhs)
				if _, isIdx := ast.Unparen(rhs).(*ast.IndexExpr); isIdx && idx > 0 {
					c = fmt.Sprintf("%s#%d", c, idx) // (v, ok := m[k]: v is m[k] itself, ok its presence)
				}
			}
		}
		out = append(out, c)
	}
	return out
}

func (r *Run) modelFunc(name string) *Func {
	f := r.P.FuncByName(name)
	if f == nil {
		r.Undecide("anchors", "function %s not found", name)
	}
	return f
}

// ruleStoreContracts (C12 store side, D4): each operation of the component store does what a map
// keyed by (type, entity) does, on every path of its body.
func ruleStoreContracts(r *Run) {
	if r.broken() {
		return
	}
	const T, E = "param:#0.EntityComponentTypeId", "param:#0.EntityId"
	leaf := "recv.entityComponents[" + T + "]"
	// Add
	if fn := r.modelFunc("models.(*EntityComponentStore).Add"); fn != nil {
		paths := r.Paths(fn)
		r.Analysed(fn, len(paths))
		okPaths := 0
		for pi := range paths {
			path := &paths[pi]
			r.at(path)
			ops := r.mapOps(fn, path)
			g := r.guardMap(path)
			ret := r.retCanon(fn, path)
			isErr := len(ret) == 1 && ret[0] != "nil"
			var leafW []mapOp
			for _, op := range ops {
				if op.Kind == "write" && op.Depth == 2 {
					leafW = append(leafW, op)
				}
				if op.Kind == "write" && op.Depth == 1 {
					r.CheckT("S-Add", fn.Name+":inner-map", op.Map == "recv.entityComponents" && op.Key == T && strings.HasPrefix(op.Val, "make("), path.Events[op.Idx].Pos, path,
						"the only first-level write creates the (empty) per-type map for the component's own type")
				}
				if op.Kind == "delete" {
					r.CheckT("S-Add", fn.Name+":no-delete", false, path.Events[op.Idx].Pos, path, "Add deletes from the store")
				}
			}
			if isErr {
				r.CheckT("S-Add", fn.Name+":refusal-pure", len(leafW) == 0, fn.Body.Pos(), path, "a refused Add stores nothing")
				continue
			}
			okPaths++
			registered := g["maplookup:recv.nameIndex["+T+"]"] == "hit"
			absent := g["maplookup:"+leaf+"["+E+"]"] == "miss"
			r.CheckT("S-Add", fn.Name+":registered", registered, fn.Body.Pos(), path, "a component is stored only for a registered component type")
			r.CheckT("S-Add", fn.Name+":once", absent, fn.Body.Pos(), path, "a component is stored only if (type, entity) is not present yet")
			r.CheckT("S-Add", fn.Name+":insert", len(leafW) == 1 && leafW[0].Map == leaf && leafW[0].Key == E && leafW[0].Val == "param:#0", fn.Body.Pos(), path,
				"an accepted Add stores exactly the given component under its own (type, entity) key")
		}
		r.Check("S-Add", fn.Name+":has-success", okPaths >= 1, fn.Body.Pos(), "Add has a success path")
	}
	// Update
	if fn := r.modelFunc("models.(*EntityComponentStore).Update"); fn != nil {
		paths := r.Paths(fn)
		r.Analysed(fn, len(paths))
		okPaths := 0
		for pi := range paths {
			path := &paths[pi]
			r.at(path)
			ops := r.mapOps(fn, path)
			g := r.guardMap(path)
			ret := r.retCanon(fn, path)
			isErr := len(ret) == 1 && ret[0] != "nil"
			if isErr {
				r.CheckT("S-Update", fn.Name+":refusal-pure", len(ops) == 0, fn.Body.Pos(), path, "a refused Update changes nothing")
				continue
			}
			okPaths++
			present := g["maplookup:"+leaf+"["+E+"]"] == "hit" && g["maplookup:recv.entityComponents["+T+"]"] == "hit"
			r.CheckT("S-Update", fn.Name+":present", present, fn.Body.Pos(), path, "Update assigns only when the component (type, entity) exists")
			r.CheckT("S-Update", fn.Name+":assign", len(ops) == 1 && ops[0].Kind == "write" && ops[0].Map == leaf && ops[0].Key == E && ops[0].Val == "param:#0", fn.Body.Pos(), path,
				"an accepted Update replaces exactly the component under its own (type, entity) key")
		}
		r.Check("S-Update", fn.Name+":has-success", okPaths >= 1, fn.Body.Pos(), "Update has a success path")
	}
	// Delete
	if fn := r.modelFunc("models.(*EntityComponentStore).Delete"); fn != nil {
		paths := r.Paths(fn)
		r.Analysed(fn, len(paths))
		inner := "recv.entityComponents[param:#0]"
		for pi := range paths {
			path := &paths[pi]
			r.at(path)
			ops := r.mapOps(fn, path)
			g := r.guardMap(path)
			ret := r.retCanon(fn, path)
			if g["maplookup:"+inner] == "miss" {
				r.CheckT("S-Delete", fn.Name+":no-type", len(ops) == 0 && len(ret) == 1 && ret[0] == "false", fn.Body.Pos(), path, "deleting from a type that has no components reports false and changes nothing")
				continue
			}
			okDel := len(ops) == 1 && ops[0].Kind == "delete" && ops[0].Map == inner && ops[0].Key == "param:#1"
			// a path that has itself found the key absent has nothing to delete (delete of a missing key is a no-op)
			known := g["maplookup:"+inner+"[param:#1]"]
			if known == "miss" && len(ops) == 0 {
				okDel = true
			}
			r.CheckT("S-Delete", fn.Name+":delete", okDel, fn.Body.Pos(), path, "Delete removes exactly the (type, entity) key")
			okRet := len(ret) == 1 && (ret[0] == inner+"[param:#1]#1" || (known == "miss" && ret[0] == "false") || (known == "hit" && ret[0] == "true"))
			r.CheckT("S-Delete", fn.Name+":reports-presence", okRet, fn.Body.Pos(), path, "Delete reports whether the very key it deletes was present (returns %v)", ret)
			if len(ops) == 0 {
				continue
			}
			// presence is decided and the key deleted under one exclusive hold of the store's lock: what Delete reports
			// is what it removed (two callers cannot both report "deleted" for one component)
			if okDel {
				held := r.locksAlong(path, lockset{})
				first := -1
				for j := 0; j < ops[0].Idx; j++ {
					ev := path.Events[j]
					if ev.Kind == EvAssign && len(ev.Rhs) == 1 {
						if ix, ok := ast.Unparen(ev.Rhs[0]).(*ast.IndexExpr); ok && strings.HasPrefix(r.P.Canon(ev.Fn, ix), "recv.entityComponents[") && first < 0 {
							first = j
						}
					}
				}
				one := first >= 0
				for j := first; one && j <= ops[0].Idx; j++ {
					w := false
					for k, mode := range held[j] {
						if strings.HasPrefix(k, "EntityComponentStore.") && mode == "W" {
							w = true
						}
					}
					one = w
				}
				r.CheckT("S-Delete", fn.Name+":one-critical-section", one, fn.Body.Pos(), path, "the lookup that decides what Delete reports and the delete itself happen under one exclusive hold of the store's lock")
			}
			// the presence test precedes the delete
			if okDel {
				before := false
				for j := 0; j < ops[0].Idx; j++ {
					ev := path.Events[j]
					if ev.Kind == EvAssign && len(ev.Rhs) == 1 {
						if ix, ok := ast.Unparen(ev.Rhs[0]).(*ast.IndexExpr); ok && r.P.Canon(fn, ix) == inner+"[param:#1]" {
							before = true
						}
					}
				}
				r.CheckT("S-Delete", fn.Name+":test-before-delete", before, fn.Body.Pos(), path, "presence is read before the key is deleted")
			}
		}
	}
	// DeleteByEntityID
	if fn := r.modelFunc("models.(*EntityComponentStore).DeleteByEntityID"); fn != nil {
		paths := r.Paths(fn)
		r.Analysed(fn, len(paths))
		iter := 0
		for pi := range paths {
			path := &paths[pi]
			r.at(path)
			r.loopsComplete("S-DeleteByEntity", fn, path)
			for _, op := range r.mapOps(fn, path) {
				iter++
				r.CheckT("S-DeleteByEntity", fn.Name+":delete", op.Kind == "delete" && op.Map == "rangeval(recv.entityComponents)" && op.Key == "param:#0" && op.Loop, path.Events[op.Idx].Pos, path,
					"the entity's key is deleted from every per-type map")
			}
			// no conditional skip inside the loop
			for i, ev := range path.Events {
				if ev.Kind == EvGuard && ev.GKind != GRange {
					r.CheckT("S-DeleteByEntity", fn.Name+":unconditional", false, ev.Pos, path, "cascade deletion is conditional on %s", r.Classify(path, i))
				}
			}
		}
		r.Check("S-DeleteByEntity", fn.Name+":iterates", iter >= 1, fn.Body.Pos(), "DeleteByEntityID iterates the per-type maps")
	}
	// AddType (D4): bijection name <-> id, idempotent
	if fn := r.modelFunc("models.(*EntityComponentStore).AddType"); fn != nil {
		paths := r.Paths(fn)
		r.Analysed(fn, len(paths))
		for pi := range paths {
			path := &paths[pi]
			r.at(path)
			ops := r.mapOps(fn, path)
			g := r.guardMap(path)
			ret := r.retCanon(fn, path)
			switch g["maplookup:recv.idIndex[param:#0]"] {
			case "hit":
				r.CheckT("D4", fn.Name+":idempotent", len(ops) == 0 && len(ret) == 1 && ret[0] == "recv.idIndex[param:#0]", fn.Body.Pos(), path, "registering a known name returns its existing id and changes nothing (returns %v)", ret)
			case "miss":
				id := "recv.ids.call:SequentialIDGenerator.New()"
				var w1, w2 bool
				for _, op := range ops {
					if op.Kind == "write" && op.Map == "recv.nameIndex" && op.Key == id && op.Val == "param:#0" {
						w1 = true
					}
					if op.Kind == "write" && op.Map == "recv.idIndex" && op.Key == "param:#0" && op.Val == id {
						w2 = true
					}
				}
				r.CheckT("D4", fn.Name+":pairwise", w1 && w2 && len(ops) == 2 && len(ret) == 1 && ret[0] == id, fn.Body.Pos(), path,
					"a new name gets a fresh id from the store's generator and both indexes are written pairwise")
			default:
				r.CheckT("D4", fn.Name+":decided-by-lookup", false, fn.Body.Pos(), path, "AddType is not decided by the lookup of the name")
			}
		}
		// no other writer of the indexes
		for _, f2 := range r.P.All {
			if f2 == fn || f2.Name == "models.newEntityComponentStore" {
				continue
			}
			for _, fld := range []string{"nameIndex", "idIndex"} {
				if r.writesField(f2, pkgModels, "EntityComponentStore", fld) && !r.onlyFrom(f2, fn.Name) {
					r.Check("D4", f2.Name+":writes["+fld+"]", false, f2.Body.Pos(), "the type registry is written outside AddType")
				}
			}
		}
	}
	// GetTypeName / GetTypeID
	for _, q := range []struct{ name, idx, key string }{
		{"models.(*EntityComponentStore).GetTypeName", "recv.nameIndex", "param:#0"},
		{"models.(*EntityComponentStore).GetTypeID", "recv.idIndex", "param:#0"},
	} {
		fn := r.modelFunc(q.name)
		if fn == nil {
			continue
		}
		paths := r.Paths(fn)
		r.Analysed(fn, len(paths))
		for pi := range paths {
			path := &paths[pi]
			r.at(path)
			g := r.guardMap(path)
			ret := r.retCanon(fn, path)
			switch g["maplookup:"+q.idx+"["+q.key+"]"] {
			case "hit":
				r.CheckT("D4", fn.Name+":hit", len(ret) == 2 && ret[0] == q.idx+"["+q.key+"]" && ret[1] == "nil", fn.Body.Pos(), path, "a registered type resolves to its entry (returns %v)", ret)
			case "miss":
				r.CheckT("D4", fn.Name+":miss", len(ret) == 2 && ret[1] != "nil", fn.Body.Pos(), path, "an unregistered type is reported as an error")
			default:
				r.CheckT("D4", fn.Name+":lookup", false, fn.Body.Pos(), path, "resolution is decided by the index lookup")
			}
		}
	}
	// listings: iterate the whole map, append every value
	for _, q := range []struct{ name, over string }{
		{"models.(*EntityComponentStore).List", "recv.entityComponents[param:#0]"},
		{"models.(*EntityComponentStore).ListAll", "rangeval(recv.entityComponents)"},
	} {
		fn := r.modelFunc(q.name)
		if fn == nil {
			continue
		}
		r.checkListing(fn, q.over, "S-List")
	}
}

// checkListing: the function returns a slice to which every element of the ranged collection is appended.
func (r *Run) checkListing(fn *Func, over string, rule string) {
	paths := r.Paths(fn)
	r.Analysed(fn, len(paths))
	iter := 0
	for pi := range paths {
		path := &paths[pi]
		r.at(path)
		r.loopsComplete(rule, fn, path)
		// slices.AppendSeq(dst, maps.Values(m)) / slices.Collect(maps.Values(m)): every element of m, unconditionally
		for _, ev := range path.Events {
			if ev.Kind == EvCall && ev.Call != nil {
				if kind, m := seqOverMap(ev.Fn.Info(), ev.Call); kind == "values" && r.P.Canon(ev.Fn, m) == over {
					iter++
				}
			}
		}
		// a path that never looks at the collection answers with nothing: what it returns otherwise was built
		// at another time (a list kept from an earlier call) and misses what was stored since
		looked := false
		for _, ev := range path.Events {
			if ev.Kind == EvGuard && ev.GKind == GRange {
				if c := r.P.Canon(ev.Fn, ev.Over); c == over || "rangeval("+c+")" == over {
					looked = true // (an outer collection without elements has no inner ones to go over)
				}
			}
			if ev.Kind == EvCall && ev.Call != nil {
				if kind, m := seqOverMap(ev.Fn.Info(), ev.Call); kind == "values" && r.P.Canon(ev.Fn, m) == over {
					looked = true
				}
			}
		}
		if !looked {
			ret := r.retCanon(fn, path)
			empty := len(ret) == 0 || ret[0] == "nil" || strings.HasPrefix(ret[0], "zero") || strings.HasPrefix(ret[0], "make(") || strings.HasPrefix(ret[0], "lit:")
			r.CheckT(rule, fn.Name+":built-now", empty, fn.Body.Pos(), path, "a path answers the listing with %v without going over %s in this call", ret, over)
		}
		for i, ev := range path.Events {
			if ev.Kind != EvGuard || ev.GKind != GRange || !ev.Val {
				continue
			}
			if r.P.Canon(ev.Fn, ev.Over) != over {
				continue
			}
			iter++
			// within the iteration: an append of the range value, no skipping guard
			end := len(path.Events)
			for j := i + 1; j < len(path.Events); j++ {
				if path.Events[j].Kind == EvGuard && path.Events[j].GKind == GRange && path.Events[j].Stmt == ev.Stmt {
					end = j
					break
				}
			}
			appended := false
			// out[i] = elem; i++ : a slot of its own for the element (the index advances in the same iteration)
			var slotIdx types.Object
			bumped := map[types.Object]bool{}
			for j := i + 1; j < end; j++ {
				pe := path.Events[j]
				if pe.Kind != EvAssign {
					continue
				}
				if (pe.Tok == token.INC || pe.Tok == token.ADD_ASSIGN) && len(pe.Lhs) == 1 {
					if id, ok := ast.Unparen(pe.Lhs[0]).(*ast.Ident); ok {
						bumped[pe.Fn.Info().Uses[id]] = true
					}
				}
				if (pe.Tok == token.ASSIGN) && len(pe.Lhs) == 1 && len(pe.Rhs) == 1 {
					if ix, ok := ast.Unparen(pe.Lhs[0]).(*ast.IndexExpr); ok && strings.HasPrefix(r.P.Canon(pe.Fn, pe.Rhs[0]), "rangeval("+over+")") {
						if id, ok := ast.Unparen(ix.Index).(*ast.Ident); ok {
							slotIdx = pe.Fn.Info().Uses[id]
						}
					}
				}
			}
			if slotIdx != nil && bumped[slotIdx] {
				appended = true
			}
			for j := i + 1; j < end; j++ {
				pe := path.Events[j]
				if pe.Kind == EvGuard && pe.GKind != GRange {
					r.CheckT(rule, fn.Name+":filter", false, pe.Pos, path, "listing skips elements depending on %s", r.Classify(path, j))
				}
				if pe.Kind == EvCall {
					if b, ok := pe.Callee.(*types.Builtin); ok && b.Name() == "append" && len(pe.Call.Args) == 2 {
						if strings.HasPrefix(r.P.Canon(pe.Fn, pe.Call.Args[1]), "rangeval("+over+")") {
							appended = true
						}
					}
				}
			}
			r.CheckT(rule, fn.Name+":append", appended, ev.Pos, path, "every element of the collection is added to the result")
		}
	}
	r.Check(rule, fn.Name+":iterates", iter >= 1, fn.Body.Pos(), "listing iterates %s", over)
}

// seqOverMap: the call collects all keys or all values of a map into a slice through the iterator helpers of
// the standard library — slices.AppendSeq(dst, maps.Keys(m)), slices.Collect(maps.Values(m)),
// slices.Sorted(maps.Keys(m)). Returns "keys" / "values" and the map expression.
func seqOverMap(info *types.Info, call *ast.CallExpr) (string, ast.Expr) {
	f, _ := calleeObj(info, call).(*types.Func)
	if f == nil || f.Pkg() == nil || f.Pkg().Path() != "slices" {
		return "", nil
	}
	var seq ast.Expr
	switch f.Name() {
	case "AppendSeq":
		if len(call.Args) == 2 {
			seq = call.Args[1]
		}
	case "Collect", "Sorted":
		if len(call.Args) == 1 {
			seq = call.Args[0]
		}
	}
	inner, ok := ast.Unparen(seq).(*ast.CallExpr)
	if seq == nil || !ok || len(inner.Args) != 1 {
		return "", nil
	}
	g, _ := calleeObj(info, inner).(*types.Func)
	if g == nil || g.Pkg() == nil || g.Pkg().Path() != "maps" {
		return "", nil
	}
	switch g.Name() {
	case "Keys":
		return "keys", inner.Args[0]
	case "Values":
		return "values", inner.Args[0]
	}
	return "", nil
}

// writesField: function body assigns to / deletes from / increments the named field of the type.
func (r *Run) writesField(fn *Func, pkg, typ, field string) bool {
	fv := r.P.LookupField(pkg, typ, field)
	if fv == nil {
		return false
	}
	info := fn.Info()
	touches := func(x ast.Expr) bool {
		for {
			switch v := ast.Unparen(x).(type) {
			case *ast.SelectorExpr:
				if sel, ok := info.Selections[v]; ok && sel.Obj() == fv {
					return true
				}
				x = v.X
			case *ast.IndexExpr:
				x = v.X
			case *ast.StarExpr:
				x = v.X
			default:
				return false
			}
		}
	}
	w := false
	ast.Inspect(fn.Body, func(n ast.Node) bool {
		switch s := n.(type) {
		case *ast.AssignStmt:
			for _, l := range s.Lhs {
				if touches(l) {
					w = true
				}
			}
		case *ast.IncDecStmt:
			if touches(s.X) {
				w = true
			}
		case *ast.CallExpr:
			if b, ok := calleeObj(info, s).(*types.Builtin); ok && b.Name() == "delete" && len(s.Args) > 0 && touches(s.Args[0]) {
				w = true
			}
		case *ast.CompositeLit:
			if tv, ok := info.Types[s]; ok {
				if n, ok := derefNamedT(tv.Type); ok && n.Obj().Name() == typ && n.Obj().Pkg().Path() == pkg {
					if litField(s, field) != nil {
						w = true
					}
				}
			}
		}
		return true
	})
	return w
}

func derefNamedT(t types.Type) (*types.Named, bool) {
	if pt, ok := t.(*types.Pointer); ok {
		t = pt.Elem()
	}
	n, ok := t.(*types.Named)
	return n, ok
}

// ruleSubscriptions (C13 store side): Subscribe / Unsubscribe / UnsubscribeByParticipant / Notify.
func ruleSubscriptions(r *Run) {
	if r.broken() {
		return
	}
	const T, P = "param:#0", "param:#1"
	subs := "recv.subscriptions[" + T + "]"
	if fn := r.modelFunc("models.(*EntityComponentStore).Subscribe"); fn != nil {
		paths := r.Paths(fn)
		r.Analysed(fn, len(paths))
		for pi := range paths {
			path := &paths[pi]
			r.at(path)
			ops := r.mapOps(fn, path)
			g := r.guardMap(path)
			ret := r.retCanon(fn, path)
			if g["maplookup:recv.nameIndex["+T+"]"] == "miss" {
				r.CheckT("S-Subscribe", fn.Name+":unregistered", len(ops) == 0 && len(ret) == 1 && ret[0] != "nil", fn.Body.Pos(), path, "subscribing to an unregistered type is refused and records nothing")
				continue
			}
			okW := false
			for _, op := range ops {
				if op.Kind == "write" && op.Map == subs && op.Key == P {
					okW = true
				}
				if op.Kind == "write" && op.Depth == 1 {
					r.CheckT("S-Subscribe", fn.Name+":inner-map", op.Map == "recv.subscriptions" && op.Key == T && strings.HasPrefix(op.Val, "make("), path.Events[op.Idx].Pos, path, "first-level write only creates the per-type set")
				}
				if op.Kind == "delete" {
					r.CheckT("S-Subscribe", fn.Name+":no-delete", false, path.Events[op.Idx].Pos, path, "Subscribe removes a subscription")
				}
			}
			r.CheckT("S-Subscribe", fn.Name+":records", okW && len(ret) == 1 && ret[0] == "nil" && g["maplookup:recv.nameIndex["+T+"]"] == "hit", fn.Body.Pos(), path, "an accepted subscription records (type, participant)")
		}
	}
	if fn := r.modelFunc("models.(*EntityComponentStore).Unsubscribe"); fn != nil {
		paths := r.Paths(fn)
		r.Analysed(fn, len(paths))
		dels := 0
		for pi := range paths {
			path := &paths[pi]
			r.at(path)
			ops := r.mapOps(fn, path)
			g := r.guardMap(path)
			if g["maplookup:"+subs] == "miss" {
				r.CheckT("S-Unsubscribe", fn.Name+":nothing", len(ops) == 0, fn.Body.Pos(), path, "unsubscribing from a type nobody subscribed to changes nothing")
				continue
			}
			ok := len(ops) == 1 && ops[0].Kind == "delete" && ops[0].Map == subs && ops[0].Key == P
			if ok {
				dels++
			}
			r.CheckT("S-Unsubscribe", fn.Name+":removes", ok, fn.Body.Pos(), path, "unsubscribing removes exactly (type, participant)")
		}
		r.Check("S-Unsubscribe", fn.Name+":has-delete", dels >= 1, fn.Body.Pos(), "Unsubscribe has a removing path")
	}
	if fn := r.modelFunc("models.(*EntityComponentStore).UnsubscribeByParticipant"); fn != nil {
		paths := r.Paths(fn)
		r.Analysed(fn, len(paths))
		iter := 0
		for pi := range paths {
			path := &paths[pi]
			r.at(path)
			r.loopsComplete("S-UnsubscribeAll", fn, path)
			for _, op := range r.mapOps(fn, path) {
				iter++
				r.CheckT("S-UnsubscribeAll", fn.Name+":removes", op.Kind == "delete" && op.Map == "rangeval(recv.subscriptions)" && op.Key == "param:#0" && op.Loop, path.Events[op.Idx].Pos, path,
					"the participant is removed from every per-type subscriber set")
			}
			for i, ev := range path.Events {
				if ev.Kind == EvGuard && ev.GKind != GRange {
					r.CheckT("S-UnsubscribeAll", fn.Name+":unconditional", false, ev.Pos, path, "removal is conditional on %s", r.Classify(path, i))
				}
			}
		}
		r.Check("S-UnsubscribeAll", fn.Name+":iterates", iter >= 1, fn.Body.Pos(), "UnsubscribeByParticipant iterates all types")
	}
	if fn := r.modelFunc("models.(*EntityComponentStore).Notify"); fn != nil {
		paths := r.Paths(fn)
		r.Analysed(fn, len(paths))
		hparam := fn.Obj.Type().(*types.Signature).Params().At(1)
		called, skipped := 0, 0
		for pi := range paths {
			path := &paths[pi]
			r.at(path)
			calls := 0
			var callEv Event
			for _, ev := range path.Events {
				if ev.Kind == EvCall && ev.Callee == hparam {
					calls++
					callEv = ev
				}
			}
			r.loopsComplete("S-Notify", fn, path)
			g := r.guardMap(path)
			empty := g["zero:len("+subs+")"]
			switch empty {
			case "zero":
				skipped++
				r.CheckT("S-Notify", fn.Name+":nobody", calls == 0, fn.Body.Pos(), path, "while nobody is subscribed to the type the callback is not invoked")
			case "nonzero":
				// only the path that iterates the set at least once is representative for the argument
				called++
				okArg := calls == 1
				if okArg {
					c := r.P.Canon(fn, callEv.Call.Args[0])
					okArg = strings.HasPrefix(c, "local:") || strings.Contains(c, "append(") || strings.HasPrefix(c, "make(")
				}
				r.CheckT("S-Notify", fn.Name+":subscribed", calls == 1, fn.Body.Pos(), path, "with at least one subscriber the callback runs exactly once (%d calls)", calls)
			default:
				r.CheckT("S-Notify", fn.Name+":gate", false, fn.Body.Pos(), path, "Notify is gated by len(subscriptions[type]) == 0 (guards: %v)", g)
			}
			// ids handed over are the keys of this type's subscriber set
			for i, ev := range path.Events {
				if ev.Kind == EvGuard && ev.GKind == GRange && ev.Val {
					r.CheckT("S-Notify", fn.Name+":ids-from-set", r.P.Canon(ev.Fn, ev.Over) == subs, ev.Pos, path, "the recipient ids are the keys of the type's subscriber set")
					appended := false
					for j := i + 1; j < len(path.Events); j++ {
						pe := path.Events[j]
						if pe.Kind == EvGuard && pe.GKind == GRange {
							break
						}
						if pe.Kind == EvCall {
							if b, ok := pe.Callee.(*types.Builtin); ok && b.Name() == "append" && r.P.Canon(pe.Fn, pe.Call.Args[1]) == "rangekey("+subs+")" {
								appended = true
							}
						}
					}
					r.CheckT("S-Notify", fn.Name+":ids-complete", appended, ev.Pos, path, "every subscriber id is handed to the callback")
				}
			}
		}
		r.Check("S-Notify", fn.Name+":both-cases", called >= 1 && skipped >= 1, fn.Body.Pos(), "Notify has a subscribed and an unsubscribed case")
	}
}

// ruleIDGenerator (D3): New never returns an id that is still out; ids go back only from the two
// legitimate call sites.
func ruleIDGenerator(r *Run) {
	if r.broken() {
		return
	}
	fn := r.modelFunc("models.(*SequentialIDGenerator).New")
	reuse := r.modelFunc("models.(*SequentialIDGenerator).Reuse")
	if fn == nil || reuse == nil {
		return
	}
	paths := r.Paths(fn)
	r.Analysed(fn, len(paths))
	fresh, recycled := 0, 0
	for pi := range paths {
		path := &paths[pi]
		r.at(path)
		ops := r.mapOps(fn, path)
		ret := r.retCanon(fn, path)
		incs := 0
		for _, ev := range path.Events {
			if ev.Kind == EvAssign && (ev.Tok == token.INC || ev.Tok == token.ADD_ASSIGN) && r.P.Canon(ev.Fn, ev.Lhs[0]) == "recv.currentID" {
				incs++
			}
		}
		if len(ret) == 1 && ret[0] == "rangekey(recv.reusableIDs)" {
			recycled++
			ok := len(ops) == 1 && ops[0].Kind == "delete" && ops[0].Map == "recv.reusableIDs" && ops[0].Key == "rangekey(recv.reusableIDs)" && incs == 0
			r.CheckT("D3", fn.Name+":recycled", ok, fn.Body.Pos(), path, "a recycled id is taken out of the pool before it is handed out again")
			continue
		}
		fresh++
		r.CheckT("D3", fn.Name+":fresh", len(ret) == 1 && ret[0] == "recv.currentID" && incs == 1 && len(ops) == 0, fn.Body.Pos(), path,
			"a fresh id is the counter after exactly one increment (returns %v, %d increments)", ret, incs)
	}
	r.Check("D3", fn.Name+":cases", fresh >= 1 && recycled >= 1, fn.Body.Pos(), "New has a fresh and a recycled case")
	// counter written nowhere else; pool written only by New and Reuse
	for _, f2 := range r.P.All {
		if f2 != fn && r.writesField(f2, pkgModels, "SequentialIDGenerator", "currentID") && !r.onlyFrom(f2, fn.Name) {
			r.Check("D3", f2.Name+":writes[currentID]", false, f2.Body.Pos(), "the id counter is written outside New")
		}
		if f2 != fn && f2 != reuse && r.writesField(f2, pkgModels, "SequentialIDGenerator", "reusableIDs") && !r.onlyFrom(f2, fn.Name, reuse.Name) {
			r.Check("D3", f2.Name+":writes[reusableIDs]", false, f2.Body.Pos(), "the pool of reusable ids is written outside New/Reuse")
		}
	}
	// who gives ids back
	allowed := map[string]string{
		"SessionStore.ids":        "models.(*SessionStore).Remove",
		"Session.frameHandlerIDs": "models.(*Session).HandleFrame",
	}
	n := 0
	for _, f2 := range r.P.All {
		var walk func(holder *Func, body ast.Node)
		walk = func(holder *Func, body ast.Node) {
			ast.Inspect(body, func(nd ast.Node) bool {
				call, ok := nd.(*ast.CallExpr)
				if !ok || calleeObj(holder.Info(), call) != reuse.Obj {
					return true
				}
				n++
				key := ""
				if se, ok := ast.Unparen(recvExpr(call)).(*ast.SelectorExpr); ok {
					if sel, ok := holder.Info().Selections[se]; ok && sel.Kind() == types.FieldVal {
						if nt, ok := derefNamedT(sel.Recv()); ok {
							key = r.P.OwnerName(nt) + "." + r.P.FieldName(sel.Obj().(*types.Var))
						}
					}
				}
				want, ok2 := allowed[key]
				r.Check("D3", f2.Name+":Reuse["+key+"]", ok2 && (want == f2.Name || r.onlyFrom(f2, want)), call.Pos(),
					"ids are released only for session ids (on Remove) and frame-handler ids (on unregistering); participant, entity, component-type and asset ids are never reissued")
				return true
			})
		}
		walk(f2, f2.Body)
	}
	r.Floor("D3", "Reuse call sites", n, 2)
}

// ruleBroadcastShape (C3): Broadcast / BroadcastTo deliver exactly once to every other member.
func ruleBroadcastShape(r *Run) {
	m := r.M()
	if r.broken() {
		return
	}
	fromProto := r.P.LookupFunc(pkgHCWS, "", "MsgFromProto")
	if fromProto == nil {
		r.Undecide("C3", "hwebsocket.MsgFromProto not found")
		return
	}
	// Broadcast
	if fn := r.P.Funcs[m.Broadcast]; fn != nil {
		paths := r.Paths(fn)
		r.Analysed(fn, len(paths))
		deliver, skip := 0, 0
		for pi := range paths {
			path := &paths[pi]
			r.at(path)
			enc := 0
			for _, ev := range path.Events {
				if ev.Kind == EvCall && ev.Callee == fromProto {
					enc++
					r.CheckT("C3", fn.Name+":encode-arg", r.P.Canon(ev.Fn, ev.Call.Args[0]) == "param:#1" && !ev.Loop, ev.Pos, path, "the message relayed is the one handed in, encoded once outside the loop")
				}
			}
			r.CheckT("C3", fn.Name+":encode-once", enc == 1, fn.Body.Pos(), path, "the message is encoded exactly once (%d)", enc)
			r.loopsComplete("C3", fn, path)
			for i, ev := range path.Events {
				if ev.Kind != EvGuard || ev.GKind != GRange {
					continue
				}
				r.CheckT("C3", fn.Name+":range", r.P.Canon(ev.Fn, ev.Over) == "recv.participants", ev.Pos, path, "Broadcast iterates the session's own participant map")
				if !ev.Val {
					continue
				}
				end := len(path.Events)
				for j := i + 1; j < len(path.Events); j++ {
					if path.Events[j].Kind == EvGuard && path.Events[j].GKind == GRange {
						end = j
						break
					}
				}
				isSender := ""
				sends := 0
				for j := i + 1; j < end; j++ {
					pe := path.Events[j]
					if pe.Kind == EvGuard {
						g := r.Classify(path, j)
						if g.Subject == "eq:rangeval(recv.participants)~param:#0" || g.Subject == "eq:param:#0~rangeval(recv.participants)" {
							isSender = g.Outcome
						} else {
							r.CheckT("C3", fn.Name+":other-skip", false, pe.Pos, path, "delivery to a member depends on %s", g)
						}
					}
					if r.isSendMsgCall(pe) {
						sends++
						okRecv := r.P.Canon(pe.Fn, pe.Recv) == "rangeval(recv.participants).Responder"
						okMsg := strings.HasPrefix(r.P.Canon(pe.Fn, pe.Call.Args[0]), "call:websocket.MsgFromProto(param:#1)")
						r.CheckT("C3", fn.Name+":send", okRecv && okMsg, pe.Pos, path, "each member is sent the encoded message through its own responder")
					}
				}
				switch isSender {
				case "equal":
					skip++
					r.CheckT("C3", fn.Name+":skip-sender", sends == 0, ev.Pos, path, "the causing participant is skipped")
				case "differ":
					deliver++
					r.CheckT("C3", fn.Name+":once-per-member", sends == 1, ev.Pos, path, "every other member is sent the message exactly once (%d)", sends)
				default:
					r.CheckT("C3", fn.Name+":sender-test", false, ev.Pos, path, "each iteration compares the member with the sender")
				}
			}
		}
		r.Check("C3", fn.Name+":cases", deliver >= 1 && skip >= 1, fn.Body.Pos(), "Broadcast has a delivering and a sender-skipping iteration")
	}
	// BroadcastTo: two equivalent shapes — (A) range over GetParticipantsByIDs(ids), (B) range over
	// the ids with a lookup in the session's own participant map. Either way the delivery happens
	// under the participant lock (see delivers-under-lock below).
	if fn := r.P.Funcs[m.BroadcastTo]; fn != nil {
		paths := r.Paths(fn)
		r.Analysed(fn, len(paths))
		overA := "recv.call:Session.GetParticipantsByIDs(param:#2)"
		deliver := 0
		for pi := range paths {
			path := &paths[pi]
			r.at(path)
			r.loopsComplete("C3", fn, path)
			enc := 0
			for _, ev := range path.Events {
				if ev.Kind == EvCall && ev.Callee == fromProto {
					enc++
					r.CheckT("C3", fn.Name+":encode-arg", r.P.Canon(ev.Fn, ev.Call.Args[0]) == "param:#1" && !ev.Loop, ev.Pos, path, "the message relayed is the one handed in, encoded once outside the loop")
				}
			}
			r.CheckT("C3", fn.Name+":encode-once", enc == 1, fn.Body.Pos(), path, "the message is encoded exactly once (%d)", enc)
			for i, ev := range path.Events {
				if ev.Kind != EvGuard || ev.GKind != GRange {
					continue
				}
				over := r.P.Canon(ev.Fn, ev.Over)
				member := ""
				switch over {
				case overA:
					member = "rangeval(" + overA + ")"
				case "param:#2":
					member = "recv.participants[rangeval(param:#2)]"
				}
				r.CheckT("C3", fn.Name+":range", member != "", ev.Pos, path, "BroadcastTo resolves the named ids inside its own session (range over %s)", over)
				if !ev.Val || member == "" {
					continue
				}
				end := len(path.Events)
				for j := i + 1; j < len(path.Events); j++ {
					if path.Events[j].Kind == EvGuard && path.Events[j].GKind == GRange {
						end = j
						break
					}
				}
				isSender, dup, resolved := "", "", ""
				if over == overA {
					resolved = "hit" // GetParticipantsByIDs returns members only (J6 below)
				}
				sends, marks := 0, 0
				for j := i + 1; j < end; j++ {
					pe := path.Events[j]
					if pe.Kind == EvGuard {
						g := r.Classify(path, j)
						switch {
						case over == "param:#2" && g.Subject == "maplookup:"+member:
							resolved = g.Outcome
						case strings.HasPrefix(g.Subject, "eq:") && strings.Contains(g.Subject, "param:#0") && strings.Contains(g.Subject, member):
							isSender = g.Outcome
						case strings.HasPrefix(g.Subject, "maplookup:") && strings.HasSuffix(g.Subject, "["+member+".ID]"):
							dup = g.Outcome
						default:
							r.CheckT("C3", fn.Name+":other-skip", false, pe.Pos, path, "delivery to a named member depends on %s", g)
						}
					}
					if pe.Kind == EvAssign {
						for _, op := range r.mapOps(fn, &Path{Fn: fn, Events: []Event{pe}}) {
							if op.Key == member+".ID" {
								marks++
							}
						}
					}
					if r.isSendMsgCall(pe) {
						sends++
						okRecv := r.P.Canon(pe.Fn, pe.Recv) == member+".Responder"
						okMsg := strings.HasPrefix(r.P.Canon(pe.Fn, pe.Call.Args[0]), "call:websocket.MsgFromProto(param:#1)")
						r.CheckT("C3", fn.Name+":send", okRecv && okMsg, pe.Pos, path, "each named member is sent the encoded message through its own responder (to %s)", r.P.Canon(pe.Fn, pe.Recv))
					}
				}
				switch {
				case resolved == "miss":
					r.CheckT("J6", fn.Name+":unknown-id-ignored", sends == 0 && marks == 0, ev.Pos, path, "an id that names no member of this session is ignored")
				case resolved == "hit" && isSender == "equal":
					r.CheckT("C3", fn.Name+":skip-sender", sends == 0, ev.Pos, path, "the sender is skipped even when named")
				case resolved == "hit" && isSender == "differ" && dup == "hit":
					r.CheckT("C3", fn.Name+":skip-duplicate", sends == 0, ev.Pos, path, "a member named twice is served once")
				case resolved == "hit" && isSender == "differ" && dup == "miss":
					deliver++
					r.CheckT("C3", fn.Name+":deliver", sends == 1 && marks == 1, ev.Pos, path, "a named member is sent the message once and marked as handled (sends %d, marks %d)", sends, marks)
				default:
					r.CheckT("C3", fn.Name+":iteration-shape", false, ev.Pos, path, "iteration is not decided by (names a member, is sender, already handled): %q %q %q", resolved, isSender, dup)
				}
			}
		}
		r.Check("C3", fn.Name+":delivers", deliver >= 1, fn.Body.Pos(), "BroadcastTo has a delivering iteration")
	}
	// both: every delivery happens while the session's participant lock is held, so that a departure
	// (RemoveParticipant takes the lock exclusively) waits for deliveries in flight and a participant
	// that has left is never served from an earlier snapshot of the membership
	for _, f := range []*types.Func{m.Broadcast, m.BroadcastTo} {
		fn := r.P.Funcs[f]
		if fn == nil {
			continue
		}
		paths := r.Paths(fn)
		for pi := range paths {
			path := &paths[pi]
			r.at(path)
			held := r.locksAlong(path, lockset{})
			encFailed := false
			for i, pe := range path.Events {
				if pe.Kind == EvGuard {
					if g := r.Classify(path, i); g.Callee == fromProto && g.Outcome == "err" {
						encFailed = true
					}
				}
				if r.isSendMsgCall(pe) && encFailed {
					r.CheckT("C3", fn.Name+":nothing-sent-when-encoding-failed", false, pe.Pos, path, "the message could not be encoded and is delivered all the same (members are sent an empty message)")
				}
				if r.isSendMsgCall(pe) {
					r.CheckT("C3", fn.Name+":delivers-under-lock", held[i]["Session.participantMutex"] != "", pe.Pos, path,
						"a member is served while the session's participant lock is held (a participant that left must not be served from an earlier snapshot of the membership)")
				}
			}
		}
	}
	// GetParticipantsByIDs: only ids present in this session
	if fn := r.modelFunc("models.(*Session).GetParticipantsByIDs"); fn != nil {
		paths := r.Paths(fn)
		r.Analysed(fn, len(paths))
		for pi := range paths {
			path := &paths[pi]
			r.at(path)
			r.loopsComplete("J6", fn, path)
			for i, ev := range path.Events {
				if ev.Kind != EvGuard || ev.GKind != GRange || !ev.Val {
					continue
				}
				end := len(path.Events)
				for j := i + 1; j < len(path.Events); j++ {
					if path.Events[j].Kind == EvGuard && path.Events[j].GKind == GRange {
						end = j
						break
					}
				}
				hit := ""
				app := false
				for j := i + 1; j < end; j++ {
					pe := path.Events[j]
					if pe.Kind == EvGuard {
						g := r.Classify(path, j)
						if g.Subject == "maplookup:recv.participants[rangeval(param:#0)]" {
							hit = g.Outcome
						}
					}
					if pe.Kind == EvCall {
						if b, ok := pe.Callee.(*types.Builtin); ok && b.Name() == "append" && r.P.Canon(pe.Fn, pe.Call.Args[1]) == "recv.participants[rangeval(param:#0)]" {
							app = true
						}
					}
				}
				r.CheckT("J6", fn.Name+":resolve", (hit == "hit") == app && hit != "", ev.Pos, path, "an id resolves to a recipient exactly when it names a member of this session (lookup %q, appended %v)", hit, app)
			}
		}
	}
}

// ruleRelaySync (C6): what is handed to a connection's responder is queued exactly once, in order,
// with a blocking FIFO send; nothing is dropped, duplicated or re-ordered between a handler and the socket.
func ruleRelaySync(r *Run) {
	if r.broken() {
		return
	}
	fromProto := r.P.LookupFunc(pkgHCWS, "", "MsgFromProto")
	sendChan := r.P.LookupField(pkgWS, "handler", "sendChan")
	if fromProto == nil || sendChan == nil {
		r.Undecide("C6", "anchors MsgFromProto / handler.sendChan not found")
		return
	}
	isSendChan := func(fn *Func, x ast.Expr) bool {
		se, ok := ast.Unparen(x).(*ast.SelectorExpr)
		if !ok {
			return false
		}
		sel, ok := fn.Info().Selections[se]
		return ok && sel.Obj() == sendChan
	}
	// every operation on the send queue, repo-wide
	type chanUse struct {
		fn   *Func
		send bool
		ev   Event
		path *Path
	}
	var uses []chanUse
	funcs := append([]*Func{}, r.P.All...)
	for _, lf := range r.P.Lits {
		if isRepoPkg(lf.Pkg.Types) {
			funcs = append(funcs, lf)
		}
	}
	sort.Slice(funcs, func(i, j int) bool { return funcs[i].Name < funcs[j].Name })
	seenPos := map[token.Pos]bool{}
	for _, fn := range funcs {
		mentions := false
		ast.Inspect(fn.Body, func(n ast.Node) bool {
			if se, ok := n.(*ast.SelectorExpr); ok {
				if sel, ok := fn.Info().Selections[se]; ok && sel.Obj() == sendChan {
					mentions = true
				}
			}
			return !mentions
		})
		if !mentions {
			continue
		}
		paths := r.Paths(fn)
		for pi := range paths {
			path := &paths[pi]
			r.at(path)
			for _, ev := range path.Events {
				if ev.Kind == EvChanOp && isSendChan(ev.Fn, ev.Chan) && !seenPos[ev.Pos] {
					seenPos[ev.Pos] = true
					uses = append(uses, chanUse{fn, ev.Send, ev, path})
				}
			}
		}
	}
	// the queue handed to another function: allowed only for a helper that merely drains it
	// (len / receive on that parameter), which then counts as a receive by the caller
	for _, fn := range funcs {
		ast.Inspect(fn.Body, func(n ast.Node) bool {
			call, ok := n.(*ast.CallExpr)
			if !ok {
				return true
			}
			for k, a := range call.Args {
				se, ok := ast.Unparen(a).(*ast.SelectorExpr)
				if !ok {
					continue
				}
				if sel, ok := fn.Info().Selections[se]; !ok || sel.Obj() != sendChan {
					continue
				}
				if b, isB := calleeObj(fn.Info(), call).(*types.Builtin); isB && (b.Name() == "len" || b.Name() == "cap") {
					continue
				}
				f, _ := calleeObj(fn.Info(), call).(*types.Func)
				def := r.P.Funcs[f]
				drainOnly := false
				if f != nil && def != nil && r.P.isGlue(f) && def.Decl != nil && def.Decl.Type.Params != nil {
					var pobj types.Object
					idx := 0
					for _, fld := range def.Decl.Type.Params.List {
						for _, nm := range fld.Names {
							if idx == k {
								pobj = def.Info().Defs[nm]
							}
							idx++
						}
					}
					if pobj != nil {
						drainOnly = true
						ast.Inspect(def.Body, func(m ast.Node) bool {
							switch v := m.(type) {
							case *ast.SendStmt:
								if id, ok := ast.Unparen(v.Chan).(*ast.Ident); ok && def.Info().Uses[id] == pobj {
									drainOnly = false
								}
							case *ast.CallExpr:
								if b, isB := calleeObj(def.Info(), v).(*types.Builtin); isB && (b.Name() == "len" || b.Name() == "cap") {
									return false
								}
								for _, a2 := range v.Args {
									if id, ok := ast.Unparen(a2).(*ast.Ident); ok && def.Info().Uses[id] == pobj {
										drainOnly = false
									}
								}
							case *ast.AssignStmt:
								for _, rh := range v.Rhs {
									if id, ok := ast.Unparen(rh).(*ast.Ident); ok && def.Info().Uses[id] == pobj {
										drainOnly = false
									}
								}
							}
							return true
						})
					}
				}
				okFn := drainOnly && r.onlyFrom(fn, "websocket.(*handler).startSending")
				r.Check("C6", fn.root().Name+":queue-handed-out", okFn, a.Pos(), "the connection's send queue is handed to another function only to be drained by the sending loop's own shutdown (callee %s)", objName(calleeObj(fn.Info(), call)))
			}
			return true
		})
	}
	nSend, nRecv := 0, 0
	for _, u := range uses {
		if u.send {
			nSend++
			r.CheckT("C6", u.fn.root().Name+":send-blocking", !u.ev.NonBlocking, u.ev.Pos, u.path,
				"a message is put on the connection's send queue with a select/default: when the queue is full the message is silently dropped for that recipient")
			okFn := r.onlyFrom(u.fn, "websocket.(*handler).send", "websocket.(*handler).sendMsg")
			r.CheckT("C6", u.fn.root().Name+":sender-funcs", okFn, u.ev.Pos, u.path, "the send queue is fed only by the handler's send/sendMsg")
		} else {
			nRecv++
			okFn := r.onlyFrom(u.fn, "websocket.(*handler).startSending")
			r.CheckT("C6", u.fn.root().Name+":single-consumer", okFn, u.ev.Pos, u.path, "the send queue is drained only by the connection's sending loop (and its shutdown drain)")
		}
	}
	r.Floor("C6", "sends into the send queue", nSend, 1)    // send may delegate to sendMsg
	r.Floor("C6", "receives from the send queue", nRecv, 1) // the sending loop's receive (its shutdown drain may live in a helper)
	// sendMsg: exactly one blocking send of the message handed in; send: encode, then the same
	for _, q := range []struct {
		name   string
		encode bool
	}{{"websocket.(*handler).sendMsg", false}, {"websocket.(*handler).send", true}} {
		fn := r.modelFunc(q.name)
		if fn == nil {
			continue
		}
		paths := r.Paths(fn)
		r.Analysed(fn, len(paths))
		delivered := 0
		for pi := range paths {
			path := &paths[pi]
			r.at(path)
			sends := 0
			valOK := false
			encErr := ""
			for i, ev := range path.Events {
				if ev.Kind == EvGo {
					r.CheckT("C6", fn.Name+":no-goroutine", false, ev.Pos, path, "queuing a message spawns a goroutine: relays of one connection may overtake each other")
				}
				if ev.Kind == EvGuard {
					g := r.Classify(path, i)
					if g.Callee == fromProto {
						encErr = g.Outcome
					}
				}
				if ev.Kind == EvChanOp && ev.Send && isSendChan(ev.Fn, ev.Chan) {
					sends++
					if ss, ok := ev.Node.(*ast.SendStmt); ok {
						c := r.P.Canon(fn, ss.Value)
						if q.encode {
							valOK = c == "call:websocket.MsgFromProto(param:#0)#0"
						} else {
							valOK = c == "param:#0"
						}
					}
				}
			}
			if q.encode && encErr == "err" {
				r.CheckT("C6", fn.Name+":encode-failure", sends == 0, fn.Body.Pos(), path, "a message that cannot be encoded is not queued")
				continue
			}
			delivered++
			r.CheckT("C6", fn.Name+":queued-once", sends == 1 && valOK, fn.Body.Pos(), path, "the message handed in is queued exactly once (%d sends)", sends)
		}
		r.Check("C6", fn.Name+":delivers", delivered >= 1, fn.Body.Pos(), "%s has a delivering path", q.name)
	}
	// responseSender forwards each message exactly once to the connection's own send / sendMsg — through
	// stored method values or through a reference to the handler; the callee is resolved by the call graph
	d := r.Deep()
	for _, q := range []struct{ name, target string }{{"websocket.responseSender.Send", "websocket.(*handler).send"}, {"websocket.responseSender.SendMsg", "websocket.(*handler).sendMsg"}} {
		fn := r.modelFunc(q.name)
		if fn == nil {
			continue
		}
		for _, path := range r.Paths(fn) {
			r.at(&path)
			calls := 0
			argOK := false
			for _, ev := range path.Events {
				if ev.Kind != EvCall || ev.Call == nil || ev.Depth != 0 {
					continue
				}
				var names []string
				if f, ok := ev.Callee.(*types.Func); ok {
					names = append(names, funcName(f))
				} else if d != nil {
					known, _ := d.Callees(r.P, ev.Call)
					for _, g := range known {
						names = append(names, g.Name)
					}
				}
				if len(names) == 0 {
					continue
				}
				all := true
				for _, nm := range names {
					if nm != q.target {
						all = false
					}
				}
				if all {
					calls++
					argOK = len(ev.Call.Args) == 1 && r.P.Canon(ev.Fn, ev.Call.Args[0]) == "param:#0"
				} else {
					calls += 100 // forwards somewhere else as well
				}
			}
			r.CheckT("C6", fn.Name+":forwards", calls == 1 && argOK, fn.Body.Pos(), &path, "the responder forwards each message exactly once to the connection's %s", q.target)
		}
		r.Analysed(fn, 1)
	}
	// the responder handed to handlers is built from the handler's own send/sendMsg (or the handler itself)
	if hh := r.modelFunc("websocket.(*handler).Handle"); hh != nil {
		found := false
		var holders []*Func
		for _, f := range r.P.All {
			if f == hh || (f.Obj != nil && f.Pkg == hh.Pkg && r.onlyFrom(f, hh.Name)) {
				holders = append(holders, f)
			}
		}
		for _, h := range holders {
			ast.Inspect(h.Body, func(n ast.Node) bool {
				cl, ok := n.(*ast.CompositeLit)
				if !ok {
					return true
				}
				if _, tn := litTypeName(h.Info(), cl); tn != "responseSender" {
					return true
				}
				ok2 := len(cl.Elts) > 0
				for _, el := range cl.Elts {
					v := el
					if kv, isKV := el.(*ast.KeyValueExpr); isKV {
						v = kv.Value
					}
					c := r.P.Canon(h, v)
					okElt := c == "recv" || c == "recv.method:send" || c == "recv.method:sendMsg"
					if se, isSel := ast.Unparen(v).(*ast.SelectorExpr); isSel && !okElt && strings.HasPrefix(c, "recv.method:") {
						// a method value of the handler: the queueing methods, whatever they are called
						if f, isF := h.Info().Uses[se.Sel].(*types.Func); isF && (f == r.fn(pkgWS, "handler", "send") || f == r.fn(pkgWS, "handler", "sendMsg")) {
							okElt = true
						}
					}
					if !okElt {
						ok2 = false
					}
				}
				found = ok2
				return true
			})
		}
		h := hh
		r.Check("C6", h.Name+":responder", found, h.Body.Pos(), "the responder given to handlers and stored in participants queues into this connection's own send queue")
	}
	// sending loop: each queued message is written once, in queue order
	if sl := r.modelFunc("websocket.(*handler).startSending"); sl != nil {
		paths := r.Paths(sl)
		r.Analysed(sl, len(paths))
		senderFld := r.P.LookupField(pkgWS, "handler", "sender")
		n := 0
		for pi := range paths {
			path := &paths[pi]
			r.at(path)
			// what runs deferred (the drain of the queue on exit) is not the loop
			deferredCall := map[*ast.CallExpr]bool{}
			deferredLit := map[*ast.FuncLit]bool{}
			for _, ev := range path.Events {
				if ev.Kind == EvDefer {
					if ev.Call != nil {
						deferredCall[ev.Call] = true
					}
					if ev.Lit != nil {
						deferredLit[ev.Lit] = true
					}
				}
			}
			var open []bool // per open look-in / closure: runs deferred
			for i, ev := range path.Events {
				switch ev.Kind {
				case EvEnter:
					d := (ev.ViaCall != nil && deferredCall[ev.ViaCall]) || (ev.Lit != nil && deferredLit[ev.Lit]) || (len(open) > 0 && open[len(open)-1])
					open = append(open, d)
				case EvExit:
					if len(open) > 0 {
						open = open[:len(open)-1]
					}
				}
				inDeferred := len(open) > 0 && open[len(open)-1]
				if ev.Kind == EvChanOp && !ev.Send && isSendChan(ev.Fn, ev.Chan) && !inDeferred && (ev.Depth == 0 || len(open) > 0) {
					writes := 0
					for j := i + 1; j < len(path.Events); j++ {
						pe := path.Events[j]
						if pe.Kind == EvCall && pe.Callee == senderFld {
							writes++
						}
						if pe.Kind == EvGo {
							r.CheckT("C6", sl.Name+":no-goroutine", false, pe.Pos, path, "the sending loop writes messages from a spawned goroutine: order on the wire is no longer queue order")
						}
					}
					n++
					r.CheckT("C6", sl.Name+":write-once", writes == 1, ev.Pos, path, "each message taken from the queue is written to the socket exactly once (%d)", writes)
				}
			}
		}
		r.Floor("C6", "dequeue-and-write iterations", n, 1)
	}
}

// ruleIDSources (D5): every id the server hands out comes from a SequentialIDGenerator of the
// right scope (store: session ids; session: participant and entity ids; odal state: asset ids).
func ruleIDSources(r *Run) {
	if r.broken() {
		return
	}
	for _, q := range []struct{ fn, gen string }{
		{"models.(*Session).NewParticipantID", "recv.participantIDs"},
		{"models.(*Session).NewEntityID", "recv.entityIDs"},
		{"models.(*SessionStore).NewID", "recv.ids"},
		{"modules/odal.(*State).NewAssetInstanceID", "recv.assetInstanceIDs"},
	} {
		fn := r.modelFunc(q.fn)
		if fn == nil {
			continue
		}
		r.Analysed(fn, 1)
		for _, path := range r.Paths(fn) {
			r.at(&path)
			ret := r.retCanon(fn, &path)
			r.CheckT("D5", fn.Name+":source", len(ret) == 1 && ret[0] == q.gen+".call:SequentialIDGenerator.New()", fn.Body.Pos(), &path,
				"%s hands out the next id of its own generator %s (returns %v)", fn.Name, q.gen, ret)
		}
	}
	// the generators are distinct fields (no sharing between id spaces)
	// where the ids go
	m := r.M()
	n := 0
	// Every literal of a model object built on behalf of a handler — in the handler itself or in
	// glue it calls (looked into, parameters bound to the handler's arguments) — is examined in the
	// context of each path it can be reached on.
	done := map[string]bool{}
	seenHandler := map[*Func]bool{}
	for _, hi := range m.Handlers {
		if seenHandler[hi.Fn] {
			continue
		}
		seenHandler[hi.Fn] = true
		paths := r.Paths(hi.Fn)
		for pi := range paths {
			path := &paths[pi]
			r.at(path)
			insts := []*Func{hi.Fn}
			seenInst := map[*Func]bool{hi.Fn: true}
			for _, ev := range path.Events {
				if ev.Fn != nil && !seenInst[ev.Fn] && ev.Fn.Lit == nil {
					seenInst[ev.Fn] = true
					insts = append(insts, ev.Fn)
				}
			}
			for _, inst := range insts {
				info := inst.Info()
				holder := inst
				where := inst.origOrSelf().Name
				reached := func(n ast.Node) bool {
					for _, pe := range path.Events {
						if pe.Node != nil && pe.Fn == inst && pe.Node.Pos() <= n.Pos() && n.End() <= pe.Node.End() {
							return true
						}
					}
					return false
				}
				ast.Inspect(inst.Body, func(nd ast.Node) bool {
					switch v := nd.(type) {
					case *ast.CompositeLit:
						pk, tn := litTypeName(info, v)
						if pk != "models" || !reached(v) {
							return true
						}
						switch tn {
						case "Participant":
							c := r.P.Canon(holder, litField(v, "ID"))
							okSrc := false
							idExpr, idFn := ast.Unparen(litField(v, "ID")), holder
							// a constructor's parameter stands for the argument it was called with
							if _, isID := idExpr.(*ast.Ident); isID {
								bfn, bx := resolveBound(idFn, idExpr)
								idFn, idExpr = bfn, ast.Unparen(bx)
							}
							if call, isCall := idExpr.(*ast.CallExpr); isCall {
								if f, _ := calleeObj(idFn.Info(), call).(*types.Func); f != nil && funcName(f) == "models.(*Session).NewParticipantID" {
									okSrc = r.isJoinLocalSession(idFn, recvExpr(call))
								}
							}
							key := fmt.Sprintf("P|%s|%d|%s|%v", where, v.Pos(), c, okSrc)
							if !done[key] {
								done[key] = true
								n++
								r.CheckT("D5", where+":participant-id", okSrc, v.Pos(), path, "a new participant gets the next participant id of the session it joins (%s)", c)
							}
						case "Entity":
							c := r.P.Canon(holder, litField(v, "ID"))
							o := r.P.Canon(holder, litField(v, "ParticipantID"))
							key := fmt.Sprintf("E|%s|%d|%s|%s", where, v.Pos(), c, o)
							if !done[key] {
								done[key] = true
								n++
								r.CheckT("D5", where+":entity-id", c == "recv.currentSession.call:Session.NewEntityID()", v.Pos(), path, "a new entity gets the next entity id of the caller's session (%s)", c)
								r.CheckT("D2", where+":entity-owner", o == "recv.currentParticipant.ID", v.Pos(), path, "a new entity is owned by the participant that asked for it (%s)", o)
							}
						}
					case *ast.CallExpr:
						// NewSession(h.Sessions.NewID(), ...)
						if f, _ := calleeObj(info, v).(*types.Func); f != nil && funcName(f) == "models.NewSession" && len(v.Args) > 0 && reached(v) {
							c := r.P.Canon(holder, v.Args[0])
							key := fmt.Sprintf("S|%s|%d|%s", where, v.Pos(), c)
							if !done[key] {
								done[key] = true
								n++
								r.CheckT("D5", where+":session-id", c == "recv.Sessions.call:SessionStore.NewID()", v.Pos(), path, "a new session gets the next session id of the registry (%s)", c)
							}
						}
					}
					return true
				})
			}
		}
	}
	r.Floor("D5", "id-carrying constructions in handlers", n, 3)
	// D2: owner and identity fields are never assigned after construction
	for _, q := range []struct{ typ, field string }{{"Entity", "ParticipantID"}, {"Entity", "ID"}, {"Entity", "Persist"}, {"Participant", "ID"}, {"Session", "ID"}, {"Session", "SessionUUID"}} {
		fv := r.P.LookupField(pkgModels, q.typ, q.field)
		if fv == nil {
			r.Undecide("D2", "field %s.%s not found", q.typ, q.field)
			continue
		}
		for _, fn := range r.P.All {
			info := fn.Info()
			ast.Inspect(fn.Body, func(nd ast.Node) bool {
				var lhs []ast.Expr
				switch s := nd.(type) {
				case *ast.AssignStmt:
					lhs = s.Lhs
				case *ast.IncDecStmt:
					lhs = []ast.Expr{s.X}
				}
				for _, l := range lhs {
					if se, ok := ast.Unparen(l).(*ast.SelectorExpr); ok {
						if sel, ok := info.Selections[se]; ok && sel.Obj() == fv {
							r.Check("D2", fmt.Sprintf("%s:assigns[%s.%s]", fn.Name, q.typ, q.field), false, l.Pos(), "%s.%s is assigned after construction: identity and ownership must never change", q.typ, q.field)
						}
					}
				}
				return true
			})
		}
		r.Check("D2", q.typ+"."+q.field+":immutable", true, fv.Pos(), "no assignment to %s.%s anywhere in the repository (set only in the creating literal)", q.typ, q.field)
	}
	// Participant.AddEntity is only given the entity just created by the same handler
	addE := r.P.LookupFunc(pkgModels, "Participant", "AddEntity")
	for _, c := range r.rootsOf(r.callersOf(addE)) {
		for _, path := range r.Paths(c) {
			r.at(&path)
			for _, ev := range path.Events {
				if ev.Kind == EvCall && ev.Callee == addE {
					rc, ac := r.P.Canon(ev.Fn, ev.Recv), r.P.Canon(ev.Fn, ev.Call.Args[0])
					r.CheckT("D2", c.Name+":own-entity-bookkeeping", rc == "recv.currentParticipant" && strings.HasPrefix(ac, "&lit:models.Entity@"), ev.Pos, &path,
						"only the entity a participant has just created is entered into its own entity list (receiver %s, entity %s)", rc, ac)
				}
			}
		}
	}
}

// ruleRegistry (E7): the session registry maps the global id of a session to that session, exactly.
func ruleRegistry(r *Run) {
	if r.broken() {
		return
	}
	key := func(arg string) string { return "recv.call:SessionStore.GlobalSessionID(" + arg + ")" }
	if fn := r.modelFunc("models.(*SessionStore).GetByGlobalID"); fn != nil {
		r.Analysed(fn, 1)
		for _, path := range r.Paths(fn) {
			r.at(&path)
			ret := r.retCanon(fn, &path)
			ok := len(ret) == 2 && ret[0] == "recv.sessions[param:#0]" && ret[1] == "recv.sessions[param:#0]#1"
			r.CheckT("E7", fn.Name+":verbatim-lookup", ok, fn.Body.Pos(), &path,
				"a session is found under exactly the id that was asked for, nothing else (returns %v): ids that merely resemble a live session's id must not resolve", ret)
		}
	}
	gaugeInc := r.P.LookupFunc(pkgModels, "", "instrumentIncreaseSessionGauge")
	gaugeDec := r.P.LookupFunc(pkgModels, "", "instrumentDecreaseSessionGauge")
	if fn := r.modelFunc("models.(*SessionStore).Add"); fn != nil {
		r.Analysed(fn, 1)
		for _, path := range r.Paths(fn) {
			r.at(&path)
			held := r.locksAlong(&path, lockset{})
			ops := r.mapOps(fn, &path)
			okW := len(ops) == 1 && ops[0].Kind == "write" && ops[0].Map == "recv.sessions" && ops[0].Key == key("param:#1.ID") && ops[0].Val == "param:#1"
			r.CheckT("E7", fn.Name+":insert", okW, fn.Body.Pos(), &path, "Add registers the session under its own global id")
			iInc := idxOfCall(&path, gaugeInc, 0)
			okG := iInc >= 0 && len(ops) == 1 && held[iInc]["SessionStore.mutex"] == "W" && held[ops[0].Idx]["SessionStore.mutex"] == "W"
			r.CheckT("E7", fn.Name+":gauge-with-insert", okG, fn.Body.Pos(), &path, "the session gauge goes up in the same critical section as the insert")
			n := 0
			for _, ev := range path.Events {
				if ev.Kind == EvCall && ev.Callee == gaugeInc {
					n++
				}
			}
			r.CheckT("E7", fn.Name+":gauge-once", n == 1, fn.Body.Pos(), &path, "one increment per registered session (%d)", n)
		}
	}
	if fn := r.modelFunc("models.(*SessionStore).Remove"); fn != nil {
		r.Analysed(fn, 1)
		reuse := r.P.LookupFunc(pkgModels, "SequentialIDGenerator", "Reuse")
		closeF := r.P.LookupFunc(pkgModels, "Session", "Close")
		for _, path := range r.Paths(fn) {
			r.at(&path)
			held := r.locksAlong(&path, lockset{})
			ops := r.mapOps(fn, &path)
			iR, iC, iD := idxOfCall(&path, reuse, 0), idxOfCall(&path, closeF, 0), idxOfCall(&path, gaugeDec, 0)
			// Remove acts only on the session that is registered under its id (idempotent: a second
			// Remove of the same session, or of a stale session whose id was reused, changes nothing)
			g := r.guardMap(&path)
			slot := "recv.sessions[" + key("param:#1.ID") + "]"
			same := g["eq:"+slot+"~param:#1"] == "equal" || g["eq:param:#1~"+slot] == "equal"
			isRegistered := g["maplookup:"+slot] == "hit" && same
			if len(ops) == 0 && iR < 0 && iC < 0 && iD < 0 {
				r.CheckT("E7", fn.Name+":noop-iff-unregistered", !isRegistered, fn.Body.Pos(), &path,
					"Remove does nothing only when the session handed in is not the one registered under its id (%s)", r.pathSig(&path))
				continue
			}
			r.CheckT("E7", fn.Name+":idempotent", isRegistered, fn.Body.Pos(), &path,
				"Remove unregisters, closes, releases the id and lowers the gauge only for the session currently registered under its id; two departures that both saw the session empty must not do it twice (%s)", r.pathSig(&path))
			okD := len(ops) == 1 && ops[0].Kind == "delete" && ops[0].Map == "recv.sessions" && ops[0].Key == key("param:#1.ID")
			r.CheckT("E7", fn.Name+":delete", okD, fn.Body.Pos(), &path, "Remove unregisters exactly the session's own global id")
			all := okD && iR >= 0 && iC >= 0 && iD >= 0
			if all {
				for _, i := range []int{ops[0].Idx, iR, iC, iD} {
					if held[i]["SessionStore.mutex"] != "W" {
						all = false
					}
				}
				all = all && r.P.Canon(path.Events[iR].Fn, path.Events[iR].Call.Args[0]) == "param:#1.ID" && r.P.Canon(path.Events[iR].Fn, path.Events[iR].Recv) == "recv.ids" &&
					r.P.Canon(path.Events[iC].Fn, path.Events[iC].Recv) == "param:#1"
			}
			r.CheckT("E7", fn.Name+":one-critical-section", all, fn.Body.Pos(), &path,
				"unregistering, stopping the frame worker, releasing the session id and lowering the gauge happen in one critical section, for the session handed in")
		}
	}
	if fn := r.modelFunc("models.(*SessionStore).GlobalSessionID"); fn != nil {
		r.Analysed(fn, 1)
		for _, path := range r.Paths(fn) {
			r.at(&path)
			ok := false
			for _, ev := range path.Events {
				if ev.Kind == EvReturn && ev.Depth == 0 && len(ev.Results) == 1 {
					if call, isCall := ast.Unparen(ev.Results[0]).(*ast.CallExpr); isCall && len(call.Args) == 3 {
						f, _ := calleeObj(fn.Info(), call).(*types.Func)
						tv := fn.Info().Types[call.Args[0]]
						ok = f != nil && f.FullName() == "fmt.Sprintf" && tv.Value != nil && tv.Value.ExactString() == `"%sx%x"` &&
							r.P.Canon(fn, call.Args[1]) == "recv.DiscoveryService.call:SessionDiscoveryService.ServerID()" && r.P.Canon(fn, call.Args[2]) == "param:#0"
					}
				}
			}
			r.CheckT("E7", fn.Name+":injective", ok, fn.Body.Pos(), &path, "the global id is the server id and the session id in hexadecimal, joined by 'x' (distinct session ids give distinct global ids)")
		}
	}
	// who calls Add / Remove
	for _, q := range []struct{ fn, caller string }{{"Add", "websocket.(*RealtimeHandler).HandleParticipantJoin"}, {"Remove", "websocket.(*RealtimeHandler).leaveSession"}} {
		f := r.P.LookupFunc(pkgModels, "SessionStore", q.fn)
		for _, c := range r.callersOf(f) {
			if strings.HasPrefix(c.Name, "websocket.newTest") {
				continue
			}
			r.Check("E7", "caller-of-"+q.fn+"["+c.Name+"]", c.Name == q.caller || r.onlyFrom(c, q.caller), c.Body.Pos(), "SessionStore.%s is called only from %s", q.fn, q.caller)
		}
	}
	// NewSession: fresh maps, fresh UUID, fresh generators (zero values)
	if fn := r.modelFunc("models.NewSession"); fn != nil {
		r.Analysed(fn, 1)
		for _, path := range r.Paths(fn) {
			r.at(&path)
			for _, ev := range path.Events {
				if ev.Kind != EvReturn || ev.Depth != 0 {
					continue
				}
				lit := r.P.compositeOf(fn, ev.Results[0])
				ok := lit != nil
				if ok {
					fieldCanon := func(f string) string {
						v, vfn, _ := r.P.litFieldDeep(fn, lit, f, 0)
						return r.P.Canon(vfn, v)
					}
					unset := func(f string) bool {
						v, _, resolved := r.P.litFieldDeep(fn, lit, f, 0)
						return v == nil && resolved
					}
					for _, f := range []string{"participants", "entities", "moduleStates", "frameHandlers"} {
						if !strings.HasPrefix(fieldCanon(f), "make(") {
							ok = false
						}
					}
					ec := fieldCanon("entityComponents")
					ok = ok && fieldCanon("ID") == "param:#0" && strings.Contains(fieldCanon("SessionUUID"), "call:uuid.New()") &&
						(ec == "call:models.newEntityComponentStore()" || strings.HasPrefix(ec, "&lit:models.EntityComponentStore@")) &&
						unset("participantIDs") && unset("entityIDs")
				}
				r.CheckT("E7", fn.Name+":fresh", ok, fn.Body.Pos(), &path, "a new session starts with empty collections, its own component store and id generators, and a new UUID (nothing carried over from an earlier session with the same id)")
			}
		}
	}
}

// ruleFramePair (E6): the session's frame worker starts with the session, serves the registered
// callbacks under the registration lock, and stops exactly when the session is closed.
func ruleFramePair(r *Run) {
	if r.broken() {
		return
	}
	// the connection's frame callback is cancelled only as part of leaving a session: a request that is
	// refused (or any other handler) must not leave the participant in its session without a frame callback —
	// its pose and component updates would be coalesced and never flushed
	if stopField := r.P.LookupField(pkgWS, "RealtimeHandler", "stopFrameHandling"); stopField != nil {
		m := r.M()
		isLeave := func(fn *Func) bool {
			root := fn.root().origOrSelf()
			for _, lf := range m.Leave {
				if root == lf {
					return true
				}
			}
			// glue that acts only on behalf of the leave function
			any := false
			for nm := range r.attributed(root) {
				any = true
				g := r.P.FuncByName(nm)
				okG := false
				for _, lf := range m.Leave {
					if g == lf {
						okG = true
					}
				}
				if !okG {
					return false
				}
			}
			return any
		}
		n := 0
		for _, fn := range r.P.All {
			if fn.Pkg.PkgPath != pkgWS {
				continue
			}
			ast.Inspect(fn.Body, func(nd ast.Node) bool {
				call, ok := nd.(*ast.CallExpr)
				if !ok {
					return true
				}
				se, ok := ast.Unparen(call.Fun).(*ast.SelectorExpr)
				if !ok || r.P.selField(fn.Info(), se) != stopField {
					return true
				}
				n++
				r.Check("E6", fn.Name+":cancels-frames-outside-leave", isLeave(fn), call.Pos(),
					"%s cancels the connection's frame callback; only the leave function may (a participant that stays in its session after a refused or unrelated request keeps its callback, or its pending pose and component updates are never flushed)", fn.Name)
				return true
			})
		}
		// … and the stored cancel is only ever assigned, tested against nil or called on the spot: handed on as a
		// function value (to a context callback, a timer, a goroutine) it runs at another time, possibly twice, and
		// cancels whatever holds its slot by then
		for _, fn := range r.P.All {
			if fn.Pkg.PkgPath != pkgWS || fn.Body == nil || fn.Decl == nil {
				continue
			}
			pm := buildParents(fn.Decl)
			ast.Inspect(fn.Body, func(nd ast.Node) bool {
				se, ok := nd.(*ast.SelectorExpr)
				if !ok || r.P.selField(fn.Info(), se) != stopField {
					return true
				}
				okUse := false
				switch p := pm[se].(type) {
				case *ast.CallExpr:
					okUse = ast.Unparen(p.Fun) == ast.Expr(se)
				case *ast.AssignStmt:
					for _, l := range p.Lhs {
						if ast.Unparen(l) == ast.Expr(se) {
							okUse = true
						}
					}
				case *ast.BinaryExpr:
					okUse = p.Op == token.EQL || p.Op == token.NEQ
				}
				r.Check("E6", fn.Name+":frame-cancel-not-handed-on", okUse, se.Pos(),
					"%s hands the connection's stored frame cancel on as a function value: it is then run at another time (and possibly again), when its slot may belong to another participant, whose pose and component updates stop being flushed", fn.Name)
				return true
			})
		}
		r.Floor("E6", "calls of the stored frame cancel", n, 1)
		// the session's frame worker is stopped only where the session ends: by the store when it unregisters
		// the session, and by the leave function for a session it found empty. Anything else that can stop it
		// (a context callback, a timer, another handler) leaves members in a session whose pose and component
		// updates are never flushed again.
		if closeF := r.P.LookupFunc(pkgModels, "Session", "Close"); closeF != nil {
			storeRemove := r.modelFunc("models.(*SessionStore).Remove")
			nc := 0
			for _, fn := range r.P.All {
				if fn.Body == nil || fn.Lit != nil {
					continue
				}
				called := map[*ast.SelectorExpr]bool{}
				ast.Inspect(fn.Body, func(nd ast.Node) bool {
					if call, ok := nd.(*ast.CallExpr); ok {
						if se, ok := ast.Unparen(call.Fun).(*ast.SelectorExpr); ok {
							called[se] = true
						}
					}
					return true
				})
				ast.Inspect(fn.Body, func(nd ast.Node) bool {
					se, ok := nd.(*ast.SelectorExpr)
					if !ok || fn.Info().Uses[se.Sel] != types.Object(closeF) {
						return true
					}
					nc++
					where := fn.root().origOrSelf() == storeRemove || isLeave(fn)
					r.Check("E6", fn.Name+":session-closed-only-where-it-ends", where && called[se], se.Pos(),
						"%s stops the session's frame worker (Session.Close%s) outside the two places where a session ends (SessionStore.Remove, the leave function for an empty session): the members that are still in the session have their pose and component updates coalesced and never flushed", fn.Name, map[bool]string{true: "", false: " handed on as a function value"}[called[se]])
					return true
				})
			}
			r.Floor("E6", "sites that close a session", nc, 2)
		}
	}
	// how Close signals the worker: a send needs room in the channel, close(ch) does not
	signalsByClose := false
	if cf := r.modelFunc("models.(*Session).Close"); cf != nil {
		for _, path := range r.Paths(cf) {
			r.at(&path)
			for _, ev := range path.Events {
				if ev.Kind == EvCall && ev.Call != nil && len(ev.Call.Args) == 1 {
					if b, isB := ev.Callee.(*types.Builtin); isB && b.Name() == "close" && r.P.Canon(ev.Fn, ev.Call.Args[0]) == "recv.closeFrameChan" {
						signalsByClose = true
					}
				}
			}
		}
	}
	// NewSession: stop channel has room for the one stop signal
	if fn := r.modelFunc("models.NewSession"); fn != nil {
		ok := true
		n := 0
		for _, path := range r.Paths(fn) {
			r.at(&path)
			for _, ev := range path.Events {
				if ev.Kind != EvReturn || ev.Depth != 0 || len(ev.Results) != 1 {
					continue
				}
				n++
				good := false
				if lit := r.P.compositeOf(fn, ev.Results[0]); lit != nil {
					if v, vfn, _ := r.P.litFieldDeep(fn, lit, "closeFrameChan", 0); v != nil {
						if call, isCall := ast.Unparen(v).(*ast.CallExpr); isCall && len(call.Args) == 2 {
							if c, isC := intConstVal(vfn.Info(), call.Args[1]); isC && c >= 1 {
								good = true
							}
						}
						if call, isCall := ast.Unparen(v).(*ast.CallExpr); isCall && signalsByClose && len(call.Args) >= 1 {
							good = true // closed, never sent on: no room needed
						}
					}
				}
				ok = ok && good
			}
		}
		ok = ok && n > 0
		r.Check("E6", fn.Name+":stop-channel-buffered", ok, fn.Body.Pos(), "the frame worker's stop channel can hold the one stop signal even when the worker is busy or has not started")
	}
	// Close: under Once, stop the ticker and send the signal (plain send: never dropped)
	if fn := r.modelFunc("models.(*Session).Close"); fn != nil {
		r.Analysed(fn, 1)
		sent := 0
		for _, path := range r.Paths(fn) {
			r.at(&path)
			entered := false
			for _, ev := range path.Events {
				if ev.Kind == EvEnter {
					if f, ok := ev.Via.(*types.Func); ok && f.FullName() == "(*sync.Once).Do" {
						entered = true
					}
				}
			}
			if !entered {
				continue
			}
			s, stop := 0, 0
			for _, ev := range path.Events {
				if ev.Kind == EvChanOp && ev.Send && r.P.Canon(ev.Fn, ev.Chan) == "recv.closeFrameChan" {
					s++
					r.CheckT("E6", fn.Name+":signal-not-droppable", !ev.NonBlocking, ev.Pos, &path, "the stop signal is sent with a plain send (a select/default would drop it while the worker is dispatching a frame, and the worker of an ended session would run forever)")
				}
				if ev.Kind == EvCall && ev.Call != nil && len(ev.Call.Args) == 1 {
					if b, isB := ev.Callee.(*types.Builtin); isB && b.Name() == "close" && r.P.Canon(ev.Fn, ev.Call.Args[0]) == "recv.closeFrameChan" {
						s++ // closing the stop channel (once, under the Once) is a stop signal that cannot be dropped
					}
				}
				if ev.Kind == EvCall {
					if f, ok := ev.Callee.(*types.Func); ok && f.FullName() == "(*time.Ticker).Stop" {
						stop++
					}
				}
			}
			sent += s
			r.CheckT("E6", fn.Name+":stops", s == 1 && stop == 1, fn.Body.Pos(), &path, "closing a session stops its ticker and signals its worker, once")
		}
		r.Check("E6", fn.Name+":once", sent >= 1, fn.Body.Pos(), "Close signals the worker inside sync.Once")
	}
	// worker loop
	if fn := r.modelFunc("models.(*Session).StartDispatchFrames"); fn != nil {
		paths := r.Paths(fn)
		r.Analysed(fn, len(paths))
		ticks, exits := 0, 0
		for pi := range paths {
			path := &paths[pi]
			r.at(path)
			held := r.locksAlong(path, lockset{})
			// the worker function instance is the one that waits on the stop channel
			var worker *Func
			for _, ev := range path.Events {
				if ev.Kind == EvGuard && ev.GKind == GSelectCase {
					if cl, ok := ev.Stmt.(*ast.CommClause); ok && cl.Comm != nil {
						if es, ok := cl.Comm.(*ast.ExprStmt); ok {
							if u, ok := ast.Unparen(es.X).(*ast.UnaryExpr); ok && r.P.Canon(ev.Fn, u.X) == "recv.closeFrameChan" {
								worker = ev.Fn
							}
						}
					}
				}
			}
			for i, ev := range path.Events {
				if ev.Kind == EvReturn && worker != nil && ev.Fn == worker {
					// leaving the worker: only after the stop signal
					okExit := false
					for j := i - 1; j >= 0; j-- {
						pe := path.Events[j]
						if pe.Kind == EvChanOp && !pe.Send && pe.Fn == worker {
							okExit = r.P.Canon(pe.Fn, pe.Chan) == "recv.closeFrameChan"
							break
						}
					}
					exits++
					r.CheckT("E6", fn.Name+":exit-on-close-only", okExit, ev.Pos, path, "the frame worker ends only when the session's stop signal arrives")
				}
				if ev.Kind == EvGuard && ev.GKind == GRange && ev.Val {
					ticks++
					r.CheckT("E6", fn.Name+":serves-registered", r.P.Canon(ev.Fn, ev.Over) == "recv.frameHandlers" && held[i]["Session.frameMutex"] != "", ev.Pos, path,
						"on each tick the worker walks the session's current frame-callback table itself, holding the registration lock (a copy or a cache would miss a newly joined member or call one that has left)")
					for j := i + 1; j < len(path.Events); j++ {
						pe := path.Events[j]
						if pe.Kind == EvGuard && pe.GKind == GRange {
							break
						}
						if pe.Kind == EvCall && pe.Call != nil && r.P.Canon(pe.Fn, pe.Call.Fun) == "rangeval(recv.frameHandlers)" {
							r.CheckT("E6", fn.Name+":calls-under-lock", held[j]["Session.frameMutex"] != "", pe.Pos, path,
								"a frame callback runs while the registration lock is held, so unregistering (on leave) waits for the frame in progress and no callback runs after its connection is gone")
						}
					}
				}
			}
			r.loopsComplete("E6", fn, path)
		}
		r.Check("E6", fn.Name+":shape", ticks >= 1 && exits >= 1, fn.Body.Pos(), "the worker has a tick arm and a stop arm (%d, %d)", ticks, exits)
	}
	// started with the session: go StartDispatchFrames right after a successful registry Add, for the created session
	if jf := r.modelFunc("websocket.(*RealtimeHandler).HandleParticipantJoin"); jf != nil {
		add := r.P.LookupFunc(pkgModels, "SessionStore", "Add")
		sdf := r.P.LookupFunc(pkgModels, "Session", "StartDispatchFrames")
		created, started := 0, 0
		for _, path := range r.Paths(jf) {
			r.at(&path)
			iAdd := idxOfCall(&path, add, 0)
			goIdx := -1
			for i, ev := range path.Events {
				if ev.Kind == EvGo && ev.Callee == sdf {
					goIdx = i
					r.CheckT("E6", jf.Name+":worker-for-created-session", iAdd >= 0 && iAdd < i && r.P.Canon(ev.Fn, ev.Recv) == r.P.Canon(path.Events[max0(iAdd)].Fn, path.Events[max0(iAdd)].Call.Args[1]), ev.Pos, &path,
						"a frame worker is started for exactly the session that was just created and registered")
				}
			}
			if iAdd >= 0 {
				created++
				if goIdx > iAdd {
					started++
				}
			}
		}
		r.Check("E6", jf.Name+":worker-started", created >= 1 && created == started, jf.Body.Pos(), "every path that creates a session starts its frame worker (%d of %d)", started, created)
		// registration of the connection's callback on join
		hf := r.P.LookupFunc(pkgModels, "Session", "HandleFrame")
		for _, path := range r.Paths(jf) {
			r.at(&path)
			iAddP := idxOfCall(&path, r.P.LookupFunc(pkgModels, "Session", "AddParticipant"), 0)
			if iAddP < 0 {
				continue
			}
			iHF := idxOfCall(&path, hf, 0)
			okReg := iHF >= 0
			if okReg {
				ev := path.Events[iHF]
				okReg = r.P.Canon(ev.Fn, ev.Call.Args[0]) == "param:#1" && r.isJoinLocalSession(ev.Fn, ev.Recv)
				stored := false
				for _, pe := range path.Events[iHF:] {
					if pe.Kind == EvAssign && len(pe.Lhs) == 1 && len(pe.Rhs) == 1 && r.P.Canon(pe.Fn, pe.Lhs[0]) == "recv.stopFrameHandling" {
						// the value the field holds when the handler returns (a later overwrite loses the function)
						stored = strings.Contains(r.P.Canon(pe.Fn, pe.Rhs[0]), "call:Session.HandleFrame(param:#1)")
					}
				}
				okReg = okReg && stored
			}
			r.CheckT("E6", jf.Name+":registers-frame-callback", okReg, jf.Body.Pos(), &path, "joining registers the connection's frame callback with the joined session and keeps the function that unregisters it")
		}
	}
	// HandleFrame: register under the lock; the returned cancel removes exactly that entry under the lock
	if fn := r.modelFunc("models.(*Session).HandleFrame"); fn != nil {
		r.Analysed(fn, 1)
		for _, path := range r.Paths(fn) {
			r.at(&path)
			held := r.locksAlong(&path, lockset{})
			okW := false
			slotKey := ""
			for _, op := range r.mapOps(fn, &path) {
				if op.Kind == "write" && op.Map == "recv.frameHandlers" && op.Val == "param:#0" && held[op.Idx]["Session.frameMutex"] == "W" {
					okW = true
					slotKey = op.Key
				}
			}
			r.CheckT("E6", fn.Name+":registers", okW, fn.Body.Pos(), &path, "HandleFrame enters the callback into the table under the registration lock")
			r.CheckT("E6", fn.Name+":fresh-slot", slotKey == "recv.frameHandlerIDs.call:SequentialIDGenerator.New()", fn.Body.Pos(), &path,
				"a callback is registered under a slot taken from the session's frame-handler id generator (%s): a slot derived from anything else (the table's size, say) can collide with a live registration and silently replace another member's callback", slotKey)
		}
		for _, lf := range r.litsUnder(fn) {
			for _, path := range r.Paths(lf) {
				r.at(&path)
				held := r.locksAlong(&path, lockset{})
				okD := false
				for _, op := range r.mapOps(lf, &path) {
					if op.Kind == "delete" && op.Map == "recv.frameHandlers" && held[op.Idx]["Session.frameMutex"] == "W" {
						okD = true
					}
				}
				r.CheckT("E6", fn.Name+":cancel-removes", okD, lf.Body.Pos(), &path, "the returned cancel function removes the callback under the registration lock")
			}
		}
	}
}

// ruleNoGlobalSessionData (J5): nothing a connection sends can travel between sessions through a
// package-level variable. Every package-level variable of the repository (test scaffolding aside)
// (a) has a type that cannot hold session data — no model type, module state, message or responder is
// reachable from it through fields, pointers, elements — and (b) is assigned only by its declaration or
// an init function.
// perConnectionObjects (J5, second clause): the objects that hold one connection's session binding — the
// realtime handler and the modules plugged into it — are built for each connection: the handler literal sits in
// a function literal (or in glue reached from one), not in main itself, and its module list is a literal built in
// that same function from freshly constructed modules. A list built once and captured (or kept in a package-level
// variable) makes every connection share the same module objects: their session, participant and state follow
// whichever connection joined last.
func (r *Run) perConnectionObjects() {
	rhT := r.P.LookupType(pkgWS, "RealtimeHandler")
	if rhT == nil {
		r.Undecide("J5", "type websocket.RealtimeHandler not found")
		return
	}
	cmdPkg := repoMod + "/cmd"
	funcs := append([]*Func{}, r.P.All...)
	for _, lf := range r.P.Lits {
		funcs = append(funcs, lf)
	}
	sort.Slice(funcs, func(i, j int) bool { return funcs[i].Name < funcs[j].Name })
	// the innermost function (declared or literal) of package cmd around a position
	innermost := func(pos token.Pos) *Func {
		var best *Func
		for _, f := range funcs {
			if f.Pkg.PkgPath != cmdPkg || f.Body == nil || pos < f.Body.Pos() || pos >= f.Body.End() {
				continue
			}
			if best == nil || (f.Body.Pos() >= best.Body.Pos() && f.Body.End() <= best.Body.End()) {
				best = f
			}
		}
		return best
	}
	takesConn := func(ft *ast.FuncType, info *types.Info) bool {
		if ft == nil || ft.Params == nil {
			return false
		}
		for _, fld := range ft.Params.List {
			if t := info.TypeOf(fld.Type); t != nil {
				if p, ok := t.(*types.Pointer); ok {
					if n, ok := p.Elem().(*types.Named); ok && n.Obj().Name() == "Conn" && n.Obj().Pkg() != nil && n.Obj().Pkg().Path() == "golang.org/x/net/websocket" {
						return true
					}
				}
			}
		}
		return false
	}
	// per-connection function: runs once per accepted connection — it is handed the connection, sits inside such
	// a function, or is only ever called from such functions
	memo := map[*Func]int{}
	var perConn func(f *Func, depth int) bool
	perConn = func(f *Func, depth int) bool {
		if f == nil || depth > 4 {
			return false
		}
		if v, ok := memo[f]; ok {
			return v == 1
		}
		memo[f] = 0
		res := false
		switch {
		case f.Lit != nil:
			res = takesConn(f.Lit.Type, f.Info()) || perConn(innermost(f.Lit.Pos()), depth+1)
		case f.Decl != nil && takesConn(f.Decl.Type, f.Info()):
			res = true
		case f.Obj != nil && f.Obj.Name() != "main" && f.Obj.Name() != "init":
			calls, all := 0, true
			for _, g := range funcs {
				if g.Pkg.PkgPath != cmdPkg || g.Body == nil {
					continue
				}
				ast.Inspect(g.Body, func(nd ast.Node) bool {
					if l, isLit := nd.(*ast.FuncLit); isLit && r.P.Lits[l] != g {
						return false
					}
					if c, ok := nd.(*ast.CallExpr); ok && calleeObj(g.Info(), c) == types.Object(f.Obj) {
						calls++
						if !perConn(g, depth+1) {
							all = false
						}
					}
					return true
				})
			}
			res = calls > 0 && all
		}
		if res {
			memo[f] = 1
		}
		return res
	}
	isCreation := func(x ast.Expr) bool {
		x = ast.Unparen(x)
		if u, ok := x.(*ast.UnaryExpr); ok && u.Op == token.AND {
			x = ast.Unparen(u.X)
		}
		switch v := x.(type) {
		case *ast.CompositeLit:
			return true
		case *ast.CallExpr:
			_ = v
			return true // make(…), new(…), a constructor
		}
		return false
	}
	n := 0
	for _, fn := range funcs {
		if fn.Pkg.PkgPath != cmdPkg || fn.Body == nil {
			continue
		}
		info := fn.Info()
		ast.Inspect(fn.Body, func(nd ast.Node) bool {
			if l, isLit := nd.(*ast.FuncLit); isLit && r.P.Lits[l] != fn {
				return false // judged as a function of its own
			}
			if call, isCall := nd.(*ast.CallExpr); isCall {
				// the receipt forwarder is started once for the process
				if g, isF := calleeObj(info, call).(*types.Func); isF && g.Name() == "HandleReceipts" && g.Pkg() != nil && g.Pkg().Path() == repoMod+"/receipt" {
					r.Check("J5", "cmd:receipt-forwarder-started-once", !perConn(fn, 0), call.Pos(),
						"the receipt forwarder is started in the per-connection function %s: it runs on that connection's terms, and receipts that were accepted but not yet forwarded are lost when the connection ends", fn.Name)
				}
			}
			cl, ok := nd.(*ast.CompositeLit)
			if !ok {
				return true
			}
			t := info.TypeOf(cl)
			if t == nil || !types.Identical(t, rhT.Type()) {
				return true
			}
			n++
			// (1) built per connection
			r.Check("J5", "cmd:handler-built-per-connection", perConn(fn, 0), cl.Pos(), "the realtime handler is built in %s, which does not run once per connection: all connections would share one handler", fn.Name)
			// (3) what all connections meet in is built once, outside the per-connection functions: the session
			// store (two connections find each other's session only in a common store) and the receipt queue (a queue
			// of its own per connection has a forwarder that ends with it, or none)
			for _, q := range []struct{ field, site, why string }{
				{"Sessions", "cmd:session-store-shared", "every connection has a store of its own and no two participants can meet in a session"},
				{"ReceiptChan", "cmd:receipt-queue-shared", "its forwarder lives and ends with that connection, and receipts it accepted are dropped when the client leaves"},
			} {
				v := litField(cl, q.field)
				if v == nil {
					continue
				}
				// &x: the object is the variable x, wherever its first value came from
				if u, isU := ast.Unparen(v).(*ast.UnaryExpr); isU && u.Op == token.AND {
					if id, isID := ast.Unparen(u.X).(*ast.Ident); isID {
						if obj := info.Uses[id]; obj != nil {
							holder := innermost(obj.Pos())
							r.Check("J5", q.site, !perConn(holder, 0), v.Pos(),
								"what is handed to a connection's handler as %s (%s) is a variable of the per-connection function %s: %s", q.field, r.P.exprStr(v), fnName(holder), q.why)
							continue
						}
					}
				}
				o, ofn := r.originOf(fn, v, 0)
				if o == nil || ofn == nil || !isCreation(o) {
					continue // where it comes from is not in sight; nothing is claimed about it
				}
				holder := innermost(o.Pos())
				r.Check("J5", q.site, !perConn(holder, 0), v.Pos(),
					"what is handed to a connection's handler as %s (%s) is created in the per-connection function %s: %s", q.field, r.P.exprStr(o), fnName(holder), q.why)
			}
			// (2) its modules are built per connection too, each one a fresh object
			mv := litField(cl, "Modules")
			if mv == nil {
				return true
			}
			o, ofn := r.originOf(fn, mv, 0)
			fresh := false
			if ml, isLit := ast.Unparen(o).(*ast.CompositeLit); isLit && ofn != nil && perConn(innermost(ml.Pos()), 0) {
				fresh = true
				for _, el := range ml.Elts {
					switch e := ast.Unparen(el).(type) {
					case *ast.UnaryExpr:
						if _, isCL := ast.Unparen(e.X).(*ast.CompositeLit); !isCL || e.Op != token.AND {
							fresh = false
						}
					case *ast.CallExpr, *ast.CompositeLit:
					default:
						fresh = false
					}
				}
			}
			r.Check("J5", "cmd:modules-built-per-connection", fresh, mv.Pos(),
				"the modules handed to a connection's handler are not constructed per connection (%s): a module list built once and shared makes every connection use the same module objects, whose session and state follow the connection that joined last", r.P.exprStr(mv))
			return true
		})
	}
	r.Floor("J5", "realtime handler constructions in package cmd", n, 1)
}

func fnName(f *Func) string {
	if f == nil {
		return "?"
	}
	return f.Name
}

func ruleNoGlobalSessionData(r *Run) {
	if r.broken() {
		return
	}
	r.perConnectionObjects()
	carrier := func(t types.Type) string {
		seen := map[types.Type]bool{}
		var visit func(t types.Type, depth int) string
		visit = func(t types.Type, depth int) string {
			if t == nil || depth > 6 || seen[t] {
				return ""
			}
			seen[t] = true
			if n, ok := t.(*types.Named); ok {
				if n.Obj().Pkg() != nil {
					pp := n.Obj().Pkg().Path()
					_, isStruct := n.Underlying().(*types.Struct)
					_, isIface := n.Underlying().(*types.Interface)
					holdsData := isStruct || isIface // enums, function types and the like carry no session data
					switch {
					case (pp == pkgModels || strings.HasPrefix(pp, repoMod+"/modules")) && holdsData:
						return shortPkg(pp) + "." + n.Obj().Name()
					case pp == pkgHCWS && (n.Obj().Name() == "Msg" || n.Obj().Name() == "ResponseSender" || n.Obj().Name() == "ProtoMsg"):
						return "websocket." + n.Obj().Name()
					case strings.Contains(pp, "/messages/") && holdsData:
						return shortPkg(pp) + "." + n.Obj().Name()
					case !isRepoPkg(n.Obj().Pkg()):
						return "" // foreign types (metrics vectors, regexps, …) are not followed
					}
				}
				return visit(n.Underlying(), depth+1)
			}
			switch u := t.(type) {
			case *types.Pointer:
				return visit(u.Elem(), depth+1)
			case *types.Slice:
				return visit(u.Elem(), depth+1)
			case *types.Array:
				return visit(u.Elem(), depth+1)
			case *types.Chan:
				return visit(u.Elem(), depth+1)
			case *types.Map:
				if c := visit(u.Key(), depth+1); c != "" {
					return c
				}
				return visit(u.Elem(), depth+1)
			case *types.Struct:
				for i := 0; i < u.NumFields(); i++ {
					if c := visit(u.Field(i).Type(), depth+1); c != "" {
						return c
					}
				}
			case *types.Interface:
				if u.NumMethods() == 0 {
					return "interface{} (can hold anything)"
				}
			}
			return ""
		}
		return visit(t, 0)
	}
	// assignments to package-level variables outside init
	written := map[*types.Var]token.Pos{}
	for _, fn := range r.P.All {
		if fn.Obj != nil && fn.Obj.Name() == "init" && fn.Recv == nil {
			continue
		}
		if strings.HasSuffix(fn.Pkg.Fset.Position(fn.Body.Pos()).Filename, "websocket/testing.go") {
			continue
		}
		info := fn.Info()
		note := func(x ast.Expr) {
			for {
				switch v := ast.Unparen(x).(type) {
				case *ast.SelectorExpr:
					if id, ok := ast.Unparen(v.X).(*ast.Ident); ok {
						if _, isPkg := info.Uses[id].(*types.PkgName); isPkg {
							if gv, ok := info.Uses[v.Sel].(*types.Var); ok && gv.Parent() == gv.Pkg().Scope() && isRepoPkg(gv.Pkg()) {
								written[gv] = x.Pos()
							}
							return
						}
					}
					x = v.X
				case *ast.IndexExpr:
					x = v.X
				case *ast.StarExpr:
					x = v.X
				case *ast.Ident:
					if gv, ok := info.Uses[v].(*types.Var); ok && gv.Pkg() != nil && gv.Parent() == gv.Pkg().Scope() && isRepoPkg(gv.Pkg()) {
						written[gv] = x.Pos()
					}
					return
				default:
					return
				}
			}
		}
		ast.Inspect(fn.Body, func(n ast.Node) bool {
			switch st := n.(type) {
			case *ast.AssignStmt:
				if st.Tok != token.DEFINE {
					for _, l := range st.Lhs {
						note(l)
					}
				}
			case *ast.IncDecStmt:
				note(st.X)
			case *ast.UnaryExpr:
				if st.Op == token.AND {
					// address taken: may be written through the pointer
					if id, ok := ast.Unparen(st.X).(*ast.Ident); ok {
						if gv, ok := info.Uses[id].(*types.Var); ok && gv.Pkg() != nil && gv.Parent() == gv.Pkg().Scope() && isRepoPkg(gv.Pkg()) && carrier(gv.Type()) != "" {
							written[gv] = st.Pos()
						}
					}
				}
			}
			return true
		})
	}
	n := 0
	for _, pk := range r.P.Pkgs {
		if pk.Types == nil || !isRepoPkg(pk.Types) {
			continue
		}
		scope := pk.Types.Scope()
		for _, name := range scope.Names() {
			gv, ok := scope.Lookup(name).(*types.Var)
			if !ok {
				continue
			}
			pos := pk.Fset.Position(gv.Pos())
			if strings.HasSuffix(pos.Filename, "_test.go") || strings.HasSuffix(pos.Filename, "websocket/testing.go") {
				continue
			}
			n++
			site := shortPkg(pk.Types.Path()) + "." + name
			c := carrier(gv.Type())
			if _, isW := written[gv]; c != "" && !isW && r.constantFlatValue(gv) {
				c = "" // a plain value (numbers only) that nothing writes after its declaration: a constant in all but name
			}
			r.Check("J5", site+":type", c == "", gv.Pos(), "package-level variable %s can hold session data (%s reachable from its type %s): state shared by every session of the process", site, c, gv.Type())
			wpos, w := written[gv]
			if pk.Types.Name() == "main" {
				continue // flags and configuration of the process, set once at start-up in main
			}
			_ = wpos
			r.Check("J5", site+":assigned-once", !w, gv.Pos(), "package-level variable %s is assigned outside its declaration / init: it is state shared by every session of the process", site)
		}
	}
	r.Floor("J5", "package-level variables of the repository", n, 10)
}

// ruleMembershipContracts (S-Members): the four primitives that change who is in a session and what it
// holds do exactly that, on every path: AddParticipant stores the participant handed in under its own id and
// touches no other member; RemoveParticipant deletes that id and nothing else; AddEntity / RemoveEntity alike
// for the entity table; ParticipantCount is the size of the member table; EntityByID is a plain lookup of the
// id given. Nobody else writes the two tables.
func ruleMembershipContracts(r *Run) {
	if r.broken() {
		return
	}
	type spec struct {
		fn, table, kind string
	}
	n, nw := 0, 0
	for _, q := range []spec{
		{"models.(*Session).AddParticipant", "recv.participants", "write"},
		{"models.(*Session).RemoveParticipant", "recv.participants", "delete"},
		{"models.(*Session).AddEntity", "recv.entities", "write"},
		{"models.(*Session).RemoveEntity", "recv.entities", "delete"},
	} {
		fn := r.modelFunc(q.fn)
		if fn == nil {
			continue
		}
		paths := r.Paths(fn)
		r.Analysed(fn, len(paths))
		for pi := range paths {
			path := &paths[pi]
			r.at(path)
			ops := r.mapOps(fn, path)
			var own []mapOp
			for _, op := range ops {
				if op.Map == "recv.participants" || op.Map == "recv.entities" || strings.HasPrefix(op.Map, "recv.participants[") || strings.HasPrefix(op.Map, "recv.entities[") {
					own = append(own, op)
				}
			}
			n++
			ok := len(own) == 1 && own[0].Kind == q.kind && own[0].Map == q.table && own[0].Key == "param:#0.ID" && !own[0].Loop
			if ok && q.kind == "write" {
				ok = own[0].Val == "param:#0"
			}
			what := "stores exactly the object handed in under its own id"
			if q.kind == "delete" {
				what = "removes exactly the id of the object handed in"
			}
			r.CheckT("S-Members", fn.Name+":exact", ok, fn.Body.Pos(), path,
				"%s %s and touches no other entry of the session's member / entity tables (operations on this path: %d): membership decides who receives relays and who is handed to newcomers", shortFuncName(fn.Obj), what, len(own))
		}
	}
	// who may write the two tables
	allowed := map[string]map[string]bool{
		"participants": {"models.(*Session).AddParticipant": true, "models.(*Session).RemoveParticipant": true, "models.NewSession": true},
		"entities":     {"models.(*Session).AddEntity": true, "models.(*Session).RemoveEntity": true, "models.NewSession": true},
	}
	for field, who := range allowed {
		fv := r.P.LookupField(pkgModels, "Session", field)
		if fv == nil {
			r.Undecide("anchors", "ruleMembershipContracts: field Session.%s not found", field)
			continue
		}
		for _, fn := range r.P.All {
			if fn.Pkg.PkgPath != pkgModels || fn.Obj == nil {
				continue
			}
			if r.writesField(fn, pkgModels, "Session", field) || r.mutatesThroughMethod(fn, fv) {
				nw++
				nm := fn.Name
				okW := who[nm]
				if !okW {
					// glue that acts only for the allowed writers (a helper split off AddParticipant)
					okW = true
					any := false
					for a := range r.attributed(fn) {
						any = true
						if !who[a] {
							okW = false
						}
					}
					okW = okW && any
				}
				r.Check("S-Members", "writer["+field+"]:"+nm, okW, fn.Body.Pos(), "Session.%s is written by %s; only the add / remove primitive of that table (and the constructor) may change it", field, nm)
			}
		}
	}
	r.Floor("S-Members", "paths of the membership primitives", n, 4)
	r.Floor("S-Members", "functions that write the member / entity tables", nw, 4)
}

// mutatesThroughMethod: fn calls, on the field itself (s.participants.put(p)), a method of a defined container
// type that assigns or deletes elements of its receiver.
func (r *Run) mutatesThroughMethod(fn *Func, fv *types.Var) bool {
	found := false
	info := fn.Info()
	ast.Inspect(fn.Body, func(nd ast.Node) bool {
		call, ok := nd.(*ast.CallExpr)
		if !ok || found {
			return !found
		}
		se, ok := ast.Unparen(call.Fun).(*ast.SelectorExpr)
		if !ok {
			return true
		}
		rx, ok := ast.Unparen(se.X).(*ast.SelectorExpr)
		if !ok || info.Uses[rx.Sel] != types.Object(fv) {
			return true
		}
		m, _ := calleeObj(info, call).(*types.Func)
		md := r.P.Funcs[m]
		if md == nil || md.Body == nil || md.Recv == nil {
			return true
		}
		ast.Inspect(md.Body, func(k ast.Node) bool {
			isRecv := func(x ast.Expr) bool {
				id, ok := ast.Unparen(x).(*ast.Ident)
				return ok && md.Info().Uses[id] == md.Recv
			}
			switch v := k.(type) {
			case *ast.AssignStmt:
				for _, l := range v.Lhs {
					if ix, ok := ast.Unparen(l).(*ast.IndexExpr); ok && isRecv(ix.X) {
						found = true
					}
				}
			case *ast.CallExpr:
				if b, ok := calleeObj(md.Info(), v).(*types.Builtin); ok && (b.Name() == "delete" || b.Name() == "clear") && len(v.Args) >= 1 && isRecv(v.Args[0]) {
					found = true
				}
			}
			return true
		})
		return true
	})
	return found
}

// constantFlatValue: the package-level variable is a struct value made of numbers, booleans and strings only
// (no pointer, map, slice, channel, function or interface anywhere inside), and no method with a pointer receiver
// that writes its receiver is ever called on it. With no assignment and no address taken (checked by the caller)
// it keeps the value of its declaration for ever.
func (r *Run) constantFlatValue(gv *types.Var) bool {
	var flat func(t types.Type, depth int) bool
	flat = func(t types.Type, depth int) bool {
		if depth > 6 {
			return false
		}
		switch u := t.Underlying().(type) {
		case *types.Basic:
			return u.Kind() != types.UnsafePointer
		case *types.Struct:
			for i := 0; i < u.NumFields(); i++ {
				if !flat(u.Field(i).Type(), depth+1) {
					return false
				}
			}
			return true
		case *types.Array:
			return flat(u.Elem(), depth+1)
		}
		return false
	}
	if _, isStruct := gv.Type().Underlying().(*types.Struct); !isStruct || !flat(gv.Type(), 0) {
		return false
	}
	ok := true
	for _, fn := range r.P.All {
		if fn.Body == nil || !ok {
			continue
		}
		info := fn.Info()
		ast.Inspect(fn.Body, func(nd ast.Node) bool {
			call, isCall := nd.(*ast.CallExpr)
			if !isCall {
				return ok
			}
			se, isSel := ast.Unparen(call.Fun).(*ast.SelectorExpr)
			if !isSel {
				return ok
			}
			id, isID := ast.Unparen(se.X).(*ast.Ident)
			if !isID || info.Uses[id] != types.Object(gv) {
				return ok
			}
			m, _ := calleeObj(info, call).(*types.Func)
			if m == nil {
				ok = false
				return false
			}
			if _, ptr := m.Type().(*types.Signature).Recv().Type().(*types.Pointer); ptr {
				if md := r.P.Funcs[m]; md == nil || assignsOwnFields(md) {
					ok = false
				}
			}
			return ok
		})
	}
	return ok
}
