package main

import (
	"fmt"
	"go/ast"
	"go/token"
	"go/types"
	"regexp"
	"sort"
	"strings"
)

// ---------------------------------------------------------------------------------------------
// Lock identities and path locksets

type lockOp struct {
	Key  string // "Type.field" or "local:name"
	Op   string // "Lock", "Unlock", "RLock", "RUnlock"
	Expr ast.Expr
}

func (r *Run) lockOpOf(ev Event) *lockOp {
	if ev.Kind != EvCall && ev.Kind != EvDefer {
		return nil
	}
	f, ok := ev.Callee.(*types.Func)
	if !ok || f.Pkg() == nil || f.Pkg().Path() != "sync" {
		return nil
	}
	switch f.Name() {
	case "Lock", "Unlock", "RLock", "RUnlock":
	default:
		return nil
	}
	sig := f.Type().(*types.Signature)
	if sig.Recv() == nil {
		return nil
	}
	recv := ev.Recv
	if recv == nil && ev.Call != nil {
		recv = recvExpr(ev.Call)
	}
	rn, ok := derefNamedT(sig.Recv().Type())
	if ok && rn.Obj().Name() == "Locker" {
		// l.Lock() on a sync.Locker handed to a lock helper: the caller's &x.mu or x.mu.RLocker()
		fn, x := resolveBound(ev.Fn, recv)
		op := f.Name()
		x = ast.Unparen(x)
		if call, isCall := x.(*ast.CallExpr); isCall {
			if g, _ := calleeObj(fn.Info(), call).(*types.Func); g != nil && g.FullName() == "(*sync.RWMutex).RLocker" {
				x = recvExpr(call)
				op = "R" + op
			} else {
				return nil
			}
		}
		if u, isU := ast.Unparen(x).(*ast.UnaryExpr); isU && u.Op == token.AND {
			x = u.X
		}
		if x == nil {
			return nil
		}
		if id, isID := ast.Unparen(x).(*ast.Ident); isID {
			if v, isVar := fn.Info().Uses[id].(*types.Var); isVar && isParamOf(fn, v) {
				// the helper on its own, outside any call: which lock it takes is decided where it is called
				return nil
			}
		}
		return &lockOp{Key: r.lockKey(fn, x), Op: op, Expr: x}
	}
	if !ok || (rn.Obj().Name() != "Mutex" && rn.Obj().Name() != "RWMutex") {
		return nil
	}
	return &lockOp{Key: r.lockKey(ev.Fn, recv), Op: f.Name(), Expr: recv}
}

func (r *Run) lockKey(fn *Func, x ast.Expr) string {
	if x == nil {
		return "?"
	}
	if se, ok := ast.Unparen(x).(*ast.SelectorExpr); ok {
		if sel, ok := fn.Info().Selections[se]; ok && sel.Kind() == types.FieldVal {
			if nt, ok := derefNamedT(sel.Recv()); ok {
				return r.P.FieldKey(nt, sel.Obj().(*types.Var))
			}
		}
	}
	return "local:" + r.P.Canon(fn, x)
}

type lockset map[string]string // key -> "W" | "R"

func (l lockset) clone() lockset {
	out := lockset{}
	for k, v := range l {
		out[k] = v
	}
	return out
}

func (l lockset) String() string {
	var ks []string
	for k, v := range l {
		ks = append(ks, k+"("+v+")")
	}
	sort.Strings(ks)
	return "{" + strings.Join(ks, ",") + "}"
}

// locksAlong returns, for every event index of the path, the locks held just before the event.
func (r *Run) locksAlong(path *Path, initial lockset) []lockset {
	cur := initial.clone()
	out := make([]lockset, len(path.Events))
	// deferred unlocks run when the function (or closure) that registered them returns: for a
	// looked-into helper or an inlined closure that is the end of its bracket; for the function
	// under analysis itself, the end of the path
	var frames [][]string
	for i, ev := range path.Events {
		out[i] = cur.clone()
		switch ev.Kind {
		case EvEnter:
			frames = append(frames, nil)
			continue
		case EvExit:
			if n := len(frames); n > 0 {
				for _, k := range frames[n-1] {
					delete(cur, k)
				}
				frames = frames[:n-1]
			}
			continue
		case EvDefer:
			if op := r.lockOpOf(ev); op != nil && (op.Op == "Unlock" || op.Op == "RUnlock") {
				if n := len(frames); n > 0 {
					frames[n-1] = append(frames[n-1], op.Key)
				}
			}
			continue
		}
		if op := r.lockOpOf(ev); op != nil {
			switch op.Op {
			case "Lock":
				cur[op.Key] = "W"
			case "RLock":
				if cur[op.Key] == "" {
					cur[op.Key] = "R"
				}
			case "Unlock", "RUnlock":
				delete(cur, op.Key)
			}
		}
	}
	return out
}

// ---------------------------------------------------------------------------------------------
// Field accesses

type fieldAccess struct {
	Field *types.Var
	Owner string // struct type name
	Write bool
	Held  lockset
	Fn    *Func // declared function (root) in which the access happens
	In    *Func // function or literal containing the node
	Pos   token.Pos
	Fresh bool   // receiver is an object allocated in this function and not yet published
	Base  string // canonical base expression
}

// sharedStructs: struct types of the repository that contain a sync.Mutex / sync.RWMutex field.
func (r *Run) structsWithMutex() map[*types.Named][]*types.Var {
	out := map[*types.Named][]*types.Var{}
	for _, pk := range r.P.Pkgs {
		sc := pk.Types.Scope()
		for _, nm := range sc.Names() {
			tn, ok := sc.Lookup(nm).(*types.TypeName)
			if !ok {
				continue
			}
			n, ok := tn.Type().(*types.Named)
			if !ok {
				continue
			}
			st, ok := n.Underlying().(*types.Struct)
			if !ok {
				continue
			}
			for i := 0; i < st.NumFields(); i++ {
				if isSyncType(st.Field(i).Type(), "Mutex", "RWMutex") {
					out[n] = append(out[n], st.Field(i))
				}
			}
		}
	}
	return out
}

func isSyncType(t types.Type, names ...string) bool {
	n, ok := derefNamedT(t)
	if !ok || n.Obj().Pkg() == nil || n.Obj().Pkg().Path() != "sync" {
		return false
	}
	for _, nm := range names {
		if n.Obj().Name() == nm {
			return true
		}
	}
	return false
}

// collectAccesses walks the expressions of every event of a path and records field selections on
// repository struct types, with the lockset held at that event.
func (r *Run) collectAccesses(root *Func, path *Path, held []lockset, sink func(fieldAccess)) {
	for i, ev := range path.Events {
		info := ev.Fn.Info()
		rec := func(x ast.Expr, write bool) {
			r.walkFields(ev.Fn, info, x, write, func(se *ast.SelectorExpr, fv *types.Var, owner *types.Named, w bool) {
				base := r.P.Canon(ev.Fn, se.X)
				sink(fieldAccess{Field: fv, Owner: r.P.OwnerName(owner), Write: w, Held: held[i], Fn: root, In: ev.Fn, Pos: se.Sel.Pos(),
					Fresh: strings.HasPrefix(base, "&lit:") || strings.HasPrefix(base, "lit:"), Base: base})
			})
		}
		switch ev.Kind {
		case EvAssign:
			for _, l := range ev.Lhs {
				rec(l, true)
			}
			for _, x := range ev.Rhs {
				rec(x, false)
			}
		case EvDelete:
			rec(ev.Call.Args[0], true)
			rec(ev.Call.Args[1], false)
		case EvCall, EvGo, EvDefer:
			if ev.Call != nil {
				for _, a := range ev.Call.Args {
					if _, isLit := ast.Unparen(a).(*ast.FuncLit); !isLit {
						recShallow(a, func(x ast.Expr) { rec(x, false) })
					}
				}
				if se, ok := ast.Unparen(ev.Call.Fun).(*ast.SelectorExpr); ok {
					recShallow(se.X, func(x ast.Expr) { rec(x, false) })
				}
			}
		case EvGuard:
			if ev.GKind == GRange {
				if ev.Over != nil {
					rec(ev.Over, false)
				}
			} else if ev.Cond != nil {
				recShallow(ev.Cond, func(x ast.Expr) { rec(x, false) })
			}
			if ev.Tag != nil {
				recShallow(ev.Tag, func(x ast.Expr) { rec(x, false) })
			}
		case EvReturn:
			for _, x := range ev.Results {
				recShallow(x, func(x ast.Expr) { rec(x, false) })
			}
		case EvChanOp:
			rec(ev.Chan, false)
		}
	}
}

// recShallow visits an expression but not nested calls' arguments (they are their own events).
func recShallow(x ast.Expr, f func(ast.Expr)) {
	if x == nil {
		return
	}
	switch v := ast.Unparen(x).(type) {
	case *ast.CallExpr:
		if se, ok := ast.Unparen(v.Fun).(*ast.SelectorExpr); ok {
			recShallow(se.X, f)
		}
		return
	case *ast.FuncLit:
		return
	case *ast.BinaryExpr:
		recShallow(v.X, f)
		recShallow(v.Y, f)
		return
	case *ast.UnaryExpr:
		recShallow(v.X, f)
		return
	case *ast.CompositeLit:
		for _, el := range v.Elts {
			if kv, ok := el.(*ast.KeyValueExpr); ok {
				recShallow(kv.Value, f)
			} else {
				recShallow(el, f)
			}
		}
		return
	}
	f(x)
}

// walkFields reports the field selections in x. For a write target the outermost selected field
// (possibly under index expressions) is the written one; everything else is read.
func (r *Run) walkFields(fn *Func, info *types.Info, x ast.Expr, write bool, f func(*ast.SelectorExpr, *types.Var, *types.Named, bool)) {
	x = ast.Unparen(x)
	switch v := x.(type) {
	case *ast.Ident:
		// alias: a single-assignment local that holds a map / slice / pointer read from a field keeps
		// denoting that field's storage (counter := h.counter; delete(counter, k) writes h.counter)
		if obj := info.Uses[v]; obj != nil {
			if _, isVar := obj.(*types.Var); isVar {
				switch obj.Type().Underlying().(type) {
				case *types.Map, *types.Slice, *types.Pointer:
					ds, ok := fn.Defs().singleDef(obj)
					if ok && ds.multi {
						// inner, ok := recv.f[k]: the first result is the inner container
						if _, isIdx := ast.Unparen(ds.rhs).(*ast.IndexExpr); !isIdx || ds.idx != 0 {
							ok = false
						}
					}
					if ok && ds.kind == "assign" && ds.rhs != nil {
						// the field itself, or an inner container below it (m := recv.f[k]: m is the inner map)
						base := ast.Unparen(ds.rhs)
						for {
							if ix, ok := base.(*ast.IndexExpr); ok {
								base = ast.Unparen(ix.X)
								continue
							}
							if sl, ok := base.(*ast.SliceExpr); ok {
								base = ast.Unparen(sl.X)
								continue
							}
							break
						}
						if se, ok := base.(*ast.SelectorExpr); ok {
							if sel, ok := info.Selections[se]; ok && sel.Kind() == types.FieldVal {
								r.walkFields(fn, info, se, write, f)
							}
						}
					}
				}
			}
		}
	case *ast.SelectorExpr:
		if fv, ok := r.P.synthSel[v]; ok {
			if tv, ok := info.Types[v.X]; ok {
				if owner, ok := derefNamedT(tv.Type); ok && isRepoPkg(owner.Obj().Pkg()) {
					f(v, fv, owner, write)
				}
			}
		}
		if sel, ok := info.Selections[v]; ok && sel.Kind() == types.FieldVal {
			if fv, ok := sel.Obj().(*types.Var); ok {
				if owner, ok := derefNamedT(sel.Recv()); ok && isRepoPkg(owner.Obj().Pkg()) {
					// embedded promotions: attribute to the declaring struct when possible
					f(v, fv, owner, write)
				}
			}
		}
		r.walkFields(fn, info, v.X, false, f)
	case *ast.IndexExpr:
		r.walkFields(fn, info, v.X, write, f)
		r.walkFields(fn, info, v.Index, false, f)
	case *ast.StarExpr:
		r.walkFields(fn, info, v.X, write, f)
	case *ast.UnaryExpr:
		r.walkFields(fn, info, v.X, false, f)
	case *ast.BinaryExpr:
		r.walkFields(fn, info, v.X, false, f)
		r.walkFields(fn, info, v.Y, false, f)
	case *ast.CallExpr:
		// only the receiver chain; arguments are separate events when they are calls
		if se, ok := ast.Unparen(v.Fun).(*ast.SelectorExpr); ok {
			r.walkFields(fn, info, se.X, false, f)
		}
		for _, a := range v.Args {
			if _, isLit := ast.Unparen(a).(*ast.FuncLit); !isLit {
				r.walkFields(fn, info, a, false, f)
			}
		}
	case *ast.SliceExpr:
		r.walkFields(fn, info, v.X, write, f)
	case *ast.TypeAssertExpr:
		r.walkFields(fn, info, v.X, false, f)
	case *ast.CompositeLit:
		for _, el := range v.Elts {
			if kv, ok := el.(*ast.KeyValueExpr); ok {
				r.walkFields(fn, info, kv.Value, false, f)
			} else {
				r.walkFields(fn, info, el, false, f)
			}
		}
	}
}

// entryLocks: locks held at every call site of fn (intersection over all resolved call sites,
// callers' own entry locks included). Functions without callers in the program start with none.
func (r *Run) entryLocks(fn *Func) lockset {
	if r.entryMemo == nil {
		r.entryMemo = map[*Func]lockset{}
		r.callSites = map[*Func][]callSite{}
		r.litSites = map[*Func][]callSite{}
		d := r.Deep()
		if d != nil {
			funcs := append(append([]*Func{}, r.P.All...), r.P.Ext...)
			// literals are callers of their own only when they are handed to an iterator helper (see
			// callsParamOnly): those are found while their outer functions are walked and are walked next
			done := map[*Func]bool{}
			for round := 0; round < 4 && len(funcs) > 0; round++ {
				pending := funcs
				funcs = nil
				for _, caller := range pending {
					if done[caller] {
						continue
					}
					done[caller] = true
					r.collectCallSites(d, caller)
				}
				var lits []*Func
				for lf := range r.litSites {
					if !done[lf] {
						lits = append(lits, lf)
					}
				}
				sort.Slice(lits, func(i, j int) bool { return lits[i].Name < lits[j].Name })
				funcs = lits
			}
		}
	}
	if l, ok := r.entryMemo[fn]; ok {
		return l
	}
	r.entryMemo[fn] = lockset{} // recursion guard: assume nothing
	sites := r.callSites[fn]
	if fn.Lit != nil {
		// a literal runs only inside the calls it is handed to (see callsParamOnly); the places where such a
		// function calls its parameter add nothing
		sites = r.litSites[fn]
	}
	if len(sites) == 0 {
		return lockset{}
	}
	var acc lockset
	for _, s := range sites {
		cur := s.held.clone()
		from := s.caller.root()
		if s.caller.Lit != nil && len(r.litSites[s.caller]) > 0 {
			from = s.caller // a literal that runs inside a call (see callsParamOnly): its own entry locks
		}
		for k, v := range r.entryLocks(from) {
			if cur[k] != "W" {
				cur[k] = v
			}
		}
		if acc == nil {
			acc = cur
			continue
		}
		for k, v := range acc {
			cv, ok := cur[k]
			if !ok {
				delete(acc, k)
			} else if v == "W" && cv == "R" {
				acc[k] = "R"
			}
		}
	}
	if acc == nil {
		acc = lockset{}
	}
	r.entryMemo[fn] = acc
	return acc
}

// callsParamOnly: g uses its k-th parameter (a function) only by calling it, has no go / defer statement and
// no function literal: whatever is handed in runs during the call to g, on the caller's goroutine.
func callsParamOnly(g *Func, k int) bool {
	if g == nil || g.Body == nil || g.Type == nil || g.Type.Params == nil {
		return false
	}
	var param types.Object
	idx := 0
	for _, f := range g.Type.Params.List {
		for _, nm := range f.Names {
			if idx == k {
				param = g.Info().Defs[nm]
			}
			idx++
		}
	}
	if param == nil {
		return false
	}
	if _, isFunc := param.Type().Underlying().(*types.Signature); !isFunc {
		return false
	}
	ok := true
	calledPos := map[token.Pos]bool{}
	ast.Inspect(g.Body, func(n ast.Node) bool {
		switch v := n.(type) {
		case *ast.GoStmt, *ast.DeferStmt, *ast.FuncLit:
			ok = false
		case *ast.CallExpr:
			if id, isID := ast.Unparen(v.Fun).(*ast.Ident); isID && g.Info().Uses[id] == param {
				calledPos[id.Pos()] = true
			}
		}
		return ok
	})
	if !ok {
		return false
	}
	ast.Inspect(g.Body, func(n ast.Node) bool {
		if id, isID := n.(*ast.Ident); isID && g.Info().Uses[id] == param && !calledPos[id.Pos()] {
			ok = false
		}
		return ok
	})
	return ok
}

// collectCallSites records, for every call on the paths of caller, the locks held there.
func (r *Run) collectCallSites(d *Deep, caller *Func) {
	var cpaths []Path
	if !hasLockOps(caller) && len(r.E.Paths(caller)) > 64 {
		cpaths = []Path{*r.flatPath(caller)}
	} else {
		cpaths = r.Paths(caller)
	}
	for pi, path := range cpaths {
		r.at(&path)
		var held []lockset
		for i, ev := range path.Events {
			if ev.Kind != EvCall || ev.Call == nil {
				continue
			}
			known := r.calleesAt(d, ev)
			if len(known) == 0 {
				continue
			}
			if held == nil {
				held = r.locksAlong(&cpaths[pi], lockset{})
			}
			for _, g := range known {
				r.callSites[g] = append(r.callSites[g], callSite{caller: caller, held: held[i]})
				// a literal handed to a function that only calls it, synchronously (an iterator helper:
				// span.each(func(i uint){…})), runs under the locks held at this call
				for k, a := range ev.Call.Args {
					if lit, isLit := ast.Unparen(a).(*ast.FuncLit); isLit {
						if lf := r.P.Lits[lit]; lf != nil && callsParamOnly(g, k) {
							r.litSites[lf] = append(r.litSites[lf], callSite{caller: caller, held: held[i]})
						}
					}
				}
			}
		}
	}
}

// calleesAt: who may be called by the call event. A call through a function-typed parameter of a helper that
// is being looked into (f() inside locked(mu, f)) calls what was handed in at this call site, not every
// closure the program ever hands to that helper (which is what a context-insensitive call graph says).
func (r *Run) calleesAt(d *Deep, ev Event) []*Func {
	if id, ok := ast.Unparen(ev.Call.Fun).(*ast.Ident); ok && ev.Fn != nil {
		if v, isVar := ev.Fn.Info().Uses[id].(*types.Var); isVar && isParamOf(ev.Fn, v) {
			if bfn, bx := resolveBound(ev.Fn, id); bfn != ev.Fn || bx != ast.Expr(id) {
				switch a := ast.Unparen(bx).(type) {
				case *ast.FuncLit:
					if lf := r.P.Lits[a]; lf != nil {
						return []*Func{lf}
					}
				case *ast.Ident, *ast.SelectorExpr:
					var obj types.Object
					if aid, isID := a.(*ast.Ident); isID {
						obj = bfn.Info().Uses[aid]
					} else {
						obj = bfn.Info().Uses[a.(*ast.SelectorExpr).Sel]
					}
					if f, isF := obj.(*types.Func); isF {
						if g := r.P.Funcs[f]; g != nil {
							return []*Func{g}
						}
					}
				}
			}
		}
	}
	known, _ := d.Callees(r.P, ev.Call)
	return known
}

type callSite struct {
	caller *Func
	held   lockset
}

// hasLockOps: the function (or a literal inside it) calls a sync lock primitive.
func hasLockOps(fn *Func) bool {
	if fn.lockOps != 0 {
		return fn.lockOps == 1
	}
	fn.lockOps = 2
	if fn.Body == nil {
		return false
	}
	info := fn.Info()
	ast.Inspect(fn.Body, func(n ast.Node) bool {
		if c, ok := n.(*ast.CallExpr); ok {
			if f, ok := calleeObj(info, c).(*types.Func); ok && f.Pkg() != nil {
				if f.Pkg().Path() == "sync" {
					switch f.Name() {
					case "Lock", "RLock", "Unlock", "RUnlock":
						fn.lockOps = 1
					}
				} else if fn.progFuncs != nil && isRepoPkg(f.Pkg()) {
					// a lock helper of the repository (withLock(&mu, func(){…})) that is looked into
					if g := fn.progFuncs[f]; g != nil && g != fn && (!f.Exported() || !knownAPI[g.Name]) && hasLockOps(g) {
						fn.lockOps = 1
					}
				}
			}
		}
		return fn.lockOps != 1
	})
	return fn.lockOps == 1
}

// flatPath: for a function without lock operations the lockset is the same everywhere, so one
// pseudo-path listing each statement once is enough for access and call-site collection.
func (r *Run) flatPath(fn *Func) *Path {
	if fn.flat != nil {
		return fn.flat
	}
	seen := map[token.Pos]bool{}
	p := &Path{Fn: fn}
	for _, path := range r.E.Paths(fn) {
		for _, ev := range path.Events {
			k := ev.Pos
			if ev.Node != nil {
				k = ev.Node.Pos()*16 + token.Pos(ev.Kind)
			}
			if seen[k] {
				continue
			}
			seen[k] = true
			p.Events = append(p.Events, ev)
		}
		if len(p.Events) > 20000 {
			break
		}
	}
	fn.flat = p
	return p
}

// allAccesses gathers the accesses of every repository function (closures inlined where the engine
// inlines them; every other literal analysed as a function of its own).
func (r *Run) allAccesses() []fieldAccess {
	var out []fieldAccess
	inlined := map[*ast.FuncLit]bool{}
	do := func(fn *Func) {
		var paths []Path
		if !hasLockOps(fn) && len(r.E.Paths(fn)) > 64 {
			// no lock operation inside: one flattened pass
			fp := r.flatPath(fn)
			paths = []Path{*fp}
			r.Analysed(fn, len(r.E.Paths(fn)))
		} else {
			paths = r.Paths(fn)
			r.Analysed(fn, len(paths))
		}
		seen := map[string]bool{}
		for pi := range paths {
			path := &paths[pi]
			r.at(path)
			for _, ev := range path.Events {
				if ev.Kind == EvEnter && ev.Lit != nil {
					inlined[ev.Lit] = true
				}
			}
			held := r.locksAlong(path, r.entryLocks(fn))
			r.collectAccesses(fn.root(), path, held, func(a fieldAccess) {
				k := fmt.Sprintf("%d|%v|%s", a.Pos, a.Write, a.Held)
				if !seen[k] {
					seen[k] = true
					out = append(out, a)
				}
			})
		}
	}
	for _, fn := range r.P.All {
		do(fn)
	}
	var lits []*Func
	for lit, lf := range r.P.Lits {
		if !inlined[lit] && isRepoPkg(lf.Pkg.Types) {
			lits = append(lits, lf)
		}
	}
	sort.Slice(lits, func(i, j int) bool { return lits[i].Name < lits[j].Name })
	for _, lf := range lits {
		do(lf)
	}
	return out
}

// ---------------------------------------------------------------------------------------------
// F1 GUARDED-BY

// sharing classes of struct types (frozen; unknown struct types with a mutex are treated as shared)
var perConnection = map[string]string{
	"handler":            "one per connection (websocket.Handle)",
	"RealtimeHandler":    "one per connection (cmd.main's connection closure)",
	"handlerWithLogs":    "one per connection (decorator)",
	"handlerWithMetrics": "one per connection (decorator)",
	"Module":             "one per connection (modules are allocated in the connection closure)",
	"responseSender":     "one per connection",
}

// ownerConfined: per-session reachable, but only ever touched through the owning connection.
var ownerConfined = map[string]string{
	"Participant.entityIDs":       "bookkeeping of the owner's entity ids; touched only through the connection's own participant",
	"SignedLatency.RequestID":     "measurement state of the owning connection",
	"SignedLatency.StartedAt":     "measurement state of the owning connection",
	"SignedLatency.Iteration":     "measurement state of the owning connection",
	"SignedLatency.PingRequests":  "measurement state of the owning connection",
	"SignedLatency.SessionID":     "measurement state of the owning connection",
	"SignedLatency.ClientID":      "measurement state of the owning connection",
	"SignedLatency.WalletAddress": "measurement state of the owning connection",
	"SignedLatency.sender":        "measurement state of the owning connection",
	"SignedLatency.privateKey":    "measurement state of the owning connection",
}

// publishedOnce: written once before the object is published (checked by dominance below).
var publishedOnce = map[string]string{
	"Session.AppKey": "set by join between NewSession and Sessions.Add, i.e. before any other goroutine can see the session",
}

func isConstructorLike(fn *Func) bool {
	if fn.Obj == nil {
		return false
	}
	n := fn.Obj.Name()
	if fn.Recv == nil && (strings.HasPrefix(n, "New") || strings.HasPrefix(n, "new")) {
		return true
	}
	return onceOnly(fn) // sync.Once initialiser, whatever it is called
}

var onceOnlyMemo = map[*types.Func]bool{}

// onceOnly: every use of the function is as the initialiser of a sync.Once — handed to Do as a method
// or function value, or called inside a literal handed to Do.
func onceOnly(fn *Func) bool {
	if v, ok := onceOnlyMemo[fn.Obj]; ok {
		return v
	}
	uses, all := 0, true
	isOnceDo := func(info *types.Info, call *ast.CallExpr) bool {
		f, ok := calleeObj(info, call).(*types.Func)
		return ok && f.FullName() == "(*sync.Once).Do"
	}
	for _, g := range fn.progFuncs {
		if g.Body == nil {
			continue
		}
		info := g.Info()
		var stack []ast.Node
		ast.Inspect(g.Body, func(n ast.Node) bool {
			if n == nil {
				stack = stack[:len(stack)-1]
				return true
			}
			stack = append(stack, n)
			id, ok := n.(*ast.Ident)
			if !ok || info.Uses[id] != types.Object(fn.Obj) {
				return true
			}
			uses++
			ok = false
			for i := len(stack) - 1; i >= 0 && !ok; i-- {
				if call, isCall := stack[i].(*ast.CallExpr); isCall && isOnceDo(info, call) && len(call.Args) == 1 {
					// directly the argument (s.init), or anywhere inside the literal that is the argument
					a := ast.Unparen(call.Args[0])
					if i+1 < len(stack) && (stack[i+1] == a || stack[i+1] == call.Args[0]) {
						ok = true
					}
				}
			}
			all = all && ok
			return true
		})
	}
	res := uses > 0 && all
	onceOnlyMemo[fn.Obj] = res
	return res
}

func ruleGuardedBy(r *Run) {
	if r.broken() {
		return
	}
	muts := r.structsWithMutex()
	accs := r.allAccesses()
	type fkey struct {
		owner string
		field *types.Var
	}
	byField := map[fkey][]fieldAccess{}
	for _, a := range accs {
		if isSyncType(a.Field.Type(), "Mutex", "RWMutex", "Once", "WaitGroup") {
			continue
		}
		byField[fkey{a.Owner, a.Field}] = append(byField[fkey{a.Owner, a.Field}], a)
	}
	var keys []fkey
	for k := range byField {
		keys = append(keys, k)
	}
	sort.Slice(keys, func(i, j int) bool {
		if keys[i].owner != keys[j].owner {
			return keys[i].owner < keys[j].owner
		}
		return r.P.FieldName(keys[i].field) < r.P.FieldName(keys[j].field)
	})
	sharedOwners := map[string]bool{}
	for n := range muts {
		if _, pc := perConnection[r.P.OwnerName(n)]; !pc {
			sharedOwners[r.P.OwnerName(n)] = true
		}
	}
	// state types reachable from a session without a lock of their own are shared too
	for _, nm := range []string{"RegularGrid", "Participant", "SignedLatency"} {
		sharedOwners[nm] = true
	}
	// … and so is every repository struct that a shared struct holds by value (an id generator that lost its
	// own lock is still shared by everybody who shares its owner)
	// (a type that also travels by value — a parameter, a result, a local — is a plain value, not shared state)
	valueUse := map[*types.TypeName]bool{}
	for _, fn := range r.P.All {
		for _, obj := range fn.Info().Defs {
			if v, ok := obj.(*types.Var); ok && !v.IsField() {
				if nt, ok := v.Type().(*types.Named); ok {
					valueUse[nt.Obj()] = true
				}
			}
		}
		if fn.Obj != nil {
			sig := fn.Obj.Type().(*types.Signature)
			for _, tup := range []*types.Tuple{sig.Params(), sig.Results()} {
				for i := 0; i < tup.Len(); i++ {
					if nt, ok := tup.At(i).Type().(*types.Named); ok {
						valueUse[nt.Obj()] = true
					}
				}
			}
			if rv := sig.Recv(); rv != nil {
				if nt, ok := rv.Type().(*types.Named); ok {
					valueUse[nt.Obj()] = true
				}
			}
		}
	}
	for changed := true; changed; {
		changed = false
		for _, pk := range r.P.Pkgs {
			sc := pk.Types.Scope()
			for _, nm := range sc.Names() {
				tn, ok := sc.Lookup(nm).(*types.TypeName)
				if !ok {
					continue
				}
				nt, ok := tn.Type().(*types.Named)
				if !ok || !sharedOwners[r.P.OwnerName(nt)] {
					continue
				}
				st, ok := nt.Underlying().(*types.Struct)
				if !ok {
					continue
				}
				for i := 0; i < st.NumFields(); i++ {
					ft, ok := st.Field(i).Type().(*types.Named)
					if !ok || ft.Obj().Pkg() == nil || !isRepoPkg(ft.Obj().Pkg()) {
						continue
					}
					if _, isStruct := ft.Underlying().(*types.Struct); !isStruct {
						continue
					}
					on := r.P.OwnerName(ft)
					if valueUse[ft.Obj()] {
						continue
					}
					if _, pc := perConnection[on]; !pc && !sharedOwners[on] {
						sharedOwners[on] = true
						changed = true
					}
				}
			}
		}
	}
	guarded := 0
	for _, k := range keys {
		name := k.owner + "." + r.P.FieldName(k.field)
		if !sharedOwners[k.owner] {
			hasOwnMutex := false
			for n := range muts {
				if r.P.OwnerName(n) == k.owner {
					hasOwnMutex = true
				}
			}
			if !hasOwnMutex {
				continue // plain value / per-connection type without a lock of its own
			}
			// per-connection object: only fields that are in fact lock-protected (every write holds a
			// common exclusive lock) are checked here; the rest is confined to the connection's goroutines
			var ws []fieldAccess
			for _, a := range byField[k] {
				if a.Write && !a.Fresh && !isConstructorLike(a.Fn) && !isConstructorLike(a.In) {
					ws = append(ws, a)
				}
			}
			lockedWrites := 0
			for _, w := range ws {
				for _, v := range w.Held {
					if v == "W" {
						lockedWrites++
						break
					}
				}
			}
			if lockedWrites == 0 {
				continue
			}
		}
		as := byField[k]
		var writes, reads []fieldAccess
		for _, a := range as {
			if a.Fresh || isConstructorLike(a.Fn) || isConstructorLike(a.In) {
				continue
			}
			if a.Write {
				writes = append(writes, a)
			} else {
				reads = append(reads, a)
			}
		}
		if len(writes) == 0 {
			continue // immutable after construction
		}
		if why, ok := ownerConfined[name]; ok {
			r.checkOwnerConfined(name, why, append(writes, reads...))
			continue
		}
		if why, ok := publishedOnce[name]; ok {
			r.checkPublishedOnce(name, why, writes)
			continue
		}
		// common lock of all writes (exclusive)
		common := map[string]bool{}
		for kk, v := range writes[0].Held {
			if v == "W" {
				common[kk] = true
			}
		}
		for _, w := range writes[1:] {
			for kk := range common {
				if w.Held[kk] != "W" {
					delete(common, kk)
				}
			}
		}
		// prefer a lock of the owning struct
		guard := ""
		var cands []string
		for kk := range common {
			cands = append(cands, kk)
		}
		sort.Strings(cands)
		for _, kk := range cands {
			if strings.HasPrefix(kk, k.owner+".") {
				guard = kk
			}
		}
		if guard == "" && len(cands) > 0 {
			guard = cands[0]
		}
		if guard == "" {
			for _, w := range writes {
				r.Check("F1", fmt.Sprintf("%s:write-in[%s]", name, w.Fn.Name), false, w.Pos,
					"shared field %s is written in %s holding %s; its writers hold no common exclusive lock, so two connections can write (or write and read) it at the same time", name, w.Fn.Name, w.Held)
			}
			continue
		}
		guarded++
		r.Check("F1", name+":guard", true, writes[0].Pos, "every write of %s holds %s exclusively (%d write sites, %d read sites)", name, guard, len(writes), len(reads))
		for _, rd := range reads {
			ok := rd.Held[guard] != ""
			r.Check("F1", fmt.Sprintf("%s:read-in[%s]", name, rd.Fn.Name), ok, rd.Pos, "%s is read in %s holding %s; its writers hold %s", name, rd.Fn.Name, rd.Held, guard)
		}
		if len(r.Samples) < 30 {
			r.Sample("F1 %s guarded by %s: %d writes, %d reads", name, guard, len(writes), len(reads))
		}
	}
	r.Floor("F1", "shared fields with an inferred guard", guarded, 14)
}

func (r *Run) checkOwnerConfined(name, why string, as []fieldAccess) {
	for _, a := range as {
		ok := a.Base == "recv" || strings.HasPrefix(a.Base, "recv.currentParticipant") || strings.HasPrefix(a.Base, "&lit:") ||
			false
		// module cleanup walks the leaver's own ids through the module's own participant
		if strings.HasPrefix(a.Base, "recv.currentParticipant") {
			ok = true
		}
		if !ok && strings.HasPrefix(a.Base, "param:") && a.Fn != nil && a.Fn.Obj != nil && r.P.isGlue(a.Fn.Obj) && len(r.callersOf(a.Fn.Obj)) > 0 {
			continue // a helper that is handed the object: judged where it is called, with the parameter bound
		}
		r.Check("F2", fmt.Sprintf("%s:via[%s]", name, a.Fn.Name), ok, a.Pos, "%s (%s) is reached through %q in %s; expected only the owning connection's own participant", name, why, a.Base, a.Fn.Name)
	}
}

// checkPublishedOnce: the write targets an object created in the same function and precedes its
// first hand-over to another call.
func (r *Run) checkPublishedOnce(name, why string, writes []fieldAccess) {
	for _, w := range writes {
		ok := false
		fn := w.In
		// find the assignment event and look at the path prefix
		for _, path := range r.Paths(fn.root()) {
			r.at(&path)
			for i, ev := range path.Events {
				if ev.Kind != EvAssign || !(ev.Node.Pos() <= w.Pos && w.Pos < ev.Node.End()) {
					continue
				}
				se, isSel := ast.Unparen(ev.Lhs[0]).(*ast.SelectorExpr)
				if !isSel {
					continue
				}
				id, isId := ast.Unparen(se.X).(*ast.Ident)
				if !isId {
					continue
				}
				obj := ev.Fn.Info().Uses[id]
				// last definition on the path is a constructor call; no call received the object since
				rhs, _, found := lastDefOnPath(ev.Fn, &path, i, obj)
				if !found || rhs == nil {
					continue
				}
				cf, _ := r.calleeOfExpr(ev.Fn, rhs)
				if cf == nil || !strings.HasPrefix(cf.Name(), "New") {
					continue
				}
				defIdx := -1
				for j := i - 1; j >= 0; j-- {
					if path.Events[j].Kind == EvAssign {
						for _, l := range path.Events[j].Lhs {
							if lid, ok := ast.Unparen(l).(*ast.Ident); ok && (ev.Fn.Info().Uses[lid] == obj || ev.Fn.Info().Defs[lid] == obj) {
								defIdx = j
							}
						}
					}
					if defIdx >= 0 {
						break
					}
				}
				escaped := false
				for j := defIdx + 1; j < i; j++ {
					pe := path.Events[j]
					if pe.Kind == EvCall && pe.Call != nil {
						for _, a := range pe.Call.Args {
							if aid, ok := ast.Unparen(a).(*ast.Ident); ok && ev.Fn.Info().Uses[aid] == obj {
								escaped = true
							}
						}
					}
				}
				if !escaped {
					ok = true
				}
			}
		}
		r.Check("F1", fmt.Sprintf("%s:published-once[%s]", name, w.Fn.Name), ok, w.Pos, "%s is written only on a freshly constructed object before it is handed to anyone (%s)", name, why)
	}
}

// ---------------------------------------------------------------------------------------------
// F5 ESCAPE: no method of a lock-protected struct returns a guarded map or slice itself.

var reRecvContainer = regexp.MustCompile(`^recv\.([A-Za-z_][A-Za-z0-9_]*)(\[[^\]]*\])*$`)

// internalUnderLock: fn is unexported, every call site holds a lock of the receiver's own struct, and no caller
// returns (or stores into a field) what fn handed back.
func (r *Run) internalUnderLock(fn *Func, owner *types.Named) bool {
	if fn.Obj == nil || fn.Obj.Exported() {
		return false
	}
	held := false
	pre := r.P.OwnerName(owner) + "."
	for k := range r.entryLocks(fn) {
		if strings.HasPrefix(k, pre) {
			held = true
		}
	}
	if !held {
		return false
	}
	for _, g := range r.P.All {
		info := g.Info()
		got := map[types.Object]bool{}
		ast.Inspect(g.Body, func(nd ast.Node) bool {
			as, ok := nd.(*ast.AssignStmt)
			if !ok || len(as.Rhs) != 1 {
				return true
			}
			call, ok := ast.Unparen(as.Rhs[0]).(*ast.CallExpr)
			if !ok {
				return true
			}
			if f, _ := calleeObj(info, call).(*types.Func); f != fn.Obj {
				return true
			}
			for _, l := range as.Lhs {
				if id, ok := ast.Unparen(l).(*ast.Ident); ok {
					if o := objOf(info, id); o != nil {
						got[o] = true
					}
				} else {
					got[nil] = true // stored somewhere else than a local
				}
			}
			return true
		})
		if got[nil] {
			return false
		}
		if len(got) == 0 {
			continue
		}
		leaks := false
		ast.Inspect(g.Body, func(nd ast.Node) bool {
			switch v := nd.(type) {
			case *ast.ReturnStmt:
				for _, res := range v.Results {
					if id, ok := ast.Unparen(res).(*ast.Ident); ok && got[info.Uses[id]] {
						switch info.TypeOf(res).Underlying().(type) {
						case *types.Map, *types.Slice:
							leaks = true
						}
					}
				}
			case *ast.AssignStmt:
				for k, rh := range v.Rhs {
					if id, ok := ast.Unparen(rh).(*ast.Ident); ok && got[info.Uses[id]] && k < len(v.Lhs) {
						if _, isSel := ast.Unparen(v.Lhs[k]).(*ast.SelectorExpr); isSel {
							leaks = true
						}
					}
				}
			}
			return true
		})
		if leaks && g != fn {
			return false
		}
	}
	return true
}

func ruleNoEscape(r *Run) {
	if r.broken() {
		return
	}
	muts := r.structsWithMutex()
	n := 0
	for _, fn := range r.P.All {
		if fn.Recv == nil {
			continue
		}
		rn, ok := derefNamedT(fn.Recv.Type())
		if !ok || muts[rn] == nil {
			continue
		}
		ast.Inspect(fn.Body, func(nd ast.Node) bool {
			if _, isLit := nd.(*ast.FuncLit); isLit {
				return false
			}
			rs, ok := nd.(*ast.ReturnStmt)
			if !ok {
				return true
			}
			for _, res := range rs.Results {
				// the value returned is a map or slice that lives in (or below) a field of the receiver:
				// recv.f, recv.f[k], or a local that is an alias of one of these
				tv, ok := fn.Info().Types[res]
				if !ok {
					continue
				}
				switch tv.Type.Underlying().(type) {
				case *types.Map, *types.Slice:
				default:
					continue
				}
				c := r.P.Canon(fn, res)
				m := reRecvContainer.FindStringSubmatch(c)
				if m == nil {
					continue
				}
				fv := r.P.LookupField(rn.Obj().Pkg().Path(), rn.Obj().Name(), m[1])
				if fv == nil {
					continue
				}
				n++
				if r.internalUnderLock(fn, rn) {
					continue // an unexported helper that only runs under its struct's lock and whose callers keep the container to themselves
				}
				// fields never written after construction may be handed out
				r.Check("F5", fn.Name+":returns["+fv.Name()+"]", !r.fieldWrittenOutsideCtor(rn, fv), res.Pos(),
					"%s returns the lock-protected container %s itself (%s): callers read or write it without the lock", fn.Name, fv.Name(), c)
			}
			return true
		})
	}
	_ = n
}

func (r *Run) fieldWrittenOutsideCtor(owner *types.Named, fv *types.Var) bool {
	for _, fn := range r.P.All {
		if isConstructorLike(fn) {
			continue
		}
		if r.writesField(fn, owner.Obj().Pkg().Path(), owner.Obj().Name(), fv.Name()) {
			return true
		}
	}
	return false
}

// ---------------------------------------------------------------------------------------------
// F3 LOCK-ORDER: acquire-while-held graph over lock identities, through calls and callbacks.

type acqEdge struct {
	From, To string
	FromMode string
	ToMode   string
	Where    string
	Pos      token.Pos
}

// acquires: locks a function may acquire, transitively (through resolved callees).
func (r *Run) acquires(fn *Func, memo map[*Func]map[string]string, stack map[*Func]bool) map[string]string {
	if m, ok := memo[fn]; ok {
		return m
	}
	out := map[string]string{}
	if stack[fn] {
		return out
	}
	stack[fn] = true
	defer delete(stack, fn)
	d := r.Deep()
	var apaths []Path
	if !hasLockOps(fn) && len(r.E.Paths(fn)) > 16 {
		apaths = []Path{*r.flatPath(fn)}
	} else {
		apaths = r.Paths(fn)
	}
	for _, path := range apaths {
		r.at(&path)
		for _, ev := range path.Events {
			if ev.Kind == EvDefer {
				continue
			}
			if op := r.lockOpOf(ev); op != nil {
				if op.Op == "Lock" {
					out[op.Key] = "W"
				} else if op.Op == "RLock" && out[op.Key] == "" {
					out[op.Key] = "R"
				}
				continue
			}
			if ev.Kind == EvCall && ev.Call != nil && d != nil && ev.Depth >= 0 {
				known := r.calleesAt(d, ev)
				for _, g := range known {
					for k, v := range r.acquires(g, memo, stack) {
						if out[k] != "W" {
							out[k] = v
						}
					}
				}
			}
		}
	}
	memo[fn] = out
	return out
}

func ruleLockOrder(r *Run) {
	if r.broken() {
		return
	}
	d := r.Deep()
	if d == nil {
		return
	}
	memo := map[*Func]map[string]string{}
	var edges []acqEdge
	add := func(held lockset, to, mode string, where *Func, pos token.Pos) {
		for k, v := range held {
			edges = append(edges, acqEdge{From: k, FromMode: v, To: to, ToMode: mode, Where: where.Name, Pos: pos})
		}
	}
	funcs := append(append([]*Func{}, r.P.All...), r.P.Ext...)
	for _, fn := range funcs {
		if !hasLockOps(fn) {
			continue // holds nothing of its own: no acquire-while-held edge can start here
		}
		paths := r.Paths(fn)
		r.Analysed(fn, len(paths))
		for pi := range paths {
			path := &paths[pi]
			r.at(path)
			held := r.locksAlong(path, lockset{})
			for i, ev := range path.Events {
				if ev.Kind == EvDefer {
					continue
				}
				if op := r.lockOpOf(ev); op != nil && (op.Op == "Lock" || op.Op == "RLock") {
					add(held[i], op.Key, tern(op.Op == "Lock", "W", "R"), fn, ev.Pos)
					continue
				}
				if ev.Kind == EvCall && ev.Call != nil && len(held[i]) > 0 {
					known := r.calleesAt(d, ev)
					for _, g := range known {
						for k, v := range r.acquires(g, memo, map[*Func]bool{}) {
							add(held[i], k, v, fn, ev.Pos)
						}
					}
				}
			}
		}
	}
	// re-entrance and cycles
	graph := map[string]map[string]acqEdge{}
	for _, e := range edges {
		if e.From == e.To {
			r.Check("F3", fmt.Sprintf("reentrant[%s]:in[%s]", e.From, e.Where), false, e.Pos,
				"%s is acquired (%s) in %s while already held (%s): a sync mutex is not re-entrant, and a second read lock deadlocks as soon as a writer waits in between", e.From, e.ToMode, e.Where, e.FromMode)
			continue
		}
		if graph[e.From] == nil {
			graph[e.From] = map[string]acqEdge{}
		}
		if _, ok := graph[e.From][e.To]; !ok {
			graph[e.From][e.To] = e
		}
	}
	var nodes []string
	for k := range graph {
		nodes = append(nodes, k)
	}
	sort.Strings(nodes)
	nEdges := 0
	for _, a := range nodes {
		var tos []string
		for b := range graph[a] {
			tos = append(tos, b)
		}
		sort.Strings(tos)
		for _, b := range tos {
			nEdges++
			e := graph[a][b]
			// is there a path back from b to a?
			back := reach(graph, b, a)
			r.Check("F3", fmt.Sprintf("order[%s->%s]", a, b), !back, e.Pos, "%s is acquired while %s is held (in %s)%s", b, a, e.Where,
				tern(back, "; elsewhere the opposite order occurs: two connections can deadlock", ""))
			if len(r.Samples) < 30 {
				r.Sample("F3 %s -> %s (in %s)", a, b, e.Where)
			}
		}
	}
	r.Floor("F3", "acquire-while-held edges", nEdges, 5)
}

func reach(g map[string]map[string]acqEdge, from, to string) bool {
	seen := map[string]bool{}
	var dfs func(x string) bool
	dfs = func(x string) bool {
		if x == to {
			return true
		}
		if seen[x] {
			return false
		}
		seen[x] = true
		for y := range g[x] {
			if dfs(y) {
				return true
			}
		}
		return false
	}
	return dfs(from)
}

// ruleLockPairing: every Lock/RLock is released on every path (deferred, or explicitly before each exit),
// with the matching kind of unlock.
// containsLock: a value of this type carries a sync lock (or Once / WaitGroup) by value.
func containsLock(t types.Type, depth int) bool {
	if depth > 4 {
		return false
	}
	if isSyncType(t, "Mutex", "RWMutex", "Once", "WaitGroup") {
		if _, ptr := t.(*types.Pointer); !ptr {
			return true
		}
		return false
	}
	switch u := t.Underlying().(type) {
	case *types.Struct:
		if _, named := t.(*types.Named); !named && depth > 0 {
			// anonymous struct: look inside as well
		}
		for i := 0; i < u.NumFields(); i++ {
			if containsLock(u.Field(i).Type(), depth+1) {
				return true
			}
		}
	case *types.Array:
		return containsLock(u.Elem(), depth+1)
	}
	return false
}

// ruleNoLockCopy (F6c): a struct that carries a lock is never copied — no value receiver, value
// parameter, value result, dereferencing assignment or range value of such a type: a method with a value
// receiver locks its own private copy and excludes nobody.
func ruleNoLockCopy(r *Run) {
	if r.broken() {
		return
	}
	n := 0
	for _, fn := range r.P.All {
		if fn.Obj == nil {
			continue
		}
		sig := fn.Obj.Type().(*types.Signature)
		if rv := sig.Recv(); rv != nil {
			n++
			r.Check("F6c", fn.Name+":receiver", !containsLock(rv.Type(), 0), fn.Body.Pos(),
				"the receiver of %s is a value of a type that carries a lock: every call works on (and locks) a private copy", fn.Name)
		}
		for i := 0; i < sig.Params().Len(); i++ {
			if containsLock(sig.Params().At(i).Type(), 0) {
				r.Check("F6c", fmt.Sprintf("%s:param[%d]", fn.Name, i), false, fn.Body.Pos(), "parameter %d of %s passes a lock-carrying struct by value", i, fn.Name)
			}
		}
		info := fn.Info()
		ast.Inspect(fn.Body, func(nd ast.Node) bool {
			switch v := nd.(type) {
			case *ast.AssignStmt:
				for _, rh := range v.Rhs {
					if st, ok := ast.Unparen(rh).(*ast.StarExpr); ok {
						if tv, ok := info.Types[st]; ok && containsLock(tv.Type, 0) {
							r.Check("F6c", fn.Name+":deref-copy", false, st.Pos(), "%s copies a lock-carrying struct out of a pointer", fn.Name)
						}
					}
				}
			case *ast.RangeStmt:
				if v.Value != nil {
					if tv, ok := info.Types[v.Value]; ok && containsLock(tv.Type, 0) {
						r.Check("F6c", fn.Name+":range-copy", false, v.Value.Pos(), "%s ranges over lock-carrying structs by value", fn.Name)
					} else if id, isID := v.Value.(*ast.Ident); isID {
						if obj := info.Defs[id]; obj != nil && containsLock(obj.Type(), 0) {
							r.Check("F6c", fn.Name+":range-copy", false, v.Value.Pos(), "%s ranges over lock-carrying structs by value", fn.Name)
						}
					}
				}
			}
			return true
		})
	}
	r.Floor("F6c", "methods examined", n, 50)
}

// containsOwnedContainer: a struct of the models package that holds, by value, an unexported map, slice or
// channel — a container that is part of the state of one session object. A by-value copy of such a struct
// shares the container with the original: two objects then add to and remove from one set.
func containsOwnedContainer(t types.Type, depth int) (string, bool) {
	if depth > 3 {
		return "", false
	}
	n, ok := t.(*types.Named)
	if !ok || n.Obj().Pkg() == nil || n.Obj().Pkg().Path() != pkgModels {
		return "", false
	}
	st, ok := n.Underlying().(*types.Struct)
	if !ok {
		return "", false
	}
	for i := 0; i < st.NumFields(); i++ {
		f := st.Field(i)
		switch f.Type().Underlying().(type) {
		case *types.Map, *types.Slice, *types.Chan:
			if !f.Exported() {
				return n.Obj().Name() + "." + f.Name(), true
			}
		case *types.Struct:
			if w, ok := containsOwnedContainer(f.Type(), depth+1); ok {
				return w, true
			}
		}
	}
	return "", false
}

// ruleNoStateCopy (F2c): a model object that owns a container (Participant.entityIDs, the session's and
// the stores' maps) is never copied by value. `*a = *b`, `c := *b`, a value receiver, parameter, result or
// range value of such a type makes two objects share one map: the entity ids a connection collected in
// one session follow it into the next, and its departure there removes other participants' entities.
func ruleNoStateCopy(r *Run) {
	if r.broken() {
		return
	}
	n := 0
	for _, fn := range r.P.All {
		info := fn.Info()
		if fn.Obj != nil {
			sig := fn.Obj.Type().(*types.Signature)
			if rv := sig.Recv(); rv != nil {
				n++
				if w, bad := containsOwnedContainer(rv.Type(), 0); bad {
					r.Check("F2c", fn.Name+":receiver", false, fn.Body.Pos(), "the receiver of %s is a value of a type that owns the container %s: the method works on a copy that shares it", fn.Name, w)
				}
			}
			for i := 0; i < sig.Params().Len(); i++ {
				if w, bad := containsOwnedContainer(sig.Params().At(i).Type(), 0); bad {
					r.Check("F2c", fmt.Sprintf("%s:param[%d]", fn.Name, i), false, fn.Body.Pos(), "parameter %d of %s passes a struct that owns the container %s by value", i, fn.Name, w)
				}
			}
			for i := 0; i < sig.Results().Len(); i++ {
				if w, bad := containsOwnedContainer(sig.Results().At(i).Type(), 0); bad {
					// a constructor that returns a value it has just built (a composite literal) shares nothing
					fresh := true
					ast.Inspect(fn.Body, func(nd ast.Node) bool {
						if _, isLit := nd.(*ast.FuncLit); isLit {
							return false
						}
						if rs, ok := nd.(*ast.ReturnStmt); ok && i < len(rs.Results) {
							if _, isCL := ast.Unparen(resolveLocal(fn, rs.Results[i], 0)).(*ast.CompositeLit); !isCL {
								fresh = false
							}
						}
						return true
					})
					if !fresh {
						r.Check("F2c", fmt.Sprintf("%s:result[%d]", fn.Name, i), false, fn.Body.Pos(), "result %d of %s returns a struct that owns the container %s by value", i, fn.Name, w)
					}
				}
			}
		}
		// every dereference that is read as a whole value
		var parents []ast.Node
		ast.Inspect(fn.Body, func(nd ast.Node) bool {
			if nd == nil {
				parents = parents[:len(parents)-1]
				return true
			}
			defer func() { parents = append(parents, nd) }()
			if _, isLit := nd.(*ast.FuncLit); isLit && len(parents) > 0 {
				// literals are indexed as functions of their own
			}
			switch v := nd.(type) {
			case *ast.StarExpr:
				tv, ok := info.Types[v]
				if !ok || tv.IsType() {
					return true
				}
				w, bad := containsOwnedContainer(tv.Type, 0)
				if !bad {
					return true
				}
				n++
				// allowed: (*p).f, &*p, and *p as the target of an assignment of a fresh literal
				var parent ast.Node
				for i := len(parents) - 1; i >= 0; i-- {
					if _, isParen := parents[i].(*ast.ParenExpr); !isParen {
						parent = parents[i]
						break
					}
				}
				switch p := parent.(type) {
				case *ast.SelectorExpr:
					return true
				case *ast.UnaryExpr:
					if p.Op == token.AND {
						return true
					}
				case *ast.AssignStmt:
					isLhs := false
					for k, l := range p.Lhs {
						if ast.Unparen(l) == ast.Expr(v) {
							isLhs = true
							if len(p.Rhs) == len(p.Lhs) {
								if _, lit := ast.Unparen(p.Rhs[k]).(*ast.CompositeLit); lit {
									return true
								}
							}
						}
					}
					if isLhs {
						// *a = <something that is not a fresh literal>: judged at the right-hand side if it is a dereference;
						// otherwise an overwrite with a value obtained elsewhere
						for _, rh := range p.Rhs {
							if _, isStar := ast.Unparen(rh).(*ast.StarExpr); isStar {
								return true
							}
						}
					}
				}
				r.Check("F2c", fn.Name+":deref-copy["+w+"]", false, v.Pos(), "%s copies a struct that owns the container %s out of a pointer: the copy and the original share it (what one of them adds or removes, the other one sees; ids collected in one session are acted on in another)", fn.Name, w)
			case *ast.RangeStmt:
				if v.Value != nil {
					if id, isID := v.Value.(*ast.Ident); isID {
						if obj := info.Defs[id]; obj != nil {
							if w, bad := containsOwnedContainer(obj.Type(), 0); bad {
								r.Check("F2c", fn.Name+":range-copy["+w+"]", false, v.Value.Pos(), "%s ranges over structs that own the container %s by value", fn.Name, w)
							}
						}
					}
				}
			}
			return true
		})
	}
	// the types concerned, for the record
	var owners []string
	if pk := r.P.Pkg("models"); pk != nil {
		sc := pk.Types.Scope()
		for _, name := range sc.Names() {
			if tn, ok := sc.Lookup(name).(*types.TypeName); ok {
				if w, bad := containsOwnedContainer(tn.Type(), 0); bad {
					owners = append(owners, w)
				}
			}
		}
	}
	r.Sample("F2c: model types that own a container and must not be copied: %s", strings.Join(owners, ", "))
	r.Check("F2c", "examined", true, 0, "no by-value copy of a container-owning model struct (%d types, %d receiver / dereference sites examined)", len(owners), n)
	r.Floor("F2c", "container-owning model types", len(owners), 4)
	r.Floor("F2c", "receivers and dereferences examined", n, 50)
}

func ruleLockPairing(r *Run) {
	if r.broken() {
		return
	}
	n := 0
	for _, fn := range r.P.All {
		hasLock := false
		ast.Inspect(fn.Body, func(nd ast.Node) bool {
			if c, ok := nd.(*ast.CallExpr); ok {
				if f, ok := calleeObj(fn.Info(), c).(*types.Func); ok && f.Pkg() != nil && f.Pkg().Path() == "sync" && (f.Name() == "Lock" || f.Name() == "RLock") {
					hasLock = true
				}
			}
			return true
		})
		if !hasLock {
			continue
		}
		paths := r.Paths(fn)
		r.Analysed(fn, len(paths))
		for pi := range paths {
			path := &paths[pi]
			r.at(path)
			if hasCut(path) {
				continue // the iteration continues; releases are checked on the complete paths
			}
			held := map[string]string{}     // key -> mode, explicit
			deferred := map[string]string{} // key -> unlock kind deferred
			for _, ev := range path.Events {
				op := r.lockOpOf(ev)
				if op == nil {
					continue
				}
				if ev.Kind == EvDefer {
					deferred[op.Key] = op.Op
					continue
				}
				switch op.Op {
				case "Lock":
					held[op.Key] = "W"
					n++
				case "RLock":
					held[op.Key] = "R"
					n++
				case "Unlock":
					r.CheckT("F6", fmt.Sprintf("%s:unlock-kind[%s]", fn.Name, op.Key), held[op.Key] == "W", ev.Pos, path, "Unlock of %s while it is held as %q", op.Key, held[op.Key])
					delete(held, op.Key)
				case "RUnlock":
					r.CheckT("F6", fmt.Sprintf("%s:unlock-kind[%s]", fn.Name, op.Key), held[op.Key] == "R", ev.Pos, path, "RUnlock of %s while it is held as %q", op.Key, held[op.Key])
					delete(held, op.Key)
				}
			}
			for k, mode := range held {
				want := tern(mode == "W", "Unlock", "RUnlock")
				r.CheckT("F6", fmt.Sprintf("%s:released[%s]", fn.Name, k), deferred[k] == want, fn.Body.Pos(), path,
					"%s is taken (%s) and not released on this path with the matching %s (deferred: %q)", k, mode, want, deferred[k])
			}
		}
	}
	r.Floor("F6", "lock acquisitions on paths", n, 30)
}

func hasCut(path *Path) bool {
	for _, ev := range path.Events {
		if ev.Kind == EvCut {
			return true
		}
	}
	return false
}

// ruleSplitCriticalSection (E8a): within one function, a lock-protected field is read, the lock is
// released, and the same field is then written under the re-acquired lock: the decision taken on
// the read may be stale when the write happens (check-then-act split across critical sections).
func ruleSplitCriticalSection(r *Run) {
	if r.broken() {
		return
	}
	n := 0
	for _, fn := range r.P.All {
		hasLock := false
		ast.Inspect(fn.Body, func(nd ast.Node) bool {
			if c, ok := nd.(*ast.CallExpr); ok {
				if f, ok := calleeObj(fn.Info(), c).(*types.Func); ok && f.Pkg() != nil && f.Pkg().Path() == "sync" && (f.Name() == "Lock" || f.Name() == "RLock") {
					hasLock = true
				}
			}
			return true
		})
		if !hasLock {
			continue
		}
		paths := r.Paths(fn)
		for pi := range paths {
			path := &paths[pi]
			r.at(path)
			held := r.locksAlong(path, lockset{})
			type acc struct {
				idx   int
				field *types.Var
				owner string
				write bool
				held  lockset
			}
			var accs []acc
			for i := range path.Events {
				one := &Path{Fn: path.Fn, Events: path.Events[i : i+1]}
				r.collectAccesses(fn, one, []lockset{held[i]}, func(a fieldAccess) {
					accs = append(accs, acc{i, a.Field, a.Owner, a.Write, held[i]})
				})
			}
			for _, w := range accs {
				if !w.write || len(w.held) == 0 {
					continue
				}
				for _, rd := range accs {
					if rd.idx >= w.idx || rd.field != w.field || len(rd.held) == 0 {
						continue
					}
					// a common lock held at both, released somewhere in between
					for k := range w.held {
						if rd.held[k] == "" {
							continue
						}
						n++
						released := false
						for j := rd.idx; j <= w.idx; j++ {
							if held[j][k] == "" {
								released = true
							}
						}
						r.CheckT("E8a", fmt.Sprintf("%s:%s.%s", fn.Name, w.owner, r.P.FieldName(w.field)), !released, path.Events[w.idx].Pos, path,
							"%s.%s is read under %s, the lock is released, and the field is then written under the re-acquired lock: the earlier test may no longer hold (two callers can both pass it)", w.owner, w.field.Name(), k)
					}
				}
			}
		}
	}
	r.Floor("E8a", "read-then-write pairs of one field inside one critical section", n, 6)
}

// ruleDeferUnlock (F6b): code that runs under the per-message recover (everything reachable from the
// dispatch function) must release its locks with defer, or do nothing that can panic in between:
// a recovered panic otherwise leaves the lock held for every other member of the session.
func ruleDeferUnlock(r *Run) {
	m := r.M()
	if r.broken() {
		return
	}
	d := r.Deep()
	if d == nil || m.Dispatch == nil {
		return
	}
	reach := r.reachableFrom(m.Dispatch)
	// whatever shape the dispatch has (a table of adapters the call graph does not see through), the handlers it
	// ends in run under the per-message recover
	for _, h := range m.Handlers {
		if h.Fn != nil {
			for f := range r.reachableFrom(h.Fn) {
				reach[f] = true
			}
		}
	}
	n := 0
	var fns []*Func
	for f := range reach {
		if f.Obj != nil && isRepoPkg(f.Pkg.Types) {
			fns = append(fns, f)
		}
	}
	sort.Slice(fns, func(i, j int) bool { return fns[i].Name < fns[j].Name })
	for _, fn := range fns {
		if !hasLockOps(fn) {
			continue
		}
		for pi, path := range r.Paths(fn) {
			r.at(&path)
			_ = pi
			open := map[string]int{} // lock key -> index of the Lock event (explicitly released later)
			deferred := map[string]bool{}
			for i, ev := range path.Events {
				op := r.lockOpOf(ev)
				if op == nil {
					continue
				}
				if ev.Kind == EvDefer {
					deferred[op.Key] = true
					continue
				}
				switch op.Op {
				case "Lock", "RLock":
					open[op.Key] = i
					n++
				case "Unlock", "RUnlock":
					start, ok := open[op.Key]
					if !ok || deferred[op.Key] {
						continue
					}
					delete(open, op.Key)
					risky := ""
					for j := start + 1; j < i; j++ {
						pe := path.Events[j]
						if pe.Kind == EvCall && r.lockOpOf(pe) == nil {
							if _, isBuiltin := pe.Callee.(*types.Builtin); isBuiltin {
								continue
							}
							risky = r.P.EventStr(pe)
						}
					}
					r.CheckT("F6b", fmt.Sprintf("%s:explicit-unlock[%s]", fn.Name, op.Key), risky == "", ev.Pos, &path,
						"%s is released by an explicit unlock after %s: if that panics the per-message recover ends only this connection and the lock stays held, wedging every other user of it; release it with defer", op.Key, risky)
				}
			}
		}
	}
	r.Floor("F6b", "lock acquisitions in code that runs under the per-message recover", n, 20)
}
