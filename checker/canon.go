package main

import (
	"fmt"
	"go/ast"
	"go/constant"
	"go/token"
	"go/types"
	"strings"
)

// defInfo records, for every local variable of a declared function (including its nested
// literals), where it is assigned. It is what lets rules talk about "where does this value come
// from" instead of how a variable is spelled.
type defInfo struct {
	sites    map[types.Object][]defSite
	addrOf   map[types.Object]bool // &x taken somewhere
	declOnly map[types.Object]bool // declared with `var x T` (zero value) and never assigned
	fieldMut map[types.Object]bool // a field / element of the variable is assigned somewhere (x.f = ..., x[i] = ...)
}

type defSite struct {
	rhs   ast.Expr // nil for zero-value declarations
	idx   int      // result index when rhs is multi-valued
	multi bool
	kind  string // "assign", "range-key", "range-val", "zero", "recv-ok", "opassign"
	node  ast.Node
}

func (f *Func) root() *Func {
	r := f
	for r.Outer != nil {
		r = r.Outer
	}
	return r
}

func (f *Func) Defs() *defInfo {
	r := f.root()
	if r.defs != nil {
		return r.defs
	}
	d := &defInfo{sites: map[types.Object][]defSite{}, addrOf: map[types.Object]bool{}, declOnly: map[types.Object]bool{}, fieldMut: map[types.Object]bool{}}
	r.defs = d
	info := r.Info()
	objOf := func(x ast.Expr) types.Object {
		id, ok := ast.Unparen(x).(*ast.Ident)
		if !ok {
			return nil
		}
		if o := info.Defs[id]; o != nil {
			return o
		}
		return info.Uses[id]
	}
	if r.Body == nil {
		return d
	}
	// named results start with their zero value: an assignment in the body is never their only definition
	if r.Type != nil && r.Type.Results != nil {
		for _, fld := range r.Type.Results.List {
			for _, nm := range fld.Names {
				if o := info.Defs[nm]; o != nil && nm.Name != "_" {
					d.sites[o] = append(d.sites[o], defSite{kind: "zero", node: fld})
				}
			}
		}
	}
	rootObj := func(x ast.Expr) types.Object {
		for {
			switch v := ast.Unparen(x).(type) {
			case *ast.SelectorExpr:
				x = v.X
			case *ast.IndexExpr:
				x = v.X
			case *ast.StarExpr:
				x = v.X
			case *ast.Ident:
				return info.Uses[v]
			default:
				return nil
			}
		}
	}
	ast.Inspect(r.Body, func(n ast.Node) bool {
		switch s := n.(type) {
		case *ast.AssignStmt:
			for _, l := range s.Lhs {
				if _, isIdent := ast.Unparen(l).(*ast.Ident); !isIdent {
					if o := rootObj(l); o != nil {
						d.fieldMut[o] = true
					}
				}
			}
			if s.Tok != token.ASSIGN && s.Tok != token.DEFINE {
				for _, l := range s.Lhs {
					if o := objOf(l); o != nil {
						d.sites[o] = append(d.sites[o], defSite{kind: "opassign", node: s})
					}
				}
				return true
			}
			if len(s.Lhs) == len(s.Rhs) {
				for i, l := range s.Lhs {
					if o := objOf(l); o != nil {
						d.sites[o] = append(d.sites[o], defSite{rhs: s.Rhs[i], kind: "assign", node: s})
					}
				}
			} else if len(s.Rhs) == 1 {
				for i, l := range s.Lhs {
					if o := objOf(l); o != nil {
						d.sites[o] = append(d.sites[o], defSite{rhs: s.Rhs[0], idx: i, multi: true, kind: "assign", node: s})
					}
				}
			}
		case *ast.IncDecStmt:
			if o := objOf(s.X); o != nil {
				d.sites[o] = append(d.sites[o], defSite{kind: "opassign", node: s})
			}
		case *ast.ValueSpec:
			for i, nm := range s.Names {
				o := info.Defs[nm]
				if o == nil {
					continue
				}
				switch {
				case len(s.Values) == 0:
					d.sites[o] = append(d.sites[o], defSite{kind: "zero", node: s})
				case len(s.Values) == len(s.Names):
					d.sites[o] = append(d.sites[o], defSite{rhs: s.Values[i], kind: "assign", node: s})
				default:
					d.sites[o] = append(d.sites[o], defSite{rhs: s.Values[0], idx: i, multi: true, kind: "assign", node: s})
				}
			}
		case *ast.RangeStmt:
			if s.Key != nil {
				if o := objOf(s.Key); o != nil {
					d.sites[o] = append(d.sites[o], defSite{rhs: s.X, kind: "range-key", node: s})
				}
			}
			if s.Value != nil {
				if o := objOf(s.Value); o != nil {
					d.sites[o] = append(d.sites[o], defSite{rhs: s.X, kind: "range-val", node: s})
				}
			}
		case *ast.UnaryExpr:
			if s.Op == token.AND {
				if o := objOf(s.X); o != nil {
					d.addrOf[o] = true
				}
			}
		}
		return true
	})
	return d
}

// singleDef returns the unique defining site of a local variable, if it has exactly one.
func (d *defInfo) singleDef(o types.Object) (defSite, bool) {
	s := d.sites[o]
	if len(s) == 1 {
		return s[0], true
	}
	return defSite{}, false
}

// soleAssign: the only assignment of a variable that otherwise only has its zero-value declaration.
func (d *defInfo) soleAssign(o types.Object) (defSite, bool) {
	var out defSite
	n := 0
	for _, s := range d.sites[o] {
		switch s.kind {
		case "zero":
		case "assign":
			out = s
			n++
		default:
			return defSite{}, false
		}
	}
	return out, n == 1
}

// ---------------------------------------------------------------------------------------------

// Canon renders an expression with single-assignment locals replaced by their definitions,
// trivial getters replaced by the field they return, and generated protobuf getters replaced by
// the field they read. Two expressions with the same canonical form denote the same value source.
func (p *Program) Canon(fn *Func, x ast.Expr) string {
	if x == nil {
		return ""
	}
	return p.canon(p.ownerOf(fn, x), x, 0)
}

// ownerOf: when a rule asks about a node that belongs to a looked-into helper (or to a literal) on
// the current path, provenance must be computed in that instance (its parameters are bound to the
// caller's arguments), whatever function the rule happens to be iterating over.
func (p *Program) ownerOf(fn *Func, x ast.Node) *Func {
	if fn == nil || p.cur == nil || x == nil || !x.Pos().IsValid() {
		return fn
	}
	inside := func(f *Func) bool {
		return f != nil && f.Body != nil && f.Body.Pos() <= x.Pos() && x.End() <= f.Body.End()
	}
	if inside(fn) {
		// innermost instance on the path that contains the node, if the node sits in a nested literal
		best := fn
		if c, ok := p.cur.owner[x]; ok {
			return c
		}
		for _, ev := range p.cur.path.Events {
			if ev.Fn != nil && ev.Fn != best && inside(ev.Fn) && ev.Fn.Body.Pos() >= best.Body.Pos() && ev.Fn.Body.End() <= best.Body.End() && ev.Fn.rootIs(fn) {
				best = ev.Fn
			}
		}
		p.cur.owner[x] = best
		return best
	}
	if c, ok := p.cur.owner[x]; ok {
		return c
	}
	var best *Func
	for _, ev := range p.cur.path.Events {
		if inside(ev.Fn) {
			if best == nil || (ev.Fn.Body.Pos() >= best.Body.Pos() && ev.Fn.Body.End() <= best.Body.End()) {
				best = ev.Fn
			}
		}
	}
	if best == nil {
		best = fn
	}
	p.cur.owner[x] = best
	return best
}

func (f *Func) rootIs(g *Func) bool {
	for h := f; h != nil; h = h.Outer {
		if h == g {
			return true
		}
	}
	return false
}

// pathCtx makes canon path-aware: locals assigned more than once resolve to their most recent
// definition on the path (or to the map slot they were stored into), and calls of inlined helpers
// resolve to what the helper returned on this path.
type pathCtx struct {
	path  *Path
	use   map[ast.Node]int
	owner map[ast.Node]*Func
}

func (p *Program) SetPath(path *Path) {
	if path == nil {
		p.cur = nil
		return
	}
	if p.cur != nil && p.cur.path == path {
		return
	}
	p.cur = &pathCtx{path: path, use: map[ast.Node]int{}, owner: map[ast.Node]*Func{}}
}

// useIndex: index of the first event of fn on the current path whose node contains n.
func (p *Program) useIndex(fn *Func, n ast.Node) int {
	c := p.cur
	if i, ok := c.use[n]; ok {
		return i
	}
	idx := len(c.path.Events)
	for i, ev := range c.path.Events {
		if ev.Fn != fn || ev.Node == nil {
			continue
		}
		if ev.Node.Pos() <= n.Pos() && n.End() <= ev.Node.End() {
			idx = i
			break
		}
	}
	c.use[n] = idx
	return idx
}

// pathDef resolves a local that is assigned more than once: the most recent definition, or the
// container slot it was last stored into, before its use on the current path.
func (p *Program) pathDef(fn *Func, id *ast.Ident, obj types.Object, depth int) (string, bool) {
	if p.cur == nil {
		return "", false
	}
	for _, ds := range fn.Defs().sites[obj] {
		if ds.kind == "opassign" {
			return "", false // loop counters and accumulators keep their name
		}
	}
	info := fn.Info()
	u := p.useIndex(fn, id)
	evs := p.cur.path.Events
	if u > len(evs) {
		u = len(evs)
	}
	isObj := func(x ast.Expr) bool {
		i, ok := ast.Unparen(x).(*ast.Ident)
		return ok && (info.Uses[i] == obj || info.Defs[i] == obj)
	}
	for j := u - 1; j >= 0; j-- {
		ev := evs[j]
		if ev.Kind != EvAssign || !fn.rootIs(ev.Fn) {
			continue // (the variable may belong to an enclosing function of a literal)
		}
		if ev.Tok != token.ASSIGN && ev.Tok != token.DEFINE {
			continue
		}
		for k, l := range ev.Lhs {
			if isObj(l) {
				if len(ev.Rhs) == len(ev.Lhs) {
					return p.canon(ev.Fn, ev.Rhs[k], depth+1), true
				}
				if len(ev.Rhs) == 1 {
					if res, rfn, ok := p.inlinedResults(ev.Fn, ev.Rhs[0]); ok && k < len(res) {
						return p.canon(rfn, res[k], depth+1), true
					}
					s := p.canon(ev.Fn, ev.Rhs[0], depth+1)
					if _, isIdx := ast.Unparen(ev.Rhs[0]).(*ast.IndexExpr); isIdx && k == 0 {
						return s, true
					}
					return fmt.Sprintf("%s#%d", s, k), true
				}
				return "", false
			}
		}
		if len(ev.Rhs) == len(ev.Lhs) {
			for k, rh := range ev.Rhs {
				if isObj(rh) {
					if _, isIdx := ast.Unparen(ev.Lhs[k]).(*ast.IndexExpr); isIdx {
						switch obj.Type().Underlying().(type) {
						case *types.Map, *types.Slice, *types.Pointer:
							return p.canon(ev.Fn, ev.Lhs[k], depth+1), true // stored into a slot: denotes that slot from now on
						}
					}
				}
			}
		}
	}
	// no assignment before the use on this path: a variable declared without a value still has its zero value
	// (var err error / var deleted bool assigned only inside a closure that did not get there on this path)
	for j := u - 1; j >= 0; j-- {
		ev := evs[j]
		if ev.Kind != EvAssign || ev.Fn == nil {
			continue
		}
		for _, l := range ev.Lhs {
			if i, ok := ast.Unparen(l).(*ast.Ident); ok && (ev.Fn.Info().Uses[i] == obj || ev.Fn.Info().Defs[i] == obj) {
				return "", false // assigned on the path by an instance this function does not see through
			}
		}
	}
	if z, ok := zeroOfDeclared(fn, obj); ok {
		return z, true
	}
	return "", false
}

// zeroOfDeclared: obj is declared by `var x T` without initial value in fn (or an enclosing function): the
// canonical form of T's zero value.
func zeroOfDeclared(fn *Func, obj types.Object) (string, bool) {
	root := fn.root()
	found := false
	ast.Inspect(root.Body, func(n ast.Node) bool {
		vs, ok := n.(*ast.ValueSpec)
		if !ok || len(vs.Values) != 0 {
			return !found
		}
		for _, nm := range vs.Names {
			if root.Info().Defs[nm] == obj {
				found = true
			}
		}
		return !found
	})
	namedResult := false
	if root.Type != nil && root.Type.Results != nil {
		for _, fld := range root.Type.Results.List {
			for _, nm := range fld.Names {
				if root.Info().Defs[nm] == obj {
					namedResult = true
				}
			}
		}
	}
	if !found && !namedResult {
		return "", false
	}
	// only the captured-result idiom: the variable is assigned nowhere but inside function literals (an
	// accumulator filled by the loops of the function itself keeps its name)
	direct := false
	var scan func(n ast.Node) bool
	scan = func(n ast.Node) bool {
		switch v := n.(type) {
		case *ast.FuncLit:
			return false
		case *ast.AssignStmt:
			for _, l := range v.Lhs {
				if id, ok := ast.Unparen(l).(*ast.Ident); ok && (root.Info().Uses[id] == obj || root.Info().Defs[id] == obj) {
					direct = true
				}
			}
		case *ast.IncDecStmt:
			if id, ok := ast.Unparen(v.X).(*ast.Ident); ok && root.Info().Uses[id] == obj {
				direct = true
			}
		case *ast.UnaryExpr:
			if id, ok := ast.Unparen(v.X).(*ast.Ident); ok && v.Op == token.AND && root.Info().Uses[id] == obj {
				direct = true // its address is taken: written through a pointer
			}
		}
		return true
	}
	ast.Inspect(root.Body, scan)
	if direct && !namedResult {
		return "", false
	}
	switch u := obj.Type().Underlying().(type) {
	case *types.Basic:
		switch {
		case u.Info()&types.IsBoolean != 0:
			return "false", true
		case u.Info()&types.IsString != 0:
			return `""`, true
		case u.Info()&types.IsNumeric != 0:
			return "0", true
		}
	case *types.Pointer, *types.Interface, *types.Slice, *types.Map, *types.Chan, *types.Signature:
		return "nil", true
	}
	return "", false
}

// storedSlot: the index slot a local was stored into (X[k] = v) before its use on the current path.
func (p *Program) storedSlot(fn *Func, id *ast.Ident, obj types.Object, depth int) (string, bool) {
	if p.cur == nil {
		return "", false
	}
	if _, isTP := obj.Type().(*types.TypeParam); !isTP { // (inside a generic helper the caller decided it is a fresh container)
		switch obj.Type().Underlying().(type) {
		case *types.Map, *types.Slice, *types.Pointer:
		default:
			return "", false
		}
	}
	info := fn.Info()
	u := p.useIndex(fn, id)
	evs := p.cur.path.Events
	if u > len(evs) {
		u = len(evs)
	}
	for j := u - 1; j >= 0; j-- {
		ev := evs[j]
		if ev.Kind != EvAssign || ev.Fn != fn || ev.Tok != token.ASSIGN || len(ev.Rhs) != len(ev.Lhs) {
			continue
		}
		for k, rh := range ev.Rhs {
			i, ok := ast.Unparen(rh).(*ast.Ident)
			if !ok || info.Uses[i] != obj {
				continue
			}
			if _, isIdx := ast.Unparen(ev.Lhs[k]).(*ast.IndexExpr); isIdx {
				return p.canon(ev.Fn, ev.Lhs[k], depth+1), true
			}
		}
	}
	return "", false
}

// inlinedResults: the call was looked into on the current path; returns the result expressions of
// the return statement the helper took, and the helper instance they belong to.
func (p *Program) inlinedResults(fn *Func, x ast.Expr) ([]ast.Expr, *Func, bool) {
	if p.cur == nil {
		return nil, nil, false
	}
	call, ok := ast.Unparen(x).(*ast.CallExpr)
	if !ok {
		return nil, nil, false
	}
	evs := p.cur.path.Events
	for j, ev := range evs {
		if ev.Kind != EvCall || ev.Call != call || (ev.Fn != fn && (ev.Fn == nil || ev.Fn.root() != fn.root())) {
			continue // (a closure of the calling function sees the call through the enclosing function)
		}
		if j+1 >= len(evs) || evs[j+1].Kind != EvEnter || !evs[j+1].Helper || evs[j+1].ViaCall != call {
			return nil, nil, false
		}
		depth := 0
		var last *Event
		for k := j + 1; k < len(evs); k++ {
			e := &evs[k]
			if e.Kind == EvEnter {
				depth++
			}
			if e.Kind == EvExit {
				depth--
				if depth == 0 {
					break
				}
			}
			if e.Kind == EvReturn && e.Depth == evs[j+1].Depth+1 && depth == 1 {
				last = e
			}
		}
		if last == nil {
			return nil, nil, false
		}
		return last.Results, last.Fn, true
	}
	return nil, nil, false
}

func (p *Program) canon(fn *Func, x ast.Expr, depth int) string {
	if x == nil {
		return ""
	}
	if depth > 12 {
		return "…"
	}
	info := fn.Info()
	switch v := x.(type) {
	case *ast.ParenExpr:
		return p.canon(fn, v.X, depth)
	case *ast.Ident:
		obj := info.Uses[v]
		if obj == nil {
			obj = info.Defs[v]
		}
		switch o := obj.(type) {
		case *types.Nil:
			return "nil"
		case *types.Const:
			return constName(o)
		case *types.Var:
			if o.IsField() {
				return "field:" + o.Name()
			}
			if o.Pkg() != nil && o.Parent() == o.Pkg().Scope() {
				return "global:" + shortPkg(o.Pkg().Path()) + "." + varDisplay(o)
			}
			if r := fn.root(); r.Recv != nil && o == r.Recv {
				if r.bind != nil && r.bind.recv != nil {
					return p.canon(r.bind.caller, r.bind.recv, depth+1)
				}
				return "recv"
			}
			if isParamOf(fn, o) {
				// a parameter that the function itself re-assigns (v = normalise(v)) denotes, after the assignment, what
				// was assigned — not the caller's argument any more
				if len(fn.Defs().sites[o]) > 0 {
					if s, ok := p.pathDef(fn, v, o, depth); ok {
						return s
					}
				}
				// parameter of a bound helper instance: the caller's argument
				for f := fn; f != nil; f = f.Outer {
					if i := paramIndex(f, o); i >= 0 {
						if f.bind != nil && f.bind.call != nil && i < len(f.bind.argv()) {
							return p.canon(f.bind.caller, f.bind.argv()[i], depth+1)
						}
						break
					}
				}
				return "param:" + paramOwner(fn, o) // positional: "#i", or "lit@pos.#i" for a literal's own parameter
			}
			if ds, ok := fn.Defs().singleDef(o); ok {
				if ds.kind == "assign" && ds.multi && ds.rhs != nil {
					if res, rfn, ok := p.inlinedResults(fn, ds.rhs); ok && ds.idx < len(res) {
						return p.canon(rfn, res[ds.idx], depth+1)
					}
				}
				switch ds.kind {
				case "zero":
					if fn.isDecodeTarget(o) {
						return "var:req" // the variable the message is decoded into, whatever it is called
					}
					return "var:" + o.Name()
				case "assign":
					if fn.isDecodePtrTarget(o) {
						return "&var:req" // a pointer to the variable the message is decoded into
					}
					s := p.canon(fn, ds.rhs, depth+1)
					if ds.multi {
						if _, isIdx := ast.Unparen(ds.rhs).(*ast.IndexExpr); isIdx && ds.idx == 0 {
							return s // v, ok := m[k]: v is m[k]
						}
						return fmt.Sprintf("%s#%d", s, ds.idx)
					}
					if strings.HasPrefix(s, "make(") || strings.HasPrefix(s, "&lit:") {
						// a fresh container that was stored into a slot before this use denotes that slot
						// (v := make(...); m[k] = v; v[e] = x  is a write to m[k][e])
						if slot, ok := p.storedSlot(fn, v, o, depth); ok {
							return slot
						}
					}
					return s
				case "range-key":
					return "rangekey(" + p.canon(fn, ds.rhs, depth+1) + ")"
				case "range-val":
					if call, isCall := ast.Unparen(ds.rhs).(*ast.CallExpr); isCall {
						if f, _ := calleeObj(info, call).(*types.Func); f != nil && p.keySnapshotField(f) != "" {
							// for _, k := range x.KeyList(): the elements of a snapshot of m's keys are m's keys
							return "rangekey(" + p.canon(fn, ds.rhs, depth+1) + ")"
						}
					}
					return "rangeval(" + p.canon(fn, ds.rhs, depth+1) + ")"
				}
			}
			if over := fn.indexLoopOver(o); over != nil {
				return "rangekey(" + p.canon(fn, over, depth+1) + ")"
			}
			if s, ok := p.pathDef(fn, v, o, depth); ok {
				return s
			}
			return "local:" + o.Name()
		case *types.Func:
			return "func:" + funcName(o)
		case *types.TypeName:
			return "type:" + o.Name()
		case *types.PkgName:
			return "pkg:" + o.Name()
		case *types.Builtin:
			return o.Name()
		}
		return v.Name
	case *ast.BasicLit:
		return v.Value
	case *ast.SelectorExpr:
		if fv, ok := p.synthSel[v]; ok {
			// a field of a by-value part, from an assignment of the whole part (engine.partAssign)
			base := p.canon(fn, v.X, depth+1)
			if strings.HasPrefix(base, "&recv") {
				base = base[1:]
			}
			return base + "." + p.FieldName(fv)
		}
		if sel, ok := info.Selections[v]; ok {
			switch sel.Kind() {
			case types.FieldVal:
				// field of a single-assignment local initialised with a composite literal: the field's value
				if id, ok := ast.Unparen(v.X).(*ast.Ident); ok {
					if obj := info.Uses[id]; obj != nil && !fn.Defs().fieldMut[obj] {
						if lit, lfn := p.compositeOfIn(fn, id); lit != nil {
							if fv := litField(lit, sel.Obj().Name()); fv != nil {
								return p.canon(lfn, fv, depth+1) // (in the function that wrote the literal: a builder helper's parameters are bound there)
							}
						}
					}
				}
				// the same through a parameter of a looked-into helper bound to (the address of) such a local
				if id, ok := ast.Unparen(v.X).(*ast.Ident); ok {
					if vr, isVar := info.Uses[id].(*types.Var); isVar && (isParamOf(fn, vr) || (fn.root().Recv != nil && vr == fn.root().Recv)) {
						if bfn, bx := resolveBound(fn, id); bfn != fn || bx != ast.Expr(id) {
							root := ast.Unparen(bx)
							if u, isU := root.(*ast.UnaryExpr); isU && u.Op == token.AND {
								root = ast.Unparen(u.X)
							}
							if cl, isCL := root.(*ast.CompositeLit); isCL {
								// the literal itself was handed in: lookup(componentKey{typeID: t, entityID: e})
								if fv := litField(cl, sel.Obj().Name()); fv != nil {
									return p.canon(bfn, fv, depth+1)
								}
							}
							if rid, isID := root.(*ast.Ident); isID {
								if robj := bfn.Info().Uses[rid]; robj != nil && !bfn.Defs().fieldMut[robj] {
									if lit, lfn := p.compositeOfIn(bfn, rid); lit != nil {
										if fv := litField(lit, sel.Obj().Name()); fv != nil {
											return p.canon(lfn, fv, depth+1)
										}
									}
								}
							}
						}
					}
				}
				if fvar, isVar := sel.Obj().(*types.Var); isVar && ((fvar.Embedded() && isStructOrPtr(fvar.Type())) || p.isPartField(fvar)) {
					// s.sub.f with sub embedded is the promoted field s.f; so is s.part.f when part is a by-value
					// sub-struct that belongs to this struct alone
					b := p.canon(fn, v.X, depth+1)
					if strings.HasPrefix(b, "&recv") {
						b = b[1:]
					}
					return b
				}
				base := p.canon(fn, v.X, depth+1)
				if strings.HasPrefix(base, "&var:") || strings.HasPrefix(base, "&local:") || strings.HasPrefix(base, "&recv") || strings.HasPrefix(base, "&param:") {
					base = base[1:] // (&x).f is x.f
				}
				if fvar, isVar := sel.Obj().(*types.Var); isVar {
					return base + "." + p.FieldName(fvar)
				}
				return base + "." + sel.Obj().Name()
			default:
				return p.canon(fn, v.X, depth+1) + ".method:" + sel.Obj().Name()
			}
		}
		// qualified identifier
		switch o := info.Uses[v.Sel].(type) {
		case *types.Const:
			return constName(o)
		case *types.Var:
			return "global:" + shortPkg(o.Pkg().Path()) + "." + varDisplay(o)
		case *types.Func:
			return "func:" + funcName(o)
		case *types.TypeName:
			return "type:" + o.Pkg().Name() + "." + o.Name()
		}
		return types.ExprString(v)
	case *ast.StarExpr:
		return "*" + p.canon(fn, v.X, depth+1)
	case *ast.UnaryExpr:
		return v.Op.String() + p.canon(fn, v.X, depth+1)
	case *ast.BinaryExpr:
		return "(" + p.canon(fn, v.X, depth+1) + " " + v.Op.String() + " " + p.canon(fn, v.Y, depth+1) + ")"
	case *ast.IndexExpr:
		// x[i] inside `for i := 0; i < len(x); i++`: the element, as in `for _, e := range x`
		if id, ok := ast.Unparen(v.Index).(*ast.Ident); ok {
			if over := fn.indexLoopOver(info.Uses[id]); over != nil {
				cx := p.canon(fn, v.X, depth+1)
				if cx == p.canon(fn, over, depth+1) {
					return "rangeval(" + cx + ")"
				}
			}
		}
		cx, ci := p.canon(fn, v.X, depth+1), p.canon(fn, v.Index, depth+1)
		if ci == "rangekey("+cx+")" {
			// x[i] inside `for i := range x`: the element (x a slice: range over a map yields keys, and m[k] is
			// the value of that key as well)
			return "rangeval(" + cx + ")"
		}
		return cx + "[" + ci + "]"
	case *ast.TypeAssertExpr:
		return p.canon(fn, v.X, depth+1) + ".(" + types.ExprString(v.Type) + ")"
	case *ast.CompositeLit:
		t := ""
		if tv, ok := info.Types[v]; ok {
			t = typeShort(tv.Type)
		}
		return fmt.Sprintf("lit:%s@%d", t, v.Pos())
	case *ast.FuncLit:
		return fmt.Sprintf("funclit@%d", v.Pos())
	case *ast.CallExpr:
		if tv, ok := info.Types[v.Fun]; ok && tv.IsType() && len(v.Args) == 1 {
			// a conversion between two names of one container / struct / pointer type denotes the same value
			// (moduleSet(h.Modules) is h.Modules); numeric and string conversions are kept
			if av, ok := info.Types[v.Args[0]]; ok && av.Type != nil {
				if _, basic := tv.Type.Underlying().(*types.Basic); !basic && types.Identical(tv.Type.Underlying(), av.Type.Underlying()) {
					return p.canon(fn, v.Args[0], depth+1)
				}
			}
			return "conv:" + typeShort(tv.Type) + "(" + p.canon(fn, v.Args[0], depth+1) + ")"
		}
		if res, rfn, ok := p.inlinedResults(fn, v); ok && len(res) == 1 {
			return p.canon(rfn, res[0], depth+1)
		}
		callee := calleeObj(info, v)
		if f, ok := callee.(*types.Func); ok {
			fld := p.getterField(f)
			if fld == "" {
				fld = p.keySnapshotField(f) // a fresh slice of the keys of recv.f: ranged over like recv.f itself
			}
			if fld != "" {
				if r := recvExpr(v); r != nil {
					base := p.canon(fn, r, depth+1)
					if strings.HasPrefix(base, "&var:") || strings.HasPrefix(base, "&local:") || strings.HasPrefix(base, "&recv") || strings.HasPrefix(base, "&param:") {
						base = base[1:] // (&x).GetF() is x.f
					}
					return base + "." + fld
				}
			}
			var args []string
			for _, a := range v.Args {
				args = append(args, p.canon(fn, a, depth+1))
			}
			recv := ""
			if r := recvExpr(v); r != nil {
				if _, isSel := info.Selections[ast.Unparen(v.Fun).(*ast.SelectorExpr)]; isSel {
					recv = p.canon(fn, r, depth+1) + "."
				}
			}
			return recv + "call:" + shortFuncName(f) + "(" + strings.Join(args, ",") + ")"
		}
		if b, ok := callee.(*types.Builtin); ok {
			var args []string
			for _, a := range v.Args {
				args = append(args, p.canon(fn, a, depth+1))
			}
			return b.Name() + "(" + strings.Join(args, ",") + ")"
		}
		var args []string
		for _, a := range v.Args {
			args = append(args, p.canon(fn, a, depth+1))
		}
		return "dyncall:" + p.canon(fn, v.Fun, depth+1) + "(" + strings.Join(args, ",") + ")"
	case *ast.SliceExpr:
		return p.canon(fn, v.X, depth+1) + "[" + p.canon(fn, v.Low, depth+1) + ":" + p.canon(fn, v.High, depth+1) + "]"
	case *ast.KeyValueExpr:
		return p.canon(fn, v.Key, depth+1) + ":" + p.canon(fn, v.Value, depth+1)
	}
	return types.ExprString(x)
}

func constName(o *types.Const) string {
	if o.Pkg() == nil {
		return o.Name() // true, false, iota
	}
	pk := ""
	if o.Pkg() != nil {
		pk = o.Pkg().Name() + "."
	}
	if o.Parent() != nil && o.Pkg() != nil && o.Parent() != o.Pkg().Scope() {
		// local constant: use its value
		return "constval:" + o.Val().ExactString()
	}
	return "const:" + pk + o.Name()
}

func typeShort(t types.Type) string {
	return types.TypeString(t, func(p *types.Package) string { return p.Name() })
}

func isParamOf(fn *Func, o *types.Var) bool {
	for f := fn; f != nil; f = f.Outer {
		if f.Type != nil && f.Type.Params != nil {
			for _, fld := range f.Type.Params.List {
				for _, nm := range fld.Names {
					if f.Info().Defs[nm] == o {
						return true
					}
				}
			}
		}
	}
	return false
}

// paramOwner renders a parameter by position (names are free to change): "#i" for the declared
// function's parameters, "lit@pos.#i" for those of a nested literal.
func paramOwner(fn *Func, o *types.Var) string {
	for f := fn; f != nil; f = f.Outer {
		if f.Type != nil && f.Type.Params != nil {
			i := 0
			for _, fld := range f.Type.Params.List {
				if len(fld.Names) == 0 {
					i++
					continue
				}
				for _, nm := range fld.Names {
					if f.Info().Defs[nm] == o {
						if f.Lit != nil {
							return fmt.Sprintf("lit@%d.#%d", f.Lit.Pos(), i)
						}
						return fmt.Sprintf("#%d", i)
					}
					i++
				}
			}
		}
	}
	return "?"
}

// paramIndex returns the position of a parameter variable in fn's own signature (-1 if absent).
func paramIndex(fn *Func, o types.Object) int {
	if fn.Type == nil || fn.Type.Params == nil {
		return -1
	}
	i := 0
	for _, fld := range fn.Type.Params.List {
		if len(fld.Names) == 0 {
			i++
			continue
		}
		for _, nm := range fld.Names {
			if fn.Info().Defs[nm] == o {
				return i
			}
			i++
		}
	}
	return -1
}

// getterField: f is a method whose whole body is `return recv.field` (repo code), or a generated
// protobuf getter GetX on a struct with field X (dependency code). Returns the field name.
// keySnapshotField: f is a method without parameters whose whole body collects the keys of a map field
// of its receiver into a fresh slice and returns it:
//
//	ks := make([]K, 0, len(recv.f)); for k := range recv.f { ks = append(ks, k) }; return ks
//
// It returns the field's name ("" otherwise). Ranging over the result visits exactly the keys of recv.f.
func (p *Program) keySnapshotField(f *types.Func) string {
	if v, ok := p.keySnap[f]; ok {
		return v
	}
	if p.keySnap == nil {
		p.keySnap = map[*types.Func]string{}
	}
	p.keySnap[f] = ""
	sig, _ := f.Type().(*types.Signature)
	def := p.Funcs[f]
	if sig == nil || sig.Recv() == nil || sig.Params().Len() != 0 || sig.Results().Len() != 1 || def == nil || def.Body == nil || len(def.Body.List) != 3 {
		return ""
	}
	if _, isSlice := sig.Results().At(0).Type().Underlying().(*types.Slice); !isSlice {
		return ""
	}
	info := def.Info()
	as, ok := def.Body.List[0].(*ast.AssignStmt)
	if !ok || len(as.Lhs) != 1 || len(as.Rhs) != 1 {
		return ""
	}
	sid, ok := as.Lhs[0].(*ast.Ident)
	if !ok {
		return ""
	}
	sobj := info.Defs[sid]
	mk, ok := ast.Unparen(as.Rhs[0]).(*ast.CallExpr)
	if !ok || sobj == nil {
		return ""
	}
	if b, isB := calleeObj(info, mk).(*types.Builtin); !isB || b.Name() != "make" {
		return ""
	}
	rg, ok := def.Body.List[1].(*ast.RangeStmt)
	if !ok || rg.Key == nil || rg.Value != nil || len(rg.Body.List) != 1 {
		return ""
	}
	kid, ok := rg.Key.(*ast.Ident)
	if !ok {
		return ""
	}
	se, ok := ast.Unparen(rg.X).(*ast.SelectorExpr)
	if !ok {
		return ""
	}
	base, ok := ast.Unparen(se.X).(*ast.Ident)
	if !ok || info.Uses[base] != def.Recv {
		return ""
	}
	sel, ok := info.Selections[se]
	if !ok || sel.Kind() != types.FieldVal {
		return ""
	}
	if _, isMap := sel.Obj().Type().Underlying().(*types.Map); !isMap {
		return ""
	}
	ap, ok := rg.Body.List[0].(*ast.AssignStmt)
	if !ok || len(ap.Lhs) != 1 || len(ap.Rhs) != 1 {
		return ""
	}
	if l, ok := ap.Lhs[0].(*ast.Ident); !ok || info.Uses[l] != sobj {
		return ""
	}
	call, ok := ast.Unparen(ap.Rhs[0]).(*ast.CallExpr)
	if !ok || len(call.Args) != 2 {
		return ""
	}
	if b, isB := calleeObj(info, call).(*types.Builtin); !isB || b.Name() != "append" {
		return ""
	}
	a0, ok0 := ast.Unparen(call.Args[0]).(*ast.Ident)
	a1, ok1 := ast.Unparen(call.Args[1]).(*ast.Ident)
	if !ok0 || !ok1 || info.Uses[a0] != sobj || info.Uses[a1] != info.Defs[kid] {
		return ""
	}
	rs, ok := def.Body.List[2].(*ast.ReturnStmt)
	if !ok || len(rs.Results) != 1 {
		return ""
	}
	if rid, ok := ast.Unparen(rs.Results[0]).(*ast.Ident); !ok || info.Uses[rid] != sobj {
		return ""
	}
	fv, _ := sel.Obj().(*types.Var)
	if fv == nil {
		return ""
	}
	p.keySnap[f] = p.FieldName(fv)
	return p.keySnap[f]
}

func (p *Program) getterField(f *types.Func) string {
	sig, _ := f.Type().(*types.Signature)
	if sig == nil || sig.Recv() == nil || sig.Params().Len() != 0 || sig.Results().Len() != 1 {
		return ""
	}
	if def := p.Funcs[f]; def != nil {
		if len(def.Body.List) != 1 {
			return ""
		}
		rs, ok := def.Body.List[0].(*ast.ReturnStmt)
		if !ok || len(rs.Results) != 1 {
			return ""
		}
		se, ok := ast.Unparen(rs.Results[0]).(*ast.SelectorExpr)
		if !ok {
			return ""
		}
		// recv.field, or recv.part.field through by-value / embedded parts of the receiver's struct
		base := ast.Unparen(se.X)
		for {
			inner, isSel := base.(*ast.SelectorExpr)
			if !isSel {
				break
			}
			isel, ok := def.Info().Selections[inner]
			if !ok || isel.Kind() != types.FieldVal {
				return ""
			}
			pf, isVar := isel.Obj().(*types.Var)
			if !isVar || !(p.isPartField(pf) || (pf.Embedded() && isStructOrPtr(pf.Type()))) {
				return ""
			}
			base = ast.Unparen(inner.X)
		}
		id, ok := base.(*ast.Ident)
		if !ok || def.Info().Uses[id] != def.Recv {
			return ""
		}
		if sel, ok := def.Info().Selections[se]; ok && sel.Kind() == types.FieldVal {
			if fvar, isVar := sel.Obj().(*types.Var); isVar {
				return p.FieldName(fvar)
			}
			return sel.Obj().Name()
		}
		return ""
	}
	if isRepoPkg(f.Pkg()) {
		return ""
	}
	name := f.Name()
	if !strings.HasPrefix(name, "Get") || len(name) <= 3 {
		return ""
	}
	t := sig.Recv().Type()
	if pt, ok := t.(*types.Pointer); ok {
		t = pt.Elem()
	}
	st, ok := t.Underlying().(*types.Struct)
	if !ok {
		return ""
	}
	if f.Pkg() == nil || !strings.Contains(f.Pkg().Path(), "hagall-common/messages") {
		return ""
	}
	for i := 0; i < st.NumFields(); i++ {
		if st.Field(i).Name() == name[3:] {
			return name[3:]
		}
	}
	return ""
}

// constOf returns the constant object an expression denotes (identifier or qualified identifier).
func constOf(info *types.Info, x ast.Expr) *types.Const {
	switch v := ast.Unparen(x).(type) {
	case *ast.Ident:
		c, _ := info.Uses[v].(*types.Const)
		return c
	case *ast.SelectorExpr:
		c, _ := info.Uses[v.Sel].(*types.Const)
		return c
	}
	return nil
}

func intConstVal(info *types.Info, x ast.Expr) (int64, bool) {
	tv, ok := info.Types[x]
	if !ok || tv.Value == nil {
		return 0, false
	}
	if tv.Value.Kind() != constant.Int {
		return 0, false
	}
	return constant.Int64Val(tv.Value)
}

// compositeOf resolves an expression to the composite literal it denotes: &T{...}, T{...}, or a
// single-assignment local initialised with one (possibly through & of the local).
func (p *Program) compositeOf(fn *Func, x ast.Expr) *ast.CompositeLit {
	for i := 0; i < 6 && x != nil; i++ {
		switch v := ast.Unparen(x).(type) {
		case *ast.CompositeLit:
			return v
		case *ast.UnaryExpr:
			if v.Op != token.AND {
				return nil
			}
			x = v.X
		case *ast.Ident:
			obj := fn.Info().Uses[v]
			if obj == nil {
				return nil
			}
			ds, ok := fn.Defs().singleDef(obj)
			if !ok || ds.kind != "assign" || ds.multi {
				return nil
			}
			x = ds.rhs
		default:
			return nil
		}
	}
	return nil
}

// compositeOfIn is compositeOf that also reports the function whose scope the literal's field
// expressions belong to (the caller, when the value arrived through a bound helper parameter).
func (p *Program) compositeOfIn(fn *Func, x ast.Expr) (*ast.CompositeLit, *Func) {
	for i := 0; i < 6 && x != nil; i++ {
		switch v := ast.Unparen(x).(type) {
		case *ast.CompositeLit:
			return v, fn
		case *ast.CallExpr:
			// a builder helper that was looked into on the current path: what it returned
			res, rfn, ok := p.inlinedResults(fn, v)
			if !ok || len(res) != 1 {
				return nil, nil
			}
			fn, x = rfn, res[0]
		case *ast.UnaryExpr:
			if v.Op != token.AND {
				return nil, nil
			}
			x = v.X
		case *ast.Ident:
			obj := fn.Info().Uses[v]
			if obj == nil {
				return nil, nil
			}
			if vr, isVar := obj.(*types.Var); isVar && isParamOf(fn, vr) {
				moved := false
				for f := fn; f != nil; f = f.Outer {
					if k := paramIndex(f, vr); k >= 0 {
						if f.bind != nil && f.bind.call != nil && k < len(f.bind.argv()) {
							fn, x, moved = f.bind.caller, f.bind.argv()[k], true
						}
						break
					}
				}
				if !moved {
					return nil, nil
				}
				continue
			}
			ds, ok := fn.Defs().singleDef(obj)
			if !ok {
				ds, ok = fn.Defs().soleAssign(obj) // (a named result or `var x T` that is assigned exactly once)
			}
			if !ok || ds.kind != "assign" {
				return nil, nil
			}
			if ds.multi {
				// one of several results of a builder helper that was looked into on the current path
				res, rfn, ok := p.inlinedResults(fn, ds.rhs)
				if !ok || ds.idx >= len(res) {
					return nil, nil
				}
				fn, x = rfn, res[ds.idx]
				continue
			}
			x = ds.rhs
		default:
			return nil, nil
		}
	}
	return nil, nil
}

// litField returns the value expression of a named field in a keyed composite literal.
func litField(lit *ast.CompositeLit, name string) ast.Expr {
	for _, el := range lit.Elts {
		if kv, ok := el.(*ast.KeyValueExpr); ok {
			if id, ok := kv.Key.(*ast.Ident); ok && id.Name == name {
				return kv.Value
			}
		}
	}
	return nil
}

// litFieldDeep is litField through sub-structs: when the literal does not set the field itself, the
// values of its struct-typed elements (an embedded or by-value part, written as a literal or built by a
// helper that was looked into on the current path) are searched too. resolved is false when a part could
// not be traced to a literal, i.e. "not set" is not known.
func (p *Program) litFieldDeep(fn *Func, lit *ast.CompositeLit, name string, depth int) (val ast.Expr, in *Func, resolved bool) {
	for _, el := range lit.Elts {
		if kv, ok := el.(*ast.KeyValueExpr); ok {
			if id, ok := kv.Key.(*ast.Ident); ok {
				// (the key may spell the field differently: a role played under another name)
				if fv, isVar := fn.Info().Uses[id].(*types.Var); (isVar && p.FieldName(fv) == name) || (!isVar && id.Name == name) {
					return kv.Value, fn, true
				}
			}
		}
	}
	resolved = true
	if depth > 3 {
		return nil, fn, false
	}
	for _, el := range lit.Elts {
		kv, ok := el.(*ast.KeyValueExpr)
		if !ok {
			continue
		}
		tv, ok := fn.Info().Types[kv.Value]
		if !ok {
			continue
		}
		nt, ok := tv.Type.(*types.Named)
		if !ok || !isRepoPkg(nt.Obj().Pkg()) {
			continue
		}
		if _, isStruct := nt.Underlying().(*types.Struct); !isStruct {
			continue
		}
		sub, sfn := p.compositeOfIn(fn, kv.Value)
		if sub == nil {
			resolved = false
			continue
		}
		if v, vfn, res := p.litFieldDeep(sfn, sub, name, depth+1); v != nil {
			return v, vfn, true
		} else if !res {
			resolved = false
		}
	}
	return nil, fn, resolved
}

// litTypeName returns the (package name, type name) of a composite literal's named struct type.
func litTypeName(info *types.Info, lit *ast.CompositeLit) (string, string) {
	tv, ok := info.Types[lit]
	if !ok {
		return "", ""
	}
	t := tv.Type
	if pt, ok := t.(*types.Pointer); ok {
		t = pt.Elem()
	}
	if n, ok := t.(*types.Named); ok && n.Obj().Pkg() != nil {
		return n.Obj().Pkg().Name(), typeDisplay(n.Obj())
	}
	return "", ""
}

// isDecodeTarget: the variable's address is handed to hwebsocket.Msg.DataTo in this function.
func (f *Func) isDecodeTarget(o types.Object) bool {
	f.scanDecodeTargets()
	return f.root().decodeTargets[o]
}

// isDecodePtrTarget: o is a local pointer variable (v := new(T), v := &T{}, v := P(new(T))) that is
// handed to Msg.DataTo: it points to the decoded request.
func (f *Func) isDecodePtrTarget(o types.Object) bool {
	f.scanDecodeTargets()
	return f.root().decodePtrTargets[o]
}

func (f *Func) scanDecodeTargets() {
	r := f.root()
	if r.decodeTargets != nil {
		return
	}
	r.decodeTargets = map[types.Object]bool{}
	r.decodePtrTargets = map[types.Object]bool{}
	info := r.Info()
	if r.Body == nil {
		return
	}
	isDataTo := func(call *ast.CallExpr) bool {
		fobj, _ := calleeObj(info, call).(*types.Func)
		return fobj != nil && fobj.Name() == "DataTo" && fobj.Pkg() != nil && fobj.Pkg().Path() == pkgHCWS && len(call.Args) == 1
	}
	var mark func(arg ast.Expr)
	mark = func(arg ast.Expr) {
		switch v := ast.Unparen(arg).(type) {
		case *ast.CallExpr:
			// a conversion of the pointer (P(&req) in a generic decode helper)
			if tv, ok := info.Types[v.Fun]; ok && tv.IsType() && len(v.Args) == 1 {
				mark(v.Args[0])
			}
		case *ast.UnaryExpr:
			if id, ok := ast.Unparen(v.X).(*ast.Ident); ok && v.Op == token.AND {
				if obj := info.Uses[id]; obj != nil {
					r.decodeTargets[obj] = true
				}
			}
		case *ast.Ident:
			if obj := info.Uses[v]; obj != nil {
				r.decodePtrTargets[obj] = true
			}
		}
	}
	ast.Inspect(r.Body, func(n ast.Node) bool {
		call, ok := n.(*ast.CallExpr)
		if !ok {
			return true
		}
		if isDataTo(call) {
			mark(call.Args[0])
			return true
		}
		// a helper that decodes into one of its parameters (decodeJoined(msg, &req))
		if g, ok := calleeObj(info, call).(*types.Func); ok && r.progFuncs != nil {
			if gd := r.progFuncs[g]; gd != nil && gd != r {
				for k := range gd.decodesIntoParams() {
					if k < len(call.Args) {
						mark(call.Args[k])
					}
				}
			}
		}
		return true
	})
}

// decodesIntoParams: indices of the parameters this function hands to Msg.DataTo.
func (f *Func) decodesIntoParams() map[int]bool {
	r := f.root()
	if r.decodeParams != nil {
		return r.decodeParams
	}
	r.decodeParams = map[int]bool{}
	if r.Body == nil {
		return r.decodeParams
	}
	info := r.Info()
	ast.Inspect(r.Body, func(n ast.Node) bool {
		call, ok := n.(*ast.CallExpr)
		if !ok || len(call.Args) != 1 {
			return true
		}
		fobj, _ := calleeObj(info, call).(*types.Func)
		if fobj == nil || fobj.Name() != "DataTo" || fobj.Pkg() == nil || fobj.Pkg().Path() != pkgHCWS {
			return true
		}
		if id, ok := ast.Unparen(call.Args[0]).(*ast.Ident); ok {
			if v, ok := info.Uses[id].(*types.Var); ok {
				if k := paramIndex(r, v); k >= 0 {
					r.decodeParams[k] = true
				}
			}
		}
		return true
	})
	return r.decodeParams
}

// indexLoopOver: obj is the index variable of a canonical index loop of this function (see
// indexLoop in engine.go); returns the collection iterated.
func (f *Func) indexLoopOver(obj types.Object) ast.Expr {
	if obj == nil {
		return nil
	}
	r := f.root()
	if r.idxLoops == nil {
		r.idxLoops = map[types.Object]ast.Expr{}
		if r.Body != nil {
			ast.Inspect(r.Body, func(n ast.Node) bool {
				if fs, ok := n.(*ast.ForStmt); ok {
					if iv, over := indexLoop(r.Info(), fs); iv != nil {
						r.idxLoops[iv] = over
					}
				}
				return true
			})
		}
	}
	return r.idxLoops[obj]
}

func isStructOrPtr(t types.Type) bool {
	if pt, ok := t.Underlying().(*types.Pointer); ok {
		t = pt.Elem()
	}
	_, ok := t.Underlying().(*types.Struct)
	return ok
}
