package main

import (
	"go/ast"
	"go/constant"
	"go/token"
	"go/types"
	"strings"
)

// GuardClass is the meaning of a branch outcome, derived from value provenance (not spelling).
type GuardClass struct {
	Subject string // e.g. "decode", "joined", "zero:var:req.EntityId", "lookup:Session.EntityByID", "owner", "err:EntityComponentStore.Add"
	Outcome string // e.g. "err"/"ok", "no"/"yes", "zero"/"nonzero", "miss"/"hit", "mismatch"/"match"
	Failing bool   // the outcome is a refusal reason
	Callee  *types.Func
}

func (g GuardClass) String() string { return g.Subject + "=" + g.Outcome }

// defOf resolves an identifier to its unique defining site.
func defOf(fn *Func, x ast.Expr) (defSite, types.Object, bool) {
	id, ok := ast.Unparen(x).(*ast.Ident)
	if !ok {
		return defSite{}, nil, false
	}
	obj := fn.Info().Uses[id]
	if obj == nil {
		return defSite{}, nil, false
	}
	ds, ok := fn.Defs().singleDef(obj)
	return ds, obj, ok
}

// lastDefOnPath finds the defining assignment of obj that precedes index i on the path (for
// variables assigned more than once, such as a re-used err).
func lastDefOnPath(fn *Func, path *Path, i int, obj types.Object) (ast.Expr, int, bool) {
	info := fn.Info()
	for j := i - 1; j >= 0; j-- {
		ev := path.Events[j]
		if ev.Kind != EvAssign {
			continue
		}
		for k, l := range ev.Lhs {
			id, ok := ast.Unparen(l).(*ast.Ident)
			if !ok {
				continue
			}
			if info.Defs[id] != obj && info.Uses[id] != obj {
				continue
			}
			if len(ev.Rhs) == len(ev.Lhs) {
				return ev.Rhs[k], 0, true
			}
			if len(ev.Rhs) == 1 {
				return ev.Rhs[0], k, true
			}
			return nil, 0, false
		}
	}
	return nil, 0, false
}

func (r *Run) calleeOfExpr(fn *Func, x ast.Expr) (*types.Func, *ast.CallExpr) {
	call, ok := ast.Unparen(x).(*ast.CallExpr)
	if !ok {
		return nil, nil
	}
	f, _ := calleeObj(fn.Info(), call).(*types.Func)
	return f, call
}

func isZeroConst(info *types.Info, x ast.Expr) bool {
	tv, ok := info.Types[x]
	if !ok || tv.Value == nil {
		return false
	}
	s := tv.Value.ExactString()
	return s == "0" || s == `""` || s == "false"
}

// Classify interprets guard event i of path.
func (r *Run) Classify(path *Path, i int) GuardClass {
	ev := path.Events[i]
	fn := ev.Fn
	info := fn.Info()
	p := r.P
	m := r.M()
	if ev.Kind != EvGuard {
		return GuardClass{Subject: "notaguard"}
	}
	switch ev.GKind {
	case GRange:
		if ev.Val {
			return GuardClass{Subject: "range", Outcome: "iter"}
		}
		return GuardClass{Subject: "range", Outcome: "done"}
	case GSelectCase:
		if ev.Val {
			return GuardClass{Subject: "select", Outcome: "case"}
		}
		return GuardClass{Subject: "select", Outcome: "notcase"}
	case GSwitchCase:
		out := "no"
		if ev.Val {
			out = "yes"
		}
		return GuardClass{Subject: "case:" + p.Canon(ev.Fn, ev.Tag) + "==" + p.Canon(ev.Fn, ev.Cond), Outcome: out}
	case GUnknown:
		return GuardClass{Subject: "unknown"}
	}
	cond := ast.Unparen(ev.Cond)
	val := ev.Val
	// strip negations, then: a parameter of a looked-into helper stands for the caller's argument
	for {
		u, ok := cond.(*ast.UnaryExpr)
		if !ok || u.Op != token.NOT {
			break
		}
		cond, val = ast.Unparen(u.X), !val
	}
	if id, ok := cond.(*ast.Ident); ok {
		if bfn, bx := resolveBound(fn, id); bfn != fn || bx != ast.Expr(id) {
			fn, info, cond = bfn, bfn.Info(), ast.Unparen(bx)
			for {
				u, ok := cond.(*ast.UnaryExpr)
				if !ok || u.Op != token.NOT {
					break
				}
				cond, val = ast.Unparen(u.X), !val
			}
		}
	}
	// a condition that is (the result of) a looked-into helper: classify what the helper returned
	for hop := 0; hop < 3; hop++ {
		var rhs ast.Expr
		idx := 0
		switch v := cond.(type) {
		case *ast.CallExpr:
			rhs = v
		case *ast.Ident:
			if obj := info.Uses[v]; obj != nil {
				if x, k, ok := lastDefOnPath(fn, path, i, obj); ok && x != nil {
					if _, isCall := ast.Unparen(x).(*ast.CallExpr); isCall {
						rhs, idx = x, k
					}
				}
			}
		}
		if rhs == nil {
			break
		}
		res, rfn, ok := p.inlinedResults(fn, rhs)
		if !ok || idx >= len(res) {
			break
		}
		nc := ast.Unparen(res[idx])
		for {
			if u, ok := nc.(*ast.UnaryExpr); ok && u.Op == token.NOT {
				nc = ast.Unparen(u.X)
				val = !val
				continue
			}
			break
		}
		if tv, ok := rfn.Info().Types[nc]; ok && tv.Value != nil {
			// a literal result of a helper that was looked into on this path: the guards inside the helper that
			// led to this return carry the meaning; the caller's test of the literal adds nothing
			if tv.Value.Kind() == constant.Bool {
				return GuardClass{Subject: "result:" + rfn.origOrSelf().Name, Outcome: tern(ev.Val, "true", "false")}
			}
			break
		}
		// a compound result whose operands were split inside the helper: the operand guards carry the
		// meaning; this test of the result adds nothing
		for _, pe := range path.Events {
			if pe.Kind == EvReturn && pe.Fn == rfn && pe.RetTruth != nil {
				for k, r0 := range pe.Results {
					if _, known := pe.RetTruth[k]; known && ast.Unparen(r0) == ast.Unparen(res[idx]) {
						return GuardClass{Subject: "result:" + rfn.origOrSelf().Name, Outcome: tern(ev.Val, "true", "false")}
					}
				}
			}
		}
		cond, fn, info = nc, rfn, rfn.Info()
	}
	reqPrefix := func(c string) bool { return strings.HasPrefix(c, "var:") }
	joinedCanon := func(c string) bool {
		return c == "recv.currentSession" || c == "recv.currentParticipant"
	}
	switch v := cond.(type) {
	case *ast.Ident:
		obj := info.Uses[v]
		if rhs, idx, ok := lastDefOnPath(fn, path, i, obj); ok && rhs != nil {
			if f, _ := r.calleeOfExpr(fn, rhs); f != nil && idx >= 1 {
				return GuardClass{Subject: "lookup:" + shortFuncName(f), Outcome: tern(val, "hit", "miss"), Failing: !val, Callee: f}
			}
			if ix, ok := ast.Unparen(rhs).(*ast.IndexExpr); ok && idx == 1 {
				return GuardClass{Subject: "maplookup:" + p.Canon(fn, ix.X) + "[" + p.Canon(fn, ix.Index) + "]", Outcome: tern(val, "hit", "miss"), Failing: !val}
			}
			if f, _ := r.calleeOfExpr(fn, rhs); f != nil {
				return GuardClass{Subject: "boolcall:" + shortFuncName(f), Outcome: tern(val, "true", "false"), Callee: f}
			}
		}
		return GuardClass{Subject: "bool:" + p.Canon(fn, v), Outcome: tern(val, "true", "false")}
	case *ast.CallExpr:
		if f, _ := calleeObj(info, v).(*types.Func); f != nil {
			full := f.FullName()
			if full == "(time.Time).Before" || full == "(time.Time).After" {
				// normalised: "a<b"
				a, b := p.Canon(fn, recvExpr(v)), p.Canon(fn, v.Args[0])
				if full == "(time.Time).After" {
					a, b = b, a
				}
				return GuardClass{Subject: "timelt:" + a + "<" + b, Outcome: tern(val, "true", "false"), Callee: f}
			}
			return GuardClass{Subject: "boolcall:" + shortFuncName(f), Outcome: tern(val, "true", "false"), Callee: f}
		}
	case *ast.BinaryExpr:
		x, y := v.X, v.Y
		op := v.Op
		if op == token.EQL || op == token.NEQ {
			eq := (op == token.EQL) == val // the two sides are equal on this outcome
			var other ast.Expr
			isNil := false
			if isNilIdent(info, y) {
				other, isNil = x, true
			} else if isNilIdent(info, x) {
				other, isNil = y, true
			} else if isZeroConst(info, y) {
				other = x
			} else if isZeroConst(info, x) {
				other = y
			}
			if other != nil {
				// error variable?
				if id, ok := ast.Unparen(other).(*ast.Ident); ok && isNil {
					obj := info.Uses[id]
					if obj != nil && isErrorType(obj.Type()) {
						if rhs, _, ok := lastDefOnPath(fn, path, i, obj); ok && rhs != nil {
							if f, _ := r.calleeOfExpr(fn, rhs); f != nil {
								if f == m.DataTo {
									return GuardClass{Subject: "decode", Outcome: tern(eq, "ok", "err"), Failing: !eq, Callee: f}
								}
								return GuardClass{Subject: "err:" + shortFuncName(f), Outcome: tern(eq, "ok", "err"), Failing: !eq, Callee: f}
							}
							// err := <closure/dynamic call>
							return GuardClass{Subject: "err:" + p.Canon(fn, rhs), Outcome: tern(eq, "ok", "err"), Failing: !eq}
						}
						return GuardClass{Subject: "err:" + p.Canon(fn, other), Outcome: tern(eq, "ok", "err"), Failing: !eq}
					}
				}
				c := p.Canon(fn, other)
				if isNil && joinedCanon(c) {
					return GuardClass{Subject: "joined:" + strings.TrimPrefix(c, "recv."), Outcome: tern(eq, "no", "yes"), Failing: eq}
				}
				if reqPrefix(c) || strings.HasPrefix(c, "len(var:") {
					return GuardClass{Subject: "zero:" + c, Outcome: tern(eq, "zero", "nonzero"), Failing: eq}
				}
				if isNil {
					return GuardClass{Subject: "nil:" + c, Outcome: tern(eq, "nil", "nonnil")}
				}
				return GuardClass{Subject: "zero:" + c, Outcome: tern(eq, "zero", "nonzero"), Failing: eq}
			}
			cx, cy := p.Canon(fn, x), p.Canon(fn, y)
			if (strings.HasSuffix(cx, ".ParticipantID") && strings.HasSuffix(cy, ".ID")) || (strings.HasSuffix(cy, ".ParticipantID") && strings.HasSuffix(cx, ".ID")) {
				return GuardClass{Subject: "owner:" + cx + "~" + cy, Outcome: tern(eq, "match", "mismatch"), Failing: !eq}
			}
			return GuardClass{Subject: "eq:" + cx + "~" + cy, Outcome: tern(eq, "equal", "differ")}
		}
		if op == token.LSS || op == token.GTR || op == token.LEQ || op == token.GEQ {
			return GuardClass{Subject: "cmp:" + p.Canon(fn, x) + op.String() + p.Canon(fn, y), Outcome: tern(val, "true", "false")}
		}
	}
	return GuardClass{Subject: "other:" + p.Canon(fn, cond), Outcome: tern(val, "true", "false")}
}

func tern(c bool, a, b string) string {
	if c {
		return a
	}
	return b
}

func isErrorType(t types.Type) bool {
	if t == nil {
		return false
	}
	if n, ok := t.(*types.Named); ok && n.Obj().Pkg() == nil && n.Obj().Name() == "error" {
		return true
	}
	return types.Identical(t, types.Universe.Lookup("error").Type())
}

// ---------------------------------------------------------------------------------------------
// Event predicates shared by the rules

func (r *Run) isCallTo(ev Event, f *types.Func) bool {
	return ev.Kind == EvCall && f != nil && ev.Callee == f
}

// isRespond: a call of ResponseSender.Send (interface method) or of a concrete implementation of it.
func (r *Run) isSendCall(ev Event) bool {
	if ev.Kind != EvCall {
		return false
	}
	f, ok := ev.Callee.(*types.Func)
	if !ok {
		return false
	}
	if f == r.M().Send {
		return true
	}
	return f.Name() == "Send" && r.implementsSender(f)
}

func (r *Run) isSendMsgCall(ev Event) bool {
	if ev.Kind != EvCall {
		return false
	}
	f, ok := ev.Callee.(*types.Func)
	if !ok {
		return false
	}
	if f == r.M().SendMsg {
		return true
	}
	return f.Name() == "SendMsg" && r.implementsSender(f)
}

func (r *Run) implementsSender(f *types.Func) bool {
	sig := f.Type().(*types.Signature)
	if sig.Recv() == nil {
		return false
	}
	tn := r.P.LookupType(pkgHCWS, "ResponseSender")
	if tn == nil {
		return false
	}
	iface, _ := tn.Type().Underlying().(*types.Interface)
	if iface == nil {
		return false
	}
	t := sig.Recv().Type()
	return types.Implements(t, iface) || types.Implements(types.NewPointer(t), iface)
}

func (r *Run) isRelay(ev Event) bool {
	return ev.Kind == EvCall && (ev.Callee == r.M().Broadcast || ev.Callee == r.M().BroadcastTo)
}

// msgLiteral resolves the protobuf message literal handed to Send / Broadcast.
type MsgLit struct {
	Lit      *ast.CompositeLit
	Pkg      string // protobuf package name (hagallpb, vikjapb, ...)
	TypeName string // struct type name
	TypeC    *types.Const
	Fn       *Func
}

func (r *Run) msgLiteral(fn *Func, arg ast.Expr) *MsgLit {
	lit, lfn := r.P.compositeOfIn(fn, arg)
	if lit == nil {
		return nil
	}
	pk, tn := litTypeName(lfn.Info(), lit)
	ml := &MsgLit{Lit: lit, Pkg: pk, TypeName: tn, Fn: lfn}
	if tx := litField(lit, "Type"); tx != nil {
		ml.TypeC = constOf(lfn.Info(), tx)
	}
	return ml
}

func (ml *MsgLit) TypeConstName() string {
	if ml == nil || ml.TypeC == nil {
		return ""
	}
	return cname(ml.TypeC)
}

// cname strips the Go enum type prefix of a generated protobuf constant (MsgType_MSG_TYPE_X -> MSG_TYPE_X).
func cname(c *types.Const) string {
	if c == nil {
		return ""
	}
	if n, ok := c.Type().(*types.Named); ok {
		if s, found := strings.CutPrefix(c.Name(), n.Obj().Name()+"_"); found {
			return s
		}
	}
	return c.Name()
}

// msgArgIndex: index of the message argument for Send (0) and Broadcast/BroadcastTo (1).
func (r *Run) relayMsg(ev Event) *MsgLit {
	if ev.Call == nil || len(ev.Call.Args) < 2 {
		return nil
	}
	return r.msgLiteral(ev.Fn, ev.Call.Args[1])
}

func (r *Run) sendMsg(ev Event) *MsgLit {
	if ev.Call == nil || len(ev.Call.Args) < 1 {
		return nil
	}
	return r.msgLiteral(ev.Fn, ev.Call.Args[0])
}

// codeOnPath resolves the Code field of an ErrorResponse literal to a constant, following a code
// variable to its last assignment on the path.
func (r *Run) codeOnPath(path *Path, i int, ml *MsgLit) *types.Const {
	cx := litField(ml.Lit, "Code")
	if cx == nil {
		return nil
	}
	if c := constOf(ml.Fn.Info(), cx); c != nil {
		return c
	}
	if id, ok := ast.Unparen(cx).(*ast.Ident); ok {
		// the code is a parameter of a looked-into helper (sendError(respond, id, code)): the caller's argument
		if bfn, bx := resolveBound(ml.Fn, id); bfn != ml.Fn || bx != ast.Expr(id) {
			if c := r.constThroughLocals(bfn, path, bx); c != nil {
				return c
			}
		}
		obj := ml.Fn.Info().Uses[id]
		if rhs, idx, ok := lastDefOnPath(ml.Fn, path, i, obj); ok && rhs != nil {
			if c := constOf(ml.Fn.Info(), rhs); c != nil {
				return c
			}
			// code computed by a looked-into helper: what it returned on this path
			if res, rfn, ok := r.P.inlinedResults(ml.Fn, rhs); ok && idx < len(res) {
				return r.constThroughLocals(rfn, path, res[idx])
			}
		}
	}
	if call, ok := ast.Unparen(cx).(*ast.CallExpr); ok {
		if res, rfn, ok := r.P.inlinedResults(ml.Fn, call); ok && len(res) == 1 {
			return r.constThroughLocals(rfn, path, res[0])
		}
	}
	return nil
}

func (r *Run) constThroughLocals(fn *Func, path *Path, x ast.Expr) *types.Const {
	return r.constDeep(fn, path, x, 0)
}

// constDeep: the constant an expression denotes on this path — directly, through a local's last definition,
// through a parameter bound at the call of a looked-into helper, or through what a looked-into helper
// returned (also one of several results, also when that helper got it from another helper).
func (r *Run) constDeep(fn *Func, path *Path, x ast.Expr, depth int) *types.Const {
	if x == nil || depth > 5 {
		return nil
	}
	if c := constOf(fn.Info(), x); c != nil {
		return c
	}
	switch v := ast.Unparen(x).(type) {
	case *ast.Ident:
		if bfn, bx := resolveBound(fn, v); bfn != fn || bx != ast.Expr(v) {
			return r.constDeep(bfn, path, bx, depth+1)
		}
		obj := fn.Info().Uses[v]
		if obj == nil {
			return nil
		}
		// the most recent definition before the use, searched from the use if it is an event of this instance
		at := len(path.Events)
		for i, ev := range path.Events {
			if ev.Fn == fn && ev.Node != nil && ev.Node.Pos() <= v.Pos() && v.End() <= ev.Node.End() {
				at = i
				break
			}
		}
		rhs, idx, ok := lastDefOnPath(fn, path, at, obj)
		if !ok || rhs == nil {
			return nil
		}
		if res, rfn, ok := r.P.inlinedResults(fn, rhs); ok && idx < len(res) {
			return r.constDeep(rfn, path, res[idx], depth+1)
		}
		if idx == 0 {
			return r.constDeep(fn, path, rhs, depth+1)
		}
	case *ast.CallExpr:
		if res, rfn, ok := r.P.inlinedResults(fn, v); ok && len(res) == 1 {
			return r.constDeep(rfn, path, res[0], depth+1)
		}
	}
	return nil
}

// returnClass classifies the function-level return of a path of a handler.
func (r *Run) returnClass(path *Path) string {
	for i := len(path.Events) - 1; i >= 0; i-- {
		ev := path.Events[i]
		if ev.Kind == EvEnd && ev.Depth == 0 {
			return "noreturn"
		}
		if ev.Kind != EvReturn || ev.Depth != 0 {
			continue
		}
		if len(ev.Results) == 0 {
			return "void"
		}
		res := ev.Results[len(ev.Results)-1]
		info := ev.Fn.Info()
		if isNilIdent(info, res) {
			return "nil"
		}
		if id, ok := ast.Unparen(res).(*ast.Ident); ok {
			obj := info.Uses[id]
			// an error variable that a guard on this path has just found to be nil: this is `return nil`
			if obj != nil && errVarKnownNil(path, i, ev.Fn, obj) {
				return "nil"
			}
			if rhs, ridx, ok := lastDefOnPath(ev.Fn, path, i, obj); ok && rhs != nil {
				if res, rfn, ok := r.P.inlinedResults(ev.Fn, rhs); ok && ridx < len(res) {
					if c := r.errExprClass(path, rfn, res[ridx]); c != "" {
						return c
					}
				} else if ok && len(res) == 1 {
					// the helper itself ended in `return g(…)` with several results: what g returned last
					if c := r.errExprClass(path, rfn, res[0]); c != "" {
						return c
					}
				}
				if f, _ := r.calleeOfExpr(ev.Fn, rhs); f != nil {
					if f == r.M().DataTo {
						return "decodeErr"
					}
					return "err:" + shortFuncName(f)
				}
			}
			return "errvar:" + id.Name
		}
		// return f(…) with f looked into on this path: what f returned
		if _, isCall := ast.Unparen(res).(*ast.CallExpr); isCall {
			if c := r.errExprClass(path, ev.Fn, res); c != "" {
				return c
			}
		}
		// errors.New(...).WithType(ErrTypeSessionNotJoined)...
		notJoined := false
		ast.Inspect(res, func(n ast.Node) bool {
			if c := constOfNode(info, n); c != nil && c.Name() == "ErrTypeSessionNotJoined" {
				notJoined = true
			}
			return true
		})
		if notJoined {
			return "notJoinedErr"
		}
		if f, _ := r.calleeOfExpr(ev.Fn, res); f != nil {
			return "errexpr:" + shortFuncName(f)
		}
		return "errexpr"
	}
	return "noreturn"
}

func constOfNode(info *types.Info, n ast.Node) *types.Const {
	switch v := n.(type) {
	case *ast.Ident:
		c, _ := info.Uses[v].(*types.Const)
		return c
	case *ast.SelectorExpr:
		c, _ := info.Uses[v.Sel].(*types.Const)
		return c
	}
	return nil
}

// guardsBefore returns the classified guards of the path up to event index i.
func (r *Run) guardsBefore(path *Path, i int) []GuardClass {
	var out []GuardClass
	for j := 0; j < i && j < len(path.Events); j++ {
		if path.Events[j].Kind == EvGuard {
			out = append(out, r.Classify(path, j))
		}
	}
	return out
}

// pathSig is a compact, line-free description of a path: its classified guard outcomes.
func (r *Run) pathSig(path *Path) string {
	var parts []string
	for j, ev := range path.Events {
		if ev.Kind == EvGuard {
			g := r.Classify(path, j)
			if g.Subject == "range" && g.Outcome == "done" {
				continue
			}
			parts = append(parts, g.String())
		}
		if ev.Kind == EvSkip {
			parts = append(parts, "skip:"+objName(ev.Via))
		}
	}
	return strings.Join(parts, ",")
}

// errVarKnownNil: walking back from event i, the nearest guard of the same function that compares obj
// with nil says it is nil, and obj is not assigned in between.
func errVarKnownNil(path *Path, i int, fn *Func, obj types.Object) bool {
	info := fn.Info()
	for j := i - 1; j >= 0; j-- {
		pe := path.Events[j]
		if pe.Fn != fn {
			continue
		}
		if pe.Kind == EvAssign {
			for _, l := range pe.Lhs {
				if lid, ok := ast.Unparen(l).(*ast.Ident); ok && (info.Uses[lid] == obj || info.Defs[lid] == obj) {
					return false
				}
			}
		}
		if pe.Kind != EvGuard || pe.Cond == nil {
			continue
		}
		cx, val := ast.Unparen(pe.Cond), pe.Val
		for {
			u, ok := cx.(*ast.UnaryExpr)
			if !ok || u.Op != token.NOT {
				break
			}
			cx, val = ast.Unparen(u.X), !val
		}
		be, ok := cx.(*ast.BinaryExpr)
		if !ok || (be.Op != token.EQL && be.Op != token.NEQ) {
			continue
		}
		var other ast.Expr
		if isNilIdent(info, be.Y) {
			other = be.X
		} else if isNilIdent(info, be.X) {
			other = be.Y
		} else {
			continue
		}
		oid, ok := ast.Unparen(other).(*ast.Ident)
		if !ok || info.Uses[oid] != obj {
			continue
		}
		return (be.Op == token.EQL) == val
	}
	return false
}

// errExprClass classifies an error expression returned by a looked-into helper: the decode error, the
// not-joined error, or "" when nothing specific is known.
func (r *Run) errExprClass(path *Path, fn *Func, x ast.Expr) string {
	return r.errExprClassD(path, fn, x, 0)
}

func (r *Run) errExprClassD(path *Path, fn *Func, x ast.Expr, depth int) string {
	info := fn.Info()
	if isNilIdent(info, x) {
		return "nil"
	}
	// return f(…) where f was looked into on this path: what f returned (its last result)
	if call, ok := ast.Unparen(x).(*ast.CallExpr); ok && depth < 5 {
		if res, rfn, ok := r.P.inlinedResults(fn, call); ok && len(res) >= 1 {
			if c := r.errExprClassD(path, rfn, res[len(res)-1], depth+1); c != "" {
				return c
			}
		}
	}
	if id, ok := ast.Unparen(x).(*ast.Ident); ok {
		obj := info.Uses[id]
		if rhs, _, ok := lastDefOnPath(fn, path, len(path.Events), obj); ok && rhs != nil {
			if f, _ := r.calleeOfExpr(fn, rhs); f != nil && f == r.M().DataTo {
				return "decodeErr"
			}
		}
		return ""
	}
	notJoined := false
	ast.Inspect(x, func(n ast.Node) bool {
		if c := constOfNode(info, n); c != nil && c.Name() == "ErrTypeSessionNotJoined" {
			notJoined = true
		}
		return true
	})
	if notJoined {
		return "notJoinedErr"
	}
	return ""
}
