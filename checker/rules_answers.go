package main

import (
	"fmt"
	"go/ast"
	"go/token"
	"go/types"
	"sort"
	"strings"
)

// ---------------------------------------------------------------------------------------------
// Mutator classification

func (r *Run) mutInfo(f *types.Func) (MutInfo, bool) {
	if f == nil {
		return MutInfo{}, false
	}
	mi, ok := mutatorTable[funcName(f)]
	if ok {
		return mi, true
	}
	return r.derivedMutInfo(f)
}

// derivedMutInfo: an exported method that is not in the table but writes exactly the receiver
// state that exactly one replicated table mutator writes (same fields, same kinds of write) is that
// mutator under another name or signature (constructor-style variant, compare-and-set variant): it
// inherits the row. Ambiguous or partial matches stay unclassified.
func (r *Run) derivedMutInfo(f *types.Func) (MutInfo, bool) {
	if r.derivedMut == nil {
		r.derivedMut = map[*types.Func]*MutInfo{}
	}
	if mi, done := r.derivedMut[f]; done {
		if mi == nil {
			return MutInfo{}, false
		}
		return *mi, true
	}
	r.derivedMut[f] = nil
	def := r.P.Funcs[f]
	if def == nil || def.Recv == nil || !f.Exported() || !isRepoPkg(f.Pkg()) {
		return MutInfo{}, false
	}
	sig := r.writeSig(def, 0)
	if sig == "" {
		return MutInfo{}, false
	}
	var match []string
	for name, row := range mutatorTable {
		if row.Relay == "" && row.Cascade == "" {
			continue
		}
		tf := r.P.FuncByName(name)
		if tf == nil || tf.Obj == nil || tf.Obj.Pkg() != f.Pkg() {
			continue
		}
		if r.writeSig(tf, 0) == sig {
			match = append(match, name)
		}
	}
	if len(match) != 1 {
		return MutInfo{}, false
	}
	mi := mutatorTable[match[0]]
	r.derivedMut[f] = &mi
	r.Notes = append(r.Notes, fmt.Sprintf("derived mutator: %s writes the same receiver state as %s (%s) and is treated as that row of the mutator table", funcName(f), match[0], sig))
	return mi, true
}

// writeSig: which receiver fields a method writes and how ("entities:store", "entities:delete",
// "pose:set"), looking through unexported methods of the same receiver (depth 2). Initialising a
// nil map with make() does not count.
func (r *Run) writeSig(fn *Func, depth int) string {
	set := map[string]bool{}
	r.collectWrites(fn, depth, set)
	var out []string
	for k := range set {
		out = append(out, k)
	}
	sort.Strings(out)
	return strings.Join(out, ",")
}

func (r *Run) collectWrites(fn *Func, depth int, set map[string]bool) {
	if fn == nil || fn.Recv == nil || depth > 2 {
		return
	}
	info := fn.Info()
	fieldOf := func(x ast.Expr) *types.Var {
		for {
			switch v := ast.Unparen(x).(type) {
			case *ast.IndexExpr:
				x = v.X
			case *ast.StarExpr:
				x = v.X
			case *ast.SelectorExpr:
				if id, ok := ast.Unparen(v.X).(*ast.Ident); ok && info.Uses[id] == fn.Recv {
					if sel := info.Selections[v]; sel != nil {
						if fv, ok := sel.Obj().(*types.Var); ok && fv.IsField() {
							return fv
						}
					}
					return nil
				}
				x = v.X
			default:
				return nil
			}
		}
	}
	isMake := func(x ast.Expr) bool {
		if call, ok := ast.Unparen(x).(*ast.CallExpr); ok {
			if b, ok := calleeObj(info, call).(*types.Builtin); ok && b.Name() == "make" {
				return true
			}
		}
		if cl, ok := ast.Unparen(x).(*ast.CompositeLit); ok && len(cl.Elts) == 0 {
			return true
		}
		return false
	}
	ast.Inspect(fn.Body, func(n ast.Node) bool {
		switch s := n.(type) {
		case *ast.FuncLit:
			return true
		case *ast.AssignStmt:
			for k, l := range s.Lhs {
				fv := fieldOf(l)
				if fv == nil {
					continue
				}
				if len(s.Rhs) == len(s.Lhs) && isMake(s.Rhs[k]) {
					continue
				}
				kind := "set"
				if _, isIdx := ast.Unparen(l).(*ast.IndexExpr); isIdx {
					kind = "store"
				}
				set[r.P.FieldName(fv)+":"+kind] = true
			}
		case *ast.IncDecStmt:
			if fv := fieldOf(s.X); fv != nil {
				set[r.P.FieldName(fv)+":set"] = true
			}
		case *ast.CallExpr:
			if b, ok := calleeObj(info, s).(*types.Builtin); ok && b.Name() == "delete" && len(s.Args) > 0 {
				if fv := fieldOf(s.Args[0]); fv != nil {
					set[r.P.FieldName(fv)+":delete"] = true
				}
			}
			if g, ok := calleeObj(info, s).(*types.Func); ok && g.Pkg() == fn.Obj.Pkg() {
				if se, ok := ast.Unparen(s.Fun).(*ast.SelectorExpr); ok {
					if id, ok := ast.Unparen(se.X).(*ast.Ident); ok && info.Uses[id] == fn.Recv {
						r.collectWrites(r.P.Funcs[g], depth+1, set)
					}
				}
			}
		}
		return true
	})
}

// checkMutatorTable: every row resolves to a function of the current tree, and every method of a
// model/module state type that writes receiver state is in the table (otherwise it is reported as an
// unclassified mutator wherever a refusal path calls it).
func (r *Run) resolveMutatorTable() {
	for name := range mutatorTable {
		if r.P.FuncByName(name) == nil {
			r.Undecide("tables", "mutator table row %s does not resolve to a function in the working tree", name)
		}
	}
}

// writesReceiver: AST-level write effect — the method assigns, increments, deletes from or appends
// into something rooted at its receiver, directly.
func (r *Run) writesReceiver(fn *Func) bool {
	if fn.Recv == nil {
		return false
	}
	info := fn.Info()
	rooted := func(x ast.Expr) bool {
		for {
			switch v := ast.Unparen(x).(type) {
			case *ast.SelectorExpr:
				x = v.X
			case *ast.IndexExpr:
				x = v.X
			case *ast.StarExpr:
				x = v.X
			case *ast.Ident:
				return info.Uses[v] == fn.Recv
			default:
				return false
			}
		}
	}
	isField := func(x ast.Expr) bool {
		switch ast.Unparen(x).(type) {
		case *ast.SelectorExpr, *ast.IndexExpr:
			return true
		}
		return false
	}
	w := false
	ast.Inspect(fn.Body, func(n ast.Node) bool {
		switch s := n.(type) {
		case *ast.AssignStmt:
			for _, l := range s.Lhs {
				if isField(l) && rooted(l) {
					w = true
				}
			}
		case *ast.IncDecStmt:
			if isField(s.X) && rooted(s.X) {
				w = true
			}
		case *ast.CallExpr:
			if b, ok := calleeObj(info, s).(*types.Builtin); ok && b.Name() == "delete" && len(s.Args) > 0 && rooted(s.Args[0]) {
				w = true
			}
		}
		return true
	})
	return w
}

// effects: transitive set of table mutators (by name) a function may call, through static calls,
// interface calls to Module methods (union over implementations), and closures in its body.
func (r *Run) effects(f *types.Func) map[string]bool {
	memo := map[*types.Func]map[string]bool{}
	var visit func(f *types.Func, stack map[*types.Func]bool) map[string]bool
	visit = func(f *types.Func, stack map[*types.Func]bool) map[string]bool {
		if e, ok := memo[f]; ok {
			return e
		}
		out := map[string]bool{}
		if _, ok := r.mutInfo(f); ok {
			out[funcName(f)] = true
			memo[f] = out
			return out
		}
		def := r.P.Funcs[f]
		if def == nil || stack[f] {
			// interface method of Module?
			for _, impl := range r.moduleImpls(f) {
				for k := range visit(impl, stack) {
					out[k] = true
				}
			}
			return out
		}
		if def.Obj != nil && onceOnly(def) {
			memo[f] = out // a sync.Once initialiser establishes the initial state; it is not a change of it
			return out
		}
		stack[f] = true
		if r.writesReceiver(def) {
			out["unclassified:"+funcName(f)] = true
		}
		ast.Inspect(def.Body, func(n ast.Node) bool {
			if call, ok := n.(*ast.CallExpr); ok {
				if g, ok := calleeObj(def.Info(), call).(*types.Func); ok {
					for k := range visit(g, stack) {
						out[k] = true
					}
				}
			}
			return true
		})
		delete(stack, f)
		memo[f] = out
		return out
	}
	return visit(f, map[*types.Func]bool{})
}

func (r *Run) moduleImpls(f *types.Func) []*types.Func {
	m := r.M()
	iface := m.ModuleIface.Underlying().(*types.Interface)
	isIfaceMethod := false
	for i := 0; i < iface.NumMethods(); i++ {
		if iface.Method(i) == f {
			isIfaceMethod = true
		}
	}
	if !isIfaceMethod {
		return nil
	}
	var out []*types.Func
	for _, mi := range m.Modules {
		if g := r.P.LookupFunc(mi.Named.Obj().Pkg().Path(), mi.Named.Obj().Name(), f.Name()); g != nil {
			out = append(out, g)
		}
	}
	return out
}

// mutEvent describes a state-changing call on a path.
type mutEvent struct {
	Idx    int
	Names  []string // table mutators reached (one for a direct call)
	Direct bool
	Callee *types.Func
}

func (r *Run) mutEvents(path *Path) []mutEvent {
	var out []mutEvent
	for i, ev := range path.Events {
		if ev.Kind != EvCall {
			continue
		}
		f, ok := ev.Callee.(*types.Func)
		if !ok {
			continue
		}
		if dmi, ok := r.mutInfo(f); ok {
			if _, inTable := mutatorTable[funcName(f)]; !inTable && i+1 < len(path.Events) && path.Events[i+1].Kind == EvEnter && path.Events[i+1].Helper {
				// derived row, but the function was looked into: when a table primitive is called inside,
				// that call is the change; otherwise (the glue writes the state itself) this call is
				prim := false
				depth := 0
				for k := i + 1; k < len(path.Events); k++ {
					pe := path.Events[k]
					if pe.Kind == EvEnter {
						depth++
					}
					if pe.Kind == EvExit {
						depth--
						if depth == 0 {
							break
						}
					}
					if pe.Kind == EvCall {
						if g, ok := pe.Callee.(*types.Func); ok {
							if row, inT := mutatorTable[funcName(g)]; inT && row.Relay == dmi.Relay && row.Cascade == dmi.Cascade {
								prim = true
							}
						}
					}
				}
				if prim {
					continue
				}
			}
			out = append(out, mutEvent{Idx: i, Names: []string{funcName(f)}, Direct: true, Callee: f})
			continue
		}
		if !isRepoPkg(f.Pkg()) {
			continue
		}
		if i+1 < len(path.Events) && path.Events[i+1].Kind == EvEnter && path.Events[i+1].Helper && path.Events[i+1].Lit == nil {
			continue // looked into on this path: what it does here is in the events that follow, not in its summary
		}
		eff := r.effects(f)
		if len(eff) == 0 {
			continue
		}
		var names []string
		for k := range eff {
			names = append(names, k)
		}
		sort.Strings(names)
		out = append(out, mutEvent{Idx: i, Names: names, Callee: f})
	}
	return out
}

// reportedFailure: the path observes the failure outcome of this mutator call (so it changed nothing).
func (r *Run) reportedFailure(path *Path, me mutEvent) bool {
	mi, ok := r.mutInfo(me.Callee)
	if !ok || mi.Reports == "" {
		return false
	}
	for j := me.Idx + 1; j < len(path.Events); j++ {
		if path.Events[j].Kind != EvGuard {
			continue
		}
		g := r.Classify(path, j)
		if g.Callee != me.Callee {
			continue
		}
		switch mi.Reports {
		case "err":
			return g.Outcome == "err"
		case "bool":
			return g.Outcome == "false"
		}
	}
	return false
}

// isConstruction: mutator applied to an object allocated in this function before it is published.
func (r *Run) isConstruction(path *Path, me mutEvent) bool {
	ev := path.Events[me.Idx]
	if ev.Recv == nil {
		return false
	}
	rc := r.P.Canon(ev.Fn, ev.Recv)
	if !strings.HasPrefix(rc, "&lit:") && !strings.HasPrefix(rc, "lit:") {
		return false
	}
	for j := 0; j < me.Idx; j++ {
		pe := path.Events[j]
		if pe.Kind != EvCall || pe.Call == nil {
			continue
		}
		for _, a := range pe.Call.Args {
			if r.P.Canon(pe.Fn, a) == rc {
				return false // already handed to someone
			}
		}
	}
	return true
}

// ---------------------------------------------------------------------------------------------
// Answers on a path

type answer struct {
	Idx  int
	Ev   Event
	Lit  *MsgLit
	Kind string // "error", "response", "push", "unknown"
}

func (r *Run) answersOn(path *Path) []answer {
	var out []answer
	for i, ev := range path.Events {
		if !r.isSendCall(ev) {
			continue
		}
		a := answer{Idx: i, Ev: ev, Lit: r.sendMsg(ev), Kind: "unknown"}
		if a.Lit != nil {
			switch {
			case a.Lit.TypeName == "ErrorResponse":
				a.Kind = "error"
			case litField(a.Lit.Lit, "RequestId") != nil || strings.HasSuffix(a.Lit.TypeConstName(), "_RESPONSE"):
				a.Kind = "response"
			default:
				a.Kind = "push"
			}
		}
		out = append(out, a)
	}
	return out
}

// refusalReason: the classified reason for an error answer at index i (see tables.go codeTable).
func (r *Run) refusalReason(path *Path, i int) string {
	sawSelect := false
	for j := i - 1; j >= 0; j-- {
		ev := path.Events[j]
		if ev.Kind != EvGuard {
			continue
		}
		g := r.Classify(path, j)
		switch {
		case ev.GKind == GSwitchCase:
			continue
		case ev.GKind == GSelectCase:
			if !ev.Val {
				sawSelect = true
				continue
			}
			return ""
		case g.Failing:
			if sawSelect {
				return "busy"
			}
			return g.String()
		case strings.HasPrefix(g.Subject, "boolcall:") && g.Outcome == "false":
			if codes, _ := expectedCodes("", g.String()); len(codes) > 0 {
				return g.String()
			}
		case strings.HasPrefix(g.Subject, "cmp:"):
			if sawSelect {
				return "busy"
			}
			if strings.HasPrefix(g.Subject, "cmp:len(") {
				return "size:" + g.Subject
			}
			return "range:" + g.Subject
		case strings.HasPrefix(g.Subject, "timelt:") && g.Outcome == "true":
			return "stale"
		case strings.HasPrefix(g.Subject, "eq:") && g.Outcome == "equal" && strings.Contains(g.Subject, "GlobalSessionID") && strings.Contains(g.Subject, ".SessionId"):
			return "same-session"
		case strings.HasPrefix(g.Subject, "nil:") && g.Outcome == "nil" && strings.Contains(g.Subject, "var:"):
			return "nilfield:" + g.Subject
		}
		if sawSelect {
			return "busy"
		}
	}
	if sawSelect {
		return "busy"
	}
	return ""
}

func expectedCodes(fnName, reason string) ([]string, string) {
	if c, ok := codeExceptions[fnName+"|"+reason]; ok {
		return []string{c}, "frozen exception"
	}
	for _, cr := range codeTable {
		if strings.HasPrefix(reason, cr.Prefix) {
			return strings.Split(cr.Code, "|"), cr.Why
		}
	}
	return nil, ""
}

// expectedResponseConst: MSG_TYPE_X_REQUEST -> MSG_TYPE_X_RESPONSE
func expectedResponseConst(req string) string {
	if strings.HasSuffix(req, "_REQUEST") {
		return strings.TrimSuffix(req, "_REQUEST") + "_RESPONSE"
	}
	return ""
}

// ---------------------------------------------------------------------------------------------
// Rule group B (answers) + J2 (joined guard) over every dispatched handler

func ruleAnswers(r *Run) {
	m := r.M()
	if r.broken() {
		return
	}
	r.resolveMutatorTable()
	nPrimary, nPaths := 0, 0
	for _, hi := range m.Handlers {
		fn := hi.Fn
		paths := r.Paths(fn)
		r.Analysed(fn, len(paths))
		if len(paths) == 0 {
			r.Undecide("B1", "no paths enumerated for handler %s", fn.Name)
			continue
		}
		if !hi.Secondary {
			nPrimary++
		}
		deferredOK := false
		for pi := range paths {
			path := &paths[pi]
			r.at(path)
			nPaths++
			sig := r.pathSig(path)
			site := fmt.Sprintf("%s:path[%s]", fn.Name, sig)
			ans := r.answersOn(path)
			ret := r.returnClass(path)
			var nResp, nErr, nPush int
			for _, a := range ans {
				switch a.Kind {
				case "error":
					nErr++
				case "response":
					nResp++
				case "push":
					nPush++
				default:
					r.CheckT("B1", site+":unresolved-message", false, a.Ev.Pos, path, "message handed to Send cannot be resolved to a literal")
				}
			}
			total := nResp + nErr
			deferred := false
			for _, ev := range path.Events {
				if f, ok := ev.Callee.(*types.Func); ok && ev.Kind == EvCall {
					if _, ok := deferredAnswer[funcName(f)]; ok {
						deferred = true
						deferredOK = true
					}
				}
			}
			// B6: every Send goes to the handler's own respond parameter
			for _, a := range ans {
				rc := ""
				if a.Ev.Recv != nil {
					rc = r.P.Canon(a.Ev.Fn, a.Ev.Recv)
				}
				want := ""
				if hi.Respond != nil {
					want = fmt.Sprintf("param:#%d", paramIndex(hi.Fn, hi.Respond))
				}
				r.CheckT("B6", fmt.Sprintf("%s:send[%s]", fn.Name, a.Lit.TypeConstNameOr(a.Kind)), rc == want && want != "", a.Ev.Pos, path,
					"answer is sent through %q, expected the handler's own respond parameter", rc)
			}
			switch {
			case hi.Secondary:
				// the core handler owns the answer; a module's secondary handler may only push state
				r.CheckT("B1", site, total == 0, fn.Body.Pos(), path,
					"secondary module handler for %s sends %d response/error message(s); the core handler already answers the request", cname(hi.Const), total)
			case hi.Respond == nil || !hi.HasReqID:
				// message kinds without a request id: never a success response, at most one error
				ok := nResp == 0 && nErr <= 1
				r.CheckT("B1", site, ok, fn.Body.Pos(), path, "message kind without request id: %d response(s), %d error answer(s) on one path (expected 0 and at most 1)", nResp, nErr)
			case fn.Name == "websocket.(*RealtimeHandler).HandlePingResponse":
				// ping responses are not requests: an error answer iff OnPing refused; see C18 rules
				ok := total <= 1 && nResp == 0
				r.CheckT("B1", site, ok, fn.Body.Pos(), path, "ping response handling sends %d response(s) and %d error(s)", nResp, nErr)
			default:
				ok := false
				why := ""
				switch {
				case total == 1 && ret == "nil":
					ok = true
				case total == 0 && (ret == "decodeErr" || ret == "notJoinedErr"):
					ok = true
				case total == 0 && ret == "nil" && deferred:
					ok = true
				case total == 0 && ret == "nil":
					why = "request with a request id is dropped without any answer"
				case total == 1 && ret != "nil":
					why = fmt.Sprintf("path answers the request and then returns a non-nil error (%s): the connection is closed while the answer is still queued", ret)
				case total > 1:
					why = fmt.Sprintf("request is answered %d times on one path", total)
				default:
					why = fmt.Sprintf("%d answers and return class %s", total, ret)
				}
				r.CheckT("B1", site, ok, fn.Body.Pos(), path, "%s", tern(ok, "exactly one answer then return nil, or no answer and a decode / not-joined error", why))
			}
			// per answer: B2 echo, B3 type, B4 code
			for _, a := range ans {
				if a.Lit == nil {
					continue
				}
				asite := fmt.Sprintf("%s:answer[%s|%s]", fn.Name, a.Lit.TypeConstName(), sig)
				if hi.HasReqID && (a.Kind == "error" || a.Kind == "response") && hi.ReqVar != nil {
					idx := litField(a.Lit.Lit, "RequestId")
					got := ""
					if idx != nil {
						got = r.P.Canon(a.Lit.Fn, idx)
					}
					want := "var:req.RequestId"
					r.CheckT("B2", asite, got == want, a.Ev.Pos, path, "RequestId of the answer is %q, expected the request's own id %q", got, want)
				}
				switch a.Kind {
				case "response":
					want := expectedResponseConst(cname(hi.Const))
					r.CheckT("B3", asite, !hi.Secondary && a.Lit.TypeConstName() == want, a.Ev.Pos, path,
						"success answer has type %s, expected %s for %s", a.Lit.TypeConstName(), want, cname(hi.Const))
				case "error":
					r.CheckT("B3", asite, a.Lit.TypeConstName() == "MSG_TYPE_ERROR_RESPONSE", a.Ev.Pos, path, "ErrorResponse literal carries type %s", a.Lit.TypeConstName())
					code := r.codeOnPath(path, a.Idx, a.Lit)
					reason := r.refusalReason(path, a.Idx)
					codes, why := expectedCodes(fn.Name, reason)
					cn := ""
					if code != nil {
						cn = cname(code)
					}
					if len(codes) == 0 {
						r.CheckT("B4", asite, false, a.Ev.Pos, path, "error answer %s behind a guard this rule cannot classify (%q)", cn, reason)
					} else {
						ok := false
						for _, c := range codes {
							if c == cn {
								ok = true
							}
						}
						if ok && len(codes) == 2 {
							// conflict vs not-found is decided by the error type switch
							isConflictArm := false
							for j := 0; j < a.Idx; j++ {
								pe := path.Events[j]
								if pe.Kind != EvGuard || pe.Cond == nil {
									continue
								}
								mentions := false
								ast.Inspect(pe.Cond, func(n ast.Node) bool {
									if c := constOfNode(pe.Fn.Info(), n); c != nil && c.Name() == "ErrEntityComponentTypeAlreadyAdded" {
										mentions = true
									}
									return true
								})
								if !mentions {
									continue
								}
								switch {
								case pe.GKind == GSwitchCase:
									isConflictArm = isConflictArm || pe.Val
								default:
									// errors.Type(err) == AlreadyAdded (or !=): equal on this outcome?
									if be, ok := ast.Unparen(pe.Cond).(*ast.BinaryExpr); ok {
										eq := (be.Op == token.EQL) == pe.Val
										isConflictArm = isConflictArm || eq
									}
								}
							}
							ok = (cn == "ERROR_CODE_CONFLICT") == isConflictArm
						}
						r.CheckT("B4", asite, ok, a.Ev.Pos, path, "error code %s for reason %q; expected %s (%s)", cn, reason, strings.Join(codes, " or "), why)
					}
				}
			}
			// B5: refusal paths are pure
			refusal := nErr > 0 || (ret != "nil" && ret != "void")
			silentRefusal := false
			if !refusal && (hi.Respond == nil || !hi.HasReqID) {
				for j, ev := range path.Events {
					if ev.Kind == EvGuard {
						g := r.Classify(path, j)
						if g.Failing && (strings.HasPrefix(g.Subject, "lookup:") || strings.HasPrefix(g.Subject, "owner:") ||
							strings.HasPrefix(g.Subject, "joined:") || g.Subject == "decode") {
							silentRefusal = true
						}
						// a zero / missing request field is a refusal when the branch leaves the handler at once
						if (g.Failing && strings.HasPrefix(g.Subject, "zero:")) || (strings.HasPrefix(g.Subject, "nil:var:") && g.Outcome == "nil") {
							if j+1 < len(path.Events) && path.Events[j+1].Kind == EvReturn && path.Events[j+1].Depth == 0 {
								silentRefusal = true
							}
						}
					}
				}
			}
			if refusal || silentRefusal {
				for _, me := range r.mutEvents(path) {
					if r.reportedFailure(path, me) || r.isConstruction(path, me) {
						continue
					}
					r.CheckT("B5", fmt.Sprintf("%s:refusal-mutates[%s|%s]", fn.Name, shortFuncName(me.Callee), sig), false, path.Events[me.Idx].Pos, path,
						"a refused request still changes state: %s is called on a path that ends in %s", shortFuncName(me.Callee), tern(nErr > 0, "an error answer", tern(silentRefusal, "a silent drop", "an error return")))
				}
				for _, ev := range path.Events {
					if r.isRelay(ev) {
						ml := r.relayMsg(ev)
						r.CheckT("B5", fmt.Sprintf("%s:refusal-relays[%s|%s]", fn.Name, ml.TypeConstNameOr("?"), sig), false, ev.Pos, path, "a refused request is relayed to other participants")
					}
				}
				r.Check("B5", site, true, fn.Body.Pos(), "refusal path examined for state changes and relays")
			}
			// B7: a silent handler drops a message only for a recognised reason
			if !hi.Secondary && (hi.Respond == nil || !hi.HasReqID || cname(hi.Const) == "MSG_TYPE_PING_RESPONSE") && ret == "nil" && nErr == 0 && !hasSkip(path) {
				acted := false
				for _, me := range r.mutEvents(path) {
					if !r.reportedFailure(path, me) {
						acted = true
					}
				}
				for _, ev := range path.Events {
					if r.isRelay(ev) {
						acted = true
					}
				}
				if !acted {
					reason := ""
					for j, ev := range path.Events {
						if ev.Kind != EvGuard {
							continue
						}
						g := r.Classify(path, j)
						switch {
						case g.Failing && (strings.HasPrefix(g.Subject, "lookup:") || strings.HasPrefix(g.Subject, "owner:") || strings.HasPrefix(g.Subject, "zero:") || strings.HasPrefix(g.Subject, "err:")):
							reason = g.String()
						case strings.HasPrefix(g.Subject, "nil:var:") && g.Outcome == "nil":
							reason = g.String()
						case ev.GKind == GRange && !ev.Val:
							reason = "nothing to iterate"
						}
					}
					r.CheckT("B7", fmt.Sprintf("%s:silent-drop[%s]", fn.Name, sig), reason != "", fn.Body.Pos(), path,
						"a well-formed message from a joined participant is dropped without effect and without a recognised reason (unknown / foreign target, missing field): an accepted change is neither applied nor relayed")
				}
			}
			if pi < 2 && len(r.Samples) < 30 {
				r.Sample("B1 %s path[%s] answers=%d(err %d) return=%s", fn.Name, sig, total, nErr, ret)
			}
		}
		if fn.Name == "websocket.(*RealtimeHandler).HandleSignedLatency" {
			r.Check("B1", fn.Name+":deferred-answer", deferredOK, fn.Body.Pos(), "accepted signed-latency request hands the answer obligation to SignedLatency.Start")
		}
	}
	r.Floor("B1", "primary handlers analysed", nPrimary, 22)
	r.Floor("B1", "handler paths", nPaths, 120)
}

func (ml *MsgLit) TypeConstNameOr(alt string) string {
	if ml == nil || ml.TypeC == nil {
		return alt
	}
	return cname(ml.TypeC)
}

// ruleJoinedGuard (J2): every session-scoped handler tests the connection's session/participant for
// nil before using it, and leaves with the not-joined error (or the UNAUTHORIZED answer).
func ruleJoinedGuard(r *Run) {
	m := r.M()
	if r.broken() {
		return
	}
	n := 0
	for _, hi := range m.Handlers {
		fn := hi.Fn
		if hi.Module != nil {
			continue // modules are only consulted for joined connections (rule A1) and re-bound on every join (rule J3)
		}
		paths := r.Paths(fn)
		r.Analysed(fn, len(paths))
		for pi := range paths {
			path := &paths[pi]
			r.at(path)
			tested := map[string]bool{}
			for i, ev := range path.Events {
				if ev.Kind == EvGuard {
					g := r.Classify(path, i)
					if strings.HasPrefix(g.Subject, "joined:") && g.Outcome == "yes" {
						tested[strings.TrimPrefix(g.Subject, "joined:")] = true
					}
					if strings.HasPrefix(g.Subject, "joined:") && g.Outcome == "no" {
						// leaving: not-joined error or UNAUTHORIZED answer, or (join) a legitimate "not in a session yet" branch
						continue
					}
				}
				if ev.Kind != EvCall || ev.Recv == nil {
					continue
				}
				// a use: method call or field access on the connection's session / participant
				rc := r.P.Canon(ev.Fn, ev.Recv)
				for _, which := range []string{"currentSession", "currentParticipant"} {
					if rc == "recv."+which || strings.HasPrefix(rc, "recv."+which+".") {
						n++
						r.CheckT("J2", fmt.Sprintf("%s:use[%s.%s]", fn.Name, which, objName(ev.Callee)), tested[which], ev.Pos, path,
							"%s is used (%s) on a path that has not established that the connection joined a session", which, r.P.EventStr(ev))
					}
				}
			}
		}
	}
	r.Floor("J2", "guarded uses of the connection's session/participant", n, 25)
}

// ruleAcceptedApplies (B8): a request that is answered with its success response has been carried
// out. Contradiction form, no table: over the accepting paths of one handler (paths that send a
// response that is not an error), the classes of replicated change performed must agree — a path
// that answers success but performs none of the changes another accepting path performs accepts
// a request without applying it (nothing is stored, nothing is relayed, the requester believes
// otherwise).
func ruleAcceptedApplies(r *Run) {
	m := r.M()
	if r.broken() {
		return
	}
	nHandlers := 0
	for _, hi := range m.Handlers {
		fn := hi.Fn
		paths := r.Paths(fn)
		type acc struct {
			path    *Path
			classes map[string]bool
		}
		var accs []acc
		union := map[string]string{} // class -> mutator seen
		for pi := range paths {
			path := &paths[pi]
			r.at(path)
			ok, refused := false, false
			for _, a := range r.answersOn(path) {
				switch a.Kind {
				case "response":
					ok = true
				case "error":
					refused = true
				}
			}
			if !ok || refused {
				continue
			}
			cl := map[string]bool{}
			for _, me := range r.mutEvents(path) {
				if !me.Direct {
					continue
				}
				mi, _ := r.mutInfo(me.Callee)
				if mi.Relay == "" || r.isConstruction(path, me) || r.reportedFailure(path, me) {
					continue
				}
				cl[mi.Relay] = true
				union[mi.Relay] = shortFuncName(me.Callee)
			}
			accs = append(accs, acc{path, cl})
		}
		if len(union) == 0 {
			continue
		}
		nHandlers++
		r.Analysed(fn, len(paths))
		var classes []string
		for c := range union {
			classes = append(classes, c)
		}
		sort.Strings(classes)
		for _, a := range accs {
			r.at(a.path)
			for _, c := range classes {
				r.CheckT("B8", fmt.Sprintf("%s:accepted-applies[%s]", fn.Name, c), a.classes[c], fn.Body.Pos(), a.path,
					"this path answers the request with success but does not perform the change (%s, class %s) that other accepting paths of the handler perform: the request is accepted and not carried out [path %s]", union[c], c, r.pathSig(a.path))
			}
		}
	}
	r.Floor("B8", "handlers with an accepted replicated change", nHandlers, 7)
}

// ruleAcceptedPerforms (B9): a request answered with success has had its operation carried out — on
// every accepting path of the handler of kind K, each primitive the table names for K is called
// (directly or inside looked-into glue) before the success answer. B8 compares sibling paths; B9
// covers handlers with a single accepting path and operations that are not replicated
// (subscriptions, the type registry, listings).
func ruleAcceptedPerforms(r *Run) {
	m := r.M()
	if r.broken() {
		return
	}
	for name := range kindPrimitive {
		for _, pn := range kindPrimitive[name] {
			if r.P.FuncByName(pn) == nil {
				r.Undecide("tables", "kind/primitive table: %s does not resolve to a function in the working tree", pn)
			}
		}
	}
	n := 0
	for _, hi := range m.Handlers {
		if hi.Module != nil {
			continue
		}
		prims := kindPrimitive[cname(hi.Const)]
		if len(prims) == 0 {
			continue
		}
		n++
		fn := hi.Fn
		paths := r.Paths(fn)
		r.Analysed(fn, len(paths))
		for pi := range paths {
			path := &paths[pi]
			r.at(path)
			iAns, refused := -1, false
			for _, a := range r.answersOn(path) {
				switch a.Kind {
				case "response":
					if iAns < 0 {
						iAns = a.Idx
					}
				case "error":
					refused = true
				}
			}
			if iAns < 0 || refused {
				continue
			}
			for _, pn := range prims {
				pf := r.P.FuncByName(pn)
				called := false
				for k, ev := range path.Events {
					if k >= iAns {
						break // the operation comes before the success answer: an acknowledgement sent first can reach the client (and block on a slow one) while the request is not yet carried out
					}
					if ev.Kind == EvCall && pf != nil && ev.Callee == pf.Obj {
						called = true
					}
				}
				r.CheckT("B9", fmt.Sprintf("%s:performs[%s]", fn.Name, shortFuncName(pf.Obj)), called, fn.Body.Pos(), path,
					"this path answers the request with success without having called %s first: the request is acknowledged and not (yet) carried out [path %s]", shortFuncName(pf.Obj), r.pathSig(path))
			}
		}
	}
	r.Floor("B9", "request kinds with a designated operation", n, 9)
}

// ruleArgRoles (B10): ids of different kinds are not confused at the model API. For every call of an
// exported models method that takes two or more parameters of one basic type, each argument is classified
// by where it comes from (Participant.ID, Entity.ID, a request field …); an argument whose class is never
// handed to that parameter name anywhere else in the repository, but is what the other call sites hand to
// *another* parameter of the same callee, is in the wrong position (Unsubscribe(participantID, typeID)).
// A sibling cross-check: it needs no table, and renaming parameters only makes it say less.
func ruleArgRoles(r *Run) {
	if r.broken() {
		return
	}
	type site struct {
		fn     *Func
		call   *ast.CallExpr
		callee *types.Func
		keys   []string // parameter names (lower case) of the same-typed parameters, "" for the others
		class  []string
	}
	classOf := func(fn *Func, x ast.Expr) string {
		x = ast.Unparen(r.throughLocals(fn, x))
		info := fn.Info()
		switch v := x.(type) {
		case *ast.SelectorExpr:
			if sel, ok := info.Selections[v]; ok && sel.Kind() == types.FieldVal {
				if nt, ok := derefNamedT(sel.Recv()); ok {
					if isPBMessagePtr(types.NewPointer(nt)) {
						return "request." + sel.Obj().Name()
					}
					return typeDisplay(nt.Obj()) + "." + sel.Obj().Name()
				}
			}
		case *ast.CallExpr:
			if f, ok := calleeObj(info, v).(*types.Func); ok {
				if fld := r.P.getterField(f); fld != "" {
					if rv := f.Type().(*types.Signature).Recv(); rv != nil {
						if nt, ok := derefNamedT(rv.Type()); ok {
							if isPBMessagePtr(types.NewPointer(nt)) {
								return "request." + fld
							}
							return typeDisplay(nt.Obj()) + "." + fld
						}
					}
				}
				return "call:" + shortFuncName(f)
			}
		}
		return ""
	}
	var sites []site
	for _, fn := range r.P.All {
		if fn.Pkg.PkgPath == pkgModels {
			continue // the model's own internals
		}
		info := fn.Info()
		ast.Inspect(fn.Body, func(nd ast.Node) bool {
			call, ok := nd.(*ast.CallExpr)
			if !ok {
				return true
			}
			f, ok := calleeObj(info, call).(*types.Func)
			if !ok || f.Pkg() == nil || f.Pkg().Path() != pkgModels || !f.Exported() {
				return true
			}
			sig := f.Type().(*types.Signature)
			if sig.Variadic() || sig.Params().Len() != len(call.Args) {
				return true
			}
			byType := map[string]int{}
			for i := 0; i < sig.Params().Len(); i++ {
				if b, ok := sig.Params().At(i).Type().(*types.Basic); ok {
					byType[b.Name()]++
				}
			}
			s := site{fn: fn, call: call, callee: f}
			any := false
			for i := 0; i < sig.Params().Len(); i++ {
				key, cls := "", ""
				if b, ok := sig.Params().At(i).Type().(*types.Basic); ok && sig.Params().At(i).Name() != "" && sig.Params().At(i).Name() != "_" {
					key = strings.ToLower(sig.Params().At(i).Name())
					cls = classOf(fn, call.Args[i])
					if byType[b.Name()] >= 2 {
						any = true
					}
				}
				s.keys = append(s.keys, key)
				s.class = append(s.class, cls)
			}
			if any || true {
				sites = append(sites, s)
			}
			return true
		})
	}
	n := 0
	for si, s := range sites {
		sig := s.callee.Type().(*types.Signature)
		for i := range s.keys {
			if s.keys[i] == "" || s.class[i] == "" {
				continue
			}
			// same-typed sibling parameters of this callee
			for j := range s.keys {
				if j == i || s.keys[j] == "" || !types.Identical(sig.Params().At(i).Type(), sig.Params().At(j).Type()) {
					continue
				}
				n++
				seenForOwn, seenForOther := false, false
				for sj, o := range sites {
					if sj == si {
						continue
					}
					for k := range o.keys {
						if o.class[k] != s.class[i] {
							continue
						}
						if o.keys[k] == s.keys[i] {
							seenForOwn = true
						}
						if o.keys[k] == s.keys[j] {
							seenForOther = true
						}
					}
				}
				r.Check("B10", fmt.Sprintf("%s:%s(arg %d)", s.fn.Name, shortFuncName(s.callee), i), seenForOwn || !seenForOther, s.call.Args[i].Pos(),
					"argument %d of %s (%s) is what every other call site hands to parameter %q, never to %q: two ids of the same type are swapped", i, shortFuncName(s.callee), s.class[i], s.keys[j], s.keys[i])
			}
		}
	}
	r.Floor("B10", "same-typed parameter pairs examined", n, 4)
}
