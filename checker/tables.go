package main

// Frozen tables. Every row is keyed by a type-checker object name (resolved on every run; a row
// whose object no longer exists makes the run UNDECIDED) and carries one line of reason.

type MutInfo struct {
	Relay   string // broadcast message type constant that replicates this mutation ("" = not replicated)
	Cascade string // implied by the relay of this other class (cascades of entity removal)
	Reports string // "err": returns non-nil error when nothing was changed; "bool": returns false when nothing was changed
	Why     string // reason for a non-replicated mutator
}

var mutatorTable = map[string]MutInfo{
	// replicated state: an accepted change must be relayed with the named class
	"models.(*Session).AddEntity":            {Relay: "MSG_TYPE_ENTITY_ADD_BROADCAST"},
	"models.(*Session).RemoveEntity":         {Relay: "MSG_TYPE_ENTITY_DELETE_BROADCAST"},
	"models.(*Entity).SetPose":               {Relay: "MSG_TYPE_ENTITY_UPDATE_POSE_BROADCAST"},
	"models.(*Session).AddParticipant":       {Relay: "MSG_TYPE_PARTICIPANT_JOIN_BROADCAST"},
	"models.(*Session).RemoveParticipant":    {Relay: "MSG_TYPE_PARTICIPANT_LEAVE_BROADCAST"},
	"models.(*EntityComponentStore).Add":     {Relay: "MSG_TYPE_ENTITY_COMPONENT_ADD_BROADCAST", Reports: "err"},
	"models.(*EntityComponentStore).Update":  {Relay: "MSG_TYPE_ENTITY_COMPONENT_UPDATE_BROADCAST", Reports: "err"},
	"models.(*EntityComponentStore).Delete":  {Relay: "MSG_TYPE_ENTITY_COMPONENT_DELETE_BROADCAST", Reports: "bool"},
	"modules/vikja.(*State).SetEntityAction": {Relay: "MSG_TYPE_VIKJA_ENTITY_ACTION_BROADCAST"},
	"modules/odal.(*State).SetAssetInstance": {Relay: "MSG_TYPE_ODAL_ASSET_INSTANCE_ADD_BROADCAST"},
	// cascades: what observers drop when they are told the entity is gone
	"models.(*EntityComponentStore).DeleteByEntityID": {Cascade: "MSG_TYPE_ENTITY_DELETE_BROADCAST"},
	"modules/vikja.(*State).RemoveEntityActions":      {Cascade: "MSG_TYPE_ENTITY_DELETE_BROADCAST"},
	"modules/odal.(*State).RemoveAssetInstance":       {Cascade: "MSG_TYPE_ENTITY_DELETE_BROADCAST"},
	// not replicated: queried on demand or private to the server
	"models.(*EntityComponentStore).AddType":                  {Why: "type registry is queried on demand (get id / get name)"},
	"models.(*EntityComponentStore).Subscribe":                {Why: "subscriptions are private to the server", Reports: "err"},
	"models.(*EntityComponentStore).Unsubscribe":              {Why: "subscriptions are private to the server"},
	"models.(*EntityComponentStore).UnsubscribeByParticipant": {Why: "subscriptions are private to the server"},
	"models.(*Session).HandleFrame":                           {Why: "frame-handler registration is server plumbing"},
	"models.(*Session).SetModuleState":                        {Why: "module-state registration is server plumbing"},
	"models.(*Session).NewParticipantID":                      {Why: "id allocation"},
	"models.(*Session).NewEntityID":                           {Why: "id allocation"},
	"models.(*Session).Close":                                 {Why: "stops the frame worker"},
	"models.(*Session).StartDispatchFrames":                   {Why: "frame worker"},
	"models.(*SessionStore).NewID":                            {Why: "id allocation"},
	"models.(*SessionStore).Add":                              {Why: "session registry", Reports: "err"},
	"models.(*SessionStore).Remove":                           {Why: "session registry"},
	"models.(*Participant).AddEntity":                         {Why: "owner's bookkeeping of its own entity ids"},
	"models.(*Participant).RemoveEntity":                      {Why: "owner's bookkeeping of its own entity ids"},
	"models.(*SignedLatency).Start":                           {Why: "per-participant measurement state"},
	"models.(*SignedLatency).OnPing":                          {Why: "per-participant measurement state", Reports: "err"},
	"models.(*SequentialIDGenerator).New":                     {Why: "id allocation"},
	"models.(*SequentialIDGenerator).Reuse":                   {Why: "id release"},
	"modules/odal.(*State).NewAssetInstanceID":                {Why: "id allocation"},
	"modules/dagaz.(*RegularGrid).InsertQuad":                 {Why: "ground-plane index is queried on demand"},
}

// relayOnlyClasses: broadcasts that replicate no server state.
var relayOnlyClasses = map[string]string{
	"MSG_TYPE_CUSTOM_MESSAGE_BROADCAST": "custom messages are relayed, not stored",
}

// deferredAnswer: handlers whose accepted path answers later, through stored state.
var deferredAnswer = map[string]string{
	"models.(*SignedLatency).Start": "the signed-latency answer is produced by OnPing after the last ping round (rule I-family, C18)",
}

// guard class -> error code (rule B4). Keys are prefixes of GuardClass.Subject + "=" + Outcome.
type codeRule struct {
	Prefix string
	Code   string
	Why    string
}

var codeTable = []codeRule{
	{"zero:", "ERROR_CODE_BAD_REQUEST", "missing / zero request field"},
	{"nilfield:", "ERROR_CODE_BAD_REQUEST", "missing sub-message"},
	{"lookup:Session.EntityByID=miss", "ERROR_CODE_NOT_FOUND", "unknown entity"},
	{"lookup:SessionStore.GetByGlobalID=miss", "ERROR_CODE_NOT_FOUND", "unknown session"},
	{"err:EntityComponentStore.GetTypeName=err", "ERROR_CODE_NOT_FOUND", "unknown component type"},
	{"err:EntityComponentStore.GetTypeID=err", "ERROR_CODE_NOT_FOUND", "unknown component type"},
	{"err:EntityComponentStore.Subscribe=err", "ERROR_CODE_NOT_FOUND", "unknown component type"},
	{"boolcall:EntityComponentStore.Delete=false", "ERROR_CODE_NOT_FOUND", "component absent"},
	{"err:EntityComponentStore.Add=err", "ERROR_CODE_CONFLICT|ERROR_CODE_NOT_FOUND", "duplicate component (conflict) or unregistered type (not found): decided by the error type switch"},
	{"owner:", "ERROR_CODE_UNAUTHORIZED", "not the creator"},
	{"joined:", "ERROR_CODE_UNAUTHORIZED", "soft not-joined answer (latency, ping response)"},
	{"size:", "ERROR_CODE_TOO_LARGE", "body over the limit"},
	{"range:", "ERROR_CODE_BAD_REQUEST", "iteration count outside its range"},
	{"same-session", "ERROR_CODE_SESSION_ALREADY_JOINED", "join of the session already joined"},
	{"busy", "ERROR_CODE_SERVER_TOO_BUSY", "receipt queue full"},
	{"stale", "ERROR_CODE_BAD_REQUEST", "action older than the stored one"},
	{"err:SessionStore.Add=err", "ERROR_CODE_INTERNAL_SERVER_ERROR", "registry failure"},
	{"err:SignedLatency.OnPing=err", "ERROR_CODE_INTERNAL_SERVER_ERROR", "ping response refused by the measurement"},
}

// codeExceptions: (function, guard class) -> code, with reason.
var codeExceptions = map[string]string{
	"modules/vikja.(*Module).handleSetEntityAction|lookup:Session.EntityByID=miss": "ERROR_CODE_BAD_REQUEST", // pinned by TestHandleEntityActionNoEntity
}

// flagClass: feature-flag constant name -> message type constant it suppresses, derived by name on
// every run (rule C4); this table only lists the message classes that must be under a flag.
var flaggedClasses = []string{
	"MSG_TYPE_SESSION_STATE",
	"MSG_TYPE_PARTICIPANT_JOIN_BROADCAST",
	"MSG_TYPE_PARTICIPANT_LEAVE_BROADCAST",
	"MSG_TYPE_ENTITY_ADD_BROADCAST",
	"MSG_TYPE_ENTITY_DELETE_BROADCAST",
	"MSG_TYPE_ENTITY_UPDATE_POSE_BROADCAST",
	"MSG_TYPE_CUSTOM_MESSAGE_BROADCAST",
	"MSG_TYPE_ENTITY_COMPONENT_ADD_BROADCAST",
	"MSG_TYPE_ENTITY_COMPONENT_UPDATE_BROADCAST",
	"MSG_TYPE_ENTITY_COMPONENT_DELETE_BROADCAST",
}

// kindPrimitive: what answering a request of this kind with success means on the server — the model
// operation the accepting path must have performed (rule B9). Replicated changes are covered by C1 /
// B8 through the mutator table; this table adds the kinds whose operation is not replicated.
var kindPrimitive = map[string][]string{
	"MSG_TYPE_ENTITY_COMPONENT_TYPE_ADD_REQUEST":         {"models.(*EntityComponentStore).AddType"},
	"MSG_TYPE_ENTITY_COMPONENT_TYPE_GET_NAME_REQUEST":    {"models.(*EntityComponentStore).GetTypeName"},
	"MSG_TYPE_ENTITY_COMPONENT_TYPE_GET_ID_REQUEST":      {"models.(*EntityComponentStore).GetTypeID"},
	"MSG_TYPE_ENTITY_COMPONENT_LIST_REQUEST":             {"models.(*EntityComponentStore).List"},
	"MSG_TYPE_ENTITY_COMPONENT_TYPE_SUBSCRIBE_REQUEST":   {"models.(*EntityComponentStore).Subscribe"},
	"MSG_TYPE_ENTITY_COMPONENT_TYPE_UNSUBSCRIBE_REQUEST": {"models.(*EntityComponentStore).Unsubscribe"},
	"MSG_TYPE_ENTITY_ADD_REQUEST":                        {"models.(*Session).AddEntity", "models.(*Participant).AddEntity"},
	"MSG_TYPE_ENTITY_DELETE_REQUEST":                     {"models.(*Session).RemoveEntity", "models.(*Participant).RemoveEntity", "models.(*EntityComponentStore).DeleteByEntityID"},
	"MSG_TYPE_PARTICIPANT_JOIN_REQUEST":                  {"models.(*Session).AddParticipant", "models.(*Session).HandleFrame"},
}

// ruleFieldAnchors: the unexported struct fields each rule function names (in canonical forms such as
// "recv.moduleStates", in lock keys such as "Session.frameMutex", or in literal-field lookups). A rule
// whose anchor has been renamed or removed cannot be evaluated: the run is UNDECIDED for it ("anchor not
// found") instead of reporting what would be a false violation. Fields are looked up through embedded and
// by-value sub-structs, so moving one onto a sub-struct without renaming it keeps the anchor.
type fieldAnchor struct{ pkg, typ, field string }

func fa(pkg, typ string, fields ...string) []fieldAnchor {
	var out []fieldAnchor
	for _, f := range fields {
		out = append(out, fieldAnchor{pkg, typ, f})
	}
	return out
}

func cat(xs ...[]fieldAnchor) []fieldAnchor {
	var out []fieldAnchor
	for _, x := range xs {
		out = append(out, x...)
	}
	return out
}

const (
	pkgVikja = repoMod + "/modules/vikja"
	pkgOdal  = repoMod + "/modules/odal"
	pkgDagaz = repoMod + "/modules/dagaz"
)

var (
	faCurrent = fa(pkgWS, "RealtimeHandler", "currentSession", "currentParticipant")
	faModules = cat(fa(pkgVikja, "Module", "currentSession", "currentParticipant", "state"), fa(pkgOdal, "Module", "currentSession", "currentParticipant", "state"), fa(pkgDagaz, "Module", "currentSession", "currentParticipant", "state"))
)

var ruleFieldAnchors = map[string][]fieldAnchor{
	"ruleJoinedGuard":      faCurrent,
	"rulePairedState":      faCurrent,
	"ruleSenderExcluded":   faCurrent,
	"ruleNotifyGated":      faCurrent,
	"ruleOwnerGuard":       faCurrent,
	"ruleCustomMessage":    faCurrent,
	"ruleLeaveCallers":     faCurrent,
	"ruleLeaveComplete":    cat(faCurrent, fa(pkgWS, "RealtimeHandler", "stopFrameHandling"), fa(pkgModels, "Participant", "entityIDs")),
	"ruleModuleCleanup":    cat(faCurrent, faModules),
	"ruleModuleInit":       cat(faCurrent, faModules, fa(pkgModels, "Session", "moduleStates", "moduleMutex")),
	"ruleLatencyStart":     cat(faCurrent, fa(pkgWS, "RealtimeHandler", "clientID")),
	"ruleLatencyReport":    fa(pkgModels, "SignedLatency", "sender", "privateKey"),
	"ruleEntityActions":    cat(faModules, fa(pkgVikja, "State", "entityActions"), fa(pkgOdal, "State", "assetInstances")),
	"ruleSnapshot":         cat(faModules, fa(pkgModels, "Session", "participants", "entities"), fa(pkgModels, "Entity", "pose")),
	"ruleStoreContracts":   fa(pkgModels, "EntityComponentStore", "entityComponents", "idIndex", "nameIndex", "ids"),
	"ruleSubscriptions":    fa(pkgModels, "EntityComponentStore", "subscriptions"),
	"ruleIDGenerator":      cat(fa(pkgModels, "SequentialIDGenerator", "currentID", "reusableIDs"), fa(pkgModels, "Session", "frameHandlerIDs"), fa(pkgModels, "SessionStore", "ids")),
	"ruleBroadcastShape":   fa(pkgModels, "Session", "participants", "participantMutex"),
	"ruleIDSources":        cat(faCurrent, fa(pkgModels, "Session", "participantIDs", "entityIDs"), fa(pkgModels, "SessionStore", "ids"), fa(pkgOdal, "State", "assetInstanceIDs")),
	"ruleRegistry":         cat(fa(pkgModels, "SessionStore", "sessions", "ids", "mutex"), fa(pkgModels, "Session", "participants", "entities", "moduleStates", "frameHandlers", "entityComponents", "participantIDs", "entityIDs")),
	"ruleFramePair":        cat(fa(pkgModels, "Session", "closeFrameChan", "frameHandlers", "frameHandlerIDs", "frameMutex"), fa(pkgWS, "RealtimeHandler", "stopFrameHandling")),
	"ruleFunnelOnce":       fa(pkgWS, "handler", "disconnectChan"),
	"ruleMainLineBlocking": cat(fa(pkgWS, "handler", "sendChan"), fa(pkgModels, "Session", "closeFrameChan")),
	"ruleRelaySync":        fa(pkgWS, "handler", "sendChan", "sender"),
	"ruleAtomicity":        fa(pkgModels, "SessionStore", "sessions"),
}
