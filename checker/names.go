package main

import (
	"fmt"
	"go/ast"
	"go/types"
	"sort"
	"strings"

	"golang.org/x/tools/go/packages"
)

// Name roles. Rule tables, site labels and known findings refer to unexported functions and types by the
// names of the reference tree (websocket.(*handler).handleMessage, handlerWithLogs, leaveSession …).
// Those names are roles too: when one of them is gone from a package, it is re-attached to the *new*
// (not in the reference list) function or type of that package that matches its fingerprint — for a
// function: same receiver and same parameter / result types, and among several such the one whose set of
// callees and selected fields is closest; for a type: the closest set of field types and method names.
// The rest of the checker then sees the reference name (Func.Name, lock owners, LookupFunc, LookupType),
// so a pure rename changes nothing. A name that cannot be re-attached unambiguously stays missing and
// what depends on it is UNDECIDED ("anchor not found"). The reference list is generated
// (`hagcheck refnames`, tools/mkref.sh → ref_known.go).

type refFunc struct {
	Pkg, Recv, Name string // Recv: "" | "T" | "*T"
	Sig             string
	Uses            []string // callees and selected fields, sorted
}

type refType struct {
	Pkg, Name string
	Members   []string // field types and method names, sorted
}

var (
	typeAlias     = map[*types.TypeName]string{}
	funcAlias     = map[*types.Func]string{}
	funcAliasRecv = map[*types.Func]string{} // a reference method now written as a function: its receiver ("*T")
	varAlias      = map[*types.Var]string{}  // a renamed package-level variable -> reference name
)

// globalRoles: package-level variables the rules name; re-attached by type when the name is gone and
// exactly one variable of that type is left in the package.
var globalRoles = []struct{ pkg, name, typeStr string }{
	{pkgWS, "wsConnectedClients", "*github.com/prometheus/client_golang/prometheus.GaugeVec"},
	{pkgModels, "hagallSessionCount", "*github.com/prometheus/client_golang/prometheus.GaugeVec"},
}

func varDisplay(v *types.Var) string {
	if a, ok := varAlias[v]; ok {
		return a
	}
	return v.Name()
}

// lookupGlobal: the package-level variable playing the named role.
func lookupGlobal(pk *types.Package, name string) types.Object {
	if o := pk.Scope().Lookup(name); o != nil {
		return o
	}
	for v, a := range varAlias {
		if a == name && v.Pkg() == pk {
			return v
		}
	}
	return nil
}

func typeDisplay(tn *types.TypeName) string {
	if a, ok := typeAlias[tn]; ok {
		return a
	}
	return tn.Name()
}

func funcDisplay(f *types.Func) string {
	if f.Origin() != nil {
		f = f.Origin()
	}
	if a, ok := funcAlias[f]; ok {
		return a
	}
	return f.Name()
}

func qual(pk *types.Package) string { return pk.Path() }

// aliasedTypeString renders a type with renamed repository types under their reference names.
func aliasedTypeString(t types.Type) string {
	s := types.TypeString(t, qual)
	for tn, ref := range typeAlias {
		if tn.Pkg() != nil {
			s = strings.ReplaceAll(s, tn.Pkg().Path()+"."+tn.Name(), tn.Pkg().Path()+"."+ref)
		}
	}
	return s
}

func sigString(sig *types.Signature) string { return sigStringFrom(sig, 0) }

func recvTypeString(t types.Type) string {
	ptr := ""
	if pt, ok := t.(*types.Pointer); ok {
		t, ptr = pt.Elem(), "*"
	}
	if n, ok := t.(*types.Named); ok {
		return ptr + typeDisplay(n.Obj())
	}
	return ptr + t.String()
}

// sigStringFrom: parameter types from index `from` on, and result types.
func sigStringFrom(sig *types.Signature, from int) string {
	var ps, rs []string
	for i := from; i < sig.Params().Len(); i++ {
		ps = append(ps, aliasedTypeString(sig.Params().At(i).Type()))
	}
	for i := 0; i < sig.Results().Len(); i++ {
		rs = append(rs, aliasedTypeString(sig.Results().At(i).Type()))
	}
	v := ""
	if sig.Variadic() {
		v = "..."
	}
	return "(" + strings.Join(ps, ",") + v + ")->(" + strings.Join(rs, ",") + ")"
}

func recvString(sig *types.Signature) string {
	if sig.Recv() == nil {
		return ""
	}
	t := sig.Recv().Type()
	ptr := ""
	if pt, ok := t.(*types.Pointer); ok {
		t, ptr = pt.Elem(), "*"
	}
	if n, ok := t.(*types.Named); ok {
		return ptr + typeDisplay(n.Obj())
	}
	return ptr + t.String()
}

func isTestFile(pk *packages.Package, n ast.Node) bool {
	return strings.HasSuffix(pk.Fset.Position(n.Pos()).Filename, "_test.go")
}

// usesOf: display names of the functions called and the fields selected in a body.
func usesOf(info *types.Info, body ast.Node) []string {
	set := map[string]bool{}
	ast.Inspect(body, func(n ast.Node) bool {
		switch v := n.(type) {
		case *ast.CallExpr:
			if f, ok := calleeObjRaw(info, v).(*types.Func); ok {
				if f.Origin() != nil {
					f = f.Origin()
				}
				set["call:"+shortFuncNameRaw(f)] = true
			}
		case *ast.SelectorExpr:
			if sel, ok := info.Selections[v]; ok && sel.Kind() == types.FieldVal {
				set["field:"+sel.Obj().Name()] = true
				set["fieldtype:"+aliasedTypeString(sel.Obj().Type())] = true // (survives a rename of the field)
			}
		// the shape of the body, which no rename touches
		case *ast.SelectStmt:
			set["stmt:select"] = true
		case *ast.SendStmt:
			set["stmt:send"] = true
		case *ast.GoStmt:
			set["stmt:go"] = true
		case *ast.DeferStmt:
			set["stmt:defer"] = true
		case *ast.RangeStmt:
			set["stmt:range"] = true
		case *ast.ForStmt:
			set["stmt:for"] = true
		case *ast.SwitchStmt, *ast.TypeSwitchStmt:
			set["stmt:switch"] = true
		}
		return true
	})
	var out []string
	for k := range set {
		out = append(out, k)
	}
	sort.Strings(out)
	return out
}

func shortFuncNameRaw(f *types.Func) string {
	sig, _ := f.Type().(*types.Signature)
	if sig != nil && sig.Recv() != nil {
		return strings.TrimPrefix(recvString(sig), "*") + "." + f.Name()
	}
	if f.Pkg() != nil {
		return f.Pkg().Name() + "." + f.Name()
	}
	return f.Name()
}

func typeMembers(nt *types.Named) []string {
	var out []string
	if st, ok := nt.Underlying().(*types.Struct); ok {
		for i := 0; i < st.NumFields(); i++ {
			out = append(out, "field:"+aliasedTypeString(st.Field(i).Type()))
		}
	} else {
		out = append(out, "underlying:"+aliasedTypeString(nt.Underlying()))
	}
	for i := 0; i < nt.NumMethods(); i++ {
		out = append(out, "method:"+nt.Method(i).Name())
	}
	sort.Strings(out)
	return out
}

func jaccard(a, b []string) float64 {
	if len(a) == 0 && len(b) == 0 {
		return 1
	}
	in := map[string]bool{}
	for _, x := range a {
		in[x] = true
	}
	n := 0
	for _, x := range b {
		if in[x] {
			n++
		}
	}
	u := len(a) + len(b) - n
	if u == 0 {
		return 1
	}
	return float64(n) / float64(u)
}

// declaredFuncs: the unexported functions and methods declared in the non-test files of a package.
func declaredFuncs(pk *packages.Package) map[*types.Func]*ast.FuncDecl {
	out := map[*types.Func]*ast.FuncDecl{}
	for _, file := range pk.Syntax {
		if isTestFile(pk, file) {
			continue
		}
		for _, d := range file.Decls {
			fd, ok := d.(*ast.FuncDecl)
			if !ok || fd.Body == nil {
				continue
			}
			if obj, _ := pk.TypesInfo.Defs[fd.Name].(*types.Func); obj != nil && !obj.Exported() {
				out[obj] = fd
			}
		}
	}
	return out
}

func unexportedTypes(pk *packages.Package) []*types.TypeName {
	var out []*types.TypeName
	sc := pk.Types.Scope()
	for _, nm := range sc.Names() {
		tn, ok := sc.Lookup(nm).(*types.TypeName)
		if !ok || tn.Exported() || tn.IsAlias() {
			continue
		}
		if _, ok := tn.Type().(*types.Named); !ok {
			continue
		}
		if strings.HasSuffix(pk.Fset.Position(tn.Pos()).Filename, "_test.go") {
			continue
		}
		out = append(out, tn)
	}
	return out
}

// resolveNames fills typeAlias and funcAlias for the repository packages (see the comment above).
func resolveNames(pkgs []*packages.Package) {
	typeAlias = map[*types.TypeName]string{}
	funcAlias = map[*types.Func]string{}
	funcAliasRecv = map[*types.Func]string{}
	varAlias = map[*types.Var]string{}
	byPath := map[string]*packages.Package{}
	for _, pk := range pkgs {
		byPath[pk.PkgPath] = pk
	}
	// package-level variables
	for _, g := range globalRoles {
		pk := byPath[g.pkg]
		if pk == nil || pk.Types == nil || pk.Types.Scope().Lookup(g.name) != nil {
			continue
		}
		var cands []*types.Var
		for _, nm := range pk.Types.Scope().Names() {
			if v, ok := pk.Types.Scope().Lookup(nm).(*types.Var); ok && types.TypeString(v.Type(), qual) == g.typeStr {
				cands = append(cands, v)
			}
		}
		if len(cands) == 1 {
			varAlias[cands[0]] = g.name
		}
	}
	// types
	refTypeNames := map[string]map[string]bool{}
	for _, rt := range refTypes {
		if refTypeNames[rt.Pkg] == nil {
			refTypeNames[rt.Pkg] = map[string]bool{}
		}
		refTypeNames[rt.Pkg][rt.Name] = true
	}
	for _, rt := range refTypes {
		pk := byPath[rt.Pkg]
		if pk == nil || pk.Types == nil || pk.Types.Scope().Lookup(rt.Name) != nil {
			continue
		}
		var best *types.TypeName
		bestScore, second := 0.0, 0.0
		for _, tn := range unexportedTypes(pk) {
			if refTypeNames[rt.Pkg][tn.Name()] || typeAlias[tn] != "" {
				continue
			}
			s := memberScore(rt.Members, typeMembers(tn.Type().(*types.Named)))
			if s > bestScore {
				best, second, bestScore = tn, bestScore, s
			} else if s > second {
				second = s
			}
		}
		if best != nil && bestScore >= 0.5 && bestScore > second {
			typeAlias[best] = rt.Name
		}
	}
	// functions
	type fkey struct{ pkg, recv, name string }
	refFuncNames := map[fkey]bool{}
	for _, rf := range refFuncs {
		refFuncNames[fkey{rf.Pkg, strings.TrimPrefix(rf.Recv, "*"), rf.Name}] = true
	}
	for _, rf := range refFuncs {
		pk := byPath[rf.Pkg]
		if pk == nil || pk.Types == nil {
			continue
		}
		decls := declaredFuncs(pk)
		present := false
		var cands []*types.Func
		asFunc := map[*types.Func]bool{}
		for f := range decls {
			sig := f.Type().(*types.Signature)
			rs := recvString(sig)
			if rs == "" && rf.Recv != "" && sig.Params().Len() > 0 {
				// the method written as a function that takes the receiver as its first parameter
				if funcAlias[f] == "" && !refFuncNames[fkey{rf.Pkg, "", f.Name()}] && sigStringFrom(sig, 1) == rf.Sig && recvTypeString(sig.Params().At(0).Type()) == rf.Recv {
					cands = append(cands, f)
					asFunc[f] = true
				}
				continue
			}
			if strings.TrimPrefix(rs, "*") != strings.TrimPrefix(rf.Recv, "*") {
				continue
			}
			if f.Name() == rf.Name {
				present = true
				break
			}
			if refFuncNames[fkey{rf.Pkg, strings.TrimPrefix(rs, "*"), f.Name()}] || funcAlias[f] != "" {
				continue // still plays its own role
			}
			if rs == rf.Recv && sigString(sig) == rf.Sig {
				cands = append(cands, f)
			}
		}
		if present || len(cands) == 0 {
			continue
		}
		sort.Slice(cands, func(i, j int) bool { return cands[i].Name() < cands[j].Name() })
		var best *types.Func
		bestScore, second := -1.0, -1.0
		for _, f := range cands {
			s := jaccard(rf.Uses, usesOf(pk.TypesInfo, decls[f].Body))
			if s > bestScore {
				best, second, bestScore = f, bestScore, s
			} else if s > second {
				second = s
			}
		}
		if best != nil && (len(cands) == 1 || (bestScore >= 0.3 && second < 0.75*bestScore)) {
			funcAlias[best] = rf.Name
			if asFunc[best] {
				funcAliasRecv[best] = rf.Recv
			}
		}
	}
}

func init() {
	// refnames: the reference list of unexported functions and types (input of tools/mkref.sh)
	extraCmds["refnames"] = func(args []string) {
		repo := "/repo"
		if len(args) > 0 {
			repo = args[0]
		}
		refFuncs, refTypes = nil, nil // fingerprints of the tree as it is
		p, err := Load(repo, false, nil)
		if err != nil {
			println("load:", err.Error())
			return
		}
		fmt.Println("// Code generated by tools/mkref.sh (hagcheck refnames); DO NOT EDIT.")
		fmt.Println("// Unexported functions and types of the reference tree with their fingerprints (see names.go).")
		fmt.Println("package main")
		fmt.Println()
		fmt.Println("var refTypes = []refType{")
		for _, pk := range p.Pkgs {
			for _, tn := range unexportedTypes(pk) {
				fmt.Printf("\t{%q, %q, %#v},\n", pk.PkgPath, tn.Name(), typeMembers(tn.Type().(*types.Named)))
			}
		}
		fmt.Println("}")
		fmt.Println()
		fmt.Println("var refFuncs = []refFunc{")
		for _, pk := range p.Pkgs {
			decls := declaredFuncs(pk)
			var fs []*types.Func
			for f := range decls {
				fs = append(fs, f)
			}
			sort.Slice(fs, func(i, j int) bool { return funcName(fs[i]) < funcName(fs[j]) })
			for _, f := range fs {
				sig := f.Type().(*types.Signature)
				fmt.Printf("\t{%q, %q, %q, %q, %#v},\n", pk.PkgPath, recvString(sig), f.Name(), sigString(sig), usesOf(pk.TypesInfo, decls[f].Body))
			}
		}
		fmt.Println("}")
	}
	extraCmds["names"] = func(args []string) {
		repo := "/repo"
		if len(args) > 0 {
			repo = args[0]
		}
		if _, err := Load(repo, false, nil); err != nil {
			println("load:", err.Error())
			return
		}
		for tn, a := range typeAlias {
			println("TYPE", a, "played by", tn.Name())
		}
		for f, a := range funcAlias {
			println("FUNC", a, "played by", funcName(f))
		}
	}
}

// memberScore: similarity of two types' member lists; the fields (which a rename of methods does not
// touch) weigh more than the method names.
func memberScore(a, b []string) float64 {
	split := func(xs []string) (fields, methods []string) {
		for _, x := range xs {
			if strings.HasPrefix(x, "method:") {
				methods = append(methods, x)
			} else {
				fields = append(fields, x)
			}
		}
		return
	}
	af, am := split(a)
	bf, bm := split(b)
	if len(af) == 0 && len(bf) == 0 {
		return jaccard(am, bm)
	}
	return 0.75*jaccard(af, bf) + 0.25*jaccard(am, bm)
}
