package main

import (
	"fmt"
	"go/ast"
	"go/token"
	"go/types"
	"strings"
)

func (r *Run) fn(pkg, typ, name string) *types.Func {
	f := r.P.LookupFunc(pkg, typ, name)
	if f == nil {
		r.Undecide("anchors", "function %s.%s.%s not found", pkg, typ, name)
	}
	return f
}

func idxOfCall(path *Path, f *types.Func, from int) int {
	for i := from; i < len(path.Events); i++ {
		if path.Events[i].Kind == EvCall && path.Events[i].Callee == f {
			return i
		}
	}
	return -1
}

// ruleLeaveComplete (E1): what leaving a session does, on every path of the leave function.
func ruleLeaveComplete(r *Run) {
	m := r.M()
	if r.broken() {
		return
	}
	if len(m.Leave) != 1 {
		r.Check("E1", "leave-function", false, 0, "expected exactly one function of RealtimeHandler that removes the participant from its session, found %d", len(m.Leave))
		return
	}
	fn := m.Leave[0]
	modHD := r.fn(pkgModules, "Module", "HandleDisconnect")
	unsub := r.fn(pkgModels, "EntityComponentStore", "UnsubscribeByParticipant")
	byID := r.fn(pkgModels, "Session", "EntityByID")
	delByEnt := r.fn(pkgModels, "EntityComponentStore", "DeleteByEntityID")
	rmEnt := r.fn(pkgModels, "Session", "RemoveEntity")
	rmPart := r.fn(pkgModels, "Session", "RemoveParticipant")
	count := r.fn(pkgModels, "Session", "ParticipantCount")
	storeRm := r.fn(pkgModels, "SessionStore", "Remove")
	if r.broken() {
		return
	}
	stopField := r.P.LookupField(pkgWS, "RealtimeHandler", "stopFrameHandling")
	paths := r.Paths(fn)
	r.Analysed(fn, len(paths))
	full := 0
	iterRemove, iterKeepPersist, iterKeepMissing := 0, 0, 0
	for pi := range paths {
		path := &paths[pi]
		r.at(path)
		sig := r.pathSig(path)
		// early exit (nothing joined) is the only path allowed to skip the work
		notJoined := false
		for i, ev := range path.Events {
			if ev.Kind == EvGuard {
				g := r.Classify(path, i)
				if (strings.HasPrefix(g.Subject, "joined:") || strings.HasPrefix(g.Subject, "nil:recv.current")) && (g.Outcome == "no" || g.Outcome == "nil") {
					notJoined = true
				}
			}
		}
		if notJoined {
			muts := r.mutEvents(path)
			r.CheckT("E1", fn.Name+":not-joined-path", len(muts) == 0, fn.Body.Pos(), path, "the not-joined exit of the leave function changes nothing")
			continue
		}
		full++
		site := fn.Name
		r.loopsComplete("E1", fn, path)
		// modules told
		iHD := idxOfCall(path, modHD, 0)
		hdOK := iHD >= 0
		if hdOK {
			hdOK = r.P.Canon(path.Events[iHD].Fn, path.Events[iHD].Recv) == "rangeval(recv.Modules)" && path.Events[iHD].Loop
		}
		// the path that iterates zero modules is the empty-module configuration; require the loop to exist
		hasModLoop, iterated := false, false
		for _, ev := range path.Events {
			if ev.Kind == EvGuard && ev.GKind == GRange {
				if ev.Over != nil && r.P.Canon(ev.Fn, ev.Over) == "recv.Modules" {
					hasModLoop = true
					if ev.Val {
						iterated = true
					}
					if !ev.Val && iHD < 0 && !iterated {
						hdOK = true // zero modules loaded: the loop body is not entered on this path
					}
				}
			}
		}
		r.CheckT("E1", site+":modules-told", hasModLoop && hdOK, fn.Body.Pos(), path, "every loaded module's HandleDisconnect is called (range over the handler's Modules) [%s]", sig)
		// subscriptions dropped
		iUn := idxOfCall(path, unsub, 0)
		unOK := iUn >= 0 && r.P.Canon(path.Events[iUn].Fn, path.Events[iUn].Call.Args[0]) == "recv.currentParticipant.ID" &&
			r.P.Canon(path.Events[iUn].Fn, path.Events[iUn].Recv) == "recv.currentSession.entityComponents"
		r.CheckT("E1", site+":unsubscribe", unOK, fn.Body.Pos(), path, "the leaver's component-type subscriptions are dropped (UnsubscribeByParticipant(own id) on the own session's store)")
		// entity loop: range over the leaver's own entity ids
		hasEntLoop := false
		for i, ev := range path.Events {
			if ev.Kind != EvGuard || ev.GKind != GRange {
				continue
			}
			if ev.Over == nil || r.P.Canon(ev.Fn, ev.Over) != "recv.currentParticipant.entityIDs" {
				continue
			}
			hasEntLoop = true
			if !ev.Val {
				continue
			}
			// one iteration: classify by the guards until the next range event of this loop
			end := len(path.Events)
			for j := i + 1; j < len(path.Events); j++ {
				if path.Events[j].Kind == EvGuard && path.Events[j].GKind == GRange && path.Events[j].Stmt == ev.Stmt {
					end = j
					break
				}
			}
			lookup, persist := "", ""
			var iDel, iRm, iRelay = -1, -1, -1
			for j := i + 1; j < end; j++ {
				pe := path.Events[j]
				if pe.Kind == EvGuard {
					g := r.Classify(path, j)
					if g.Callee == byID && strings.HasPrefix(g.Subject, "lookup:") {
						lookup = g.Outcome
					}
					if strings.HasSuffix(g.Subject, ".Persist") {
						persist = g.Outcome
					}
				}
				if pe.Kind == EvCall && pe.Callee == delByEnt {
					iDel = j
				}
				if pe.Kind == EvCall && pe.Callee == rmEnt {
					iRm = j
				}
				if r.isRelay(pe) && r.relayMsg(pe).TypeConstNameOr("") == "MSG_TYPE_ENTITY_DELETE_BROADCAST" {
					iRelay = j
				}
			}
			lookupArgOK := false
			if k := idxOfCall(path, byID, i); k >= 0 && k < end {
				lookupArgOK = r.P.Canon(path.Events[k].Fn, path.Events[k].Call.Args[0]) == "rangekey(recv.currentParticipant.entityIDs)" &&
					r.P.Canon(path.Events[k].Fn, path.Events[k].Recv) == "recv.currentSession"
			}
			r.CheckT("E1", site+":entity-loop:lookup", lookupArgOK, ev.Pos, path, "each of the leaver's entity ids is looked up in the session being left")
			switch {
			case lookup == "miss":
				iterKeepMissing++
				r.CheckT("E1", site+":entity-loop:missing", iRm < 0 && iDel < 0, ev.Pos, path, "an id that no longer resolves is skipped")
			case lookup == "hit" && persist == "true":
				iterKeepPersist++
				r.CheckT("E1", site+":entity-loop:persistent", iRm < 0 && iDel < 0 && iRelay < 0, ev.Pos, path, "a persistent entity survives its creator's departure (no removal, no relay)")
			case lookup == "hit" && persist == "false":
				iterRemove++
				r.CheckT("E1", site+":entity-loop:remove", iRm >= 0 && iDel >= 0 && iDel < iRm, ev.Pos, path,
					"a non-persistent entity of the leaver is removed together with its components (DeleteByEntityID then RemoveEntity)")
			default:
				r.CheckT("E1", site+":entity-loop:predicate", false, ev.Pos, path, "iteration of the entity loop is not decided by (lookup hit, Persist): lookup=%q persist=%q", lookup, persist)
			}
		}
		r.CheckT("E1", site+":entity-loop", hasEntLoop, fn.Body.Pos(), path, "the leave function walks the leaver's own entity ids (participant.EntityIDs())")
		// frame handler unregistered before the participant is removed
		iStop := -1
		for i, ev := range path.Events {
			if ev.Kind == EvCall && ev.Callee == stopField && stopField != nil {
				iStop = i
			}
		}
		iRmP := idxOfCall(path, rmPart, 0)
		rmOK := iRmP >= 0 && r.P.Canon(path.Events[iRmP].Fn, path.Events[iRmP].Call.Args[0]) == "recv.currentParticipant" && r.P.Canon(path.Events[iRmP].Fn, path.Events[iRmP].Recv) == "recv.currentSession"
		r.CheckT("E1", site+":remove-participant", rmOK, fn.Body.Pos(), path, "the leaver is removed from the session it was in")
		stopNil := false
		for i, ev := range path.Events {
			if ev.Kind == EvGuard {
				g := r.Classify(path, i)
				if strings.Contains(g.Subject, "recv.stopFrameHandling") && g.Outcome == "nil" {
					stopNil = true
				}
			}
		}
		r.CheckT("E6", site+":stop-frames", (iStop >= 0 && iRmP > iStop) || stopNil, fn.Body.Pos(), path, "the connection's frame callback is unregistered before the participant is removed")
		// session ends with its last member
		iCnt := idxOfCall(path, count, 0)
		iRmS := idxOfCall(path, storeRm, 0)
		cntOK := iCnt > iRmP && iRmP >= 0
		empty := ""
		for i, ev := range path.Events {
			if ev.Kind == EvGuard {
				g := r.Classify(path, i)
				if strings.Contains(g.Subject, "call:Session.ParticipantCount()") {
					// eq with 0
					empty = g.Outcome
				}
			}
		}
		r.CheckT("E1", site+":count-after-remove", cntOK, fn.Body.Pos(), path, "the emptiness test follows the removal of the leaver")
		switch empty {
		case "zero":
			okRm := iRmS > iCnt && r.P.Canon(path.Events[iRmS].Fn, path.Events[iRmS].Call.Args[1]) == "recv.currentSession" && r.P.Canon(path.Events[iRmS].Fn, path.Events[iRmS].Recv) == "recv.Sessions"
			r.CheckT("E1", site+":last-member-ends-session", okRm, fn.Body.Pos(), path, "when the session is empty it is removed from the registry")
		case "nonzero":
			r.CheckT("E1", site+":members-remain", iRmS < 0, fn.Body.Pos(), path, "a session with remaining members is not removed from the registry")
		default:
			r.CheckT("E1", site+":emptiness-test", false, fn.Body.Pos(), path, "the decision to end the session is ParticipantCount() == 0 (found %q)", empty)
		}
		// both current* fields cleared
		cleared := map[string]bool{}
		for _, ev := range path.Events {
			if ev.Kind == EvAssign && len(ev.Lhs) == len(ev.Rhs) {
				for k, l := range ev.Lhs {
					c := r.P.Canon(fn, l)
					if (c == "recv.currentSession" || c == "recv.currentParticipant") && isNilIdent(fn.Info(), ev.Rhs[k]) {
						cleared[c] = true
					}
				}
			}
		}
		r.CheckT("E9", site+":cleared", len(cleared) == 2, fn.Body.Pos(), path, "leaving clears both the connection's session and participant")
	}
	r.Floor("E1", "full leave paths", full, 4)
	r.Floor("E1", "entity-loop iterations that remove", iterRemove, 1)
	r.Floor("E1", "entity-loop iterations that keep a persistent entity", iterKeepPersist, 1)
	r.Floor("E1", "entity-loop iterations that skip a missing id", iterKeepMissing, 1)
}

// ruleLeaveCallers (E2): who may call the leave function.
func ruleLeaveCallers(r *Run) {
	m := r.M()
	if r.broken() || len(m.Leave) == 0 {
		return
	}
	leave := m.Leave[0].Obj
	// the leave function may test membership itself, before it changes anything: then its callers need
	// not (a not-joined call is a no-op; E1 checks that the not-joined exit changes nothing)
	selfGuarded := true
	for _, path := range r.Paths(m.Leave[0]) {
		path := path
		r.at(&path)
		tested := false
		for i, ev := range path.Events {
			if ev.Kind == EvGuard {
				g := r.Classify(&path, i)
				if g.Subject == "joined:currentParticipant" || (g.Subject == "joined:currentSession" && g.Outcome == "no") {
					tested = true
					break
				}
			}
			if ev.Kind == EvCall || ev.Kind == EvDelete || ev.Kind == EvChanOp || ev.Kind == EvGo {
				if f, ok := ev.Callee.(*types.Func); ok && r.P.getterField(f) != "" {
					continue
				}
				break // something happens before membership is tested
			}
		}
		selfGuarded = selfGuarded && tested
	}
	n := 0
	for _, fn := range r.P.All {
		calls := false
		ast.Inspect(fn.Body, func(nd ast.Node) bool {
			if c, ok := nd.(*ast.CallExpr); ok && calleeObj(fn.Info(), c) == leave {
				calls = true
			}
			return true
		})
		if !calls {
			continue
		}
		n++
		okCaller := r.onlyFrom(fn, "websocket.(*RealtimeHandler).HandleDisconnect", "websocket.(*RealtimeHandler).HandleParticipantJoin")
		r.Check("E2", "caller["+fn.Name+"]", okCaller, fn.Body.Pos(), "the leave function is called from the disconnect handler and from join only")
		if fn.Obj != nil && r.P.isGlue(fn.Obj) && !r.attributed(fn)[fn.Name] {
			continue // glue: its call of the leave function is examined in the paths of the functions it acts for
		}
		paths := r.Paths(fn)
		r.Analysed(fn, len(paths))
		for pi := range paths {
			path := &paths[pi]
			r.at(path)
			i := idxOfCall(path, leave, 0)
			if i < 0 {
				continue
			}
			guarded := false
			for j := 0; j < i; j++ {
				if path.Events[j].Kind == EvGuard {
					g := r.Classify(path, j)
					if g.Subject == "joined:currentParticipant" && g.Outcome == "yes" {
						guarded = true
					}
				}
			}
			r.CheckT("E2", "guard["+fn.Name+"]", guarded || selfGuarded, path.Events[i].Pos, path, "leaving is attempted only for a connection that has a participant (tested by the caller, or by the leave function before it does anything)")
		}
	}
	// a join that proceeds leaves the session the connection is in, before it is added to the new one
	addP := r.fn(pkgModels, "Session", "AddParticipant")
	if jf := r.P.FuncByName("websocket.(*RealtimeHandler).HandleParticipantJoin"); jf != nil && addP != nil {
		nJoin := 0
		for _, path := range r.Paths(jf) {
			r.at(&path)
			iAdd := idxOfCall(&path, addP, 0)
			if iAdd < 0 {
				continue
			}
			nJoin++
			had := ""
			for j := 0; j < iAdd; j++ {
				if path.Events[j].Kind == EvGuard {
					g := r.Classify(&path, j)
					if g.Subject == "joined:currentParticipant" {
						had = g.Outcome
					}
				}
			}
			iLeave := idxOfCall(&path, leave, 0)
			switch had {
			case "yes":
				r.CheckT("E2", jf.Name+":switch-leaves-first", iLeave >= 0 && iLeave < iAdd, path.Events[iAdd].Pos, &path,
					"a connection that is in a session and joins another one leaves the old session (entities, subscriptions, membership) before it becomes a member of the new one")
			case "no":
				r.CheckT("E2", jf.Name+":fresh-join", iLeave < 0 || selfGuarded, path.Events[iAdd].Pos, &path, "a connection that is in no session joins without leaving anything")
			default:
				// no test in the join handler: the leave function is called unconditionally and decides itself
				r.CheckT("E2", jf.Name+":join-tests-membership", selfGuarded && iLeave >= 0 && iLeave < iAdd, path.Events[iAdd].Pos, &path, "a join becomes a member of the new session without testing (itself or in the leave function it calls first) whether the connection is still in another one")
			}
		}
		r.Floor("E2", "join paths that add the participant", nJoin, 2)
	}
	// the disconnect handler must reach it
	hd := r.P.FuncByName("websocket.(*RealtimeHandler).HandleDisconnect")
	if hd == nil {
		r.Undecide("E2", "RealtimeHandler.HandleDisconnect not found")
		return
	}
	reaches := false
	for _, path := range r.Paths(hd) {
		r.at(&path)
		if idxOfCall(&path, leave, 0) >= 0 {
			reaches = true
		}
	}
	r.Check("E2", "disconnect-leaves", reaches, hd.Body.Pos(), "the disconnect handler leaves the session for a joined connection")
	r.Floor("E2", "callers of the leave function", n, 2)
}

// ruleModuleCleanup (E3): sibling agreement of the per-entity modules on what a departure and an
// entity deletion remove.
func ruleModuleCleanup(r *Run) {
	m := r.M()
	if r.broken() {
		return
	}
	byID := r.fn(pkgModels, "Session", "EntityByID")
	perEntity := map[string]string{
		"modules/vikja": "modules/vikja.(*State).RemoveEntityActions",
		"modules/odal":  "modules/odal.(*State).RemoveAssetInstance",
	}
	checked := 0
	for _, mi := range m.Modules {
		rmName, ok := perEntity[mi.Short]
		if !ok {
			continue
		}
		rmFn := r.P.FuncByName(rmName)
		if rmFn == nil {
			r.Undecide("E3", "%s not found", rmName)
			continue
		}
		checked++
		// HandleDisconnect
		fn := mi.HandleDisconnect
		paths := r.Paths(fn)
		r.Analysed(fn, len(paths))
		cases := map[string]int{}
		for pi := range paths {
			path := &paths[pi]
			r.at(path)
			r.loopsComplete("E3", fn, path)
			for i, ev := range path.Events {
				if ev.Kind != EvGuard || ev.GKind != GRange || !ev.Val {
					continue
				}
				r.CheckT("E3", fn.Name+":range", ev.Over != nil && r.P.Canon(ev.Fn, ev.Over) == "recv.currentParticipant.entityIDs", ev.Pos, path, "module cleanup walks the leaver's own entity ids")
				end := len(path.Events)
				for j := i + 1; j < len(path.Events); j++ {
					if path.Events[j].Kind == EvGuard && path.Events[j].GKind == GRange {
						end = j
						break
					}
				}
				lookup, persist := "", ""
				removed := false
				argOK := false
				for j := i + 1; j < end; j++ {
					pe := path.Events[j]
					if pe.Kind == EvGuard {
						g := r.Classify(path, j)
						if g.Callee == byID {
							lookup = g.Outcome
						}
						if strings.HasSuffix(g.Subject, ".Persist") {
							persist = g.Outcome
						}
					}
					if pe.Kind == EvCall && pe.Callee == rmFn.Obj {
						removed = true
						argOK = r.P.Canon(pe.Fn, pe.Call.Args[0]) == "rangekey(recv.currentParticipant.entityIDs)" && r.P.Canon(pe.Fn, pe.Recv) == "recv.state"
					}
				}
				key := lookup + "/" + persist
				cases[key]++
				want := lookup == "miss" || (lookup == "hit" && persist == "false")
				r.CheckT("E3", fmt.Sprintf("%s:iter[%s]", fn.Name, key), removed == want && (!removed || argOK), ev.Pos, path,
					"per-entity state of entity is removed=%v for lookup=%s persist=%s; expected removal exactly for entities that are gone or not persistent", removed, lookup, persist)
			}
		}
		r.Check("E3", fn.Name+":cases", cases["miss/"] > 0 && cases["hit/false"] > 0 && cases["hit/true"] > 0, fn.Body.Pos(),
			"module cleanup distinguishes missing, non-persistent and persistent entities (found %v)", cases)
		// ENTITY_DELETE secondary handler
		var del *Func
		for _, a := range mi.Arms {
			if cname(a.Const) == "MSG_TYPE_ENTITY_DELETE_REQUEST" {
				del = a.Impl
			}
		}
		if !r.Check("E3", mi.Short+":entity-delete-arm", del != nil, mi.HandleMsg.Body.Pos(), "module with per-entity state handles ENTITY_DELETE_REQUEST after the core handler") {
			continue
		}
		dpaths := r.Paths(del)
		r.Analysed(del, len(dpaths))
		for pi := range dpaths {
			path := &dpaths[pi]
			r.at(path)
			lookup := ""
			removed, argOK := false, false
			for i, ev := range path.Events {
				if ev.Kind == EvGuard {
					g := r.Classify(path, i)
					if g.Callee == byID {
						lookup = g.Outcome
					}
				}
				if ev.Kind == EvCall && ev.Callee == rmFn.Obj {
					removed = true
					argOK = strings.HasPrefix(r.P.Canon(del, ev.Call.Args[0]), "var:") && strings.HasSuffix(r.P.Canon(del, ev.Call.Args[0]), ".EntityId")
				}
			}
			if lookup == "" {
				// decode error path: nothing may be removed without consulting the session
				r.CheckT("E3", fmt.Sprintf("%s:path[no-lookup]", del.Name), !removed, del.Body.Pos(), path,
					"per-entity state is dropped without checking that the entity is really gone: a refused deletion (foreign or unknown entity) still wipes it")
				continue
			}
			r.CheckT("E3", fmt.Sprintf("%s:path[%s]", del.Name, lookup), removed == (lookup == "miss") && (!removed || argOK), del.Body.Pos(), path,
				"after the core handler ran, per-entity state is dropped exactly when the entity is gone (lookup %s, removed %v)", lookup, removed)
		}
	}
	r.Floor("E3", "modules with per-entity state", checked, 2)
}

// rulePairedState (E9): the connection's session and participant are always assigned together with
// equal nil-ness.
func rulePairedState(r *Run) {
	m := r.M()
	if r.broken() {
		return
	}
	cs := r.P.LookupField(pkgWS, "RealtimeHandler", "currentSession")
	cp := r.P.LookupField(pkgWS, "RealtimeHandler", "currentParticipant")
	if cs == nil || cp == nil {
		r.Undecide("E9", "fields currentSession/currentParticipant not found")
		return
	}
	_ = m
	addP := r.fn(pkgModels, "Session", "AddParticipant")
	n := 0
	for _, fn := range r.P.All {
		info := fn.Info()
		writes := false
		ast.Inspect(fn.Body, func(nd ast.Node) bool {
			as, ok := nd.(*ast.AssignStmt)
			if !ok {
				return true
			}
			if r.P.stmtAssignsField(info, as, cs) || r.P.stmtAssignsField(info, as, cp) {
				writes = true
			}
			return true
		})
		if !writes {
			continue
		}
		paths := r.Paths(fn)
		r.Analysed(fn, len(paths))
		for pi := range paths {
			path := &paths[pi]
			r.at(path)
			state := map[types.Object]string{}
			iAdd, iHook, lastSet := -1, -1, -1
			hookName := ""
			for i, ev := range path.Events {
				if ev.Kind == EvCall {
					if f, ok := ev.Callee.(*types.Func); ok {
						if f == addP && iAdd < 0 {
							iAdd = i
						}
						if iAdd >= 0 && iHook < 0 && r.isModuleCode(f) {
							iHook, hookName = i, shortFuncName(f)
						}
					}
				}
				if ev.Kind == EvAssign && len(ev.Lhs) == len(ev.Rhs) {
					for k, l := range ev.Lhs {
						if se, ok := ast.Unparen(l).(*ast.SelectorExpr); ok {
							if f := r.P.selField(ev.Fn.Info(), se); f != nil && (f == cs || f == cp) && !isNilIdent(ev.Fn.Info(), ev.Rhs[k]) {
								lastSet = i
							}
						}
					}
				}
			}
			if iAdd >= 0 {
				r.CheckT("E9", fn.Name+":membership-recorded-before-hooks", lastSet > iAdd && (iHook < 0 || lastSet < iHook), fn.Body.Pos(), path,
					"after the participant is added to the session, the connection records its session and participant before any module code runs (first module call: %s): the disconnect path undoes the membership only through these fields, so a fault in a module hook in between leaves a ghost participant", hookName)
			}
			for _, ev := range path.Events {
				if ev.Kind != EvAssign || len(ev.Lhs) != len(ev.Rhs) {
					continue
				}
				for k, l := range ev.Lhs {
					se, ok := ast.Unparen(l).(*ast.SelectorExpr)
					if !ok {
						continue
					}
					f := r.P.selField(info, se)
					if f == nil || (f != cs && f != cp) {
						continue
					}
					if isNilIdent(info, ev.Rhs[k]) {
						state[f] = "nil"
					} else {
						state[f] = "set"
					}
				}
			}
			if len(state) == 0 {
				continue
			}
			n++
			r.CheckT("E9", fn.Name+":paired", state[cs] != "" && state[cs] == state[cp], fn.Body.Pos(), path,
				"the connection's session and participant are assigned together (session %q, participant %q)", state[cs], state[cp])
		}
	}
	r.Floor("E9", "paths assigning the connection's session/participant", n, 2)
	r.sessionScopedFields()
}

// sessionScopedFields (E9): a per-connection object that holds the connection's session (a struct
// with a field of type *models.Session: the realtime handler, every module) may hold other
// session-scoped values — model objects, module state, prepared messages, callbacks. Every such field
// is assigned only by a function that also assigns the session field (join / Init / leave), so that
// it is rebound whenever the connection changes session; a field filled lazily elsewhere (a cache, a
// memo of the last entity, a reused message) survives a session switch and leaks one session's
// objects into another.
func (r *Run) sessionScopedFields() {
	sessT := r.P.LookupType(pkgModels, "Session")
	if sessT == nil {
		r.Undecide("E9", "type models.Session not found")
		return
	}
	scoped := func(t types.Type) string {
		seen := map[types.Type]bool{}
		var visit func(t types.Type, depth int) string
		visit = func(t types.Type, depth int) string {
			if t == nil || depth > 4 || seen[t] {
				return ""
			}
			seen[t] = true
			switch u := t.(type) {
			case *types.Named:
				if u.Obj().Pkg() != nil {
					pp := u.Obj().Pkg().Path()
					if pp == pkgModels || strings.HasPrefix(pp, repoMod+"/modules/") || strings.Contains(pp, "/messages/") {
						if _, isStruct := u.Underlying().(*types.Struct); isStruct {
							return shortPkg(pp) + "." + u.Obj().Name()
						}
						if _, isIface := u.Underlying().(*types.Interface); isIface {
							return shortPkg(pp) + "." + u.Obj().Name()
						}
					}
				}
				return ""
			case *types.Pointer:
				return visit(u.Elem(), depth+1)
			case *types.Slice:
				if c := visit(u.Elem(), depth+1); c != "" {
					return c
				}
				if depth == 0 {
					return "a container filled while the connection is in a session"
				}
				return ""
			case *types.Map:
				if c := visit(u.Key(), depth+1); c != "" {
					return c
				}
				if c := visit(u.Elem(), depth+1); c != "" {
					return c
				}
				if depth == 0 {
					return "a container filled while the connection is in a session"
				}
				return ""
			case *types.Signature:
				return "func value"
			}
			return ""
		}
		return visit(t, 0)
	}
	nStructs, nFields := 0, 0
	for _, pk := range r.P.Pkgs {
		if pk.Types == nil || !isRepoPkg(pk.Types) || pk.Types.Path() == pkgModels {
			continue
		}
		scope := pk.Types.Scope()
		for _, name := range scope.Names() {
			tn, ok := scope.Lookup(name).(*types.TypeName)
			if !ok {
				continue
			}
			st, ok := tn.Type().Underlying().(*types.Struct)
			if !ok {
				continue
			}
			pos := pk.Fset.Position(tn.Pos())
			if strings.HasSuffix(pos.Filename, "_test.go") || strings.HasSuffix(pos.Filename, "websocket/testing.go") {
				continue
			}
			var sessField *types.Var
			fields := []*types.Var{}
			for i := 0; i < st.NumFields(); i++ {
				fields = append(fields, st.Field(i))
			}
			if nt, ok := tn.Type().(*types.Named); ok {
				fields = r.P.deepFields(nt, 0) // (through embedded and by-value parts: a binding sub-struct shared by the modules)
			}
			for _, f := range fields {
				if pt, ok := f.Type().(*types.Pointer); ok && types.Identical(pt.Elem(), sessT.Type()) {
					sessField = f
				}
			}
			if sessField == nil {
				continue
			}
			nStructs++
			// functions assigning the session field
			assigners := map[*Func]bool{}
			assignsOf := func(fv *types.Var) []*Func {
				var out []*Func
				for _, fn := range r.P.All {
					if fn.Pkg.Types != pk.Types && fv.Pkg() != fn.Pkg.Types {
						continue // (the struct's package, or the package of the part that declares the field)
					}
					found := false
					ast.Inspect(fn.Body, func(nd ast.Node) bool {
						as, ok := nd.(*ast.AssignStmt)
						if !ok {
							return true
						}
						if r.P.stmtAssignsField(fn.Info(), as, fv) {
							found = true
						}
						// an element of a container held in the field: recv.f[k] = v
						for _, l := range as.Lhs {
							base := ast.Unparen(l)
							indexed := false
							for {
								ix, ok := base.(*ast.IndexExpr)
								if !ok {
									break
								}
								base = ast.Unparen(ix.X)
								indexed = true
							}
							if se, ok := base.(*ast.SelectorExpr); ok && indexed {
								if sel, ok := fn.Info().Selections[se]; ok && sel.Kind() == types.FieldVal && sel.Obj() == types.Object(fv) {
									found = true
								}
							}
						}
						return true
					})
					if found {
						out = append(out, fn.root().origOrSelf())
					}
				}
				return out
			}
			for _, f := range assignsOf(sessField) {
				for nm := range r.attributed(f) {
					if g := r.P.FuncByName(nm); g != nil {
						assigners[g] = true
					}
				}
				assigners[f] = true
			}
			for _, fv := range fields {
				if fv == sessField || fv.Embedded() {
					continue
				}
				why := scoped(fv.Type())
				if why == "" {
					// a plain value (an id, a counter, a flag) that is computed from session data where it is assigned:
					// an entity id kept on the connection means something in the session it was read in only
					for _, fn := range r.P.All {
						if why != "" || (fn.Pkg.Types != pk.Types && fv.Pkg() != fn.Pkg.Types) {
							continue
						}
						ast.Inspect(fn.Body, func(nd ast.Node) bool {
							as, ok := nd.(*ast.AssignStmt)
							if !ok || why != "" || !r.P.stmtAssignsField(fn.Info(), as, fv) || len(as.Lhs) != len(as.Rhs) {
								return why == ""
							}
							for i, l := range as.Lhs {
								se, ok := ast.Unparen(l).(*ast.SelectorExpr)
								if !ok {
									continue
								}
								if sel, ok := fn.Info().Selections[se]; !ok || sel.Obj() != types.Object(fv) {
									continue
								}
								ast.Inspect(as.Rhs[i], func(k ast.Node) bool {
									if e, ok := k.(ast.Expr); ok && why == "" {
										if t := fn.Info().TypeOf(e); t != nil {
											if nt, ok := derefNamed(t); ok && nt.Obj().Pkg() != nil {
												pp := nt.Obj().Pkg().Path()
												_, isStruct := nt.Underlying().(*types.Struct)
												if isStruct && (pp == pkgModels || strings.HasPrefix(pp, repoMod+"/modules")) && scoped(t) != "" {
													why = "a value computed from a " + shortPkg(pp) + "." + nt.Obj().Name()
												}
											}
										}
									}
									return why == ""
								})
							}
							return why == ""
						})
					}
				}
				if why == "" {
					continue
				}
				ws := assignsOf(fv)
				if len(ws) == 0 {
					continue // set at construction only (configuration, e.g. the module list)
				}
				nFields++
				if strings.HasPrefix(why, "a value computed from") {
					// a plain value: fine wherever it is set, as long as the functions that bind or clear the session
					// set it too (it is reset when the session changes)
					reset := false
					for _, w := range ws {
						if assigners[w] {
							reset = true
						}
					}
					if reset {
						continue
					}
				}
				for _, w := range ws {
					ok := assigners[w]
					if !ok {
						// glue acting only on behalf of the assigners (helper extracted from join / Init / leave)
						ok = true
						for nm := range r.attributed(w) {
							if g := r.P.FuncByName(nm); g == nil || !assigners[g] {
								ok = false
							}
						}
					}
					r.Check("E9", fmt.Sprintf("%s.%s:rebound-with-session[%s]", tn.Name(), fv.Name(), w.Name), ok, w.Body.Pos(),
						"%s.%s can hold session-scoped data (%s) and is assigned in %s, which does not assign %s.%s: the value survives a change of session (only functions that bind or clear the connection's session may set it)",
						tn.Name(), fv.Name(), why, w.Name, tn.Name(), sessField.Name())
				}
			}
		}
	}
	r.Floor("E9", "per-connection structs holding a session", nStructs, 4)
	r.Floor("E9", "session-scoped fields assigned after construction", nFields, 4)
}

// ---------------------------------------------------------------------------------------------
// A1 DISPATCH-TOTAL

var clientToServerExtra = map[string]bool{
	"MSG_TYPE_ENTITY_UPDATE_POSE":      true,
	"MSG_TYPE_ENTITY_COMPONENT_UPDATE": true,
	"MSG_TYPE_CUSTOM_MESSAGE":          true,
	"MSG_TYPE_PING_RESPONSE":           true,
	"MSG_TYPE_DAGAZ_QUAD_SAMPLE":       true,
}

var notDispatched = map[string]string{
	"MSG_TYPE_PARTICIPANT_LEAVE_REQUEST": "not implemented by the server at the pinned commit (no handler exists); clients leave by closing",
}

func ruleDispatchTotal(r *Run) {
	m := r.M()
	if r.broken() {
		return
	}
	checkEnum := func(pbPkg string, arms []Arm, who string) int {
		pk := r.P.ByPth[pbPkg]
		if pk == nil {
			r.Undecide("A1", "protobuf package %s not loaded", pbPkg)
			return 0
		}
		byConst := map[string][]Arm{}
		for _, a := range arms {
			byConst[cname(a.Const)] = append(byConst[cname(a.Const)], a)
		}
		n := 0
		for _, nm := range pk.Types.Scope().Names() {
			c, ok := pk.Types.Scope().Lookup(nm).(*types.Const)
			if !ok {
				continue
			}
			nt, ok := c.Type().(*types.Named)
			if !ok || nt.Obj().Name() != "MsgType" {
				continue
			}
			k := cname(c)
			if !(strings.HasSuffix(k, "_REQUEST") || clientToServerExtra[k]) {
				continue
			}
			if k == "MSG_TYPE_PING_REQUEST" || k == "MSG_TYPE_PING_RESPONSE" || true {
				// both directions exist for ping; the server handles both
			}
			if why, skip := notDispatched[k]; skip {
				r.Check("A1", who+":arm["+k+"]", len(byConst[k]) == 0, 0, "frozen exception: %s", why)
				continue
			}
			n++
			as := byConst[k]
			ok1 := len(as) == 1 && as[0].Method != nil && as[0].Impl != nil
			r.Check("A1", who+":arm["+k+"]", ok1, c.Pos(), "client message kind %s has exactly one dispatch arm that calls exactly one handler (found %d arm(s))", k, len(as))
		}
		return n
	}
	n := checkEnum(pkgHagallPB, m.CoreArms, "core")
	r.Floor("A1", "core client message kinds", n, 18)
	// no two arms share a handler
	seen := map[*types.Func]string{}
	for _, a := range m.CoreArms {
		if a.Method == nil {
			continue
		}
		prev, dup := seen[a.Method]
		r.Check("A1", "core:distinct["+cname(a.Const)+"]", !dup, a.Clause.Pos(), "message kind %s is routed to %s, which also handles %s", cname(a.Const), a.Method.Name(), prev)
		seen[a.Method] = cname(a.Const)
	}
	pbOf := map[string]string{"modules/vikja": pkgVikjaPB, "modules/odal": pkgOdalPB, "modules/dagaz": pkgDagazPB}
	nm := 0
	for _, mi := range m.Modules {
		var own []Arm
		for _, a := range mi.Arms {
			if a.Const.Pkg().Path() == pbOf[mi.Short] {
				own = append(own, a)
			}
		}
		nm += checkEnum(pbOf[mi.Short], own, mi.Short)
	}
	r.Floor("A1", "module client message kinds", nm, 6)
	// dispatch function: arguments handed through unchanged, error short-circuits, module loop gated
	if m.TableDispatch {
		r.Assume("the core dispatch is table-driven: which handler a message kind reaches is read from the table literal; that the table's adapters hand context, responder and message through unchanged is not examined")
	}
	fn := m.Dispatch
	paths := r.Paths(fn)
	r.Analysed(fn, len(paths))
	hwm := r.fn(pkgWS, "Handler", "HandleWithModule")
	iface := m.HandlerIface.Underlying().(*types.Interface)
	isCore := func(o types.Object) bool {
		f, ok := o.(*types.Func)
		if !ok || f == hwm {
			return false
		}
		for i := 0; i < iface.NumMethods(); i++ {
			if iface.Method(i) == f && strings.HasPrefix(f.Name(), "Handle") {
				return true
			}
		}
		return false
	}
	for pi := range paths {
		path := &paths[pi]
		r.at(path)
		coreIdx, coreErr := -1, ""
		tested := map[string]bool{}
		for i, ev := range path.Events {
			if ev.Kind == EvCall && isCore(ev.Callee) {
				coreIdx = i
				// msg and responder handed through
				for _, a := range ev.Call.Args {
					c := r.P.Canon(fn, a)
					okArg := strings.HasPrefix(c, "param:#") || c == "recv.dispatcher.method:HandleFrame"
					r.CheckT("A1", fmt.Sprintf("%s:args[%s]", fn.Name, ev.Callee.Name()), okArg, ev.Pos, path, "dispatch hands its own context, message and responder to the handler (argument %q)", c)
				}
			}
			if ev.Kind == EvGuard {
				g := r.Classify(path, i)
				if strings.HasPrefix(g.Subject, "err:") && g.Callee != nil && isCore(g.Callee) {
					coreErr = g.Outcome
				}
				if strings.HasPrefix(g.Subject, "err:") && coreErr == "" && strings.Contains(g.Subject, "local:") {
					coreErr = g.Outcome
				}
				if strings.HasPrefix(g.Subject, "nil:recv.Handler.call:Handler.CurrentParticipant") && g.Outcome == "nonnil" {
					tested["p"] = true
				}
				if strings.HasPrefix(g.Subject, "nil:recv.Handler.call:Handler.CurrentSession") && g.Outcome == "nonnil" {
					tested["s"] = true
				}
			}
			if ev.Kind == EvCall && ev.Callee == hwm {
				r.CheckT("A1", fn.Name+":modules-after-core", coreIdx < i, ev.Pos, path, "modules are consulted after the core handler")
				r.CheckT("A1", fn.Name+":modules-joined", tested["p"] && tested["s"], ev.Pos, path, "modules are consulted only for a connection that is in a session (participant and session both non-nil)")
				r.CheckT("A1", fn.Name+":modules-on-success", coreErr != "err", ev.Pos, path, "modules are not consulted when the core handler failed")
				r.CheckT("A1", fn.Name+":modules-loop", r.P.Canon(ev.Fn, ev.Call.Args[1]) == "rangeval(recv.Handler.call:Handler.GetModules())", ev.Pos, path, "every loaded module is consulted (range over GetModules())")
			}
		}
	}
	// HandleWithModule gating in the implementation
	impl := r.P.FuncByName("websocket.(*RealtimeHandler).HandleWithModule")
	hm := r.fn(pkgModules, "Module", "HandleMsg")
	if impl == nil || hm == nil {
		r.Undecide("A1", "RealtimeHandler.HandleWithModule / Module.HandleMsg not found")
		return
	}
	ipaths := r.Paths(impl)
	r.Analysed(impl, len(ipaths))
	calls := 0
	for pi := range ipaths {
		path := &ipaths[pi]
		r.at(path)
		i := idxOfCall(path, hm, 0)
		if i < 0 {
			continue
		}
		calls++
		tested := map[string]bool{}
		for j := 0; j < i; j++ {
			if path.Events[j].Kind == EvGuard {
				g := r.Classify(path, j)
				if strings.HasPrefix(g.Subject, "joined:") && g.Outcome == "yes" {
					tested[g.Subject] = true
				}
			}
		}
		r.CheckT("A1", impl.Name+":gated", len(tested) == 2, path.Events[i].Pos, path, "a module sees a message only while the connection is joined")
		r.CheckT("A1", impl.Name+":module-arg", r.P.Canon(impl, path.Events[i].Recv) == "param:#1", path.Events[i].Pos, path, "the module consulted is the one handed in")
	}
	r.Floor("A1", "paths of HandleWithModule reaching the module", calls, 1)
}

// ---------------------------------------------------------------------------------------------
// A2 DECORATOR-FORWARD

func ruleDecoratorForward(r *Run) {
	m := r.M()
	if r.broken() {
		return
	}
	iface := m.HandlerIface.Underlying().(*types.Interface)
	nOverrides := 0
	r.Check("A2", "decorators", len(m.Decorators) >= 2, 0, "found %d handler decorators (types embedding the Handler interface)", len(m.Decorators))
	for _, d := range m.Decorators {
		for i := 0; i < iface.NumMethods(); i++ {
			im := iface.Method(i)
			obj, _, _ := types.LookupFieldOrMethod(types.NewPointer(d), true, d.Obj().Pkg(), im.Name())
			f, ok := obj.(*types.Func)
			if !ok {
				continue
			}
			def := r.P.Funcs[f]
			if def == nil {
				continue // promoted from the embedded interface: forwards by construction
			}
			nOverrides++
			site := def.Name
			sig := f.Type().(*types.Signature)
			paths := r.Paths(def)
			r.Analysed(def, len(paths))
			returnsFunc := false
			if sig.Results().Len() == 1 {
				_, returnsFunc = sig.Results().At(0).Type().Underlying().(*types.Signature)
			}
			for pi := range paths {
				path := &paths[pi]
				r.at(path)
				var inner []int
				for k, ev := range path.Events {
					if ev.Kind == EvCall && ev.Callee == im && ev.Recv != nil && r.P.Canon(ev.Fn, ev.Recv) == "recv.Handler" {
						inner = append(inner, k)
					}
				}
				if !r.CheckT("A2", site+":once", len(inner) == 1, def.Body.Pos(), path, "decorator calls the wrapped handler's %s %d time(s) on a path (expected exactly once)", im.Name(), len(inner)) {
					continue
				}
				ev := path.Events[inner[0]]
				// same arguments, in order
				argsOK := len(ev.Call.Args) == sig.Params().Len()
				if argsOK {
					for k, a := range ev.Call.Args {
						if r.P.Canon(ev.Fn, a) != fmt.Sprintf("param:#%d", k) {
							argsOK = false
						}
					}
				}
				r.CheckT("A2", site+":args", argsOK, ev.Pos, path, "decorator forwards its own arguments unchanged")
				if sig.Results().Len() == 0 || returnsFunc {
					continue
				}
				// result forwarded: the returned expression is the inner call (directly, via the latency
				// combinator whose result is its function's result, or nil after the inner result tested nil)
				okRet := false
				for k := len(path.Events) - 1; k >= 0; k-- {
					re := path.Events[k]
					if re.Kind != EvReturn || re.Depth != 0 {
						continue
					}
					res := re.Results[len(re.Results)-1]
					c := r.P.Canon(re.Fn, res)
					switch {
					case strings.Contains(c, "recv.Handler.call:Handler."+im.Name()+"("):
						okRet = true
					case strings.HasPrefix(c, "recv.call:"):
						// e.g. measureLatency(msg, module, closure): accepted when that combinator returns f()'s result
						if cf, call := r.calleeOfExpr(re.Fn, res); cf != nil && call != nil {
							okRet = r.returnsClosureResult(cf)
						}
					case c == "nil":
						for j := inner[0]; j < k; j++ {
							if path.Events[j].Kind == EvGuard {
								g := r.Classify(path, j)
								if g.Callee == im && g.Outcome == "ok" {
									okRet = true
								}
							}
						}
					}
					break
				}
				r.CheckT("A2", site+":result", okRet, def.Body.Pos(), path, "decorator returns the wrapped handler's result unchanged")
			}
			if returnsFunc {
				r.checkWrappedClosure(def, im)
			}
		}
	}
	r.Floor("A2", "decorator overrides", nOverrides, 19)
}

// returnsClosureResult: repo function with a func parameter that returns, on every path, the value
// produced by calling that parameter exactly once.
func (r *Run) returnsClosureResult(f *types.Func) bool {
	def := r.P.Funcs[f]
	if def == nil {
		return false
	}
	sig := f.Type().(*types.Signature)
	var param *types.Var
	for i := 0; i < sig.Params().Len(); i++ {
		if _, ok := sig.Params().At(i).Type().Underlying().(*types.Signature); ok {
			param = sig.Params().At(i)
		}
	}
	if param == nil {
		return false
	}
	paths := r.Paths(def)
	if len(paths) == 0 {
		return false
	}
	for pi := range paths {
		path := &paths[pi]
		r.at(path)
		calls := 0
		for _, ev := range path.Events {
			if ev.Kind == EvCall && ev.Callee == param {
				calls++
			}
		}
		if calls != 1 {
			return false
		}
		ok := false
		for k := len(path.Events) - 1; k >= 0; k-- {
			re := path.Events[k]
			if re.Kind == EvReturn && re.Depth == 0 {
				c := r.P.Canon(re.Fn, re.Results[len(re.Results)-1])
				ok = strings.HasPrefix(c, "dyncall:param:#") && strings.HasSuffix(c, "()")
				break
			}
		}
		if !ok {
			return false
		}
	}
	return true
}

// checkWrappedClosure: Receiver()/Sender() decorators return a closure that calls the wrapped
// closure exactly once per invocation and returns its results unchanged.
func (r *Run) checkWrappedClosure(def *Func, im *types.Func) {
	// the returned literal
	var lit *ast.FuncLit
	ast.Inspect(def.Body, func(n ast.Node) bool {
		if rs, ok := n.(*ast.ReturnStmt); ok && len(rs.Results) == 1 {
			if l, ok := ast.Unparen(rs.Results[0]).(*ast.FuncLit); ok {
				lit = l
			}
		}
		_, isLit := n.(*ast.FuncLit)
		return !isLit
	})
	site := def.Name + ":closure"
	if !r.Check("A2", site, lit != nil, def.Body.Pos(), "%s returns a wrapping function literal", im.Name()) {
		return
	}
	lf := r.P.Lits[lit]
	paths := r.Paths(lf)
	r.Analysed(lf, len(paths))
	for pi := range paths {
		path := &paths[pi]
		r.at(path)
		var calls []Event
		for _, ev := range path.Events {
			if ev.Kind == EvCall && ev.Call != nil {
				if id, ok := ast.Unparen(ev.Call.Fun).(*ast.Ident); ok {
					c := r.P.Canon(lf, id)
					if strings.HasPrefix(c, "recv.Handler.call:Handler."+im.Name()+"(") {
						calls = append(calls, ev)
					}
				}
			}
		}
		if !r.CheckT("A2", site+":once", len(calls) == 1, lit.Pos(), path, "the wrapping closure invokes the wrapped %s %d time(s) per call (expected exactly once)", strings.ToLower(im.Name()), len(calls)) {
			continue
		}
		// arguments are the closure's own parameters
		argsOK := true
		for _, a := range calls[0].Call.Args {
			if !strings.HasPrefix(r.P.Canon(lf, a), "param:lit@") {
				argsOK = false
			}
		}
		r.CheckT("A2", site+":args", argsOK, calls[0].Pos, path, "the wrapping closure passes its own argument on")
		// results returned unchanged
		okRet := false
		for k := len(path.Events) - 1; k >= 0; k-- {
			re := path.Events[k]
			if re.Kind == EvReturn && re.Depth == 0 {
				okRet = len(re.Results) > 0
				for idx, res := range re.Results {
					c := r.P.Canon(lf, res)
					want1 := fmt.Sprintf("#%d", idx)
					if !(strings.Contains(c, "dyncall:recv.Handler.call:Handler."+im.Name()+"()") && (strings.HasSuffix(c, want1) || len(re.Results) == 1)) {
						okRet = false
					}
				}
				break
			}
		}
		r.CheckT("A2", site+":result", okRet, lit.Pos(), path, "the wrapping closure returns the wrapped function's results unchanged and in order")
	}
}

var _ = token.NoPos

// isModuleCode: a method of the Module interface (dynamic call into a plug-in) or any function of a
// modules/... package.
func (r *Run) isModuleCode(f *types.Func) bool {
	if f == nil || f.Pkg() == nil {
		return false
	}
	if strings.HasPrefix(f.Pkg().Path(), repoMod+"/modules/") {
		return true
	}
	if iface, ok := r.M().ModuleIface.Underlying().(*types.Interface); ok {
		for i := 0; i < iface.NumMethods(); i++ {
			if iface.Method(i) == f {
				return true
			}
		}
	}
	return false
}
