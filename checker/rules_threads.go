package main

import (
	"fmt"
	"go/ast"
	"go/types"
	"sort"
	"strings"
)

// F2t — fields of per-connection objects touched by more than one of the connection's goroutines.
// Thread classes are discovered from `go` statements (target function, resolved through the call
// graph) plus the connection's main line; a function belongs to every class that reaches it without
// crossing a `go`. A field written by one class and accessed by another needs a common lock, unless
// every write happens before the other class exists (pre-spawn initialisation).

// frozen: happens-before arguments the analysis cannot see, one line of reason each
var threadExempt = map[string]string{
	"handlerWithLogs.appKey":          "written in HandleConnect; the summary worker reads it only after it saw a non-empty counter under counterMutex, and the counter is filled by the receiver, which is started after HandleConnect",
	"handlerWithLogs.originalRequest": "written in HandleConnect, read on the main line only",
	"RealtimeHandler.clientID":        "written in HandleConnect; read by the summary worker only after a message was counted (same argument as appKey), by sender/receiver started after HandleConnect",
}

type threadClass struct {
	Name  string
	Root  *Func
	Reach map[*Func]bool
}

func (r *Run) threadClasses() []threadClass {
	d := r.Deep()
	if d == nil {
		return nil
	}
	var out []threadClass
	seen := map[*Func]bool{}
	addRoot := func(name string, f *Func) {
		if f == nil || seen[f] {
			return
		}
		seen[f] = true
		out = append(out, threadClass{Name: name, Root: f, Reach: r.reachableFrom(f)})
	}
	if h := r.P.FuncByName("websocket.(*handler).Handle"); h != nil {
		addRoot("CONN-MAIN", h)
	}
	for _, fn := range r.P.All {
		var visit func(holder *Func, body ast.Node)
		visit = func(holder *Func, body ast.Node) {
			ast.Inspect(body, func(n ast.Node) bool {
				gs, ok := n.(*ast.GoStmt)
				if !ok {
					return true
				}
				if lit, ok := ast.Unparen(gs.Call.Fun).(*ast.FuncLit); ok {
					lf := r.P.Lits[lit]
					if lf == nil {
						return true
					}
					// a goroutine-starting helper — go func(){ …; p(…) }() where p is a function-typed
					// parameter of the enclosing glue function: one goroutine class per function value
					// handed in at a call site, not one for all of them
					if pidx := r.spawnedParam(holder, lit); pidx >= 0 && holder.Obj != nil && r.P.isGlue(holder.Obj) {
						split := false
						for _, c := range r.callersOf(holder.Obj) {
							ast.Inspect(c.Body, func(m ast.Node) bool {
								call, ok := m.(*ast.CallExpr)
								if !ok || calleeObj(c.Info(), call) != holder.Obj || pidx >= len(call.Args) {
									return true
								}
								var tf *Func
								if tgt := funcValueTarget(c.Info(), ast.Unparen(call.Args[pidx])); tgt != nil {
									tf = r.P.Funcs[tgt]
								} else if al, isLit := ast.Unparen(call.Args[pidx]).(*ast.FuncLit); isLit {
									tf = r.P.Lits[al] // spawn(&wg, func(){ h.startSending(ctx) })
								}
								{
									if tf != nil && !seen[tf] {
										seen[tf] = true
										reach := r.reachableFrom(tf)
										for f := range r.reachableFromSkipping(lf, holder, pidx) {
											reach[f] = true
										}
										out = append(out, threadClass{Name: "go:" + holder.Name + "(" + tf.Name + ")", Root: tf, Reach: reach})
										split = true
									}
								}
								return true
							})
						}
						if split {
							return true
						}
					}
					addRoot("go:"+lf.Name, lf)
					return true
				}
				known, _ := d.Callees(r.P, gs.Call)
				known = append(known, d.calleesAtPos(r.P, gs.Go)...)
				for _, g := range known {
					addRoot("go:"+g.Name, g)
				}
				return true
			})
		}
		visit(fn, fn.Body)
	}
	sort.Slice(out, func(i, j int) bool { return out[i].Name < out[j].Name })
	return out
}

func ruleThreadConfinement(r *Run) {
	if r.broken() {
		return
	}
	classes := r.threadClasses()
	if len(classes) < 4 {
		r.Undecide("F2t", "only %d goroutine roots discovered", len(classes))
		return
	}
	classOf := func(f *Func) []string {
		var cs []string
		f = f.origOrSelf()
		for _, c := range classes {
			if c.Reach[f] || c.Reach[f.root().origOrSelf()] {
				cs = append(cs, c.Name)
			}
		}
		return cs
	}
	// pre-spawn functions: reached from the connection entry only before its first go statement
	pre := map[*Func]bool{}
	if h := r.P.FuncByName("websocket.(*handler).Handle"); h != nil {
		d := r.Deep()
		for _, path := range r.Paths(h) {
			for _, ev := range path.Events {
				if ev.Kind == EvGo {
					break
				}
				if ev.Kind == EvCall && ev.Call != nil && ev.Depth == 0 {
					known, _ := d.Callees(r.P, ev.Call)
					for _, g := range known {
						for f := range r.reachableFrom(g) {
							pre[f] = true
						}
					}
				}
			}
			break
		}
		// ... and not called again later from the connection's goroutines
		for f := range pre {
			if f.Obj == nil {
				continue
			}
			for _, c := range r.callersIncludingValues(f) {
				if !pre[c.root()] && c.root() != h {
					delete(pre, f)
				}
			}
		}
	}
	accs := r.allAccesses()
	type fkey struct {
		owner string
		field *types.Var
	}
	by := map[fkey][]fieldAccess{}
	for _, a := range accs {
		if _, pc := perConnection[a.Owner]; !pc {
			continue
		}
		if isSyncType(a.Field.Type(), "Mutex", "RWMutex", "Once", "WaitGroup") {
			continue
		}
		by[fkey{a.Owner, a.Field}] = append(by[fkey{a.Owner, a.Field}], a)
	}
	var keys []fkey
	for k := range by {
		keys = append(keys, k)
	}
	sort.Slice(keys, func(i, j int) bool {
		return keys[i].owner+r.P.FieldName(keys[i].field) < keys[j].owner+r.P.FieldName(keys[j].field)
	})
	n := 0
	for _, k := range keys {
		name := k.owner + "." + r.P.FieldName(k.field)
		var writes []fieldAccess
		classesTouching := map[string]bool{}
		for _, a := range by[k] {
			if a.Fresh || isConstructorLike(a.Fn) || isConstructorLike(a.In) || strings.HasPrefix(a.Fn.Name, "websocket.HandlerWith") || strings.HasPrefix(a.Fn.Name, "websocket.newTest") {
				continue
			}
			for _, c := range classOf(a.In) {
				classesTouching[c] = true
			}
			for _, c := range classOf(a.Fn) {
				classesTouching[c] = true
			}
			if a.Write {
				writes = append(writes, a)
			}
		}
		if len(writes) == 0 || len(classesTouching) < 2 {
			continue
		}
		n++
		// conflicting pairs: a write and another access from a different goroutine class without a common lock
		type conflict struct{ w, a fieldAccess }
		var conflicts []conflict
		live := func(a fieldAccess) bool {
			return !(a.Fresh || isConstructorLike(a.Fn) || isConstructorLike(a.In) || strings.HasPrefix(a.Fn.Name, "websocket.HandlerWith") || strings.HasPrefix(a.Fn.Name, "websocket.newTest"))
		}
		classesOfAccess := func(a fieldAccess) map[string]bool {
			m := map[string]bool{}
			for _, c := range classOf(a.In) {
				m[c] = true
			}
			for _, c := range classOf(a.Fn) {
				m[c] = true
			}
			return m
		}
		for _, w := range writes {
			cw := classesOfAccess(w)
			for _, a := range by[k] {
				if !live(a) || a.Pos == w.Pos {
					continue
				}
				ca := classesOfAccess(a)
				differ := false
				for c1 := range cw {
					for c2 := range ca {
						if c1 != c2 {
							differ = true
						}
					}
				}
				if !differ {
					continue
				}
				common := false
				for lk, wm := range w.Held {
					if wm == "W" && a.Held[lk] != "" {
						common = true
					}
				}
				if !common {
					conflicts = append(conflicts, conflict{w, a})
				}
			}
		}
		if len(conflicts) == 0 {
			r.Check("F2t", name, true, writes[0].Pos, "%s is shared by %s; every write and every access from another goroutine hold a common lock", name, classList(classesTouching))
			continue
		}
		allPre := true
		var late []string
		for _, cf := range conflicts {
			w := cf.w
			if pre[w.Fn.root().origOrSelf()] {
				continue
			}
			if r.writePrecedesSpawns(w, classes, by[k]) {
				continue
			}
			allPre = false
			late = append(late, w.Fn.Name)
		}
		if allPre {
			r.Check("F2t", name, true, writes[0].Pos, "%s is written only before the connection's other goroutines are started", name)
			continue
		}
		if why, ok := threadExempt[name]; ok {
			r.Check("F2t", name, true, writes[0].Pos, "%s: frozen happens-before argument: %s", name, why)
			continue
		}
		sort.Strings(late)
		r.Check("F2t", name, false, conflicts[0].w.Pos,
			"%s is written in %s while goroutines %s of the same connection read or write it, with no common lock and after those goroutines were started: a data race", name, strings.Join(uniq(late), ", "), classList(classesTouching))
	}
	r.Check("F2t", "examined", n >= 3, 0, "per-connection fields touched by more than one goroutine class examined: %d", n)
	if len(r.Samples) < 30 {
		for _, c := range classes {
			r.Sample("F2t thread class %s: %d functions", c.Name, len(c.Reach))
		}
	}
}

func classList(m map[string]bool) string {
	var s []string
	for k := range m {
		s = append(s, k)
	}
	sort.Strings(s)
	return fmt.Sprint(s)
}

func uniq(s []string) []string {
	var out []string
	for i, x := range s {
		if i == 0 || x != s[i-1] {
			out = append(out, x)
		}
	}
	return out
}

// writePrecedesSpawns: the write sits in a function that itself starts the goroutines which touch
// the field, and on every path it comes before each of those go statements.
func (r *Run) writePrecedesSpawns(w fieldAccess, classes []threadClass, all []fieldAccess) bool {
	fn := w.Fn.root().origOrSelf()
	touches := func(c threadClass) bool {
		for _, a := range all {
			if c.Reach[a.In.origOrSelf()] || c.Reach[a.Fn.root().origOrSelf()] {
				return true
			}
		}
		return false
	}
	sawGo := false
	// the write may sit in a helper split off the function that starts the goroutines (openScheduler() called
	// from Handle): the order is read off the paths of the function it runs on behalf of, where the helper is
	// looked into
	holders := []*Func{fn}
	for nm := range r.attributed(fn) {
		if g := r.P.FuncByName(nm); g != nil && g != fn {
			holders = append(holders, g)
		}
	}
	var allPaths []Path
	for _, h := range holders {
		allPaths = append(allPaths, r.Paths(h)...)
	}
	for _, path := range allPaths {
		wi := -1
		for i, ev := range path.Events {
			if ev.Kind == EvAssign && ev.Node != nil && ev.Node.Pos() <= w.Pos && w.Pos < ev.Node.End() && wi < 0 {
				wi = i
			}
		}
		for i, ev := range path.Events {
			if ev.Kind != EvGo {
				continue // (a go statement inside looked-into glue — a goroutine-starting helper — counts like one in the function itself)
			}
			targets := r.goTargets(ev)
			for _, c := range classes {
				for _, t := range targets {
					if c.Root == t && touches(c) {
						sawGo = true
						if wi < 0 || wi > i {
							return false
						}
					}
				}
			}
		}
	}
	return sawGo
}

// spawnedParam: the literal started by a go statement in holder calls a function-typed parameter of
// holder; returns that parameter's index, or -1.
func (r *Run) spawnedParam(holder *Func, lit *ast.FuncLit) int {
	idx := -1
	ast.Inspect(lit.Body, func(n ast.Node) bool {
		call, ok := n.(*ast.CallExpr)
		if !ok {
			return true
		}
		if id, ok := ast.Unparen(call.Fun).(*ast.Ident); ok {
			if v, ok := holder.Info().Uses[id].(*types.Var); ok {
				if _, isSig := v.Type().Underlying().(*types.Signature); isSig {
					if k := paramIndex(holder, v); k >= 0 {
						idx = k
					}
				}
			}
		}
		return true
	})
	return idx
}

// reachableFromSkipping: like reachableFrom(lf), but calls through the pidx-th parameter of holder
// are not followed (they are resolved per call site of holder instead).
func (r *Run) reachableFromSkipping(lf, holder *Func, pidx int) map[*Func]bool {
	d := r.Deep()
	out := map[*Func]bool{lf: true}
	if d == nil || lf.Body == nil {
		return out
	}
	ast.Inspect(lf.Body, func(n ast.Node) bool {
		switch v := n.(type) {
		case *ast.GoStmt:
			return false
		case *ast.CallExpr:
			if id, ok := ast.Unparen(v.Fun).(*ast.Ident); ok {
				if pv, ok := holder.Info().Uses[id].(*types.Var); ok && paramIndex(holder, pv) == pidx {
					return true
				}
			}
			known, _ := d.Callees(r.P, v)
			for _, g := range known {
				for f := range r.reachableFrom(g) {
					out[f] = true
				}
			}
		}
		return true
	})
	return out
}

// goTargets: the functions a go event starts, as thread-class roots: the literal or the resolved
// callees, and — for a literal inside a looked-into goroutine-starting helper — the function value
// bound to the parameter the literal calls.
func (r *Run) goTargets(ev Event) []*Func {
	var targets []*Func
	d := r.Deep()
	if ev.Lit != nil {
		if lf := r.P.Lits[ev.Lit]; lf != nil {
			targets = append(targets, lf)
		}
		if ev.Fn != nil {
			inst := ev.Fn
			holder := inst.origOrSelf()
			if pidx := r.spawnedParam(holder, ev.Lit); pidx >= 0 && inst.bind != nil && inst.bind.call != nil && pidx < len(inst.bind.argv()) {
				if tgt := funcValueTarget(inst.bind.caller.Info(), ast.Unparen(inst.bind.argv()[pidx])); tgt != nil {
					if tf := r.P.Funcs[tgt]; tf != nil {
						targets = append(targets, tf)
					}
				} else if al, isLit := ast.Unparen(inst.bind.argv()[pidx]).(*ast.FuncLit); isLit {
					if tf := r.P.Lits[al]; tf != nil {
						targets = append(targets, tf)
					}
				}
			}
		}
	} else if ev.Call != nil && d != nil {
		k, _ := d.Callees(r.P, ev.Call)
		targets = append(targets, k...)
	}
	return targets
}
