package main

import (
	"bytes"
	"encoding/json"
	"fmt"
	"os"
	"os/exec"
	"path/filepath"
	"sort"
	"strings"
	"sync"
)

// A positive control is a single-instance breakage that still compiles. It is applied in memory
// (packages.Config.Overlay; nothing is written under /repo) and the rule must fire naming it.
type Control struct {
	Name     string `json:"name"`
	Property string `json:"property"`
	Rule     string `json:"rule"`
	File     string `json:"file"` // relative to the repository root
	Old      string `json:"old"`
	New      string `json:"new"`
	Expect   string `json:"expect"` // substring of the violation's site
	Note     string `json:"note,omitempty"`
	Edits    []struct {
		File string `json:"file"`
		Old  string `json:"old"`
		New  string `json:"new"`
	} `json:"edits,omitempty"`
}

func readControl(path string) (*Control, error) {
	b, err := os.ReadFile(path)
	if err != nil {
		return nil, err
	}
	var c Control
	if err := json.Unmarshal(b, &c); err != nil {
		return nil, fmt.Errorf("%s: %v", path, err)
	}
	if c.Name == "" {
		c.Name = strings.TrimSuffix(filepath.Base(path), ".json")
	}
	return &c, nil
}

func controlOverlay(repo, path string) (map[string][]byte, error) {
	c, err := readControl(path)
	if err != nil {
		return nil, err
	}
	ov := map[string][]byte{}
	apply := func(file, old, new string) error {
		abs := filepath.Join(repo, file)
		src, ok := ov[abs]
		if !ok {
			b, err := os.ReadFile(abs)
			if err != nil {
				return err
			}
			src = b
		}
		if n := bytes.Count(src, []byte(old)); n != 1 {
			return fmt.Errorf("old snippet occurs %d times in %s (need exactly 1)", n, file)
		}
		ov[abs] = bytes.Replace(src, []byte(old), []byte(new), 1)
		return nil
	}
	if c.File != "" {
		if err := apply(c.File, c.Old, c.New); err != nil {
			return nil, err
		}
	}
	for _, e := range c.Edits {
		if err := apply(e.File, e.Old, e.New); err != nil {
			return nil, err
		}
	}
	return ov, nil
}

// runControls runs every control of the property in a child process (bounded parallelism) and
// records insensitivity as UNDECIDED (never as a violation of the property).
func runControls(r *Run, prop, repo, verif string) {
	files, _ := filepath.Glob(filepath.Join(verif, "controls", "*.json"))
	sort.Strings(files)
	type res struct {
		c      *Control
		status string
		detail string
	}
	var todo []struct {
		path string
		c    *Control
	}
	for _, f := range files {
		c, err := readControl(f)
		if err != nil {
			r.Undecide("controls", "%v", err)
			continue
		}
		if c.Property != prop {
			continue
		}
		todo = append(todo, struct {
			path string
			c    *Control
		}{f, c})
	}
	if len(todo) == 0 {
		return
	}
	self, err := os.Executable()
	if err != nil {
		r.Undecide("controls", "cannot locate own binary: %v", err)
		return
	}
	tmp, err := os.MkdirTemp("", "hagcheck-controls-")
	if err != nil {
		r.Undecide("controls", "%v", err)
		return
	}
	defer os.RemoveAll(tmp)
	results := make([]res, len(todo))
	sem := make(chan struct{}, 4)
	var wg sync.WaitGroup
	for i, t := range todo {
		wg.Add(1)
		go func() {
			defer wg.Done()
			sem <- struct{}{}
			defer func() { <-sem }()
			out := filepath.Join(tmp, fmt.Sprintf("c%d", i))
			cmd := exec.Command(self, "-property", prop, "-tier", "quick", "-repo", repo, "-verif", verif, "-out", out, "-control", t.path)
			b, err := cmd.CombinedOutput()
			code := 0
			if ee, ok := err.(*exec.ExitError); ok {
				code = ee.ExitCode()
			} else if err != nil {
				code = -1
			}
			text := string(b)
			switch {
			case code == 3:
				results[i] = res{t.c, "stale", firstLine(text)}
			case code == 1 && fired(text, t.c):
				results[i] = res{t.c, "fired", ""}
			case code == 1:
				results[i] = res{t.c, "fired-elsewhere", "a violation was reported but not rule " + t.c.Rule + " at a site containing " + t.c.Expect}
			default:
				results[i] = res{t.c, "insensitive", fmt.Sprintf("exit %d: %s", code, firstLine(text))}
			}
		}()
	}
	wg.Wait()
	for _, rs := range results {
		line := fmt.Sprintf("%s [%s %s]: %s", rs.c.Name, rs.c.Property, rs.c.Rule, rs.status)
		if rs.detail != "" {
			line += " (" + rs.detail + ")"
		}
		r.Controls = append(r.Controls, line)
		fmt.Println("control", line)
		switch rs.status {
		case "insensitive", "fired-elsewhere":
			r.Undecide("controls", "CHECKER-INSENSITIVE: control %s did not make rule %s fire at %q: %s", rs.c.Name, rs.c.Rule, rs.c.Expect, rs.detail)
		}
	}
}

func firstLine(s string) string {
	s = strings.TrimSpace(s)
	if i := strings.IndexByte(s, '\n'); i >= 0 {
		s = s[:i]
	}
	if len(s) > 200 {
		s = s[:200]
	}
	return s
}

// fired: the child's output contains a violation line of the expected rule whose site contains Expect.
func fired(out string, c *Control) bool {
	for _, line := range strings.Split(out, "\n") {
		line = strings.TrimSpace(line)
		if strings.HasPrefix(line, "rule="+c.Rule+" ") && strings.Contains(line, c.Expect) {
			return true
		}
	}
	return false
}
