package main

import (
	"fmt"
	"go/ast"
	"go/types"
	"strings"
)

// ruleErrorDiscipline: no result that reports failure (error, presence bool of a Reports-mutator)
// from a repository function is dropped. An ignored refusal lets the caller continue as if the
// change had been applied.
func ruleErrorDiscipline(r *Run) {
	if r.broken() {
		return
	}
	n := 0
	for _, fn := range r.P.All {
		var visit func(holder *Func, body ast.Node)
		visit = func(holder *Func, body ast.Node) {
			info := holder.Info()
			ast.Inspect(body, func(nd ast.Node) bool {
				var call *ast.CallExpr
				dropped := false
				switch s := nd.(type) {
				case *ast.ExprStmt:
					call, _ = ast.Unparen(s.X).(*ast.CallExpr)
					dropped = true
				case *ast.AssignStmt:
					if len(s.Rhs) == 1 {
						call, _ = ast.Unparen(s.Rhs[0]).(*ast.CallExpr)
						// dropped when the failure-reporting result is assigned to blank
						if call != nil {
							if f, ok := calleeObj(info, call).(*types.Func); ok {
								sig := f.Type().(*types.Signature)
								last := sig.Results().Len() - 1
								if last >= 0 && last < len(s.Lhs) {
									if id, ok := s.Lhs[last].(*ast.Ident); ok && id.Name == "_" {
										dropped = true
									}
								}
							}
						}
					}
				case *ast.GoStmt, *ast.DeferStmt:
					return true
				}
				if call == nil {
					return true
				}
				f, ok := calleeObj(info, call).(*types.Func)
				if !ok || !isRepoPkg(f.Pkg()) {
					return true
				}
				sig := f.Type().(*types.Signature)
				if sig.Results().Len() == 0 {
					return true
				}
				lastT := sig.Results().At(sig.Results().Len() - 1).Type()
				reports := isErrorType(lastT)
				if mi, ok := r.mutInfo(f); ok && mi.Reports == "bool" {
					reports = true
				}
				if !reports {
					return true
				}
				n++
				if r.neverFails(f) {
					return true
				}
				r.Check("ERR", fmt.Sprintf("%s:result-of[%s]", fn.Name, shortFuncName(f)), !dropped, call.Pos(),
					"the failure result of %s is dropped; the caller goes on as if the operation had succeeded", shortFuncName(f))
				return true
			})
		}
		visit(fn, fn.Body)
	}
	r.Floor("ERR", "calls of failure-reporting repository functions", n, 8)
}

// ---------------------------------------------------------------------------------------------
// G1 PB-NIL: message-typed pointer fields of a decoded request are dereferenced only behind a nil test.

// pbMsgPtrField: selector denotes a field of pointer-to-protobuf-message type on a protobuf struct.
func isPBMessagePtr(t types.Type) bool {
	pt, ok := t.(*types.Pointer)
	if !ok {
		return false
	}
	n, ok := pt.Elem().(*types.Named)
	if !ok || n.Obj().Pkg() == nil {
		return false
	}
	path := n.Obj().Pkg().Path()
	if !(strings.Contains(path, "hagall-common/messages") || strings.HasPrefix(path, "google.golang.org/protobuf/types/known")) {
		return false
	}
	_, isStruct := n.Underlying().(*types.Struct)
	return isStruct
}

type nilUse struct {
	fn    *Func
	expr  ast.Expr // the pointer expression dereferenced
	pos   ast.Node
	canon string
	via   string // "" direct field access, or callee name for a helper that dereferences its parameter
}

// derefParams: for each repo function, which pointer-to-message parameters it dereferences
// unconditionally (field selection on the parameter with no dominating nil test in the function).
func (r *Run) derefParams(fn *Func) map[*types.Var]bool {
	out := map[*types.Var]bool{}
	if fn.Type.Params == nil {
		return out
	}
	info := fn.Info()
	params := map[types.Object]*types.Var{}
	for _, fld := range fn.Type.Params.List {
		for _, nm := range fld.Names {
			if v, ok := info.Defs[nm].(*types.Var); ok && isPBMessagePtr(v.Type()) {
				params[v] = v
			}
		}
	}
	if len(params) == 0 {
		return out
	}
	tested := map[types.Object]bool{}
	ast.Inspect(fn.Body, func(nd ast.Node) bool {
		if be, ok := nd.(*ast.BinaryExpr); ok {
			for _, side := range [][2]ast.Expr{{be.X, be.Y}, {be.Y, be.X}} {
				if id, ok := ast.Unparen(side[0]).(*ast.Ident); ok && isNilIdent(info, side[1]) {
					if v := params[info.Uses[id]]; v != nil {
						tested[v] = true
					}
				}
			}
		}
		return true
	})
	ast.Inspect(fn.Body, func(nd ast.Node) bool {
		se, ok := nd.(*ast.SelectorExpr)
		if !ok {
			return true
		}
		if sel, ok := info.Selections[se]; !ok || sel.Kind() != types.FieldVal {
			return true
		}
		if id, ok := ast.Unparen(se.X).(*ast.Ident); ok {
			if v := params[info.Uses[id]]; v != nil && !tested[v] {
				out[v] = true
			}
		}
		return true
	})
	return out
}

func rulePBNil(r *Run) {
	m := r.M()
	if r.broken() {
		return
	}
	// helper summaries (one level, plus helpers calling helpers)
	helper := map[*types.Func]map[int]bool{}
	for pass := 0; pass < 3; pass++ {
		for _, fn := range r.P.All {
			if fn.Obj == nil {
				continue
			}
			sig := fn.Obj.Type().(*types.Signature)
			dp := r.derefParams(fn)
			for i := 0; i < sig.Params().Len(); i++ {
				if dp[sig.Params().At(i)] {
					if helper[fn.Obj] == nil {
						helper[fn.Obj] = map[int]bool{}
					}
					helper[fn.Obj][i] = true
				}
			}
			// parameter passed straight on to a dereferencing helper
			info := fn.Info()
			ast.Inspect(fn.Body, func(nd ast.Node) bool {
				call, ok := nd.(*ast.CallExpr)
				if !ok {
					return true
				}
				cf, _ := calleeObj(info, call).(*types.Func)
				if cf == nil || helper[cf] == nil {
					return true
				}
				for ai, a := range call.Args {
					if !helper[cf][ai] {
						continue
					}
					if id, ok := ast.Unparen(a).(*ast.Ident); ok {
						for i := 0; i < sig.Params().Len(); i++ {
							if info.Uses[id] == sig.Params().At(i) {
								if helper[fn.Obj] == nil {
									helper[fn.Obj] = map[int]bool{}
								}
								helper[fn.Obj][i] = true
							}
						}
					}
				}
				return true
			})
		}
	}
	nUses := 0
	_ = m
	for _, fn := range r.P.All {
		info := fn.Info()
		// pre-filter: the function mentions a field of pointer-to-message type
		mentions := false
		ast.Inspect(fn.Body, func(nd ast.Node) bool {
			if se, ok := nd.(*ast.SelectorExpr); ok {
				if sel, ok := info.Selections[se]; ok && sel.Kind() == types.FieldVal && isPBMessagePtr(sel.Type()) {
					mentions = true
				}
			}
			return !mentions
		})
		if !mentions {
			continue
		}
		paths := r.Paths(fn)
		r.Analysed(fn, len(paths))
		for pi := range paths {
			path := &paths[pi]
			r.at(path)
			nonNil := map[string]bool{}
			report := func(x ast.Expr, at ast.Node, via string, holder *Func) {
				// inside a looked-into helper the sub-message is a parameter: the caller's argument
				holder, x = resolveBound(holder, x)
				se, ok := ast.Unparen(x).(*ast.SelectorExpr)
				if !ok {
					return
				}
				sel, ok := holder.Info().Selections[se]
				if !ok || sel.Kind() != types.FieldVal || !isPBMessagePtr(sel.Type()) {
					return
				}
				if !isPBMessagePtr(types.NewPointer(derefType(sel.Recv()))) {
					return // a field of a server-side struct (set by the server), not an optional sub-message of a client message
				}
				c := r.P.Canon(holder, x)
				if strings.HasPrefix(c, "&lit:") || strings.Contains(c, "call:timestamppb.Now") {
					return // built by the server on this path
				}
				if strings.HasPrefix(c, "param:") && fn.Obj != nil && !fn.Obj.Exported() && r.P.isGlue(fn.Obj) && len(r.callersOf(fn.Obj)) > 0 {
					// what an unexported helper is handed: judged at its call sites, where the helper is looked into
					// with the caller's nil tests in force (or, when it is not, through its dereference summary)
					return
				}
				nUses++
				what := "field access"
				if via != "" {
					what = "call of " + via + ", which dereferences its argument"
				}
				r.CheckT("G1", fmt.Sprintf("%s:deref[%s]", fn.Name, c), nonNil[c], at.Pos(), path,
					"optional sub-message %s is dereferenced (%s) on a path that has not tested it for nil: a client message that omits it panics the handler", c, what)
			}
			var scanIn func(holder *Func) func(n ast.Node)
			scanIn = func(holder *Func) func(n ast.Node) {
				hinfo := holder.Info()
				return func(n ast.Node) {
					ast.Inspect(n, func(nd ast.Node) bool {
						switch v := nd.(type) {
						case *ast.FuncLit:
							return false
						case *ast.SelectorExpr:
							if sel, ok := hinfo.Selections[v]; ok && sel.Kind() == types.FieldVal {
								if tv, ok := hinfo.Types[v.X]; ok && isPBMessagePtr(tv.Type) {
									report(v.X, v, "", holder)
								}
							}
						}
						return true
					})
				}
			}
			for i, ev := range path.Events {
				scan := scanIn(ev.Fn)
				switch ev.Kind {
				case EvGuard:
					if ev.Cond != nil {
						g := r.Classify(path, i)
						if (strings.HasPrefix(g.Subject, "zero:") || strings.HasPrefix(g.Subject, "nil:")) && (g.Outcome == "nonzero" || g.Outcome == "nonnil") {
							nonNil[strings.TrimPrefix(strings.TrimPrefix(g.Subject, "zero:"), "nil:")] = true
						}
						scanShallow(ev.Cond, scan)
					}
				case EvCall:
					if ev.Call != nil {
						for _, a := range ev.Call.Args {
							scanShallow(a, scan)
						}
						if se, ok := ast.Unparen(ev.Call.Fun).(*ast.SelectorExpr); ok {
							scanShallow(se.X, scan)
						}
						lookedInto := i+1 < len(path.Events) && path.Events[i+1].Kind == EvEnter && path.Events[i+1].Helper && path.Events[i+1].ViaCall == ev.Call
						if cf, _ := ev.Callee.(*types.Func); cf != nil && helper[cf] != nil && !lookedInto { // (a looked-into helper shows its own dereferences, with its own nil tests)
							for ai, a := range ev.Call.Args {
								if helper[cf][ai] {
									report(a, ev.Call, shortFuncName(cf), ev.Fn)
								}
							}
						}
					}
				case EvAssign:
					for _, x := range ev.Rhs {
						scanShallow(x, scan)
					}
				case EvReturn:
					for _, x := range ev.Results {
						scanShallow(x, scan)
					}
				}
			}
		}
	}
	r.Check("G1", "examined", true, 0, "dereferences of optional sub-messages examined: %d", nUses)
}

// scanShallow scans an expression but stops at nested calls (they have their own events).
func scanShallow(x ast.Expr, scan func(ast.Node)) {
	if x == nil {
		return
	}
	switch v := ast.Unparen(x).(type) {
	case *ast.CallExpr:
		// only the callee's selector chain, not its arguments
		if se, ok := ast.Unparen(v.Fun).(*ast.SelectorExpr); ok {
			scanShallow(se.X, scan)
		}
		return
	case *ast.CompositeLit:
		for _, el := range v.Elts {
			if kv, ok := el.(*ast.KeyValueExpr); ok {
				scanShallow(kv.Value, scan)
			} else {
				scanShallow(el, scan)
			}
		}
		return
	case *ast.UnaryExpr:
		scanShallow(v.X, scan)
		return
	}
	scan(x)
}

func derefType(t types.Type) types.Type {
	if pt, ok := t.(*types.Pointer); ok {
		return pt.Elem()
	}
	return t
}
