package main

import (
	"fmt"
	"go/types"
	"sort"
	"strings"
)

// E8 — check-then-act across critical sections, between functions: a decision read from shared
// state (under that state's own lock, released on return) that a later change of shared state relies
// on, with no lock held from the read to the change. Every such pair found on a handler path must be
// in the triage table below, as SAFE (with the reason) or as a FINDING (reported; listed in
// KNOWN_FINDINGS.txt once shown against the real code). A pair that is not in the table is reported.

type e8Triage struct {
	Verdict string // "SAFE" | "FINDING" | "NOT-QUANTIFIED"
	Why     string
	// Needs, when set, is a fact about the acting function that the SAFE verdict rests on; it is
	// re-decided on every run and the pair is reported when it no longer holds.
	Needs func(r *Run) bool
}

var e8Decisions = map[string][]string{
	"registry:found":      {"models.(*Session).AddParticipant"},
	"registry:registered": {"models.(*Session).AddParticipant"},
	"session:empty":       {"models.(*SessionStore).Remove"},
	"entity:exists": {"models.(*EntityComponentStore).Add", "models.(*EntityComponentStore).Update", "models.(*EntityComponentStore).Delete",
		"models.(*EntityComponentStore).DeleteByEntityID", "models.(*Session).RemoveEntity", "models.(*Entity).SetPose",
		"modules/vikja.(*State).SetEntityAction", "modules/odal.(*State).SetAssetInstance"},
	"modulestate:missing": {"models.(*Session).SetModuleState"},
	"action:stored":       {"modules/vikja.(*State).SetEntityAction"},
}

var e8Table = map[string]e8Triage{
	"websocket.(*RealtimeHandler).HandleParticipantJoin|registry:found|Session.AddParticipant": {Verdict: "FINDING",
		Why: "join of an existing session against its last departure: the session is found, the last member leaves and the session is removed and closed, then the joiner is added and answered with success — it sits in a session nobody can find (probe: 18 of 30000 rounds)"},
	"websocket.(*RealtimeHandler).HandleParticipantJoin|registry:registered|Session.AddParticipant": {Verdict: "SAFE",
		Why: "between registering a new session and adding its creator only a third connection that joins by a guessed id and leaves again could end the session; not demonstrated, and the window contains no blocking operation"},
	"websocket.(*RealtimeHandler).leaveSession|session:empty|SessionStore.Remove": {Verdict: "SAFE",
		Why:   "two last members leaving at once both see an empty session and both call Remove, but Remove acts only on the session currently registered under its id, so the second call changes nothing (was a finding: gauge decremented twice, id released twice; fixed in 5285479). A joiner slipping in between the emptiness test and Remove is the registry:found pair of HandleParticipantJoin",
		Needs: func(r *Run) bool { return r.removeIsIdempotent() }},
	"websocket.(*RealtimeHandler).HandleEntityComponentAdd|entity:exists|EntityComponentStore.Add": {Verdict: "FINDING",
		Why: "component add by any member against the owner's entity delete: the entity is found, deleted with its components, then the component is stored, relayed and handed to joiners for an entity that no longer exists (probe: 3 of 30000 rounds)"},
	"modules/vikja.(*Module).handleSetEntityAction|entity:exists|State.SetEntityAction": {Verdict: "FINDING",
		Why: "entity action by any member against the owner's entity delete: orphan action stored, relayed and handed to joiners (probe: 1 of 3000 rounds)"},
	"modules/vikja.(*Module).handleSetEntityAction|action:stored|State.SetEntityAction": {Verdict: "NOT-QUANTIFIED",
		Why: "two writers of one (entity, name) key may both pass the freshness test; C16 does not quantify over schedules"},
	"modules/odal.(*Module).handleAssetInstanceAdd|entity:exists|State.SetAssetInstance": {Verdict: "SAFE",
		Why: "owner only: behind the owner guard, and the owner's delete / departure run on the same connection loop"},
	"websocket.(*RealtimeHandler).HandleEntityDelete|entity:exists|Session.RemoveEntity":                  {Verdict: "SAFE", Why: "owner only (owner guard); the owner's requests are sequential on its connection"},
	"websocket.(*RealtimeHandler).HandleEntityDelete|entity:exists|EntityComponentStore.DeleteByEntityID": {Verdict: "SAFE", Why: "owner only (owner guard)"},
	"websocket.(*RealtimeHandler).HandleEntityUpdatePose|entity:exists|Entity.SetPose":                    {Verdict: "SAFE", Why: "owner only (owner guard); acts on the entity object itself"},
	"websocket.(*RealtimeHandler).HandleEntityComponentUpdate|entity:exists|EntityComponentStore.Update":  {Verdict: "SAFE", Why: "Update only replaces an existing component; after a concurrent entity delete the cascade has removed it and Update reports failure"},
	"websocket.(*RealtimeHandler).HandleEntityComponentDelete|entity:exists|EntityComponentStore.Delete":  {Verdict: "SAFE", Why: "Delete only removes an existing component and reports absence otherwise"},
	"websocket.(*RealtimeHandler).leaveSession|entity:exists|Session.RemoveEntity":                        {Verdict: "SAFE", Why: "the leaver's own entities; only their owner removes them and it is this connection"},
	"websocket.(*RealtimeHandler).leaveSession|entity:exists|EntityComponentStore.DeleteByEntityID":       {Verdict: "SAFE", Why: "the leaver's own entities"},
}

func (r *Run) e8Decision(g GuardClass) string {
	switch {
	case g.Subject == "lookup:SessionStore.GetByGlobalID" && g.Outcome == "hit":
		return "registry:found"
	case g.Subject == "err:SessionStore.Add" && g.Outcome == "ok":
		return "registry:registered"
	case strings.Contains(g.Subject, "call:Session.ParticipantCount()") && (g.Outcome == "zero" || g.Outcome == "equal"):
		return "session:empty"
	case g.Subject == "lookup:Session.EntityByID" && g.Outcome == "hit":
		return "entity:exists"
	case g.Subject == "lookup:Session.ModuleState" && g.Outcome == "miss":
		return "modulestate:missing"
	case g.Subject == "lookup:State.EntityAction":
		return "action:stored"
	}
	return ""
}

func ruleAtomicity(r *Run) {
	m := r.M()
	if r.broken() {
		return
	}
	var fns []*Func
	seen := map[*Func]bool{}
	add := func(f *Func) {
		if f != nil && !seen[f] {
			seen[f] = true
			fns = append(fns, f)
		}
	}
	for _, f := range r.handlerFuncs() {
		add(f)
	}
	for _, mi := range m.Modules {
		add(mi.Init)
		add(mi.HandleDisconnect)
	}
	found := map[string]bool{}
	nPairs := 0
	for _, fn := range fns {
		paths := r.Paths(fn)
		r.Analysed(fn, len(paths))
		for pi := range paths {
			path := &paths[pi]
			r.at(path)
			held := r.locksAlong(path, lockset{})
			type dec struct {
				idx  int
				kind string
			}
			var decs []dec
			for i, ev := range path.Events {
				if ev.Kind == EvGuard {
					if k := r.e8Decision(r.Classify(path, i)); k != "" {
						decs = append(decs, dec{i, k})
					}
					continue
				}
				if ev.Kind != EvCall {
					continue
				}
				f, ok := ev.Callee.(*types.Func)
				if !ok {
					continue
				}
				name := funcName(f)
				for _, d := range decs {
					relevant := false
					for _, a := range e8Decisions[d.kind] {
						if a == name {
							relevant = true
						}
					}
					if !relevant {
						continue
					}
					// the action constructs a not yet published object?
					if r.isConstruction(path, mutEvent{Idx: i, Callee: f, Direct: true}) {
						continue
					}
					// a lock held continuously from the decision to the act makes the pair atomic
					atomic := false
					for lk := range held[i] {
						all := true
						for j := d.idx; j <= i; j++ {
							if held[j][lk] == "" {
								all = false
							}
						}
						if all {
							atomic = true
						}
					}
					if atomic {
						continue
					}
					root := ev.Fn.root().origOrSelf()
					if path.Fn != nil {
						root = path.Fn.root().origOrSelf()
					}
					key := fmt.Sprintf("%s|%s|%s", root.Name, d.kind, shortFuncName(f))
					if found[key] {
						continue
					}
					found[key] = true
					nPairs++
					tr, known := e8Table[key]
					site := strings.ReplaceAll(key, "|", ":")
					switch {
					case !known:
						r.CheckT("E8", site, false, ev.Pos, path,
							"%s relies on a fact (%s) read from shared state earlier on this path, but no lock is held from that read to this change: another connection can invalidate the fact in between (pair not in the triage table)", shortFuncName(f), d.kind)
					case tr.Needs != nil && !tr.Needs(r):
						r.CheckT("E8", site, false, ev.Pos, path, "%s acts on %s without atomicity, and the fact the triage relied on no longer holds: %s", shortFuncName(f), d.kind, tr.Why)
					case tr.Verdict == "FINDING":
						r.CheckT("E8", site, false, ev.Pos, path, "%s acts on %s without atomicity: %s", shortFuncName(f), d.kind, tr.Why)
					default:
						r.Check("E8", site, true, ev.Pos, "%s after %s: %s — %s", shortFuncName(f), d.kind, tr.Verdict, tr.Why)
					}
				}
			}
		}
	}
	// table rows that no longer occur are stale
	var keys []string
	for k := range e8Table {
		keys = append(keys, k)
	}
	sort.Strings(keys)
	stale := 0
	for _, k := range keys {
		if !found[k] {
			stale++
			r.Notes = append(r.Notes, "E8 triage row no longer matches any path: "+k)
		}
	}
	r.Floor("E8", "check-then-act pairs found on handler paths", nPairs, 12)
}

// removeIsIdempotent: every path of SessionStore.Remove that changes anything first finds the
// session handed in registered under its own id (same rule as E7 Remove:idempotent).
func (r *Run) removeIsIdempotent() bool {
	fn := r.P.FuncByName("models.(*SessionStore).Remove")
	if fn == nil {
		return false
	}
	slot := "recv.sessions[recv.call:SessionStore.GlobalSessionID(param:#1.ID)]"
	for _, path := range r.Paths(fn) {
		path := path
		r.at(&path)
		g := r.guardMap(&path)
		isRegistered := g["maplookup:"+slot] == "hit" && (g["eq:"+slot+"~param:#1"] == "equal" || g["eq:param:#1~"+slot] == "equal")
		if isRegistered {
			continue
		}
		for _, ev := range path.Events {
			if ev.Kind == EvDelete {
				return false
			}
			if ev.Kind == EvCall {
				switch objName(ev.Callee) {
				case "Session.Close", "SequentialIDGenerator.Reuse", "models.instrumentDecreaseSessionGauge":
					return false // the session is closed / its id released / the gauge lowered although it is not the registered one
				}
			}
		}
	}
	return true
}
