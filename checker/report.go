package main

import (
	"encoding/json"
	"fmt"
	"go/ast"
	"go/constant"
	"go/token"
	"go/types"
	"os"
	"path/filepath"
	"sort"
	"strings"
	"time"
)

// Ob is one obligation: a rule instantiated at a site of the current source tree.
type Ob struct {
	Rule   string `json:"rule"`
	Site   string `json:"site"` // rule-specific construct key, never a line number
	OK     bool   `json:"ok"`
	Msg    string `json:"msg"`
	Pos    string `json:"pos,omitempty"`
	Trace  string `json:"trace,omitempty"`
	Expect string `json:"expect,omitempty"`
}

type Run struct {
	derivedMut map[*types.Func]*MutInfo
	P          *Program
	E          *Engine
	Prop       string
	Tier       string
	Seed       int
	Start      time.Time

	Obs         []Ob
	Undecided   []string
	Assumptions []string
	Samples     []string
	RuleSites   map[string]int
	Funcs       map[string]bool
	PathsSeen   int
	seenOb      map[string]bool
	curRule     string
	Notes       []string
	Controls    []string
	Spec        *propSpec

	model *Model
	deep  *Deep

	attrMemo  map[*Func]map[string]bool
	chanMemo  []chanSite
	entryMemo map[*Func]lockset
	callSites map[*Func][]callSite
	litSites  map[*Func][]callSite
	feasible  map[*Func][]Path
	neverErr  map[*types.Func]int
}

// Paths returns the feasible paths of fn: the engine's paths minus those that observe an error
// from a repository function whose every return statement returns a nil error.
func (r *Run) Paths(fn *Func) []Path {
	if r.feasible == nil {
		r.feasible = map[*Func][]Path{}
		r.neverErr = map[*types.Func]int{}
	}
	if ps, ok := r.feasible[fn]; ok {
		return ps
	}
	all := r.E.Paths(fn)
	for _, t := range r.E.Trunc {
		if t == fn.Name {
			// a rule is about to judge "every path" of a function whose paths were not all enumerated: what it
			// would say is not a verdict
			r.Undecide("engine", "path enumeration of %s exceeded its budget; the rules that judge every path of it cannot decide", fn.Name)
			break
		}
	}
	var out []Path
	saved := r.P.cur
	for i := range all {
		path := &all[i]
		r.P.SetPath(path)
		dead := false
		seenFact := map[string]factObs{}
		mapState := map[string]bool{} // "m[k]" -> present, as established earlier on this path
		for j, ev := range path.Events {
			// what the path itself did to map slots: m[k] = v makes the key present, delete(m, k) absent,
			// m = … forgets everything known about m
			switch ev.Kind {
			case EvAssign:
				for _, l := range ev.Lhs {
					if ix, ok := ast.Unparen(l).(*ast.IndexExpr); ok {
						if tv, ok := ev.Fn.Info().Types[ix.X]; ok {
							if _, isMap := tv.Type.Underlying().(*types.Map); isMap && (ev.Tok == token.ASSIGN || ev.Tok == token.DEFINE) {
								mapState[r.P.Canon(ev.Fn, ix.X)+"["+r.P.Canon(ev.Fn, ix.Index)+"]"] = true
							}
						}
						continue
					}
					if len(mapState) > 0 {
						pre := r.P.Canon(ev.Fn, l) + "["
						for k := range mapState {
							if strings.HasPrefix(k, pre) {
								delete(mapState, k)
							}
						}
					}
				}
			case EvDelete:
				if ev.Call != nil && len(ev.Call.Args) == 2 {
					mapState[r.P.Canon(ev.Fn, ev.Call.Args[0])+"["+r.P.Canon(ev.Fn, ev.Call.Args[1])+"]"] = false
				}
			}
			if ev.Kind != EvGuard || ev.Cond == nil || (ev.GKind != GIf && ev.GKind != GFor) {
				continue
			}
			// only conditions that can carry one of the facts below: nil tests, boolean locals, calls
			switch c := ast.Unparen(ev.Cond).(type) {
			case *ast.BinaryExpr:
				if (c.Op != token.EQL && c.Op != token.NEQ) || !(isNilIdent(ev.Fn.Info(), c.X) || isNilIdent(ev.Fn.Info(), c.Y)) {
					continue
				}
			case *ast.Ident, *ast.CallExpr, *ast.SelectorExpr:
			default:
				continue
			}
			g := r.Classify(path, j)
			if strings.HasPrefix(g.Subject, "err:") && g.Outcome == "err" && g.Callee != nil && r.neverFails(g.Callee) {
				dead = true
				break
			}
			if r.contradictsHelperResult(path, j) || contradictsBoundConstant(ev) {
				dead = true
				break
			}
			// a lookup m[k] that contradicts what this very path did to (or already saw of) that slot
			if strings.HasPrefix(g.Subject, "maplookup:") {
				slot := strings.TrimPrefix(g.Subject, "maplookup:")
				hit := g.Outcome == "hit"
				if known, ok := mapState[slot]; ok && known != hit {
					dead = true
					break
				}
				mapState[slot] = hit
			}
			// the same fact about the connection (joined / nil-ness of the same source) observed with two
			// outcomes without an assignment to that source in between
			if strings.HasPrefix(g.Subject, "joined:") || strings.HasPrefix(g.Subject, "nil:recv.") {
				if prev, ok := seenFact[g.Subject]; ok && prev.outcome != g.Outcome && !r.assignedBetween(path, prev.idx, j, g.Subject) {
					dead = true
					break
				}
				seenFact[g.Subject] = factObs{g.Outcome, j}
			}
		}
		if !dead {
			out = append(out, *path)
		}
	}
	r.P.cur = saved
	if len(out) == len(all) {
		out = all // nothing pruned: share the engine's slice
	}
	r.feasible[fn] = out
	return out
}

// contradictsHelperResult: the guard tests a value returned by a helper that was looked into on this
// path, and the outcome contradicts what the helper is seen to return there (a literal nil / true /
// false, or a variable whose value the helper itself tested).
func (r *Run) contradictsHelperResult(path *Path, j int) bool {
	ev := path.Events[j]
	if ev.GKind != GIf && ev.GKind != GFor || ev.Cond == nil {
		return false
	}
	fn := ev.Fn
	info := fn.Info()
	cond := ast.Unparen(ev.Cond)
	// resolve (expr, wantNil?) forms
	resultOf := func(x ast.Expr) (ast.Expr, *Func, bool) {
		x = ast.Unparen(x)
		if call, ok := x.(*ast.CallExpr); ok {
			if res, rfn, ok := r.P.inlinedResults(fn, call); ok && len(res) == 1 {
				return res[0], rfn, true
			}
			return nil, nil, false
		}
		id, ok := x.(*ast.Ident)
		if !ok {
			return nil, nil, false
		}
		obj := info.Uses[id]
		if obj == nil {
			return nil, nil, false
		}
		rhs, idx, ok := lastDefOnPath(fn, path, j, obj)
		if !ok || rhs == nil {
			return nil, nil, false
		}
		res, rfn, ok := r.P.inlinedResults(fn, rhs)
		for k := 0; ok && idx >= len(res) && len(res) == 1 && k < 4; k++ {
			// the helper ended in `return g(…)` with several results: g's own return on this path
			call2, isCall := ast.Unparen(res[0]).(*ast.CallExpr)
			if !isCall {
				break
			}
			res, rfn, ok = r.P.inlinedResults(rfn, call2)
		}
		if !ok || idx >= len(res) {
			return nil, nil, false
		}
		return res[idx], rfn, true
	}
	switch v := cond.(type) {
	case *ast.BinaryExpr:
		if v.Op != token.EQL && v.Op != token.NEQ {
			return false
		}
		var other ast.Expr
		if isNilIdent(info, v.Y) {
			other = v.X
		} else if isNilIdent(info, v.X) {
			other = v.Y
		} else {
			return false
		}
		res, rfn, ok := resultOf(other)
		if !ok {
			return false
		}
		isNil, known := r.knownNil(path, rfn, res)
		if !known {
			return false
		}
		saysNil := (v.Op == token.EQL) == ev.Val
		return saysNil != isNil
	case *ast.Ident, *ast.CallExpr:
		res, rfn, ok := resultOf(cond)
		if !ok {
			return false
		}
		val, known := r.knownTruth(path, rfn, res)
		if !known {
			return false
		}
		return val != ev.Val
	case *ast.SelectorExpr:
		// latest.found, where latest is the struct a looked-into helper returned on this path: the field's value in
		// the literal it returned (absent: the zero value)
		sel, isSel := info.Selections[v]
		if !isSel || sel.Kind() != types.FieldVal {
			return false
		}
		if b, isB := sel.Type().Underlying().(*types.Basic); !isB || b.Info()&types.IsBoolean == 0 {
			return false
		}
		res, rfn, ok := resultOf(v.X)
		if !ok {
			return false
		}
		cl, isLit := ast.Unparen(res).(*ast.CompositeLit)
		if !isLit {
			return false
		}
		fv := litField(cl, sel.Obj().Name())
		if fv == nil {
			keyed := len(cl.Elts) == 0
			for _, el := range cl.Elts {
				if _, isKV := el.(*ast.KeyValueExpr); isKV {
					keyed = true
				}
			}
			if !keyed {
				return false // positional literal: not resolved
			}
			return ev.Val // the zero value: false
		}
		val, known := r.knownTruth(path, rfn, fv)
		if !known {
			return false
		}
		return val != ev.Val
	}
	return false
}

func (r *Run) knownNil(path *Path, rfn *Func, x ast.Expr) (isNil, known bool) {
	info := rfn.Info()
	if isNilIdent(info, x) {
		return true, true
	}
	id, ok := ast.Unparen(x).(*ast.Ident)
	if !ok {
		if call, isCall := ast.Unparen(x).(*ast.CallExpr); isCall {
			// the helper returns what another looked-into helper returned
			if res, rfn2, ok := r.P.inlinedResults(rfn, call); ok && len(res) >= 1 {
				return r.knownNil(path, rfn2, res[len(res)-1])
			}
			// a freshly built error: errors.New(...)[.Wrap(...).WithTag(...)…], fmt.Errorf(...)
			if isFreshError(info, call) {
				return false, true
			}
		}
		if u, isU := ast.Unparen(x).(*ast.UnaryExpr); isU && u.Op == token.AND {
			return false, true // address of something
		}
		return false, false
	}
	obj := info.Uses[id]
	for i, ev := range path.Events {
		if ev.Kind != EvGuard || ev.Fn != rfn || ev.Cond == nil {
			continue
		}
		_ = i
		if be, ok := ast.Unparen(ev.Cond).(*ast.BinaryExpr); ok && (be.Op == token.EQL || be.Op == token.NEQ) {
			var o ast.Expr
			if isNilIdent(info, be.Y) {
				o = be.X
			} else if isNilIdent(info, be.X) {
				o = be.Y
			}
			if oid, ok := o.(*ast.Ident); ok && o != nil && info.Uses[oid] == obj {
				saysNil := (be.Op == token.EQL) == ev.Val
				isNil, known = saysNil, true
			}
		}
	}
	return
}

func (r *Run) knownTruth(path *Path, rfn *Func, x ast.Expr) (val, known bool) {
	info := rfn.Info()
	x = ast.Unparen(x)
	x0 := x
	neg := false
	for {
		if u, ok := x.(*ast.UnaryExpr); ok && u.Op == token.NOT {
			x = ast.Unparen(u.X)
			neg = !neg
			continue
		}
		break
	}
	if tv, ok := info.Types[x]; ok && tv.Value != nil && tv.Value.Kind() == constant.Bool {
		return constant.BoolVal(tv.Value) != neg, true
	}
	// a compound result whose operands the engine split on this path
	for _, ev := range path.Events {
		if ev.Kind != EvReturn || ev.Fn != rfn || ev.RetTruth == nil {
			continue
		}
		for k, res := range ev.Results {
			if ast.Unparen(res) == x {
				if t, ok := ev.RetTruth[k]; ok {
					return t != neg, true
				}
			}
			if ast.Unparen(res) == x0 {
				if t, ok := ev.RetTruth[k]; ok {
					return t, true // (the truth recorded for the result as written, negations included)
				}
			}
		}
	}
	// !call / call whose outcome a guard inside the helper shows on this path (return !d.End.IsZero())
	if call, isCall := x.(*ast.CallExpr); isCall {
		for _, ev := range path.Events {
			if ev.Kind == EvGuard && ev.Fn == rfn && ev.Cond != nil && ast.Unparen(ev.Cond) == ast.Expr(call) {
				return ev.Val != neg, true
			}
		}
	}
	id, ok := x.(*ast.Ident)
	if !ok {
		return false, false
	}
	obj := info.Uses[id]
	for _, ev := range path.Events {
		if ev.Kind != EvGuard || ev.Fn != rfn || ev.Cond == nil {
			continue
		}
		if cid, ok := ast.Unparen(ev.Cond).(*ast.Ident); ok && info.Uses[cid] == obj {
			val, known = ev.Val != neg, true
		}
	}
	return
}

// neverFails: repo function with an error result whose every return yields a literal nil error.
func (r *Run) neverFails(f *types.Func) bool {
	if v, ok := r.neverErr[f]; ok {
		return v == 1
	}
	r.neverErr[f] = 0
	def := r.P.Funcs[f]
	if def == nil {
		return false
	}
	sig := f.Type().(*types.Signature)
	n := sig.Results().Len()
	if n == 0 || !isErrorType(sig.Results().At(n-1).Type()) {
		return false
	}
	ok := true
	count := 0
	ast.Inspect(def.Body, func(nd ast.Node) bool {
		switch v := nd.(type) {
		case *ast.FuncLit:
			return false
		case *ast.ReturnStmt:
			count++
			if len(v.Results) != n || !isNilIdent(def.Info(), v.Results[n-1]) {
				ok = false
			}
		}
		return true
	})
	if ok && count > 0 {
		r.neverErr[f] = 1
		r.Assume(fmt.Sprintf("%s has no failing return (every return statement yields a nil error); paths observing its error are infeasible", funcName(f)))
		return true
	}
	return false
}

func NewRun(p *Program, prop, tier string, seed int) *Run {
	if p.engine == nil {
		p.engine = NewEngine(p)
	}
	p.cur = nil
	return &Run{P: p, E: p.engine, deep: p.deepShared, Prop: prop, Tier: tier, Seed: seed, Start: time.Now(), RuleSites: map[string]int{},
		Funcs: map[string]bool{}, seenOb: map[string]bool{}, feasible: map[*Func][]Path{}, neverErr: map[*types.Func]int{}}
}

// Check records an obligation. Duplicate (rule, site, ok) triples are merged.
func (r *Run) Check(rule, site string, ok bool, pos token.Pos, format string, args ...any) bool {
	if r.Spec != nil && (!r.Spec.keeps(rule) || !r.Spec.keepsSite(rule, site)) {
		return ok
	}
	key := fmt.Sprintf("%s|%s|%v", rule, site, ok)
	if r.seenOb[key] {
		return ok
	}
	r.seenOb[key] = true
	ob := Ob{Rule: rule, Site: site, OK: ok, Msg: fmt.Sprintf(format, args...), Pos: r.P.Pos(pos)}
	r.Obs = append(r.Obs, ob)
	r.RuleSites[rule]++
	return ok
}

// CheckT is Check with a path trace attached to a failing obligation.
func (r *Run) CheckT(rule, site string, ok bool, pos token.Pos, path *Path, format string, args ...any) bool {
	if r.Spec != nil && (!r.Spec.keeps(rule) || !r.Spec.keepsSite(rule, site)) {
		return ok
	}
	key := fmt.Sprintf("%s|%s|%v", rule, site, ok)
	if r.seenOb[key] {
		return ok
	}
	r.Check(rule, site, ok, pos, format, args...)
	if !ok && path != nil {
		r.Obs[len(r.Obs)-1].Trace = r.P.PathStr(*path)
	}
	return ok
}

// capPaths bounds the work of a per-path rule; a function with more paths than the bound is not judged on a
// sample of them: the rule cannot decide.
func (r *Run) capPaths(fn *Func, paths []Path, max int) []Path {
	if len(paths) > max {
		r.Undecide("engine", "%s has %d paths, more than the %d a per-path rule examines; the rule cannot decide", fn.Name, len(paths), max)
		return paths[:max]
	}
	return paths
}

func (r *Run) Undecide(rule, format string, args ...any) {
	r.Undecided = append(r.Undecided, rule+": "+fmt.Sprintf(format, args...))
}

// Floor guards against vacuity: a rule that matched fewer instances than the semantic lower bound
// confirmed by hand cannot be reported as holding.
func (r *Run) Floor(rule, what string, got, min int) {
	if r.Spec != nil && !r.Spec.keeps(rule) {
		return
	}
	if got < min {
		r.Undecide(rule, "vacuity guard: %s = %d, below the floor %d confirmed on the reference tree", what, got, min)
	}
}

func (r *Run) Assume(s string) {
	for _, a := range r.Assumptions {
		if a == s {
			return
		}
	}
	r.Assumptions = append(r.Assumptions, s)
}

func (r *Run) Sample(format string, args ...any) {
	if len(r.Samples) < 40 {
		r.Samples = append(r.Samples, fmt.Sprintf(format, args...))
	}
}

func (r *Run) Analysed(fn *Func, npaths int) {
	if !r.Funcs[fn.Name] {
		r.Funcs[fn.Name] = true
		r.PathsSeen += npaths
	}
}

// ---------------------------------------------------------------------------------------------
// Known findings

type knownFinding struct {
	Prop, Rule, Site, Text string
}

func loadKnown(path string) ([]knownFinding, error) {
	b, err := os.ReadFile(path)
	if err != nil {
		if os.IsNotExist(err) {
			return nil, nil
		}
		return nil, err
	}
	var out []knownFinding
	for _, line := range strings.Split(string(b), "\n") {
		line = strings.TrimSpace(line)
		if !strings.HasPrefix(line, "finding:") {
			continue // comments and "fixed:" lines suppress nothing
		}
		rest := strings.TrimSpace(strings.TrimPrefix(line, "finding:"))
		head, text, _ := strings.Cut(rest, " :: ")
		kf := knownFinding{Text: text}
		for _, f := range strings.Fields(head) {
			k, v, ok := strings.Cut(f, "=")
			if !ok {
				continue
			}
			switch k {
			case "property":
				kf.Prop = v
			case "rule":
				kf.Rule = v
			case "site":
				kf.Site = v
			}
		}
		if kf.Prop != "" && kf.Rule != "" && kf.Site != "" {
			out = append(out, kf)
		}
	}
	return out, nil
}

// ---------------------------------------------------------------------------------------------
// Finish: print verdict, write evidence and violation files, return exit code.

type violationFile struct {
	Property string `json:"property"`
	Rule     string `json:"rule"`
	Site     string `json:"site"`
	Pos      string `json:"pos"`
	Msg      string `json:"msg"`
	Trace    string `json:"trace,omitempty"`
	Replay   string `json:"replay"`
}

func (r *Run) Finish(verifDir, outBase string, explanation string) int {
	known, err := loadKnown(filepath.Join(verifDir, "KNOWN_FINDINGS.txt"))
	if err != nil {
		r.Undecide("known-findings", "cannot read KNOWN_FINDINGS.txt: %v", err)
	}
	if len(r.E.Shallow) > 0 {
		r.Notes = append(r.Notes, "enumerated without look-in (path budget): "+strings.Join(r.E.Shallow, ", "))
	}
	if len(r.E.Trunc) > 0 {
		r.Notes = append(r.Notes, "path enumeration truncated for: "+strings.Join(r.E.Trunc, ", "))
	}
	sort.SliceStable(r.Obs, func(i, j int) bool {
		if r.Obs[i].Rule != r.Obs[j].Rule {
			return r.Obs[i].Rule < r.Obs[j].Rule
		}
		return r.Obs[i].Site < r.Obs[j].Site
	})
	var viol, knownHit []Ob
	discharged := 0
	for _, ob := range r.Obs {
		if ob.OK {
			discharged++
			continue
		}
		matched := false
		for _, k := range known {
			if k.Prop == r.Prop && k.Rule == ob.Rule && k.Site == ob.Site {
				matched = true
				break
			}
		}
		if matched {
			knownHit = append(knownHit, ob)
		} else {
			viol = append(viol, ob)
		}
	}
	outDir := filepath.Join(outBase, "out", "violations")
	os.MkdirAll(outDir, 0o755)
	// stale violation files of this property are removed so that replay paths never point to old runs
	if old, _ := filepath.Glob(filepath.Join(outDir, r.Prop+"-*.json")); len(old) > 0 {
		for _, f := range old {
			os.Remove(f)
		}
	}
	fmt.Printf("hagcheck property=%s tier=%s obligations=%d discharged=%d known=%d violations=%d undecided=%d functions=%d paths=%d\n",
		r.Prop, r.Tier, len(r.Obs), discharged, len(knownHit), len(viol), len(r.Undecided), len(r.Funcs), r.PathsSeen)
	rules := make([]string, 0, len(r.RuleSites))
	for k := range r.RuleSites {
		rules = append(rules, k)
	}
	sort.Strings(rules)
	for _, k := range rules {
		fmt.Printf("  rule %-22s instances=%d\n", k, r.RuleSites[k])
	}
	for _, ob := range knownHit {
		fmt.Printf("KNOWN-FINDING: property=%s rule=%s site=%s at %s: %s\n", r.Prop, ob.Rule, ob.Site, ob.Pos, ob.Msg)
	}
	for i, ob := range viol {
		path := filepath.Join(outDir, fmt.Sprintf("%s-%d.json", r.Prop, i+1))
		vf := violationFile{Property: r.Prop, Rule: ob.Rule, Site: ob.Site, Pos: ob.Pos, Msg: ob.Msg, Trace: ob.Trace,
			Replay: fmt.Sprintf("/verif/bin/hagcheck explain %s", path)}
		b, _ := json.MarshalIndent(vf, "", " ")
		os.WriteFile(path, b, 0o644)
		fmt.Printf("VIOLATION property=%s replay=%s\n", r.Prop, path)
		fmt.Printf("  rule=%s site=%s at %s\n  %s\n", ob.Rule, ob.Site, ob.Pos, ob.Msg)
		if ob.Trace != "" {
			fmt.Printf("  path: %s\n", ob.Trace)
		}
	}
	for _, u := range r.Undecided {
		fmt.Printf("UNDECIDED property=%s reason=%s\n", r.Prop, u)
	}
	// evidence
	type ruleCount struct {
		Rule      string `json:"rule"`
		Instances int    `json:"instances"`
	}
	var rc []ruleCount
	for _, k := range rules {
		rc = append(rc, ruleCount{k, r.RuleSites[k]})
	}
	funcs := make([]string, 0, len(r.Funcs))
	for f := range r.Funcs {
		funcs = append(funcs, f)
	}
	sort.Strings(funcs)
	samples := r.Samples
	if len(samples) == 0 {
		for i, ob := range r.Obs {
			if i >= 12 {
				break
			}
			samples = append(samples, fmt.Sprintf("%s %s: %s", ob.Rule, ob.Site, ob.Msg))
		}
	}
	var violList, knownList []string
	for _, ob := range viol {
		violList = append(violList, fmt.Sprintf("%s %s @%s: %s", ob.Rule, ob.Site, ob.Pos, ob.Msg))
	}
	for _, ob := range knownHit {
		knownList = append(knownList, fmt.Sprintf("%s %s @%s: %s", ob.Rule, ob.Site, ob.Pos, ob.Msg))
	}
	nz := func(x []string) []string {
		if x == nil {
			return []string{}
		}
		return x
	}
	r.Assumptions = nz(r.Assumptions)
	r.Undecided = nz(r.Undecided)
	r.Notes = nz(r.Notes)
	r.Controls = nz(r.Controls)
	violList, knownList, funcs, samples = nz(violList), nz(knownList), nz(funcs), nz(samples)
	if len(r.Assumptions) == 0 {
		r.Assumptions = []string{"Go type checker, go/packages loader and go/cfg are trusted; the sources under /repo are what is built (no build tags, cgo or generated code in the repository packages)"}
	}
	ev := map[string]any{
		"property_id": r.Prop,
		"tier":        r.Tier,
		"seed":        r.Seed,
		"level":       "other",
		"coverage": map[string]any{
			"explanation":        explanation,
			"obligations":        len(r.Obs),
			"discharged":         discharged,
			"known_findings":     knownList,
			"violations_listed":  violList,
			"undecided":          r.Undecided,
			"rules":              rc,
			"functions_analysed": funcs,
			"paths_enumerated":   r.PathsSeen,
			"samples":            samples,
			"packages":           len(r.P.Pkgs),
			"notes":              r.Notes,
			"positive_controls":  r.Controls,
			"exhaustive":         len(r.E.Trunc) == 0,
		},
		"assumptions": r.Assumptions,
		"wall_s":      time.Since(r.Start).Seconds(),
		"violations":  len(viol),
	}
	if strings.TrimSpace(explanation) == "" {
		explanation = "Static analysis of /repo's working tree (parsed, type-checked, lowered to control-flow paths): rules " + strings.Join(rules, ", ") +
			"; every count is measured on this run. Obligations are rule instances at sites of the current sources; a failing obligation names file:line, rule and construct."
	}
	ev["coverage"].(map[string]any)["explanation"] = explanation
	os.MkdirAll(filepath.Join(outBase, "evidence"), 0o755)
	b, _ := json.MarshalIndent(ev, "", " ")
	if err := os.WriteFile(filepath.Join(outBase, "evidence", r.Prop+".json"), b, 0o644); err != nil {
		fmt.Println("cannot write evidence:", err)
		return 2
	}
	if len(viol) > 0 {
		return 1
	}
	if len(r.Undecided) > 0 {
		return 2
	}
	return 0
}

// broken: anchors could not be resolved or the loader failed; rules cannot run meaningfully.
func (r *Run) broken() bool {
	for _, u := range r.Undecided {
		if strings.HasPrefix(u, "anchors:") || strings.HasPrefix(u, "loader:") {
			return true
		}
	}
	return false
}

// at makes provenance queries path-aware for the path being examined.
func (r *Run) at(path *Path) { r.P.SetPath(path) }

type factObs struct {
	outcome string
	idx     int
}

// assignedBetween: some assignment between two events writes the source the fact is about.
func (r *Run) assignedBetween(path *Path, from, to int, subject string) bool {
	src := strings.TrimPrefix(strings.TrimPrefix(subject, "joined:"), "nil:")
	if !strings.HasPrefix(src, "recv.") {
		src = "recv." + src
	}
	for k := from + 1; k < to; k++ {
		ev := path.Events[k]
		if ev.Kind == EvAssign {
			for _, l := range ev.Lhs {
				if r.P.Canon(ev.Fn, l) == src {
					return true
				}
			}
		}
		// a call into code that is not looked into may assign it
		if ev.Kind == EvCall {
			if f, ok := ev.Callee.(*types.Func); ok && isRepoPkg(f.Pkg()) && !f.Exported() {
				if k+1 >= len(path.Events) || !(path.Events[k+1].Kind == EvEnter && path.Events[k+1].Helper) {
					return true
				}
			}
		}
	}
	return false
}

// isFreshError: the call builds a new error value — errors.New / errors.Newf / fmt.Errorf, possibly
// followed by a chain of builder methods on the result (Wrap, WithTag, WithType …).
func isFreshError(info *types.Info, call *ast.CallExpr) bool {
	for depth := 0; depth < 8; depth++ {
		f, _ := calleeObj(info, call).(*types.Func)
		if f == nil {
			return false
		}
		if f.Pkg() != nil && (f.Name() == "New" || f.Name() == "Newf" || f.Name() == "Errorf") {
			pp := f.Pkg().Path()
			if pp == "errors" || pp == "fmt" || strings.HasSuffix(pp, "/errors") {
				return true
			}
		}
		se, ok := ast.Unparen(call.Fun).(*ast.SelectorExpr)
		if !ok {
			return false
		}
		inner, ok := ast.Unparen(se.X).(*ast.CallExpr)
		if !ok {
			return false
		}
		call = inner
	}
	return false
}

// contradictsBoundConstant: the guard tests a boolean parameter of a looked-into helper instance whose
// argument at this call site is a constant, and the outcome is the opposite of that constant.
func contradictsBoundConstant(ev Event) bool {
	cx, val := ast.Unparen(ev.Cond), ev.Val
	for {
		u, ok := cx.(*ast.UnaryExpr)
		if !ok || u.Op != token.NOT {
			break
		}
		cx, val = ast.Unparen(u.X), !val
	}
	id, ok := cx.(*ast.Ident)
	if !ok || ev.Fn == nil {
		return false
	}
	bfn, bx := resolveBound(ev.Fn, id)
	if bfn == ev.Fn && bx == ast.Expr(id) {
		return false
	}
	tv, ok := bfn.Info().Types[bx]
	if !ok || tv.Value == nil || tv.Value.Kind() != constant.Bool {
		return false
	}
	return constant.BoolVal(tv.Value) != val
}
