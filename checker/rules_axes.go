package main

// Q1 — axis agreement in the ground-plane index (dagaz).
//
// A forward dataflow over the SSA form of every function of modules/dagaz. Numeric values carry an
// axis label: a component of a three-float vector type is X, Y or Z by its field index (whatever the
// fields are called), dagazpb.Point's X/Y/Z alike, an index into the grid (the [][][]*T field) is a
// row index, an index into one of its rows a column index, len() and make() of those types their
// counts. Labels flow through +, -, conversions, Floor/Ceil/Abs, Min/Max, scaling by an unlabelled
// value, phi nodes (two different labels meet: no label), address-taken locals and — through
// summaries with symbolic parameter labels — through the package's own helpers. Two labelled values
// that are compared, added, subtracted, clamped against each other, or a labelled value stored into a
// component / used as an index / used as a size of another axis, are a violation: an x coordinate was
// taken for a z coordinate. Which coordinate axis the rows and the columns stand for is not assumed:
// it is read off the code (every pairing observed must be one consistent assignment; the minority
// sites are the violations).
//
// Decides only the pairing of axes, never the arithmetic.

import (
	"fmt"
	"go/token"
	"go/types"
	"sort"
	"strings"

	"golang.org/x/tools/go/ssa"
)

type axl int

const (
	axNone axl = 0
	axX    axl = 1
	axY    axl = 2
	axZ    axl = 3
	axRow  axl = 4
	axCol  axl = 5
	axTop  axl = 6
	axPar  axl = 16 // axPar+i: the label of parameter i (symbolic)
)

func (a axl) String() string {
	switch a {
	case axNone:
		return "-"
	case axX:
		return "X"
	case axY:
		return "Y"
	case axZ:
		return "Z"
	case axRow:
		return "row"
	case axCol:
		return "col"
	case axTop:
		return "mixed"
	}
	return fmt.Sprintf("param%d", int(a-axPar))
}

func (a axl) concrete() bool { return a >= axX && a <= axCol }
func (a axl) symbolic() bool { return a >= axPar }
func (a axl) coord() bool    { return a >= axX && a <= axZ }
func (a axl) cell() bool     { return a == axRow || a == axCol }

type axConstraint struct {
	a, b axl
	kind string
	pos  token.Pos
}

type axSummary struct {
	results     []axl
	constraints []axConstraint
}

type axObs struct {
	fn   *ssa.Function
	kind string
	a, b axl
	pos  token.Pos
	via  string
}

type axAnalysis struct {
	r        *Run
	pkg      *types.Package
	vec      map[*types.Named]bool
	gridT    types.Type // [][][]*T
	rowT     types.Type // [][]*T
	fieldLab map[*types.Var]axl
	sums     map[*ssa.Function]*axSummary
	cellMap  map[axl]axl // row/col -> coordinate axis (phase B)
	obs      []axObs     // concrete/concrete observations of the current round
	changed  bool
}

func axJoin(a, b axl) axl {
	switch {
	case a == axNone:
		return b
	case b == axNone:
		return a
	case a == b:
		return a
	}
	return axTop
}

func (x *axAnalysis) isVec(t types.Type) (*types.Named, bool) {
	if p, ok := t.Underlying().(*types.Pointer); ok {
		t = p.Elem()
	}
	n, ok := t.(*types.Named)
	if !ok {
		return nil, false
	}
	return n, x.vec[n]
}

func isPBPoint(t types.Type) bool {
	if p, ok := t.Underlying().(*types.Pointer); ok {
		t = p.Elem()
	}
	n, ok := t.(*types.Named)
	return ok && n.Obj().Pkg() != nil && n.Obj().Pkg().Path() == pkgDagazPB && n.Obj().Name() == "Point"
}

// fieldAxis: the intrinsic axis of a struct field, if any.
func (x *axAnalysis) fieldAxis(structT types.Type, idx int) (axl, *types.Var) {
	if p, ok := structT.Underlying().(*types.Pointer); ok {
		structT = p.Elem()
	}
	st, ok := structT.Underlying().(*types.Struct)
	if !ok || idx >= st.NumFields() {
		return axNone, nil
	}
	f := st.Field(idx)
	if n, ok := x.isVec(structT); ok && n != nil {
		return axl(idx + 1), f
	}
	if isPBPoint(structT) {
		switch f.Name() {
		case "X":
			return axX, f
		case "Y":
			return axY, f
		case "Z":
			return axZ, f
		}
		return axNone, f
	}
	return axNone, f
}

func isNumeric(t types.Type) bool {
	b, ok := t.Underlying().(*types.Basic)
	return ok && b.Info()&(types.IsInteger|types.IsFloat) != 0
}

func (x *axAnalysis) mapCell(a axl) axl {
	if a.cell() && x.cellMap != nil {
		if m, ok := x.cellMap[a]; ok {
			return m
		}
	}
	return a
}

func (x *axAnalysis) sliceDim(t types.Type) axl {
	if x.gridT != nil && types.Identical(t.Underlying(), x.gridT) {
		return x.mapCell(axRow)
	}
	if x.rowT != nil && types.Identical(t.Underlying(), x.rowT) {
		return x.mapCell(axCol)
	}
	return axNone
}

type axFunc struct {
	x     *axAnalysis
	fn    *ssa.Function
	lab   map[ssa.Value]axl
	cell  map[*ssa.Alloc]axl
	tuple map[ssa.Value][]axl
	sum   *axSummary
	final bool
}

func (f *axFunc) get(v ssa.Value) axl {
	if v == nil {
		return axNone
	}
	if _, ok := v.(*ssa.Const); ok {
		return axNone
	}
	return f.lab[v]
}

func (f *axFunc) set(v ssa.Value, a axl) {
	old := f.lab[v]
	n := axJoin(old, a)
	if n != old {
		f.lab[v] = n
		f.x.changed = true
	}
}

// agree judges two labels that meet in a comparison, an addition, a clamp, a store, an index or a size.
func (f *axFunc) agree(kind string, a, b axl, pos token.Pos, via string) {
	if !f.final {
		return
	}
	if a == axNone || b == axNone || a == axTop || b == axTop || a == b {
		if a == b && a.concrete() {
			f.x.obs = append(f.x.obs, axObs{f.fn, kind, a, b, pos, via})
		}
		return
	}
	if a.symbolic() || b.symbolic() {
		f.sum.constraints = append(f.sum.constraints, axConstraint{a, b, kind, pos})
		return
	}
	f.x.obs = append(f.x.obs, axObs{f.fn, kind, a, b, pos, via})
}

// combine: the label of a sum / difference / clamp of two values.
func combine(a, b axl) axl {
	switch {
	case a == axNone:
		return b
	case b == axNone:
		return a
	case a == b:
		return a
	case a == axTop || b == axTop:
		return axTop
	case a.symbolic() && !b.symbolic():
		return b
	case b.symbolic() && !a.symbolic():
		return a
	case a.symbolic() && b.symbolic():
		return a
	case a.coord() && b.cell():
		return a
	case b.coord() && a.cell():
		return b
	}
	return axTop
}

func scale(a, b axl) axl { // a*b, a/b handled by caller for the quotient direction
	switch {
	case a == axNone:
		return b
	case b == axNone:
		return a
	}
	return axNone
}

var axPassThrough = map[string]bool{"math.Floor": true, "math.Ceil": true, "math.Abs": true, "math.Round": true, "math.Trunc": true, "math.RoundToEven": true}
var axMinMax = map[string]bool{"math.Min": true, "math.Max": true}

func (f *axFunc) subst(a axl, args []ssa.Value) axl {
	if a.symbolic() {
		i := int(a - axPar)
		if i < len(args) {
			return f.get(args[i])
		}
		return axNone
	}
	return a
}

func (f *axFunc) instr(in ssa.Instruction) {
	x := f.x
	switch v := in.(type) {
	case *ssa.BinOp:
		a, b := f.get(v.X), f.get(v.Y)
		switch v.Op {
		case token.ADD, token.SUB:
			f.agree("arith", a, b, v.Pos(), "")
			f.set(v, combine(a, b))
		case token.MUL:
			f.set(v, scale(a, b))
		case token.QUO:
			if b == axNone {
				f.set(v, a)
			}
		case token.REM:
			f.set(v, a)
		case token.LSS, token.LEQ, token.GTR, token.GEQ, token.EQL, token.NEQ:
			if isNumeric(v.X.Type()) {
				f.agree("cmp", a, b, v.Pos(), "")
			}
		}
	case *ssa.UnOp:
		switch v.Op {
		case token.SUB:
			f.set(v, f.get(v.X))
		case token.MUL:
			switch addr := v.X.(type) {
			case *ssa.FieldAddr:
				ax, fld := x.fieldAxis(addr.X.Type(), addr.Field)
				if ax != axNone {
					f.set(v, ax)
				} else if fld != nil && isNumeric(fld.Type()) {
					f.set(v, x.fieldLab[fld])
				}
			case *ssa.Alloc:
				f.set(v, f.cell[addr])
			}
		}
	case *ssa.Field:
		ax, fld := x.fieldAxis(v.X.Type(), v.Field)
		if ax != axNone {
			f.set(v, ax)
		} else if fld != nil && isNumeric(fld.Type()) {
			f.set(v, x.fieldLab[fld])
		}
	case *ssa.Convert:
		f.set(v, f.get(v.X))
	case *ssa.ChangeType:
		f.set(v, f.get(v.X))
	case *ssa.Phi:
		var l axl
		for _, e := range v.Edges {
			l = axJoin(l, f.get(e))
		}
		f.set(v, l)
	case *ssa.Extract:
		if t := f.tuple[v.Tuple]; v.Index < len(t) {
			f.set(v, t[v.Index])
		}
	case *ssa.Store:
		val := f.get(v.Val)
		switch addr := v.Addr.(type) {
		case *ssa.FieldAddr:
			ax, fld := x.fieldAxis(addr.X.Type(), addr.Field)
			if ax != axNone {
				f.agree("store", ax, val, v.Pos(), "")
			} else if fld != nil && isNumeric(fld.Type()) && val != axNone && !val.symbolic() {
				old := x.fieldLab[fld]
				if n := axJoin(old, val); n != old {
					x.fieldLab[fld] = n
					x.changed = true
				}
			}
		case *ssa.Alloc:
			old := f.cell[addr]
			if n := axJoin(old, val); n != old {
				f.cell[addr] = n
				x.changed = true
			}
		}
	case *ssa.IndexAddr:
		if d := x.sliceDim(v.X.Type()); d != axNone {
			f.agree("index", d, f.get(v.Index), v.Pos(), "")
		}
	case *ssa.Index:
		if d := x.sliceDim(v.X.Type()); d != axNone {
			f.agree("index", d, f.get(v.Index), v.Pos(), "")
		}
	case *ssa.MakeSlice:
		if d := x.sliceDim(v.Type()); d != axNone {
			f.agree("size", d, f.get(v.Len), v.Pos(), "")
		}
	case *ssa.Return:
		for i, res := range v.Results {
			for len(f.sum.results) <= i {
				f.sum.results = append(f.sum.results, axNone)
			}
			old := f.sum.results[i]
			if n := axJoin(old, f.get(res)); n != old {
				f.sum.results[i] = n
				x.changed = true
			}
		}
	case *ssa.Call:
		f.call(v)
	}
}

func (f *axFunc) call(v *ssa.Call) {
	x := f.x
	com := v.Common()
	if b, ok := com.Value.(*ssa.Builtin); ok {
		if b.Name() == "len" && len(com.Args) == 1 {
			f.set(v, x.sliceDim(com.Args[0].Type()))
		}
		if (b.Name() == "min" || b.Name() == "max") && len(com.Args) >= 2 {
			l := f.get(com.Args[0])
			for _, a := range com.Args[1:] {
				f.agree("clamp", l, f.get(a), v.Pos(), "")
				l = combine(l, f.get(a))
			}
			f.set(v, l)
		}
		return
	}
	callee := com.StaticCallee()
	if callee == nil {
		return
	}
	full := ""
	if obj, ok := callee.Object().(*types.Func); ok {
		full = obj.FullName()
	}
	switch {
	case axPassThrough[full] && len(com.Args) == 1:
		f.set(v, f.get(com.Args[0]))
		return
	case axMinMax[full] && len(com.Args) == 2:
		a, b := f.get(com.Args[0]), f.get(com.Args[1])
		f.agree("clamp", a, b, v.Pos(), "")
		f.set(v, combine(a, b))
		return
	}
	if obj, ok := callee.Object().(*types.Func); ok && obj.Pkg() != nil && obj.Pkg().Path() == pkgDagazPB {
		if sig := obj.Type().(*types.Signature); sig.Recv() != nil && isPBPoint(sig.Recv().Type()) {
			switch obj.Name() {
			case "GetX":
				f.set(v, axX)
			case "GetY":
				f.set(v, axY)
			case "GetZ":
				f.set(v, axZ)
			}
		}
		return
	}
	if callee.Pkg == nil || callee.Pkg.Pkg != x.pkg {
		return
	}
	sum := x.sums[callee]
	if sum == nil {
		return
	}
	args := com.Args
	res := make([]axl, len(sum.results))
	for i, a := range sum.results {
		res[i] = f.subst(a, args)
	}
	if len(res) == 1 {
		f.set(v, res[0])
	} else if len(res) > 1 {
		old := f.tuple[v]
		same := len(old) == len(res)
		for i := range res {
			if same {
				res[i] = axJoin(old[i], res[i])
				if res[i] != old[i] {
					same = false
					x.changed = true
				}
			}
		}
		if !same {
			x.changed = true
		}
		f.tuple[v] = res
	}
	if f.final {
		name := callee.Name()
		for _, c := range sum.constraints {
			a, b := f.subst(c.a, args), f.subst(c.b, args)
			if a == axNone || b == axNone || a == axTop || b == axTop || a == b {
				if a == b && a.concrete() {
					x.obs = append(x.obs, axObs{f.fn, "call:" + c.kind, a, b, v.Pos(), name})
				}
				continue
			}
			if a.symbolic() || b.symbolic() {
				f.sum.constraints = append(f.sum.constraints, axConstraint{a, b, c.kind, v.Pos()})
				continue
			}
			x.obs = append(x.obs, axObs{f.fn, "call:" + c.kind, a, b, v.Pos(), name})
		}
	}
}

func (x *axAnalysis) analyse(fn *ssa.Function) {
	f := &axFunc{x: x, fn: fn, lab: map[ssa.Value]axl{}, cell: map[*ssa.Alloc]axl{}, tuple: map[ssa.Value][]axl{}, sum: &axSummary{}}
	if old := x.sums[fn]; old != nil {
		f.sum.results = append(f.sum.results, old.results...)
	}
	for i, p := range fn.Params {
		if isNumeric(p.Type()) {
			f.lab[p] = axPar + axl(i)
		}
	}
	for iter := 0; iter < 12; iter++ {
		before := x.changed
		x.changed = false
		for _, b := range fn.Blocks {
			for _, in := range b.Instrs {
				f.instr(in)
			}
		}
		ch := x.changed
		x.changed = before || ch
		if !ch {
			break
		}
	}
	f.final = true
	saved := x.changed
	for _, b := range fn.Blocks {
		for _, in := range b.Instrs {
			f.instr(in)
		}
	}
	x.changed = saved
	// a new constraint set counts as a change for the callers
	if old := x.sums[fn]; old == nil || len(old.constraints) != len(f.sum.constraints) || fmt.Sprint(old.results) != fmt.Sprint(f.sum.results) {
		x.changed = true
	}
	x.sums[fn] = f.sum
}

func ruleAxes(r *Run) {
	if r.broken() {
		return
	}
	d := r.Deep()
	if d == nil {
		return
	}
	var spkg *ssa.Package
	for _, p := range d.Prog.AllPackages() {
		if p.Pkg != nil && p.Pkg.Path() == pkgDagaz {
			spkg = p
		}
	}
	if spkg == nil {
		r.Undecide("Q1", "package %s not found in the SSA program", pkgDagaz)
		return
	}
	x := &axAnalysis{r: r, pkg: spkg.Pkg, vec: map[*types.Named]bool{}, fieldLab: map[*types.Var]axl{}, sums: map[*ssa.Function]*axSummary{}}
	scope := spkg.Pkg.Scope()
	for _, name := range scope.Names() {
		tn, ok := scope.Lookup(name).(*types.TypeName)
		if !ok {
			continue
		}
		n, ok := tn.Type().(*types.Named)
		if !ok {
			continue
		}
		st, ok := n.Underlying().(*types.Struct)
		if !ok {
			continue
		}
		if st.NumFields() == 3 && isFloat(st.Field(0).Type()) && isFloat(st.Field(1).Type()) && isFloat(st.Field(2).Type()) {
			x.vec[n] = true
		}
	}
	for _, name := range scope.Names() {
		tn, ok := scope.Lookup(name).(*types.TypeName)
		if !ok {
			continue
		}
		var find func(st *types.Struct, depth int)
		find = func(st *types.Struct, depth int) {
			for i := 0; i < st.NumFields(); i++ {
				t := st.Field(i).Type()
				if s1, ok := t.Underlying().(*types.Slice); ok {
					if s2, ok := s1.Elem().Underlying().(*types.Slice); ok {
						if s3, ok := s2.Elem().Underlying().(*types.Slice); ok {
							if _, ok := s3.Elem().Underlying().(*types.Pointer); ok {
								x.gridT, x.rowT = s1, s2
							}
						}
					}
				}
				if inner, ok := t.Underlying().(*types.Struct); ok && depth < 2 {
					find(inner, depth+1)
				}
			}
		}
		if st, ok := tn.Type().Underlying().(*types.Struct); ok {
			find(st, 0)
		}
	}
	if len(x.vec) == 0 || x.gridT == nil {
		r.Undecide("Q1", "anchor not found: three-float vector type / [][][]*T grid field in %s", pkgDagaz)
		return
	}
	// every function of the package, anonymous ones included
	var fns []*ssa.Function
	seen := map[*ssa.Function]bool{}
	var add func(fn *ssa.Function)
	add = func(fn *ssa.Function) {
		if fn == nil || seen[fn] || fn.Blocks == nil || fn.Synthetic != "" {
			return
		}
		seen[fn] = true
		fns = append(fns, fn)
		for _, a := range fn.AnonFuncs {
			add(a)
		}
	}
	for _, m := range spkg.Members {
		switch mm := m.(type) {
		case *ssa.Function:
			add(mm)
		case *ssa.Type:
			for _, t := range []types.Type{mm.Type(), types.NewPointer(mm.Type())} {
				ms := d.Prog.MethodSets.MethodSet(t)
				for i := 0; i < ms.Len(); i++ {
					add(d.Prog.MethodValue(ms.At(i)))
				}
			}
		}
	}
	sort.Slice(fns, func(i, j int) bool { return fns[i].String() < fns[j].String() })
	round := func() {
		for it := 0; it < 8; it++ {
			x.changed = false
			x.obs = nil
			for _, fn := range fns {
				if fn.Pkg == nil || fn.Pkg.Pkg != x.pkg {
					continue
				}
				x.analyse(fn)
			}
			if !x.changed {
				break
			}
		}
	}
	// phase A: rows and columns are labels of their own; learn which coordinate axis each stands for
	round()
	votes := map[[2]axl]int{}
	for _, o := range x.obs {
		a, b := o.a, o.b
		if b.coord() && a.cell() {
			a, b = b, a
		}
		if a.coord() && b.cell() {
			votes[[2]axl{b, a}]++
		}
	}
	x.cellMap = map[axl]axl{}
	for _, c := range []axl{axRow, axCol} {
		best, bestN, tie := axNone, 0, false
		for _, co := range []axl{axX, axY, axZ} {
			n := votes[[2]axl{c, co}]
			if n > bestN {
				best, bestN, tie = co, n, false
			} else if n == bestN && n > 0 {
				tie = true
			}
		}
		if best != axNone && !tie {
			x.cellMap[c] = best
		}
	}
	if x.cellMap[axRow] != axNone && x.cellMap[axRow] == x.cellMap[axCol] {
		// not injective: keep the better supported one
		if votes[[2]axl{axRow, x.cellMap[axRow]}] >= votes[[2]axl{axCol, x.cellMap[axCol]}] {
			delete(x.cellMap, axCol)
		} else {
			delete(x.cellMap, axRow)
		}
	}
	pairings := 0
	for k, n := range votes {
		if x.cellMap[k[0]] == k[1] {
			pairings += n
		}
	}
	r.Sample("Q1: rows of the grid stand for axis %s, columns for axis %s (%d pairings observed)", x.cellMap[axRow], x.cellMap[axCol], pairings)
	// phase B: with the correspondence fixed
	x.fieldLab = map[*types.Var]axl{}
	x.sums = map[*ssa.Function]*axSummary{}
	round()
	fname := func(fn *ssa.Function) string {
		if f := d.fnOf[fn]; f != nil {
			return f.Name
		}
		return strings.TrimPrefix(fn.String(), repoMod+"/")
	}
	n, bad := 0, 0
	for _, o := range x.obs {
		n++
		ok := o.a == o.b
		a, b := o.a, o.b
		if b < a {
			a, b = b, a
		}
		site := fmt.Sprintf("%s:%s[%s~%s]", fname(o.fn), o.kind, a, b)
		if o.via != "" {
			site = fmt.Sprintf("%s:%s(%s)[%s~%s]", fname(o.fn), o.kind, o.via, a, b)
		}
		if !ok {
			bad++
		}
		r.Check("Q1", site, ok, o.pos,
			"a value derived from axis %s meets one derived from axis %s here (%s): in the ground-plane index a coordinate, cell index or cell count of one axis is compared with, added to, clamped by, stored as or used in place of one of another axis, so planes are registered in, or looked up from, cells their footprint does not cover", o.a, o.b, o.kind)
	}
	for _, fn := range fns {
		if f := d.fnOf[fn]; f != nil {
			r.Analysed(f, 1)
		}
	}
	r.Floor("Q1", "axis pairings judged in modules/dagaz", n, 60)
	r.Floor("Q1", "row/column to coordinate-axis correspondence", len(x.cellMap), 2)
}
