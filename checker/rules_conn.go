package main

import (
	"fmt"
	"go/ast"
	"go/token"
	"go/types"
	"sort"
	"strings"
)

// callersOf: repository functions (declared or literal) whose body contains a call resolved to f.
func (r *Run) callersOf(f *types.Func) []*Func {
	var out []*Func
	for _, fn := range r.P.All {
		found := false
		ast.Inspect(fn.Body, func(n ast.Node) bool {
			if c, ok := n.(*ast.CallExpr); ok && calleeObj(fn.Info(), c) == f {
				found = true
			}
			return true
		})
		if found {
			out = append(out, fn)
		}
	}
	return out
}

// attributed: the API-level functions on whose behalf fn runs: fn itself when it is exported, is a
// literal's root without callers, or has no callers; otherwise the union over its callers, looking
// through unexported helpers of the same package. Lets who-may-call / who-may-write rules survive
// the extraction of a helper.
func (r *Run) attributed(fn *Func) map[string]bool {
	if r.attrMemo == nil {
		r.attrMemo = map[*Func]map[string]bool{}
	}
	fn = fn.root().origOrSelf()
	if m, ok := r.attrMemo[fn]; ok {
		return m
	}
	out := map[string]bool{}
	r.attrMemo[fn] = out // cycle guard
	if fn.Obj == nil || !r.P.isGlue(fn.Obj) {
		out[fn.Name] = true
		return out
	}
	callers := r.callersOf(fn.Obj)
	// method values (once.Do(s.init)) count as calls
	for _, c := range r.P.All {
		if c == fn {
			continue
		}
		found := false
		ast.Inspect(c.Body, func(n ast.Node) bool {
			if se, ok := n.(*ast.SelectorExpr); ok {
				if funcValueTarget(c.Info(), se) == fn.Obj {
					found = true
				}
			}
			return !found
		})
		if found {
			dup := false
			for _, x := range callers {
				if x == c {
					dup = true
				}
			}
			if !dup {
				callers = append(callers, c)
			}
		}
	}
	n := 0
	for _, c := range callers {
		if (c.Pkg != fn.Pkg && !fn.Obj.Exported()) || c == fn {
			continue
		}
		n++
		for k := range r.attributed(c) {
			out[k] = true
		}
	}
	if n == 0 {
		out[fn.Name] = true
	}
	return out
}

// rootsOf: the functions in whose paths the events of the given functions are analysed — the
// functions themselves, or, for glue that is looked into, the (non-glue) functions it is attributed to.
func (r *Run) rootsOf(fns []*Func) []*Func {
	seen := map[*Func]bool{}
	var out []*Func
	for _, f := range fns {
		for name := range r.attributed(f) {
			if g := r.P.FuncByName(name); g != nil && !seen[g] {
				seen[g] = true
				out = append(out, g)
			}
		}
	}
	sort.Slice(out, func(i, j int) bool { return out[i].Name < out[j].Name })
	return out
}

// onlyFrom: fn acts only on behalf of the named functions: walking up through callers (calls, go
// and defer statements, method values), every chain reaches one of them before it reaches an
// exported function or a function without callers.
func (r *Run) onlyFrom(fn *Func, allowed ...string) bool {
	ok := map[string]bool{}
	for _, a := range allowed {
		ok[a] = true
	}
	seen := map[*Func]bool{}
	var up func(f *Func) bool
	up = func(f *Func) bool {
		f = f.root().origOrSelf()
		if ok[f.Name] {
			return true
		}
		if seen[f] {
			return true
		}
		seen[f] = true
		if f.Obj == nil || !r.P.isGlue(f.Obj) {
			return false
		}
		callers := r.callersIncludingValues(f)
		if len(callers) == 0 {
			return false
		}
		for _, c := range callers {
			if !up(c) {
				return false
			}
		}
		return true
	}
	return up(fn)
}

func (r *Run) callersIncludingValues(fn *Func) []*Func {
	callers := r.callersOf(fn.Obj)
	for _, c := range r.P.All {
		if c == fn {
			continue
		}
		found := false
		ast.Inspect(c.Body, func(n ast.Node) bool {
			if se, ok := n.(*ast.SelectorExpr); ok {
				if funcValueTarget(c.Info(), se) == fn.Obj {
					found = true
				}
			}
			return !found
		})
		if found {
			dup := false
			for _, x := range callers {
				if x == c {
					dup = true
				}
			}
			if !dup {
				callers = append(callers, c)
			}
		}
	}
	var out []*Func
	for _, c := range callers {
		if c != fn {
			out = append(out, c)
		}
	}
	return out
}

// ruleFunnelOnce (E5, G5): every way a connection ends goes through the one disconnect path, once.
func ruleFunnelOnce(r *Run) {
	m := r.M()
	if r.broken() {
		return
	}
	handle := r.modelFunc("websocket.(*handler).Handle")
	hdisc := r.fn(pkgWS, "handler", "handleDisconnect")
	disc := r.fn(pkgWS, "handler", "disconnect")
	ifaceHD := r.fn(pkgWS, "Handler", "HandleDisconnect")
	hmsg := r.fn(pkgWS, "handler", "handleMessage")
	if handle == nil || hdisc == nil || disc == nil || ifaceHD == nil || hmsg == nil {
		return
	}
	_ = m
	// (a) who calls Handler.HandleDisconnect: the funnel and the decorators' forwarding only
	for _, c := range r.callersOf(ifaceHD) {
		isDecorator := false
		if c.Recv != nil {
			if rn, ok := derefNamedT(c.Recv.Type()); ok {
				for _, d := range m.Decorators {
					if d == rn && c.Obj.Name() == "HandleDisconnect" {
						isDecorator = true
					}
				}
			}
		}
		r.Check("E5", "HandleDisconnect-caller["+c.Name+"]", c.Obj == hdisc || isDecorator || r.onlyFrom(c, "websocket.(*handler).handleDisconnect"), c.Body.Pos(), "the handler's HandleDisconnect is invoked only by the connection's disconnect funnel (and forwarded by decorators)")
	}
	// (b) the funnel is entered only from the main loop's disconnect arm
	for _, c := range r.callersOf(hdisc) {
		r.Check("E5", "funnel-caller["+c.Name+"]", c == handle || r.onlyFrom(c, handle.Name), c.Body.Pos(), "handleDisconnect is called only from the connection's main loop")
	}
	paths := r.Paths(handle)
	r.Analysed(handle, len(paths))
	discField := r.P.LookupField(pkgWS, "handler", "disconnectChan")
	nArm := 0
	for pi := range paths {
		path := &paths[pi]
		r.at(path)
		for i, ev := range path.Events {
			if ev.Kind != EvCall || ev.Callee != hdisc {
				continue
			}
			nArm++
			// preceded by the receive from disconnectChan in a select arm
			inArm := false
			for j := i - 1; j >= 0; j-- {
				pe := path.Events[j]
				if pe.Kind == EvChanOp && !pe.Send {
					if se, ok := ast.Unparen(pe.Chan).(*ast.SelectorExpr); ok {
						if sel, ok := handle.Info().Selections[se]; ok && sel.Obj() == discField {
							inArm = true
						}
					}
					break
				}
				if pe.Kind == EvGuard && pe.GKind == GFor {
					break
				}
			}
			r.CheckT("E5", handle.Name+":funnel-in-disconnect-arm", inArm, ev.Pos, path, "the disconnect funnel runs when, and only when, a disconnect cause was received")
			// followed by cancel() (or the context is already cancelled) before the next loop test
			cancelled := false
			for j := i + 1; j < len(path.Events); j++ {
				pe := path.Events[j]
				if pe.Kind == EvCall && pe.Call != nil {
					if id, ok := ast.Unparen(pe.Call.Fun).(*ast.Ident); ok && strings.HasPrefix(r.P.Canon(handle, id), "call:context.WithCancel(") {
						cancelled = true
					}
				}
				if pe.Kind == EvGuard && pe.Cond != nil && strings.Contains(r.P.Canon(pe.Fn, pe.Cond), "call:Context.Err()") {
					g := r.Classify(path, j)
					if (g.Outcome == "nonzero" || g.Outcome == "nonnil" || g.Outcome == "differ" || g.Outcome == "false") && pe.GKind != GFor {
						cancelled = true // ctx.Err() != nil already
					}
				}
				if pe.Kind == EvGuard && pe.GKind == GFor {
					break
				}
			}
			r.CheckT("E5", handle.Name+":funnel-then-exit", cancelled, ev.Pos, path, "after the funnel ran the context is cancelled, so the main loop ends and the funnel cannot run twice")
		}
		// (d) wg.Wait before returning
		if path.Exit == "return" {
			waited := false
			tl := topLevel(path)
			for i, ev := range path.Events {
				if ev.Kind == EvCall {
					if f, ok := ev.Callee.(*types.Func); ok && f.FullName() == "(*sync.WaitGroup).Wait" && tl[i] {
						waited = true
					}
				}
			}
			r.CheckT("E5", handle.Name+":join-goroutines", waited, handle.Body.Pos(), path, "the handler returns only after its sender and receiver goroutines ended (wg.Wait)")
			// the wait group counts exactly the goroutines started: Add(1) per go statement, and each of
			// them reports Done when it ends (deferred, or after its last call), not when it starts
			adds, spawned := 0, 0
			for _, ev := range path.Events {
				if ev.Kind == EvCall {
					if f, ok := ev.Callee.(*types.Func); ok && f.FullName() == "(*sync.WaitGroup).Add" && len(ev.Call.Args) == 1 {
						tv := ev.Fn.Info().Types[ev.Call.Args[0]]
						if tv.Value != nil && tv.Value.ExactString() == "1" {
							adds++
						} else {
							adds += 1000
						}
					}
				}
				if ev.Kind == EvGo && ev.Lit != nil {
					lf := r.P.Lits[ev.Lit]
					if lf == nil {
						continue
					}
					okDone := true
					nDone := 0
					for _, lp := range r.Paths(lf) {
						lastCall, doneIdx, deferred := -1, -1, false
						for i, le := range lp.Events {
							f, _ := le.Callee.(*types.Func)
							isDone := f != nil && f.FullName() == "(*sync.WaitGroup).Done"
							if le.Kind == EvDefer && isDone {
								deferred = true
								nDone++
							}
							if le.Kind == EvCall && le.Depth == 0 {
								if isDone {
									doneIdx = i
									nDone++
								} else {
									lastCall = i
								}
							}
						}
						if !deferred && !(doneIdx >= 0 && doneIdx > lastCall) {
							okDone = false
						}
					}
					if nDone > 0 {
						spawned++
						r.CheckT("E5", handle.Name+":done-when-goroutine-ends", okDone, ev.Pos, path, "a goroutine of the connection reports wg.Done when it ends (deferred, or after its last call): reporting earlier lets the handler return while the goroutine still runs")
					}
				}
			}
			r.CheckT("E5", handle.Name+":wait-group-balanced", adds == spawned && adds >= 1, handle.Body.Pos(), path, "the wait group is incremented by one for each goroutine that reports Done (%d increments, %d goroutines): a surplus increment makes Wait block forever, a missing one lets the handler return early", adds, spawned)
		}
	}
	r.Floor("E5", "paths through the disconnect arm", nArm, 1)
	// non-deferred cancel() only after the funnel
	for pi := range paths {
		path := &paths[pi]
		r.at(path)
		seenFunnel := false
		tl := topLevel(path)
		for i, ev := range path.Events {
			if ev.Kind == EvGuard && ev.GKind == GFor {
				seenFunnel = false
			}
			if ev.Kind == EvCall && ev.Callee == hdisc {
				seenFunnel = true
			}
			if ev.Kind == EvCall && ev.Call != nil && tl[i] {
				if id, ok := ast.Unparen(ev.Call.Fun).(*ast.Ident); ok && strings.HasPrefix(r.P.Canon(ev.Fn, id), "call:context.WithCancel(") {
					r.CheckT("E5", handle.Name+":cancel-after-funnel", seenFunnel, ev.Pos, path, "the connection context is cancelled (ending all loops) only after the disconnect funnel ran")
				}
			}
		}
	}
	// (c) every failure source reaches disconnect
	for _, name := range []string{"websocket.(*handler).Handle", "websocket.(*handler).startSending", "websocket.(*handler).startReceiving"} {
		fn := r.modelFunc(name)
		if fn == nil {
			continue
		}
		fpaths := r.Paths(fn)
		r.Analysed(fn, len(fpaths))
		nFail := 0
		for pi := range fpaths {
			path := &fpaths[pi]
			r.at(path)
			for i, ev := range path.Events {
				if ev.Kind != EvGuard {
					continue
				}
				g := r.Classify(path, i)
				failing := strings.HasPrefix(g.Subject, "err:") && g.Outcome == "err"
				what := g.Subject
				if ev.GKind == GSelectCase && ev.Val {
					cl := ev.Stmt.(*ast.CommClause)
					c := ""
					if es, ok := cl.Comm.(*ast.ExprStmt); ok {
						if u, ok := ast.Unparen(es.X).(*ast.UnaryExpr); ok {
							c = r.P.Canon(fn, u.X)
						}
					}
					if fn == handle && (strings.Contains(c, "call:Context.Done()") || strings.HasSuffix(c, ".C") && strings.Contains(c, "NewTimer")) {
						failing = true
						what = "select:" + c
					}
				}
				if !failing {
					continue
				}
				nFail++
				reached := false
				for j := i + 1; j < len(path.Events); j++ {
					pe := path.Events[j]
					if pe.Kind == EvCall && pe.Callee == disc {
						reached = true
					}
					if pe.Kind == EvGuard && pe.GKind == GFor {
						break
					}
				}
				r.CheckT("E5", fmt.Sprintf("%s:failure-reaches-disconnect[%s]", fn.Name, what), reached, ev.Pos, path, "a failure (%s) in a connection loop is reported to the disconnect funnel", what)
				if fn != handle {
					// sender / receiver loops end after reporting
					r.CheckT("E5", fmt.Sprintf("%s:loop-ends-after-failure[%s]", fn.Name, what), path.Exit == "return" && !hasCut(path), ev.Pos, path, "the loop ends after reporting its failure")
				}
			}
		}
		r.Floor("E5", "failure outcomes in "+name, nFail, 1)
	}
	// G5: idle timer
	nMsg, nIdle := 0, 0
	reachesDispatch := func(path *Path, tl []bool, i int) bool {
		ev := path.Events[i]
		if ev.Kind != EvCall || ev.Call == nil || !tl[i] {
			return false
		}
		if i+1 < len(path.Events) && path.Events[i+1].Kind == EvEnter && path.Events[i+1].Helper && path.Events[i+1].Lit == nil && ev.Callee != hmsg {
			return false // glue that was looked into: its own calls follow
		}
		if ev.Callee == hmsg {
			return true
		}
		if d := r.Deep(); d != nil {
			known, _ := d.Callees(r.P, ev.Call)
			for _, g := range known {
				if r.reachableFrom(g)[m.Dispatch] {
					return true
				}
			}
		}
		return false
	}
	for pi := range paths {
		path := &paths[pi]
		r.at(path)
		tl := topLevel(path)
		for i, ev := range path.Events {
			if reachesDispatch(path, tl, i) {
				nMsg++
				reset := false
				for j := i - 1; j >= 0; j-- {
					pe := path.Events[j]
					if pe.Kind == EvGuard && pe.GKind == GFor {
						break
					}
					if pe.Kind == EvCall {
						if f, ok := pe.Callee.(*types.Func); ok && f.FullName() == "(*time.Timer).Reset" {
							arg := r.P.Canon(pe.Fn, pe.Call.Args[0])
							tm := r.P.Canon(pe.Fn, pe.Recv)
							reset = arg == "recv.Handler.call:Handler.IdleTimeout()" && strings.HasPrefix(tm, "call:time.NewTimer(recv.Handler.call:Handler.IdleTimeout())")
							if !reset {
								// the timer and its period kept in a small struct built from the handler's getter
								// (timers := newLoopTimers(h.Handler); timers.rearmIdle()): followed to where they were created
								isIdle := func(x ast.Expr, fn *Func) bool {
									o, ofn := r.originOf(fn, x, 0)
									if o == nil || ofn == nil {
										return false
									}
									c := r.P.Canon(ofn, o)
									return strings.Contains(c, "call:Handler.IdleTimeout()") || strings.Contains(types.ExprString(o), ".IdleTimeout()")
								}
								to, tfn := r.originOf(pe.Fn, pe.Recv, 0)
								timerFromIdle := false
								if call, ok := ast.Unparen(to).(*ast.CallExpr); ok && tfn != nil {
									if g, ok := calleeObj(tfn.Info(), call).(*types.Func); ok && g.FullName() == "time.NewTimer" && len(call.Args) == 1 {
										timerFromIdle = isIdle(call.Args[0], tfn)
									}
								}
								reset = timerFromIdle && isIdle(pe.Call.Args[0], pe.Fn)
							}
						}
					}
				}
				r.CheckT("G5", handle.Name+":reset-on-message", reset, ev.Pos, path, "every received message re-arms the idle timer with the idle timeout before it is handled (a client that keeps sending is not disconnected)")
			}
			if ev.Kind == EvGuard && ev.GKind == GSelectCase && ev.Val {
				cl := ev.Stmt.(*ast.CommClause)
				if es, ok := cl.Comm.(*ast.ExprStmt); ok {
					if u, ok := ast.Unparen(es.X).(*ast.UnaryExpr); ok && strings.HasPrefix(r.P.Canon(handle, u.X), "call:time.NewTimer(recv.Handler.call:Handler.IdleTimeout()).C") {
						nIdle++
					} else if ok {
						// <-timers.idle.C: the timer kept in a struct, followed to the NewTimer(…IdleTimeout()) that made it
						if cse, isSel := ast.Unparen(u.X).(*ast.SelectorExpr); isSel && cse.Sel.Name == "C" {
							if to, tfn := r.originOf(ev.Fn, cse.X, 0); to != nil && tfn != nil {
								if call, isCall := ast.Unparen(to).(*ast.CallExpr); isCall && len(call.Args) == 1 {
									if g, isF := calleeObj(tfn.Info(), call).(*types.Func); isF && g.FullName() == "time.NewTimer" {
										if ao, afn := r.originOf(tfn, call.Args[0], 0); ao != nil && afn != nil && strings.Contains(types.ExprString(ao), ".IdleTimeout()") {
											nIdle++
										}
									}
								}
							}
						}
					}
				}
			}
		}
	}
	// every message taken from the connection is handed to the scheduler: that is the only way into the
	// main loop, where the idle timer is re-armed — a message answered on the side does not count as activity
	if rf := r.modelFunc("websocket.(*handler).startReceiving"); rf != nil {
		rpaths := r.Paths(rf)
		nRecv := 0
		recvFld := r.P.LookupField(pkgWS, "handler", "receiver")
		for pi := range rpaths {
			path := &rpaths[pi]
			r.at(path)
			for i, ev := range path.Events {
				if ev.Kind != EvCall || ev.Call == nil {
					continue
				}
				se, isSel := ast.Unparen(ev.Call.Fun).(*ast.SelectorExpr)
				if !isSel || recvFld == nil {
					continue
				}
				if fv := r.P.selField(ev.Fn.Info(), se); fv != recvFld && (fv == nil || r.P.FieldName(fv) != "receiver") {
					continue
				}
				nRecv++
				dispatched, failed := false, false
				for j := i + 1; j < len(path.Events); j++ {
					pe := path.Events[j]
					if pe.Kind == EvCall {
						if f, ok := pe.Callee.(*types.Func); ok && f.Name() == "Dispatch" && f.Pkg() != nil && f.Pkg().Path() == pkgHCWS {
							dispatched = true
						}
						if pe.Callee == disc {
							failed = true
						}
					}
				}
				r.CheckT("G5", rf.Name+":every-message-dispatched", dispatched || failed, ev.Pos, path,
					"a message read from the connection is neither handed to the scheduler nor reported as a failure on this path: it does not reach the main loop, so it does not count as activity (a client that keeps sending it is disconnected as idle) and is handled outside the per-connection order")
			}
		}
		r.Floor("G5", "receive sites in the receiving loop", nRecv, 1)
	}
	r.Check("G5", handle.Name+":idle-arm", nIdle >= 1 && nMsg >= 1, handle.Body.Pos(), "the main loop has a message arm and an idle-timer arm armed with the handler's idle timeout")
	// connection closure and summary worker
	if main := r.modelFunc("cmd.main"); main != nil {
		hfn := r.P.LookupFunc(pkgWS, "", "Handle")
		closeM := r.fn(pkgWS, "Handler", "Close")
		// every function or literal of package cmd that serves a connection (calls Handle), wherever main's
		// wiring was moved to
		ok := false
		var servers []*Func
		for _, lf := range r.P.Lits {
			if lf.Pkg == main.Pkg {
				servers = append(servers, lf)
			}
		}
		for _, f := range r.P.All {
			if f.Pkg == main.Pkg {
				servers = append(servers, f)
			}
		}
		sort.Slice(servers, func(i, j int) bool { return servers[i].Name < servers[j].Name })
		bad := false
		for _, lf := range servers {
			for _, path := range r.Paths(lf) {
				r.at(&path)
				iH := idxOfCall(&path, hfn, 0)
				if iH < 0 || path.Events[iH].Fn != lf {
					continue
				}
				deferred := false
				for j := 0; j < iH; j++ {
					if path.Events[j].Kind == EvDefer && path.Events[j].Callee == closeM {
						deferred = true
					}
				}
				if deferred {
					ok = true
				} else {
					bad = true
				}
			}
		}
		ok = ok && !bad
		r.Check("E5", "cmd.main:close-deferred", ok, main.Body.Pos(), "the connection closure defers the handler's Close before serving, so per-connection workers end with the connection")
	}
	if cl := r.modelFunc("websocket.(*handlerWithLogs).Close"); cl != nil {
		// a stop action: the call of a function-typed field of the decorator (a context's cancel), or the closing
		// of / a send on one of its channel fields (through sync.Once and glue, which the engine looks into)
		ok := true
		for _, path := range r.Paths(cl) {
			r.at(&path)
			c := false
			for _, ev := range path.Events {
				switch ev.Kind {
				case EvCall:
					if v, isVar := ev.Callee.(*types.Var); isVar && v.IsField() {
						if _, isFn := v.Type().Underlying().(*types.Signature); isFn && ev.Call != nil && strings.HasPrefix(r.P.Canon(ev.Fn, ev.Call.Fun), "recv.") {
							c = true
						}
					}
					if b, isB := ev.Callee.(*types.Builtin); isB && b.Name() == "close" && ev.Call != nil && len(ev.Call.Args) == 1 && strings.HasPrefix(r.P.Canon(ev.Fn, ev.Call.Args[0]), "recv.") {
						c = true
					}
					// once.Do(func(){ close(h.done) }): done now or done before
					if f, isF := ev.Callee.(*types.Func); isF && f.FullName() == "(*sync.Once).Do" && ev.Call != nil && len(ev.Call.Args) == 1 {
						if lit, isLit := ast.Unparen(ev.Call.Args[0]).(*ast.FuncLit); isLit {
							ast.Inspect(lit.Body, func(nd ast.Node) bool {
								if call, ok := nd.(*ast.CallExpr); ok {
									if id, ok := ast.Unparen(call.Fun).(*ast.Ident); ok && id.Name == "close" && len(call.Args) == 1 {
										c = true
									}
								}
								return true
							})
						}
					}
				case EvChanOp:
					if ev.Send && strings.HasPrefix(r.P.Canon(ev.Fn, ev.Chan), "recv.") {
						c = true
					}
				}
			}
			if !c {
				ok = false
			}
		}
		r.Check("E5", cl.Name+":stops-worker", ok, cl.Body.Pos(), "closing the logging decorator stops its summary worker")
	}
}

// ruleGaugePair (G6): the connected-clients gauge goes up once per connect and down once per disconnect.
func ruleGaugePair(r *Run) {
	if r.broken() {
		return
	}
	gauge := lookupGlobal(r.P.ByPth[pkgWS].Types, "wsConnectedClients")
	if gauge == nil {
		r.Undecide("G6", "wsConnectedClients not found")
		return
	}
	count := map[string]map[string]int{}
	for _, fn := range r.P.All {
		info := fn.Info()
		ast.Inspect(fn.Body, func(n ast.Node) bool {
			call, ok := n.(*ast.CallExpr)
			if !ok {
				return true
			}
			se, ok := ast.Unparen(call.Fun).(*ast.SelectorExpr)
			if !ok || (se.Sel.Name != "Inc" && se.Sel.Name != "Dec" && se.Sel.Name != "Add" && se.Sel.Name != "Sub" && se.Sel.Name != "Set") {
				return true
			}
			uses := false
			ast.Inspect(se.X, func(m ast.Node) bool {
				if id, ok := m.(*ast.Ident); ok && info.Uses[id] == gauge {
					uses = true
				}
				return true
			})
			if !uses {
				// through a helper that returns the labelled gauge
				var viaHelper func(info *types.Info, x ast.Node, depth int) bool
				viaHelper = func(info *types.Info, x ast.Node, depth int) bool {
					found := false
					ast.Inspect(x, func(m ast.Node) bool {
						if id, ok := m.(*ast.Ident); ok && info.Uses[id] == gauge {
							found = true
						}
						if c, ok := m.(*ast.CallExpr); ok && depth < 3 {
							if g, ok := calleeObj(info, c).(*types.Func); ok {
								if gd := r.P.Funcs[g]; gd != nil && gd.Body != nil {
									ast.Inspect(gd.Body, func(k ast.Node) bool {
										if rs, ok := k.(*ast.ReturnStmt); ok {
											for _, res := range rs.Results {
												if viaHelper(gd.Info(), res, depth+1) {
													found = true
												}
											}
										}
										return true
									})
								}
							}
						}
						return !found
					})
					return found
				}
				uses = viaHelper(info, se.X, 0)
			}
			if uses {
				if count[fn.Name] == nil {
					count[fn.Name] = map[string]int{}
				}
				count[fn.Name][se.Sel.Name]++
			}
			return true
		})
	}
	var fns []string
	for k := range count {
		fns = append(fns, k)
	}
	sort.Strings(fns)
	for _, k := range fns {
		switch k {
		case "websocket.(*handlerWithMetrics).HandleConnect":
			r.Check("G6", k, count[k]["Inc"] == 1 && len(count[k]) == 1, 0, "connect increments the connected-clients gauge exactly once (%v)", count[k])
		case "websocket.(*handlerWithMetrics).HandleDisconnect":
			r.Check("G6", k, count[k]["Dec"] == 1 && len(count[k]) == 1, 0, "disconnect decrements the connected-clients gauge exactly once (%v)", count[k])
		default:
			r.Check("G6", k, false, 0, "the connected-clients gauge is changed outside the connect/disconnect pair (%v)", count[k])
		}
	}
	r.Check("G6", "pair", count["websocket.(*handlerWithMetrics).HandleConnect"]["Inc"] == 1 && count["websocket.(*handlerWithMetrics).HandleDisconnect"]["Dec"] == 1, 0,
		"the gauge has exactly one increment site (connect) and one decrement site (disconnect)")
	// on every path of the two methods
	labelVars := map[string]*types.Var{} // label value (canonical) -> the receiver field it is read from
	sides := map[string]map[string]bool{}
	for _, q := range []struct{ name, op string }{{"websocket.(*handlerWithMetrics).HandleConnect", "Inc"}, {"websocket.(*handlerWithMetrics).HandleDisconnect", "Dec"}} {
		fn := r.modelFunc(q.name)
		if fn == nil {
			continue
		}
		for _, path := range r.Paths(fn) {
			r.at(&path)
			n := 0
			incAt := -1
			var labels map[string]bool
			for ei, ev := range path.Events {
				if ev.Kind == EvCall && ev.Call != nil {
					if se, ok := ast.Unparen(ev.Call.Fun).(*ast.SelectorExpr); ok && se.Sel.Name == q.op && strings.Contains(r.P.Canon(fn, se.X), "global:websocket.wsConnectedClients") {
						n++
						incAt = ei
						vals := map[string]bool{}
						var collect func(holder *Func, x ast.Node, depth int)
						collect = func(holder *Func, x ast.Node, depth int) {
							ast.Inspect(x, func(n ast.Node) bool {
								// labels built by a looked-into helper (of a helper)
								if c, ok := n.(*ast.CallExpr); ok && depth < 4 {
									if res, rfn, ok := r.P.inlinedResults(r.P.ownerOf(holder, c), c); ok && len(res) == 1 {
										collect(rfn, res[0], depth+1)
									}
								}
								if cl, ok := n.(*ast.CompositeLit); ok {
									for _, el := range cl.Elts {
										if kv, ok := el.(*ast.KeyValueExpr); ok {
											c := r.P.Canon(holder, kv.Value)
											vals[c] = true
											if vs, ok := ast.Unparen(kv.Value).(*ast.SelectorExpr); ok {
												if sel, ok := holder.Info().Selections[vs]; ok && sel.Kind() == types.FieldVal {
													labelVars[c] = sel.Obj().(*types.Var)
												}
											}
										}
									}
								}
								return true
							})
						}
						collect(fn, se.X, 0)
						// the series is named by state of this connection's decorator only (its endpoint and the client's
						// app key), one field per label
						ownFields := len(vals) == 2
						for c := range vals {
							if !strings.HasPrefix(c, "recv.") || labelVars[c] == nil {
								ownFields = false
							}
						}
						r.CheckT("G6", fn.Name+":labels", ownFields, ev.Pos, &path, "the gauge is labelled with the connection's endpoint and app key, both fields of the decorator (%v)", vals)
						labels = vals
						if sides[q.op] == nil {
							sides[q.op] = vals
						}
					}
				}
			}
			r.CheckT("G6", fn.Name+":every-path", n == 1, fn.Body.Pos(), &path, "%s on every path exactly once (%d)", q.op, n)
			// the fields that name the series have their final value when the gauge is incremented: a label
			// written after the increment makes connect and disconnect address different series
			if q.op == "Inc" && incAt >= 0 {
				for _, ev := range path.Events[incAt+1:] {
					if ev.Kind != EvAssign {
						continue
					}
					for _, l := range ev.Lhs {
						if c := r.P.Canon(ev.Fn, l); labels[c] {
							r.CheckT("G6", fn.Name+":labels-set-before-increment["+strings.TrimPrefix(c, "recv.")+"]", false, ev.Pos, &path,
								"%s is assigned after the connected-clients gauge was incremented with it as a label: the decrement on disconnect addresses another series and both drift", c)
						}
					}
				}
			}
		}
	}
	if len(sides["Inc"]) > 0 && len(sides["Dec"]) > 0 {
		same := len(sides["Inc"]) == len(sides["Dec"])
		for c := range sides["Inc"] {
			if !sides["Dec"][c] {
				same = false
			}
		}
		r.Check("G6", "labels-agree", same, 0, "increment and decrement name the series by the same fields (%v / %v)", sides["Inc"], sides["Dec"])
	}
	// … and nothing but connect gives those fields a value afterwards
	byVar := map[*types.Var]string{}
	for c, v := range labelVars {
		byVar[v] = c
	}
	for _, f := range r.P.All {
		if f.Body == nil || f.root().Name == "websocket.(*handlerWithMetrics).HandleConnect" {
			continue
		}
		ast.Inspect(f.Body, func(nd ast.Node) bool {
			as, ok := nd.(*ast.AssignStmt)
			if !ok {
				return true
			}
			for _, l := range as.Lhs {
				if se, ok := ast.Unparen(l).(*ast.SelectorExpr); ok {
					if sel, ok := f.Info().Selections[se]; ok && sel.Kind() == types.FieldVal {
						if c, isLabel := byVar[sel.Obj().(*types.Var)]; isLabel {
							r.Check("G6", f.Name+":label-written["+strings.TrimPrefix(c, "recv.")+"]", false, as.Pos(), "%s, a label of the connected-clients gauge, is written outside connect", c)
						}
					}
				}
			}
			return true
		})
	}
	r.Floor("G6", "label fields of the connected-clients gauge", len(byVar), 2)
}

// ---------------------------------------------------------------------------------------------
// Channels: who sends, who receives, and what is held meanwhile (F4); panic containment (G2)

type chanSite struct {
	Field    *types.Var
	Owner    string
	Fn       *Func // root declared function
	Send     bool
	Blocking bool
	Held     lockset
	Pos      token.Pos
	Close    bool
}

// chanField resolves a channel expression to the struct field it lives in (directly, or through
// getter-like methods resolved by the call graph).
func (r *Run) chanField(fn *Func, x ast.Expr) (*types.Var, string) {
	// a channel handed to a looked-into helper (drain(ch), trySend(ch, v)) is the caller's channel
	fn, x = resolveBound(fn, x)
	x = ast.Unparen(x)
	if se, ok := x.(*ast.SelectorExpr); ok {
		if sel, ok := fn.Info().Selections[se]; ok && sel.Kind() == types.FieldVal {
			if _, isChan := sel.Type().Underlying().(*types.Chan); isChan {
				if nt, ok := derefNamedT(sel.Recv()); ok {
					return sel.Obj().(*types.Var), r.P.OwnerName(nt)
				}
			}
		}
	}
	if call, ok := x.(*ast.CallExpr); ok {
		if d := r.Deep(); d != nil {
			known, _ := d.Callees(r.P, call)
			var fv *types.Var
			owner := ""
			for _, g := range known {
				if g.Obj == nil {
					return nil, ""
				}
				fld := r.P.getterField(g.Obj)
				if fld == "" || g.Recv == nil {
					return nil, ""
				}
				nt, ok := derefNamedT(g.Recv.Type())
				if !ok {
					return nil, ""
				}
				v := r.P.LookupField(nt.Obj().Pkg().Path(), nt.Obj().Name(), fld)
				if v == nil || (fv != nil && fv != v) {
					return nil, ""
				}
				fv, owner = v, r.P.OwnerName(nt)
			}
			return fv, owner
		}
	}
	return nil, ""
}

func (r *Run) chanSites() []chanSite {
	if r.chanMemo != nil {
		return r.chanMemo
	}
	var out []chanSite
	funcs := append(append([]*Func{}, r.P.All...), r.P.Ext...)
	inlined := map[*ast.FuncLit]bool{}
	seen := map[string]bool{}
	do := func(fn *Func) {
		if !hasChanOps(fn) {
			for _, path := range r.E.Paths(fn) {
				for _, ev := range path.Events {
					if ev.Kind == EvEnter && ev.Lit != nil {
						inlined[ev.Lit] = true
					}
				}
				break
			}
			return
		}
		for pi, path := range r.Paths(fn) {
			r.at(&path)
			for _, ev := range path.Events {
				if ev.Kind == EvEnter && ev.Lit != nil {
					inlined[ev.Lit] = true
				}
			}
			var held []lockset
			for i, ev := range path.Events {
				var site *chanSite
				switch {
				case ev.Kind == EvChanOp:
					fv, owner := r.chanField(ev.Fn, ev.Chan)
					if fv == nil {
						continue
					}
					site = &chanSite{Field: fv, Owner: owner, Send: ev.Send, Blocking: !ev.NonBlocking}
				case ev.Kind == EvCall || ev.Kind == EvDefer:
					if b, ok := ev.Callee.(*types.Builtin); ok && b.Name() == "close" && ev.Call != nil {
						fv, owner := r.chanField(ev.Fn, ev.Call.Args[0])
						if fv == nil {
							continue
						}
						site = &chanSite{Field: fv, Owner: owner, Close: true}
					}
				}
				if site == nil {
					continue
				}
				if held == nil {
					held = r.locksAlong(&r.Paths(fn)[pi], r.entryLocks(fn))
				}
				site.Fn, site.Held, site.Pos = fn.root(), held[i], ev.Pos
				k := fmt.Sprintf("%d|%s|%s.%s|%s", ev.Pos, site.Held, site.Owner, site.Field.Name(), site.Fn.Name)
				if !seen[k] {
					seen[k] = true
					out = append(out, *site)
				}
			}
		}
	}
	for _, fn := range funcs {
		do(fn)
	}
	var lits []*Func
	for lit, lf := range r.P.Lits {
		if !inlined[lit] {
			lits = append(lits, lf)
		}
	}
	sort.Slice(lits, func(i, j int) bool { return lits[i].Name < lits[j].Name })
	for _, lf := range lits {
		do(lf)
	}
	r.chanMemo = out
	return out
}

// reachableFrom: declared functions reachable from fn through resolved calls, not crossing go statements.
func (r *Run) reachableFrom(fn *Func) map[*Func]bool {
	d := r.Deep()
	out := map[*Func]bool{}
	var visit func(f *Func)
	visit = func(f *Func) {
		if f == nil || out[f] {
			return
		}
		out[f] = true
		var walk func(body ast.Node, holder *Func)
		walk = func(body ast.Node, holder *Func) {
			ast.Inspect(body, func(n ast.Node) bool {
				switch v := n.(type) {
				case *ast.GoStmt:
					return false
				case *ast.CallExpr:
					if d != nil {
						known, _ := d.Callees(r.P, v)
						for _, g := range known {
							visit(g)
						}
					}
					// spawn(&wg, func(){ … }): the literal handed to a goroutine-starting helper at the parameter
					// that the helper's goroutine calls runs on that goroutine, not here
					if callee, ok := calleeObj(holder.Info(), v).(*types.Func); ok {
						if k := r.spawnIndex(r.P.Funcs[callee]); k >= 0 && k < len(v.Args) {
							if _, isLit := ast.Unparen(v.Args[k]).(*ast.FuncLit); isLit {
								for i, a := range v.Args {
									if i != k {
										walk(a, holder)
									}
								}
								walk(v.Fun, holder)
								return false
							}
						}
					}
				}
				return true
			})
		}
		if f.Body != nil {
			walk(f.Body, f)
		}
	}
	visit(fn)
	return out
}

// spawnIndex: g is a goroutine-starting helper — its body has `go func(){ …; p(…) }()` with p a function-typed
// parameter, which is called nowhere else in g; returns the index of p, or -1.
func (r *Run) spawnIndex(g *Func) int {
	if g == nil || g.Body == nil || g.Obj == nil {
		return -1
	}
	idx := -1
	ast.Inspect(g.Body, func(n ast.Node) bool {
		if gs, ok := n.(*ast.GoStmt); ok {
			if lit, ok := ast.Unparen(gs.Call.Fun).(*ast.FuncLit); ok {
				if k := r.spawnedParam(g, lit); k >= 0 {
					idx = k
				}
			}
			return false
		}
		return true
	})
	if idx < 0 {
		return -1
	}
	// called outside the goroutine too: then it also runs on the caller's thread
	direct := false
	ast.Inspect(g.Body, func(n ast.Node) bool {
		if _, ok := n.(*ast.GoStmt); ok {
			return false
		}
		if call, ok := n.(*ast.CallExpr); ok {
			if id, ok := ast.Unparen(call.Fun).(*ast.Ident); ok {
				if v, ok := g.Info().Uses[id].(*types.Var); ok && paramIndex(g, v) == idx {
					direct = true
				}
			}
		}
		return true
	})
	if direct {
		return -1
	}
	return idx
}

// ruleWaitFor (F4): self-cycles on a channel, and lock -> channel -> lock cycles.
func ruleWaitFor(r *Run) {
	if r.broken() {
		return
	}
	d := r.Deep()
	if d == nil {
		return
	}
	sites := r.chanSites()
	type chanInfo struct {
		field     *types.Var
		owner     string
		consumers map[*Func]bool
		sends     []chanSite
	}
	chans := map[*types.Var]*chanInfo{}
	for _, s := range sites {
		ci := chans[s.Field]
		if ci == nil {
			ci = &chanInfo{field: s.Field, owner: s.Owner, consumers: map[*Func]bool{}}
			chans[s.Field] = ci
		}
		if s.Close {
			continue
		}
		if s.Send {
			ci.sends = append(ci.sends, s)
		} else {
			ci.consumers[s.Fn] = true
		}
	}
	var keys []*types.Var
	for k := range chans {
		keys = append(keys, k)
	}
	sort.Slice(keys, func(i, j int) bool {
		return chans[keys[i]].owner+r.P.FieldName(keys[i]) < chans[keys[j]].owner+r.P.FieldName(keys[j])
	})
	memoAcq := map[*Func]map[string]string{}
	nChans := 0
	for _, k := range keys {
		ci := chans[k]
		name := ci.owner + "." + r.P.FieldName(k)
		if len(ci.sends) == 0 || len(ci.consumers) == 0 {
			continue
		}
		nChans++
		// (i) self-cycle: a blocking send executed by the goroutine that is the channel's consumer
		for cons := range ci.consumers {
			reach := r.reachableFrom(cons)
			for _, s := range ci.sends {
				if !s.Blocking {
					continue
				}
				if reach[s.Fn] && s.Fn != nil {
					// the send is reachable from the consumer's own code (same goroutine)
					r.Check("F4", fmt.Sprintf("self-wait[%s]:send-in[%s]:consumer[%s]", name, r.rootLabel(s.Fn), r.rootLabel(cons)), false, s.Pos,
						"%s blocks sending into %s, and it is called from %s, the only goroutine that receives from that channel: once the buffer is full the goroutine waits for itself forever", s.Fn.Name, name, cons.Name)
				}
			}
		}
		// (ii) lock -> channel -> lock: a blocking send while holding L; the consumer goroutine may need L (exclusively, or L held exclusively)
		for _, s := range ci.sends {
			if !s.Blocking || len(s.Held) == 0 {
				continue
			}
			for cons := range ci.consumers {
				need := map[string]string{}
				for f := range r.reachableFrom(cons) {
					for lk, mode := range r.acquires(f, memoAcq, map[*Func]bool{}) {
						if need[lk] != "W" {
							need[lk] = mode
						}
					}
				}
				for lk, hmode := range s.Held {
					nmode, wants := need[lk]
					conflict := wants && (hmode == "W" || nmode == "W")
					site := fmt.Sprintf("lock-wait[%s->%s]:send-in[%s]:consumer[%s]", lk, name, r.rootLabel(s.Fn), r.rootLabel(cons))
					r.Check("F4", site, !conflict, s.Pos,
						"%s is held (%s) across a blocking send into %s in %s; the channel's consumer %s itself takes %s (%s): when the buffer is full the sender waits for the consumer and the consumer waits for the lock", lk, hmode, name, s.Fn.Name, cons.Name, lk, nmode)
					if !conflict {
						r.Assume(fmt.Sprintf("foreign wait: %s (%s) is held across a blocking send into %s in %s; progress depends on that channel's consumer draining it (a member that stops reading delays its own session only)", lk, hmode, name, s.Fn.Name))
					}
				}
			}
		}
		if len(r.Samples) < 30 {
			var cs []string
			for c := range ci.consumers {
				cs = append(cs, c.Name)
			}
			sort.Strings(cs)
			r.Sample("F4 channel %s: %d send sites, consumers %v", name, len(ci.sends), cs)
		}
	}
	r.Floor("F4", "channels with senders and consumers", nChans, 3)
}

// rulePanicContainment (G2): a deferred close of a channel that other goroutines send into must not
// be reachable by a panic raised while client input is being handled.
func rulePanicContainment(r *Run) {
	m := r.M()
	if r.broken() {
		return
	}
	d := r.Deep()
	if d == nil {
		return
	}
	sites := r.chanSites()
	closers := map[*Func][]*types.Var{} // function whose body closes a channel field
	senders := map[*types.Var][]*Func{}
	for _, s := range sites {
		if s.Close {
			closers[s.Fn] = append(closers[s.Fn], s.Field)
		}
		if s.Send {
			senders[s.Field] = append(senders[s.Field], s.Fn)
		}
	}
	n := 0
	for _, fn := range r.P.All {
		for _, path := range r.Paths(fn) {
			r.at(&path)
			for i, ev := range path.Events {
				if ev.Kind != EvDefer || ev.Call == nil {
					continue
				}
				// deferred call that closes a channel others send into
				var closed []*types.Var
				known := r.calleesAtDefer(ev)
				for _, g := range known {
					closed = append(closed, closers[g.root()]...)
				}
				if len(closed) == 0 {
					continue
				}
				hasOtherSenders := false
				for _, c := range closed {
					for _, s := range senders[c] {
						if s != fn {
							hasOtherSenders = true
						}
					}
				}
				if !hasOtherSenders {
					continue
				}
				n++
				// every later call on the path that reaches the message dispatch must be panic-safe
				for j := i + 1; j < len(path.Events); j++ {
					pe := path.Events[j]
					if pe.Kind != EvCall || pe.Call == nil {
						continue
					}
					if j+1 < len(path.Events) && path.Events[j+1].Kind == EvEnter && path.Events[j+1].Helper && path.Events[j+1].Lit == nil {
						continue // glue that was looked into: the calls it makes follow on the path
					}
					callees, _ := d.Callees(r.P, pe.Call)
					for _, g := range callees {
						if !r.reachableFrom(g)[m.Dispatch] {
							continue
						}
						safe := r.recoversBefore(g, m.Dispatch)
						r.CheckT("G2", fmt.Sprintf("%s:deferred-close-vs-panic[%s]", fn.Name, g.Name), safe, pe.Pos, &path,
							"%s defers the close of a channel that the receiver / frame goroutines still send into; a panic while %s handles a client message unwinds through that close and the next send into the closed channel kills the whole process (no recover on the way)", fn.Name, g.Name)
					}
				}
			}
		}
	}
	r.Floor("G2", "deferred closes of channels with foreign senders", n, 1)
	// a recovered panic is reported to the caller as an error (named error result assigned in the
	// recovering closure), so that the connection loop ends the connection through the disconnect
	// funnel instead of carrying on with whatever state the panic left behind
	nRec := 0
	for _, f := range r.P.All {
		if f.Decl == nil || !hasDeferredRecover(f) || !r.reachableFrom(f)[m.Dispatch] {
			continue
		}
		nRec++
		results := map[types.Object]bool{}
		if f.Decl.Type.Results != nil {
			for _, fld := range f.Decl.Type.Results.List {
				for _, nm := range fld.Names {
					if obj := f.Info().Defs[nm]; obj != nil && isErrorType(obj.Type()) {
						results[obj] = true
					}
				}
			}
		}
		reported := false
		if rs := deferredRecoverer(f, r.P); rs != nil {
			if rs.Named == nil {
				ast.Inspect(rs.Body, func(nd ast.Node) bool {
					as, ok := nd.(*ast.AssignStmt)
					if !ok || len(as.Lhs) != len(as.Rhs) {
						return true
					}
					for k, l := range as.Lhs {
						if id, ok := ast.Unparen(l).(*ast.Ident); ok && results[rs.Info.Uses[id]] && !isNilIdent(rs.Info, as.Rhs[k]) {
							reported = true
						}
					}
					return true
				})
			} else {
				// defer recoverX(&err): the named function stores the error through the pointer it is given
				ptrParams := map[types.Object]bool{}
				for k, a := range rs.Call.Args {
					if u, ok := ast.Unparen(a).(*ast.UnaryExpr); ok && u.Op == token.AND {
						if id, ok := ast.Unparen(u.X).(*ast.Ident); ok && results[f.Info().Uses[id]] {
							if sig, ok := rs.Named.Obj.Type().(*types.Signature); ok && k < sig.Params().Len() {
								ptrParams[sig.Params().At(k)] = true
							}
						}
					}
				}
				ast.Inspect(rs.Body, func(nd ast.Node) bool {
					as, ok := nd.(*ast.AssignStmt)
					if !ok || len(as.Lhs) != len(as.Rhs) {
						return true
					}
					for k, l := range as.Lhs {
						if st, ok := ast.Unparen(l).(*ast.StarExpr); ok {
							if id, ok := ast.Unparen(st.X).(*ast.Ident); ok && ptrParams[rs.Info.Uses[id]] && !isNilIdent(rs.Info, as.Rhs[k]) {
								reported = true
							}
						}
					}
					return true
				})
			}
		}
		r.Check("G2", f.Name+":recovered-panic-reported", reported, f.Body.Pos(), "%s recovers a panic raised while a client message is handled and reports it as its error result: the caller ends the connection through the normal disconnect path (a swallowed panic leaves the connection running on inconsistent state)", f.Name)
	}
	// recover() stops a panic only when the deferred function calls it itself: in a helper of the deferred
	// function it returns nil and the panic carries on
	deferredNamed := map[*types.Func]bool{}
	for _, f := range r.P.All {
		if f.Body == nil {
			continue
		}
		ast.Inspect(f.Body, func(nd ast.Node) bool {
			if ds, ok := nd.(*ast.DeferStmt); ok {
				if g, ok := calleeObj(f.Info(), ds.Call).(*types.Func); ok {
					deferredNamed[g] = true
				}
			}
			return true
		})
	}
	for _, f := range r.P.All {
		if f.Body == nil || f.Lit != nil {
			continue // (literals are visited with the function that holds them)
		}
		var stack []ast.Node
		ast.Inspect(f.Body, func(nd ast.Node) bool {
			if nd == nil {
				stack = stack[:len(stack)-1]
				return true
			}
			stack = append(stack, nd)
			c, ok := nd.(*ast.CallExpr)
			if !ok {
				return true
			}
			id, ok := ast.Unparen(c.Fun).(*ast.Ident)
			if !ok || id.Name != "recover" {
				return true
			}
			if _, isB := f.Info().Uses[id].(*types.Builtin); !isB {
				return true
			}
			// the innermost function around the call: a literal that is the operand of a defer, or the declared
			// function when that one is deferred by name somewhere
			direct := false
			var lit *ast.FuncLit
			li := -1
			for k := len(stack) - 2; k >= 0; k-- {
				if l, ok := stack[k].(*ast.FuncLit); ok {
					lit, li = l, k
					break
				}
			}
			switch {
			case lit != nil:
				if li >= 2 {
					if call, ok := stack[li-1].(*ast.CallExpr); ok && ast.Unparen(call.Fun) == ast.Expr(lit) {
						if _, ok := stack[li-2].(*ast.DeferStmt); ok {
							direct = true
						}
					}
				}
			case f.Obj != nil:
				direct = deferredNamed[f.Obj]
			}
			r.Check("G2", f.Name+":recover-called-by-the-deferred-function", direct, c.Pos(),
				"recover() in %s is not called by a deferred function itself (it sits in a helper that the deferred function calls, or in a function that is never deferred): there it returns nil and the panic is not stopped", f.Name)
			return true
		})
	}
	r.Floor("G2", "recovering functions on the message path", nRec, 1)
}

func (r *Run) calleesAtDefer(ev Event) []*Func {
	d := r.Deep()
	if d == nil || ev.Call == nil {
		return nil
	}
	var out []*Func
	seen := map[*Func]bool{}
	add := func(fs []*Func) {
		for _, f := range fs {
			if !seen[f] {
				seen[f] = true
				out = append(out, f)
			}
		}
	}
	k, _ := d.Callees(r.P, ev.Call)
	add(k)
	if ds, ok := ev.Node.(*ast.DeferStmt); ok {
		add(d.calleesAtPos(r.P, ds.Defer))
	}
	return out
}

func (d *Deep) calleesAtPos(p *Program, pos token.Pos) []*Func {
	var out []*Func
	for _, fn := range d.bySite[pos] {
		if f := d.fnOf[fn]; f != nil {
			out = append(out, f)
		} else if node := d.CG.Nodes[fn]; node != nil && fn.Synthetic != "" {
			for _, e := range node.Out {
				if f := d.fnOf[e.Callee.Func]; f != nil {
					out = append(out, f)
				}
			}
		}
	}
	return out
}

// recoversBefore: on the call chain from g to target, some function has a top-level deferred
// literal that calls recover().
func (r *Run) recoversBefore(g, target *Func) bool {
	d := r.Deep()
	seen := map[*Func]bool{}
	var visit func(f *Func) bool // true: every chain from f to target passes a recover
	visit = func(f *Func) bool {
		if f == target {
			return false
		}
		if seen[f] {
			return true
		}
		seen[f] = true
		if hasDeferredRecover(f) {
			return true
		}
		ok := true
		ast.Inspect(f.Body, func(n ast.Node) bool {
			if c, isCall := n.(*ast.CallExpr); isCall {
				known, _ := d.Callees(r.P, c)
				for _, h := range known {
					if h == target || r.reachableFrom(h)[target] {
						if !visit(h) {
							ok = false
						}
					}
				}
			}
			return true
		})
		return ok
	}
	return visit(g)
}

func hasDeferredRecover(f *Func) bool {
	return deferredRecoverer(f, nil) != nil
}

// deferredRecoverer: the body that recovers for f — the literal of a `defer func(){ … recover() … }()`,
// or the body of a named function that is deferred directly (`defer recoverX(&err)`) and calls recover()
// itself. A recover() reached only through a further call does not stop the panic and does not count.
// Returns the recovering function body's owner (a literal's Func or the named function).
func deferredRecoverer(f *Func, p *Program) *recoverSite {
	if f.Body == nil {
		return nil
	}
	callsRecover := func(info *types.Info, body *ast.BlockStmt) bool {
		found := false
		ast.Inspect(body, func(n ast.Node) bool {
			if _, isLit := n.(*ast.FuncLit); isLit {
				return false
			}
			if c, ok := n.(*ast.CallExpr); ok {
				if id, ok := ast.Unparen(c.Fun).(*ast.Ident); ok && id.Name == "recover" {
					if _, isB := info.Uses[id].(*types.Builtin); isB {
						found = true
					}
				}
			}
			return true
		})
		return found
	}
	for _, st := range f.Body.List {
		ds, ok := st.(*ast.DeferStmt)
		if !ok {
			continue
		}
		if lit, ok := ast.Unparen(ds.Call.Fun).(*ast.FuncLit); ok {
			if callsRecover(f.Info(), lit.Body) {
				return &recoverSite{Body: lit.Body, Info: f.Info(), Call: ds.Call}
			}
			continue
		}
		if g, ok := calleeObj(f.Info(), ds.Call).(*types.Func); ok && f.progFuncs != nil {
			if gd := f.progFuncs[g]; gd != nil && gd.Body != nil && callsRecover(gd.Info(), gd.Body) {
				return &recoverSite{Body: gd.Body, Info: gd.Info(), Call: ds.Call, Named: gd}
			}
		}
	}
	return nil
}

type recoverSite struct {
	Body  *ast.BlockStmt
	Info  *types.Info
	Call  *ast.CallExpr // the deferred call
	Named *Func         // set when a named function is deferred directly
}

// hasChanOps: the function (or a literal / looked-into helper of its package is not considered
// here: helpers are analysed on their own) contains a channel send, receive, close or select.
func hasChanOps(fn *Func) bool {
	return hasChanOpsDepth(fn, 0)
}

func hasChanOpsDepth(fn *Func, depth int) bool {
	if fn.Body == nil || depth > 3 {
		return false
	}
	found := false
	info := fn.Info()
	ast.Inspect(fn.Body, func(n ast.Node) bool {
		switch v := n.(type) {
		case *ast.SendStmt, *ast.SelectStmt:
			found = true
		case *ast.UnaryExpr:
			if v.Op == token.ARROW {
				found = true
			}
		case *ast.CallExpr:
			if b, ok := calleeObj(info, v).(*types.Builtin); ok && b.Name() == "close" {
				found = true
			}
			// glue of the repository that is looked into
			if f, ok := calleeObj(info, v).(*types.Func); ok && f.Pkg() != nil && isRepoPkg(f.Pkg()) && fn.progFuncs != nil {
				if g := fn.progFuncs[f]; g != nil && g != fn && (!f.Exported() || !knownAPI[g.Name]) && hasChanOpsDepth(g, depth+1) {
					found = true
				}
			}
		}
		return !found
	})
	return found
}

// ruleMainLineBlocking (G7): the connection's main goroutine waits in one place only — the select
// of its loop — plus the two waits that are part of the design (the outbound queue, the one-shot
// stop signal of a session's frame worker). Any other blocking channel operation reachable from
// the loop without crossing a `go` means that, while it waits, the connection serves no disconnect,
// no idle timeout and no further message: the handler is wedged by whatever keeps that channel from
// becoming ready.
func ruleMainLineBlocking(r *Run) {
	if r.broken() {
		return
	}
	handle := r.P.FuncByName("websocket.(*handler).Handle")
	sendChan := r.P.LookupField(pkgWS, "handler", "sendChan")
	stopChan := r.P.LookupField(pkgModels, "Session", "closeFrameChan")
	if handle == nil || sendChan == nil || stopChan == nil {
		r.Undecide("G7", "anchors not found (handler.Handle, handler.sendChan, Session.closeFrameChan)")
		return
	}
	reach := r.reachableFrom(handle)
	var fns []*Func
	for f := range reach {
		fns = append(fns, f)
	}
	sort.Slice(fns, func(i, j int) bool { return fns[i].Name < fns[j].Name })
	seen := map[token.Pos]bool{}
	mainArms, designed, total := 0, 0, 0
	// the connection loop's own select: the select statement one of whose arms receives the next client
	// message from the scheduler's queue — wherever that statement lives (Handle, or a loop function split off it)
	queue := r.P.LookupField(pkgHCWS, "scheduler", "queue")
	mainComm := map[token.Pos]bool{}
	for _, fn := range fns {
		if fn.Body == nil {
			continue
		}
		ast.Inspect(fn.Body, func(nd ast.Node) bool {
			ss, ok := nd.(*ast.SelectStmt)
			if !ok {
				return true
			}
			isMain := false
			var comms []token.Pos
			for _, cl := range ss.Body.List {
				cc := cl.(*ast.CommClause)
				if cc.Comm == nil {
					continue
				}
				comms = append(comms, cc.Comm.Pos())
				var rx ast.Expr
				switch st := cc.Comm.(type) {
				case *ast.ExprStmt:
					rx = st.X
				case *ast.AssignStmt:
					if len(st.Rhs) == 1 {
						rx = st.Rhs[0]
					}
				}
				if u, ok := ast.Unparen(rx).(*ast.UnaryExpr); ok && u.Op == token.ARROW {
					if fv, _ := r.chanField(fn, u.X); fv != nil && fv == queue {
						isMain = true
					}
				}
			}
			if isMain {
				for _, p := range comms {
					mainComm[p] = true
				}
			}
			return true
		})
	}
	for _, fn := range fns {
		if fn.Body == nil || !hasChanOps(fn) {
			continue
		}
		if fn.Obj != nil && r.P.isGlue(fn.Obj) && !r.attributed(fn)[fn.Name] && len(r.E.Paths(fn)) <= 600 {
			continue // glue: its channel operations are seen in the paths of the functions it acts for
		}
		paths := r.Paths(fn)
		r.Analysed(fn, len(paths))
		for pi := range paths {
			path := &paths[pi]
			r.at(path)
			for _, ev := range path.Events {
				if ev.Kind != EvChanOp || ev.NonBlocking || seen[ev.Pos] {
					continue
				}
				seen[ev.Pos] = true
				total++
				fv, owner := r.chanField(ev.Fn, ev.Chan)
				desc := r.P.Canon(ev.Fn, ev.Chan)
				if fv != nil {
					desc = owner + "." + fv.Name()
				}
				op := "receive from"
				if ev.Send {
					op = "send into"
				}
				switch {
				case !ev.Send && r.drainGuarded(path, ev):
					designed++ // `for len(ch) != 0 { <-ch }`: the receive only runs while the buffer holds a value
				case ev.InSelect && (mainComm[ev.Pos] || (ev.Node != nil && mainComm[ev.Node.Pos()])):
					mainArms++ // the loop's own select: the one place the main line waits
				case ev.Send && fv == sendChan:
					designed++
					r.Assume("the main line may wait for room in the connection's outbound queue (handler.sendChan, drained by the sender goroutine): a client that stops reading delays its own connection until the write fails")
				case ev.Send && fv == stopChan:
					designed++ // buffered one-shot stop signal under sync.Once (rule E6)
				default:
					r.Check("G7", fmt.Sprintf("%s:blocks[%s]", ev.Fn.root().origOrSelf().Name, desc), false, ev.Pos,
						"the connection's main line can block here (%s %s, outside the loop's select and without a default arm): while it waits, the connection handles no disconnect, no idle timeout and no other message", op, desc)
				}
			}
		}
	}
	r.Check("G7", "main-line-waits-only-in-its-select", true, handle.Body.Pos(), "%d blocking channel operations reachable from the connection loop: %d arms of the loop's select, %d designed waits", total, mainArms, designed)
	r.Floor("G7", "arms of the connection loop's select", mainArms, 3)
}

// drainGuarded: the receive is the body of a loop whose condition is len(<the same channel>) != 0
// (or > 0) and holds on this path: a shutdown drain, which never waits for a value.
func (r *Run) drainGuarded(path *Path, ev Event) bool {
	idx := -1
	for i := range path.Events {
		if path.Events[i].Pos == ev.Pos && path.Events[i].Kind == EvChanOp {
			idx = i
		}
	}
	if idx < 0 {
		return false
	}
	want := r.P.Canon(ev.Fn, ev.Chan)
	for j := idx - 1; j >= 0; j-- {
		pe := path.Events[j]
		if pe.Fn != ev.Fn {
			continue
		}
		if pe.Kind != EvGuard {
			if pe.Kind == EvCall || pe.Kind == EvAssign || pe.Kind == EvChanOp {
				return false
			}
			continue
		}
		if pe.GKind != GFor || pe.Cond == nil || !pe.Val {
			return false
		}
		be, ok := ast.Unparen(pe.Cond).(*ast.BinaryExpr)
		if !ok || (be.Op != token.NEQ && be.Op != token.GTR) || !isZeroConst(pe.Fn.Info(), be.Y) {
			return false
		}
		call, ok := ast.Unparen(be.X).(*ast.CallExpr)
		if !ok || len(call.Args) != 1 {
			return false
		}
		if b, ok := calleeObj(pe.Fn.Info(), call).(*types.Builtin); !ok || b.Name() != "len" {
			return false
		}
		return r.P.Canon(pe.Fn, call.Args[0]) == want
	}
	return false
}

// topLevel: for each event of a path, whether it belongs to the analysed function itself or to glue it
// looks into (helper brackets) — as opposed to the body of a closure run by a combinator.
func topLevel(path *Path) []bool {
	out := make([]bool, len(path.Events))
	var stack []bool // true = helper bracket
	closures := 0
	for i, ev := range path.Events {
		switch ev.Kind {
		case EvEnter:
			out[i] = closures == 0
			stack = append(stack, ev.Helper && ev.Lit == nil)
			if !(ev.Helper && ev.Lit == nil) {
				closures++
			}
			continue
		case EvExit:
			if n := len(stack); n > 0 {
				if !stack[n-1] {
					closures--
				}
				stack = stack[:n-1]
			}
			out[i] = closures == 0
			continue
		}
		out[i] = closures == 0
	}
	return out
}

// rootLabel: a stable name for the function on whose behalf fn runs (site keys of findings must not
// change when a function is split): the single function fn is attributed to, else fn itself.
func (r *Run) rootLabel(fn *Func) string {
	if fn == nil {
		return "?"
	}
	at := r.attributed(fn)
	if len(at) == 1 {
		for k := range at {
			return k
		}
	}
	return fn.root().origOrSelf().Name
}

// ruleQueueDrained (G10): a queue of the connection into which other goroutines send with a blocking send is
// emptied when its consumer stops — a deferred loop that receives from it, in a literal or in a function deferred
// by name. Without it a sender that was blocked on the full queue when the consumer stopped stays blocked for
// good: the connection's main loop never processes the disconnect, the participant never leaves, and relays to
// it hold the session's membership lock.
func ruleQueueDrained(r *Run) {
	if r.broken() {
		return
	}
	need := map[*types.Var]token.Pos{}
	for _, s := range r.chanSites() {
		if s.Send && s.Blocking && !s.Close && s.Owner == "handler" {
			if _, ok := need[s.Field]; !ok {
				need[s.Field] = s.Pos
			}
		}
	}
	drained := map[*types.Var]bool{}
	// receives inside a for loop of body; resolve maps a channel expression of holder to the field it stands for
	var scanD func(holder *Func, body *ast.BlockStmt, resolve func(x ast.Expr) *types.Var, depth int)
	scan := func(holder *Func, body *ast.BlockStmt, resolve func(x ast.Expr) *types.Var) {
		scanD(holder, body, resolve, 0)
	}
	scanD = func(holder *Func, body *ast.BlockStmt, resolve func(x ast.Expr) *types.Var, depth int) {
		ast.Inspect(body, func(nd ast.Node) bool {
			// drain(h.sendChan) / chanutil.Drain(h.sendChan): a helper that is handed the queue
			if call, isCall := nd.(*ast.CallExpr); isCall && depth < 3 {
				if g, _ := calleeObj(holder.Info(), call).(*types.Func); g != nil {
					if gd := r.P.Funcs[g]; gd != nil && gd.Body != nil && gd != holder {
						args := call.Args
						scanD(gd, gd.Body, func(x ast.Expr) *types.Var {
							if id, isID := ast.Unparen(x).(*ast.Ident); isID {
								if pv, ok := gd.Info().Uses[id].(*types.Var); ok {
									if k := paramIndex(gd, pv); k >= 0 && k < len(args) {
										return resolve(args[k])
									}
								}
							}
							fv, _ := r.chanField(gd, x)
							return fv
						}, depth+1)
					}
				}
			}
			loop, ok := nd.(*ast.ForStmt)
			if !ok {
				if rs, isRange := nd.(*ast.RangeStmt); isRange {
					if fv := resolve(rs.X); fv != nil {
						drained[fv] = true // for range ch (until closed / empty)
					}
				}
				return true
			}
			ast.Inspect(loop.Body, func(k ast.Node) bool {
				if u, ok := k.(*ast.UnaryExpr); ok && u.Op == token.ARROW {
					if fv := resolve(u.X); fv != nil {
						drained[fv] = true
					}
				}
				return true
			})
			return true
		})
	}
	for _, fn := range r.P.All {
		if fn.Body == nil || fn.Pkg.PkgPath != pkgWS {
			continue
		}
		fn := fn
		ast.Inspect(fn.Body, func(nd ast.Node) bool {
			ds, ok := nd.(*ast.DeferStmt)
			if !ok {
				return true
			}
			if lit, isLit := ast.Unparen(ds.Call.Fun).(*ast.FuncLit); isLit {
				scan(fn, lit.Body, func(x ast.Expr) *types.Var { fv, _ := r.chanField(fn, x); return fv })
				return true
			}
			g, _ := calleeObj(fn.Info(), ds.Call).(*types.Func)
			gd := r.P.Funcs[g]
			if gd == nil || gd.Body == nil {
				return true
			}
			scan(gd, gd.Body, func(x ast.Expr) *types.Var {
				// a parameter of the deferred function: the argument at the defer
				if id, isID := ast.Unparen(x).(*ast.Ident); isID {
					if pv, ok := gd.Info().Uses[id].(*types.Var); ok {
						if k := paramIndex(gd, pv); k >= 0 && k < len(ds.Call.Args) {
							fv, _ := r.chanField(fn, ds.Call.Args[k])
							return fv
						}
					}
				}
				fv, _ := r.chanField(gd, x)
				return fv
			})
			return true
		})
	}
	n := 0
	var fields []*types.Var
	for fv := range need {
		fields = append(fields, fv)
	}
	sort.Slice(fields, func(i, j int) bool { return fields[i].Name() < fields[j].Name() })
	for _, fv := range fields {
		n++
		r.Check("G10", "handler."+r.P.FieldName(fv)+":drained-when-its-consumer-stops", drained[fv], need[fv],
			"other goroutines send into the connection's queue %s with a blocking send, and nothing empties it when its consumer stops (no deferred receive loop): a sender blocked on the full queue at that moment stays blocked, the connection is never cleaned up and its participant never leaves", r.P.FieldName(fv))
	}
	r.Floor("G10", "connection queues with blocking foreign senders", n, 1)
}
