package main

import (
	"fmt"
	"go/ast"
	"go/constant"
	"go/token"
	"go/types"
	"math"
	"regexp"
	"sort"
	"strconv"
	"strings"
)

const inf = math.MaxInt64

// interval of an integer subject implied by one guard outcome: subject OP constant.
func (r *Run) guardInterval(fn *Func, cond ast.Expr, val bool) (subject string, lo, hi int64, ok bool) {
	be, isBin := ast.Unparen(cond).(*ast.BinaryExpr)
	if !isBin {
		return "", 0, 0, false
	}
	info := fn.Info()
	cv := func(x ast.Expr) (int64, bool) {
		tv, ok := info.Types[x]
		if !ok || tv.Value == nil || tv.Value.Kind() != constant.Int {
			return 0, false
		}
		return constant.Int64Val(tv.Value)
	}
	op := be.Op
	var subj ast.Expr
	var k int64
	if c, isC := cv(be.Y); isC {
		subj, k = be.X, c
	} else if c, isC := cv(be.X); isC {
		subj, k = be.Y, c
		// mirror: K op S  ==  S op' K
		switch op {
		case token.LSS:
			op = token.GTR
		case token.GTR:
			op = token.LSS
		case token.LEQ:
			op = token.GEQ
		case token.GEQ:
			op = token.LEQ
		}
	} else {
		return "", 0, 0, false
	}
	if !val { // negate
		switch op {
		case token.LSS:
			op = token.GEQ
		case token.GTR:
			op = token.LEQ
		case token.LEQ:
			op = token.GTR
		case token.GEQ:
			op = token.LSS
		case token.EQL:
			op = token.NEQ
		case token.NEQ:
			op = token.EQL
		}
	}
	lo, hi = math.MinInt64, inf
	switch op {
	case token.LSS:
		hi = k - 1
	case token.LEQ:
		hi = k
	case token.GTR:
		lo = k + 1
	case token.GEQ:
		lo = k
	case token.EQL:
		lo, hi = k, k
	default:
		return "", 0, 0, false
	}
	return r.P.Canon(fn, subj), lo, hi, true
}

// pathInterval intersects the intervals the guards before index upto imply for subject.
func (r *Run) pathInterval(path *Path, upto int, subject string) (lo, hi int64, seen bool) {
	lo, hi = math.MinInt64, inf
	for j := 0; j < upto && j < len(path.Events); j++ {
		ev := path.Events[j]
		if ev.Kind != EvGuard || ev.Cond == nil || (ev.GKind != GIf && ev.GKind != GFor) {
			continue
		}
		s, l, h, ok := r.guardInterval(ev.Fn, ev.Cond, ev.Val)
		if !ok || s != subject {
			continue
		}
		seen = true
		if l > lo {
			lo = l
		}
		if h < hi {
			hi = h
		}
	}
	return
}

// ruleCustomMessage (H1, H4): the size limit is exact on both sides and the body travels untouched.
func ruleCustomMessage(r *Run) {
	m := r.M()
	if r.broken() {
		return
	}
	var hi *HandlerInfo
	for _, h := range m.Handlers {
		if cname(h.Const) == "MSG_TYPE_CUSTOM_MESSAGE" {
			hi = h
		}
	}
	if hi == nil || hi.ReqVar == nil {
		r.Undecide("H1", "custom message handler not found")
		return
	}
	fn := hi.Fn
	req := "var:req"
	body := "len(" + req + ".Body)"
	const limit = 10240
	paths := r.Paths(fn)
	r.Analysed(fn, len(paths))
	nRelay, nRefuse := 0, 0
	for pi := range paths {
		path := &paths[pi]
		r.at(path)
		for i, ev := range path.Events {
			if r.isRelay(ev) {
				nRelay++
				lo, hiV, seen := r.pathInterval(path, i, body)
				if lo < 0 {
					lo = 0
				}
				r.CheckT("H1", fn.Name+":relay-within-limit", seen && lo == 0 && hiV == limit, ev.Pos, path,
					"a custom message is relayed exactly when its body has 0..%d bytes (path allows %s)", limit, ivStr(lo, hiV, seen))
				ml := r.relayMsg(ev)
				if !r.CheckT("H4", fn.Name+":built-from-request", ml != nil, ev.Pos, path, "the relayed message is built on this path (a literal whose fields can be traced to the request and the sender); a message object reused across requests can carry stale fields") {
					continue
				}
				bx := litField(ml.Lit, "Body")
				r.CheckT("H4", fn.Name+":body", bx != nil && r.P.Canon(ml.Fn, bx) == req+".Body", ev.Pos, path, "the relayed body is the request's body, untouched")
				px := litField(ml.Lit, "ParticipantId")
				r.CheckT("H4", fn.Name+":stamp", px != nil && r.P.Canon(ml.Fn, px) == "recv.currentParticipant.ID", ev.Pos, path, "the relay is stamped with the sender's participant id")
				r.CheckT("H4", fn.Name+":class", ml.TypeConstName() == "MSG_TYPE_CUSTOM_MESSAGE_BROADCAST", ev.Pos, path, "the relay is a custom-message broadcast")
				// routing
				g := r.guardMap(&Path{Fn: fn, Events: path.Events[:i]})
				named := g["zero:len("+req+".ParticipantIds)"]
				switch {
				case ev.Callee == m.BroadcastTo:
					last := ev.Call.Args[len(ev.Call.Args)-1]
					r.CheckT("H4", fn.Name+":targeted", named == "nonzero" && ev.Call.Ellipsis.IsValid() && r.P.Canon(ev.Fn, last) == req+".ParticipantIds", ev.Pos, path,
						"a message naming recipients goes to exactly the named ids")
				default:
					r.CheckT("H4", fn.Name+":untargeted", named == "zero", ev.Pos, path, "a message naming nobody goes to every other member")
				}
			}
		}
		for _, a := range r.answersOn(path) {
			if a.Kind != "error" {
				continue
			}
			code := r.codeOnPath(path, a.Idx, a.Lit)
			if code == nil || cname(code) != "ERROR_CODE_TOO_LARGE" {
				continue
			}
			nRefuse++
			lo, hiV, seen := r.pathInterval(path, a.Idx, body)
			r.CheckT("H1", fn.Name+":refuse-over-limit", seen && lo == limit+1 && hiV == inf, a.Ev.Pos, path,
				"a custom message is refused as too large exactly when its body has more than %d bytes (path allows %s)", limit, ivStr(lo, hiV, seen))
		}
	}
	r.Check("H1", fn.Name+":both-sides", nRelay >= 2 && nRefuse >= 1, fn.Body.Pos(), "the handler has relaying paths and a too-large refusal (%d, %d)", nRelay, nRefuse)
}

func ivStr(lo, hi int64, seen bool) string {
	if !seen {
		return "no bound at all"
	}
	l, h := fmt.Sprint(lo), fmt.Sprint(hi)
	if lo == math.MinInt64 {
		l = "-inf"
	}
	if hi == inf {
		h = "+inf"
	}
	return "[" + l + "," + h + "]"
}

// ruleLatencyStart (H2, I2 part): preconditions and bindings of a signed-latency measurement.
func ruleLatencyStart(r *Run) {
	if r.broken() {
		return
	}
	r.measurementObjectFresh()
	fn := r.modelFunc("websocket.(*RealtimeHandler).HandleSignedLatency")
	start := r.fn(pkgModels, "SignedLatency", "Start")
	if fn == nil || start == nil {
		return
	}
	paths := r.Paths(fn)
	r.Analysed(fn, len(paths))
	n := 0
	for pi := range paths {
		path := &paths[pi]
		r.at(path)
		i := idxOfCall(path, start, 0)
		if i < 0 {
			continue
		}
		n++
		ev := path.Events[i]
		lo, hi, seen := r.pathInterval(path, i, "var:req.IterationCount")
		r.CheckT("H2", fn.Name+":rounds", seen && lo == 3 && hi == 50, ev.Pos, path, "a measurement is started only for 3..50 rounds (path allows %s)", ivStr(lo, hi, seen))
		g := r.guardMap(&Path{Fn: fn, Events: path.Events[:i]})
		r.CheckT("H2", fn.Name+":wallet", g["zero:var:req.WalletAddress"] == "nonzero", ev.Pos, path, "a measurement is started only with a wallet address")
		r.CheckT("H2", fn.Name+":joined", g["joined:currentParticipant"] == "yes", ev.Pos, path, "a measurement is started only for a joined participant")
		r.CheckT("H2", fn.Name+":own-state", r.P.Canon(ev.Fn, ev.Recv) == "recv.currentParticipant.SignedLatency", ev.Pos, path, "the measurement state is the requesting participant's own")
		want := []string{"recv.PrivateKey", "param:#1", "var:req.RequestId", "var:req.IterationCount", "recv.currentSession.SessionUUID", "recv.clientID", "var:req.WalletAddress"}
		okArgs := len(ev.Call.Args) == len(want)
		var got []string
		for k, a := range ev.Call.Args {
			c := r.P.Canon(fn, a)
			got = append(got, c)
			if okArgs && c != want[k] {
				okArgs = false
			}
		}
		r.CheckT("I2", fn.Name+":bindings", okArgs, ev.Pos, path,
			"the measurement is bound to the server key, the requester's responder and request id, the requested round count, the session UUID, the client id and the wallet (got %v)", got)
	}
	r.Check("H2", fn.Name+":has-start", n >= 1, fn.Body.Pos(), "the handler has an accepting path")
	// clientID comes from the connection's own header
	hc := r.modelFunc("websocket.(*RealtimeHandler).HandleConnect")
	if hc != nil {
		okID, seen, got := true, false, ""
		idVar := r.P.LookupField(pkgWS, "RealtimeHandler", "clientID")
		paths := r.Paths(hc)
		for pi := range paths {
			p := &paths[pi]
			r.at(p)
			for _, ev := range p.Events {
				// h.client = clientIdentity{id: …} (directly or from a builder): the part that plays the client id
				if ev.Kind == EvAssign && len(ev.Lhs) == 1 && len(ev.Rhs) == 1 && idVar != nil {
					if lit, lfn := r.P.compositeOfIn(ev.Fn, ev.Rhs[0]); lit != nil && lfn != nil {
						for _, el := range lit.Elts {
							kv, isKV := el.(*ast.KeyValueExpr)
							if !isKV {
								continue
							}
							if kid, isID := kv.Key.(*ast.Ident); isID && lfn.Info().Uses[kid] == types.Object(idVar) {
								c := r.P.Canon(lfn, kv.Value)
								seen = true
								if !reClientIDHeader.MatchString(c) {
									okID, got = false, c
								}
							}
						}
					}
				}
				if ev.Kind == EvAssign && len(ev.Lhs) == 1 && len(ev.Rhs) == 1 && r.P.Canon(ev.Fn, ev.Lhs[0]) == "recv.clientID" {
					c := r.P.Canon(ev.Fn, ev.Rhs[0])
					seen = true
					// the header value itself: no trimming, cutting, folding or defaulting on the way
					if !reClientIDHeader.MatchString(c) {
						okID, got = false, c
					}
				}
			}
		}
		r.Check("I2", hc.Name+":client-id", okID && seen, hc.Body.Pos(), "the client id bound into latency reports is, verbatim, the id the connection presented in its client-id header (%s)", got)
	}
}

var reClientIDHeader = regexp.MustCompile(`^param:#0\.call:Conn\.Request\(\)\.Header\.call:Header\.Get\([^()]*HeaderPosemeshClientID\)$`)

// ruleEntityActions (H3) and module state keying (C16).
func ruleEntityActions(r *Run) {
	if r.broken() {
		return
	}
	fn := r.modelFunc("modules/vikja.(*Module).handleSetEntityAction")
	set := r.fn(repoMod+"/modules/vikja", "State", "SetEntityAction")
	get := r.fn(repoMod+"/modules/vikja", "State", "EntityAction")
	if fn == nil || set == nil || get == nil {
		return
	}
	paths := r.Paths(fn)
	r.Analysed(fn, len(paths))
	ea := "var:req.EntityAction"
	nSet, nStale := 0, 0
	for pi := range paths {
		path := &paths[pi]
		r.at(path)
		iGet := idxOfCall(path, get, 0)
		getName := "EntityAction"
		if iGet < 0 {
			// the stored action consulted through another lookup of the state with the same key (entity id, name),
			// whatever it returns (a small struct with the action and a found flag)
			for i, ev := range path.Events {
				if ev.Kind != EvCall || ev.Call == nil || len(ev.Call.Args) != 2 {
					continue
				}
				f, ok := ev.Callee.(*types.Func)
				if !ok || f.Pkg() == nil || f.Pkg().Path() != repoMod+"/modules/vikja" || f == set {
					continue
				}
				sig := f.Type().(*types.Signature)
				if sig.Recv() == nil || sig.Params().Len() != 2 || sig.Results().Len() == 0 {
					continue
				}
				if nt, ok := derefNamed(sig.Recv().Type()); !ok || nt.Obj().Name() != "State" {
					continue
				}
				if b0, ok := sig.Params().At(0).Type().Underlying().(*types.Basic); !ok || b0.Kind() != types.Uint32 {
					continue
				}
				if b1, ok := sig.Params().At(1).Type().Underlying().(*types.Basic); !ok || b1.Kind() != types.String {
					continue
				}
				iGet, getName = i, f.Name()
				break
			}
		}
		iSet := idxOfCall(path, set, 0)
		if iGet < 0 {
			r.CheckT("H3", fn.Name+":no-store-without-lookup", iSet < 0, fn.Body.Pos(), path, "an action is stored only after the stored one was consulted")
			// … and not refused on a count or size before it was consulted: whether a request replaces a stored
			// action (which a newer one always may) is not known yet
			for _, a := range r.answersOn(path) {
				if a.Kind != "error" {
					continue
				}
				reason := r.refusalReason(path, a.Idx)
				r.CheckT("H3", fn.Name+":refused-before-lookup", !strings.HasPrefix(reason, "range:") && !strings.HasPrefix(reason, "size:"), path.Events[a.Idx].Pos, path,
					"an entity action is refused on %s before the stored action for its (entity, name) was consulted: a request that would replace a stored action with a newer one is refused too, and newcomers keep being handed the old one", reason)
			}
			continue
		}
		gev := path.Events[iGet]
		okKey := len(gev.Call.Args) == 2 && r.P.Canon(gev.Fn, gev.Call.Args[0]) == ea+".EntityId" && r.P.Canon(gev.Fn, gev.Call.Args[1]) == ea+".Name" && r.P.Canon(gev.Fn, gev.Recv) == "recv.state"
		r.CheckT("H3", fn.Name+":lookup-key", okKey, gev.Pos, path, "the stored action is looked up by the request's (entity id, action name)")
		stored, older := "", ""
		for j := iGet; j < len(path.Events); j++ {
			if path.Events[j].Kind != EvGuard {
				continue
			}
			g := r.Classify(path, j)
			if g.Callee == get && strings.HasPrefix(g.Subject, "lookup:") {
				stored = g.Outcome
			}
			// … or a boolean read off what the lookup returned (latest.found)
			if stored == "" && path.Events[j].Cond != nil {
				cx := ast.Unparen(path.Events[j].Cond)
				switch cx.(type) {
				case *ast.Ident, *ast.SelectorExpr:
					if cc := r.P.Canon(path.Events[j].Fn, cx); strings.Contains(cc, "call:State."+getName+"(") || strings.HasPrefix(cc, "recv.state.entityActions[") {
						if path.Events[j].Val {
							stored = "hit"
						} else {
							stored = "miss"
						}
					}
				}
			}
			if strings.HasPrefix(g.Subject, "timelt:") {
				parts := strings.SplitN(strings.TrimPrefix(g.Subject, "timelt:"), "<", 2)
				a, b := parts[0], parts[1]
				// the other side is the stored action's timestamp: what the lookup returned, or (the lookup looked into)
				// the element of the state's table it read
				fromState := func(c string) bool {
					return !strings.HasPrefix(c, ea) && strings.Contains(c, ".Timestamp") && (strings.Contains(c, "call:State."+getName+"(") || strings.HasPrefix(c, "recv.state.entityActions["))
				}
				newFirst := strings.Contains(a, ea+".Timestamp") && fromState(b)
				oldFirst := strings.Contains(b, ea+".Timestamp") && fromState(a)
				switch {
				case newFirst: // new < stored
					older = g.Outcome
				case oldFirst: // stored < new : "new is older" cannot be derived from this alone
					older = "reversed:" + g.Outcome
				default:
					older = "unrelated"
				}
			}
		}
		refusedStale := false
		for _, a := range r.answersOn(path) {
			if a.Kind == "error" && r.refusalReason(path, a.Idx) == "stale" {
				refusedStale = true
			}
		}
		isStale := stored == "hit" && older == "true"
		switch {
		case strings.HasPrefix(older, "reversed") || older == "unrelated":
			r.CheckT("H3", fn.Name+":comparison", false, fn.Body.Pos(), path, "the freshness test is not 'new timestamp strictly before stored timestamp' (%s)", older)
		case isStale:
			nStale++
			r.CheckT("H3", fn.Name+":stale-refused", refusedStale && iSet < 0, fn.Body.Pos(), path, "an action strictly older than the stored one is refused and not stored")
		default:
			nSet++
			okArg := iSet >= 0 && r.P.Canon(path.Events[max0(iSet)].Fn, path.Events[max0(iSet)].Call.Args[0]) == ea
			r.CheckT("H3", fn.Name+":latest-wins", okArg && !refusedStale, fn.Body.Pos(), path,
				"an action with an equal or newer timestamp (or the first for its key) replaces the stored one (stored=%q older=%q)", stored, older)
		}
	}
	r.Check("H3", fn.Name+":cases", nSet >= 2 && nStale >= 1, fn.Body.Pos(), "the handler has first-store, replace and stale-refusal paths (%d storing, %d stale)", nSet, nStale)

	// state keying
	if sf := r.P.Funcs[set]; sf != nil {
		for pi, path := range r.Paths(sf) {
			r.at(&path)
			_ = pi
			var leafOK bool
			for _, op := range r.mapOps(sf, &path) {
				if op.Kind == "write" && op.Key == "param:#0.Name" && op.Val == "param:#0" && strings.Contains(op.Map, "recv.entityActions[param:#0.EntityId]") {
					leafOK = true
				}
				if op.Kind == "write" && op.Key == "param:#0.Name" && op.Val == "param:#0" && strings.HasPrefix(op.Map, "local:") {
					leafOK = true // inner map variable defined on both branches from recv.entityActions[ea.EntityId]
				}
				if op.Kind == "delete" {
					r.CheckT("S-Actions", sf.Name+":no-delete", false, sf.Body.Pos(), &path, "storing an action deletes state")
				}
			}
			r.CheckT("S-Actions", sf.Name+":keyed", leafOK, sf.Body.Pos(), &path, "actions are stored under (entity id, name)")
		}
		r.Analysed(sf, 1)
		// the inner map comes from entityActions[ea.EntityId] on every definition
		ok := true
		for obj, sites := range sf.Defs().sites {
			if obj.Name() != "entityActions" {
				continue
			}
			for _, s := range sites {
				c := ""
				if s.rhs != nil {
					c = r.P.Canon(sf, s.rhs)
				}
				if !(c == "recv.entityActions[param:#0.EntityId]" || strings.HasPrefix(c, "make(")) {
					ok = false
				}
			}
		}
		r.Check("S-Actions", sf.Name+":inner-map", ok, sf.Body.Pos(), "the per-entity action map is the one stored under the action's entity id")
	}
	if gf := r.P.Funcs[get]; gf != nil {
		r.Analysed(gf, 1)
		for _, path := range r.Paths(gf) {
			r.at(&path)
			ret := r.retCanon(gf, &path)
			g := r.guardMap(&path)
			if g["maplookup:recv.entityActions[param:#0]"] == "hit" {
				r.CheckT("S-Actions", gf.Name+":read", len(ret) == 2 && ret[0] == "recv.entityActions[param:#0][param:#1]", gf.Body.Pos(), &path, "lookup reads (entity id, name) (returns %v)", ret)
			}
		}
	}
	if rm := r.modelFunc("modules/vikja.(*State).RemoveEntityActions"); rm != nil {
		r.Analysed(rm, 1)
		for _, path := range r.Paths(rm) {
			r.at(&path)
			ops := r.mapOps(rm, &path)
			r.CheckT("S-Actions", rm.Name+":removes", len(ops) == 1 && ops[0].Kind == "delete" && ops[0].Map == "recv.entityActions" && ops[0].Key == "param:#0", rm.Body.Pos(), &path, "removing an entity's actions deletes its whole entry")
		}
	}
	if ls := r.modelFunc("modules/vikja.(*State).EntityActions"); ls != nil {
		r.checkListing(ls, "rangeval(recv.entityActions)", "S-Actions")
	}
	// odal: one asset instance per entity, fresh id. Every write of State.assetInstances, whoever
	// makes it, stores the instance under its own entity id.
	odalPkg := repoMod + "/modules/odal"
	aiField := r.P.LookupField(odalPkg, "State", "assetInstances")
	if aiField == nil {
		r.Undecide("S-Assets", "field odal.State.assetInstances not found")
		return
	}
	writers := map[*Func]bool{}
	nW := 0
	for _, w := range r.writesOfField("S-Assets", aiField) {
		r.at(w.Path)
		if w.Kind != "write" {
			continue
		}
		if w.Depth == 0 {
			// (re)initialisation of the whole map: only an empty map, only while it is nil
			continue
		}
		writers[w.Top] = true
		nW++
		want := r.fieldOfValue(w.Fn, w.Val, "EntityId")
		ok := w.Depth == 1 && len(w.Keys) == 1 && w.Keys[0] == want && want != "" && want != "zero"
		r.CheckT("S-Assets", w.Top.Name+":keyed", ok, w.Path.Events[w.Idx].Pos, w.Path,
			"an asset instance is stored under its own entity id, so that an entity carries at most one (stored under %v, the instance's entity id is %s)", w.Keys, want)
	}
	r.Floor("S-Assets", "writes of odal.State.assetInstances", nW, 1)
	for sf := range writers {
		r.Analysed(sf, 1)
	}
	if rm := r.modelFunc("modules/odal.(*State).RemoveAssetInstance"); rm != nil {
		r.Analysed(rm, 1)
		for _, path := range r.Paths(rm) {
			r.at(&path)
			ops := r.mapOps(rm, &path)
			r.CheckT("S-Assets", rm.Name+":removes", len(ops) == 1 && ops[0].Kind == "delete" && ops[0].Map == "recv.assetInstances" && ops[0].Key == "param:#0", rm.Body.Pos(), &path, "removing an entity's asset deletes its entry")
		}
	}
	if ls := r.modelFunc("modules/odal.(*State).AssetInstances"); ls != nil {
		r.checkListing(ls, "recv.assetInstances", "S-Assets")
	}
	if af := r.modelFunc("modules/odal.(*Module).handleAssetInstanceAdd"); af != nil {
		// what the writers store, per writer: the value written (a parameter or a literal built there)
		type stored struct {
			w fieldWrite
		}
		byWriter := map[*types.Func]fieldWrite{}
		for _, w := range r.writesOfField("S-Assets", aiField) {
			if w.Kind == "write" && w.Depth == 1 && w.Top.Obj != nil {
				byWriter[w.Top.Obj] = w
			}
		}
		want := map[string]string{"Id": "recv.state.call:State.NewAssetInstanceID()", "AssetId": "var:req.AssetId", "ParticipantId": "recv.currentParticipant.ID"}
		nAccepted := 0
		for _, path := range r.Paths(af) {
			r.at(&path)
			accepted := false
			for _, ev := range path.Events {
				if ev.Kind == EvCall && r.isSendCall(ev) {
					if ml := r.sendMsg(ev); ml != nil && strings.HasSuffix(ml.TypeConstName(), "ASSET_INSTANCE_ADD_RESPONSE") {
						accepted = true
					}
				}
			}
			iW := -1
			var wr fieldWrite
			for i, ev := range path.Events {
				if ev.Kind != EvCall {
					continue
				}
				if f, ok := ev.Callee.(*types.Func); ok {
					if w, isW := byWriter[f]; isW {
						iW, wr = i, w
						break
					}
				}
			}
			if !accepted {
				continue
			}
			nAccepted++
			if iW < 0 {
				// no call to a writer: the write itself may be on the path, inside looked-into glue
				okDirect := false
				for wi, wev := range path.Events {
					if wev.Kind != EvAssign || len(wev.Lhs) != len(wev.Rhs) {
						continue
					}
					for k, l := range wev.Lhs {
						if _, isIdx := ast.Unparen(l).(*ast.IndexExpr); !isIdx {
							continue
						}
						f, keys := r.baseField(wev.Fn, &path, wi, l)
						if f != aiField || len(keys) != 1 {
							continue
						}
						got := map[string]string{}
						if lit, lfn := r.P.compositeOfIn(wev.Fn, wev.Rhs[k]); lit != nil {
							for _, fld := range []string{"Id", "AssetId", "ParticipantId", "EntityId"} {
								got[fld] = r.P.Canon(lfn, litField(lit, fld))
							}
						}
						ok := len(got) == 4
						var gl []string
						for fld, wv := range want {
							gl = append(gl, fld+"="+got[fld])
							if got[fld] != wv {
								ok = false
							}
						}
						sort.Strings(gl)
						if !strings.Contains(got["EntityId"], "call:Session.EntityByID(var:req.EntityId)#0.ID") {
							ok = false
						}
						okDirect = true
						r.CheckT("D5", af.Name+":instance", ok, wev.Pos, &path, "the new asset instance gets a fresh id from the state's generator, the request's asset id, the requester's id and the looked-up entity's id (%v entity=%s)", gl, got["EntityId"])
					}
				}
				if okDirect {
					continue
				}
			}
			if iW < 0 {
				r.CheckT("D5", af.Name+":accepted-stores", false, af.Body.Pos(), &path, "an accepted asset-instance add stores the instance in the session's odal state (no call to a function that writes State.assetInstances on this path)")
				continue
			}
			ev := path.Events[iW]
			got := map[string]string{}
			if k := paramPos(wr.ValC); k >= 0 && k < len(ev.Call.Args) {
				// the writer stores its argument: the instance is built by the handler
				if lit, lfn := r.P.compositeOfIn(ev.Fn, ev.Call.Args[k]); lit != nil {
					for _, f := range []string{"Id", "AssetId", "ParticipantId", "EntityId"} {
						got[f] = r.P.Canon(lfn, litField(lit, f))
					}
				}
			} else if lit, lfn := r.P.compositeOfIn(wr.Fn, wr.Val); lit != nil {
				// the writer builds the instance from its own parameters: substitute the handler's arguments
				recvC := r.P.Canon(ev.Fn, ev.Recv)
				var args []string
				for _, a := range ev.Call.Args {
					args = append(args, r.P.Canon(ev.Fn, a))
				}
				for _, f := range []string{"Id", "AssetId", "ParticipantId", "EntityId"} {
					r.at(wr.Path)
					c := r.P.Canon(lfn, litField(lit, f))
					r.at(&path)
					got[f] = substCanon(c, recvC, args)
				}
			}
			ok := len(got) == 4
			var gl []string
			for f, w := range want {
				gl = append(gl, f+"="+got[f])
				if got[f] != w {
					ok = false
				}
			}
			sort.Strings(gl)
			if !strings.Contains(got["EntityId"], "call:Session.EntityByID(var:req.EntityId)#0.ID") {
				ok = false
			}
			r.CheckT("D5", af.Name+":instance", ok, ev.Pos, &path, "the new asset instance gets a fresh id from the state's generator, the request's asset id, the requester's id and the looked-up entity's id (%v entity=%s)", gl, got["EntityId"])
		}
		r.Check("D5", af.Name+":has-accepting-path", nAccepted >= 1, af.Body.Pos(), "the asset-instance add handler has an accepting path")
		r.Analysed(af, 1)
	}
}

// paramPos: index i of a canonical form "param:#i", or -1.
func paramPos(c string) int {
	if !strings.HasPrefix(c, "param:#") {
		return -1
	}
	n, err := strconv.Atoi(strings.TrimPrefix(c, "param:#"))
	if err != nil {
		return -1
	}
	return n
}

var reParam = regexp.MustCompile(`param:#(\d+)`)

// substCanon rewrites a canonical form of a callee (receiver "recv", positional parameters) into
// the caller's terms.
func substCanon(c, recv string, args []string) string {
	if c == "recv" {
		return recv
	}
	if strings.HasPrefix(c, "recv.") && recv != "" {
		c = recv + c[len("recv"):]
	}
	return reParam.ReplaceAllStringFunc(c, func(m string) string {
		k, _ := strconv.Atoi(strings.TrimPrefix(m, "param:#"))
		if k < len(args) {
			return args[k]
		}
		return m
	})
}

func max0(i int) int {
	if i < 0 {
		return 0
	}
	return i
}

// ruleSnapshot (C7): what a newcomer is handed.
func ruleSnapshot(r *Run) {
	m := r.M()
	if r.broken() {
		return
	}
	var join *HandlerInfo
	for _, h := range m.Handlers {
		if cname(h.Const) == "MSG_TYPE_PARTICIPANT_JOIN_REQUEST" && h.Module == nil {
			join = h
		}
	}
	if join == nil {
		r.Undecide("C7", "join handler not found")
		return
	}
	fn := join.Fn
	addP := r.fn(pkgModels, "Session", "AddParticipant")
	paths := r.Paths(fn)
	r.Analysed(fn, len(paths))
	n := 0
	for pi := range paths {
		path := &paths[pi]
		r.at(path)
		for i, ev := range path.Events {
			if !r.isSendCall(ev) {
				continue
			}
			ml := r.sendMsg(ev)
			if ml == nil || ml.TypeConstName() != "MSG_TYPE_SESSION_STATE" {
				continue
			}
			n++
			iAdd := idxOfCall(path, addP, 0)
			r.CheckT("C7", fn.Name+":registered-before-snapshot", iAdd >= 0 && iAdd < i, ev.Pos, path, "the newcomer is a member before the snapshot is read (so no concurrent change is missed by both snapshot and relay)")
			// … and that holds for every read that feeds the snapshot, wherever the value is kept until it is sent:
			// a listing of the session's participants, entities or components taken before the registration
			// misses what is added in between (and the relay of that addition does not reach the newcomer either)
			for j := 0; j < i && iAdd >= 0; j++ {
				pe := path.Events[j]
				if pe.Kind != EvCall {
					continue
				}
				f, ok := pe.Callee.(*types.Func)
				if !ok {
					continue
				}
				switch funcName(f) {
				case "models.(*Session).Entities", "models.(*Session).GetParticipants", "models.(*EntityComponentStore).ListAll":
					r.CheckT("C7", fn.Name+":reads-after-registration["+shortFuncName(f)+"]", j > iAdd, pe.Pos, path,
						"%s is read for the snapshot before the newcomer is registered in the session: an entity, participant or component added in between is in neither the snapshot nor a relay the newcomer receives", shortFuncName(f))
				}
			}
			get := func(f string) string {
				x := litField(ml.Lit, f)
				if x == nil {
					return ""
				}
				return r.P.Canon(ml.Fn, x)
			}
			// the session being joined: the receiver of AddParticipant on this path
			sess := ""
			if iAdd >= 0 && r.isJoinLocalSession(path.Events[iAdd].Fn, path.Events[iAdd].Recv) {
				sess = r.P.Canon(path.Events[iAdd].Fn, path.Events[iAdd].Recv)
			}
			okP := get("Participants") == "call:models.ParticipantsToProtobuf("+sess+".call:Session.GetParticipants())"
			okE := get("Entities") == "call:models.EntitiesToProtobuf("+sess+".call:Session.Entities())"
			okC := get("EntityComponents") == sess+".entityComponents.call:EntityComponentStore.ListAll()"
			r.CheckT("C7", fn.Name+":snapshot-content", okP && okE && okC && sess != "", ev.Pos, path,
				"the snapshot lists all participants, all entities and all components of the session being joined (participants=%q entities=%q components=%q)", get("Participants"), get("Entities"), get("EntityComponents"))
			// answered first, to the joiner
			r.CheckT("C7", fn.Name+":to-joiner", r.P.Canon(ev.Fn, ev.Recv) == "param:#2", ev.Pos, path, "the snapshot goes to the joining connection")
		}
	}
	r.Floor("C7", "snapshot emissions on join paths", n, 1)
	for _, q := range []struct{ name, over string }{
		{"models.(*Session).GetParticipants", "recv.participants"},
		{"models.(*Session).Entities", "recv.entities"},
	} {
		if lf := r.modelFunc(q.name); lf != nil {
			r.checkListing(lf, q.over, "C7")
		}
	}
	// element-wise serialisers
	for _, q := range []struct{ name, elem string }{
		{"models.EntitiesToProtobuf", "Entity.ToProtobuf"},
		{"models.ParticipantsToProtobuf", "Participant.ToProtobuf"},
	} {
		sf := r.modelFunc(q.name)
		if sf == nil {
			continue
		}
		r.Analysed(sf, 1)
		param := "#0"
		iter := 0
		for _, path := range r.Paths(sf) {
			r.at(&path)
			r.loopsComplete("C7", sf, &path)
			for _, op := range r.mapOps(sf, &path) {
				iter++
				okEl := op.Kind == "write" && op.Key == "rangekey(param:"+param+")" && op.Val == "rangeval(param:"+param+").call:"+q.elem+"()"
				if !okEl && op.Kind == "write" && strings.HasPrefix(op.Key, "local:") {
					// for i := 0; i < len(in); i++ { out[i] = in[i].ToProtobuf() }
					g := r.guardMap(&path)
					_, bounded := g["cmp:"+op.Key+"<len(param:"+param+")"]
					okEl = bounded && op.Val == "param:"+param+"["+op.Key+"].call:"+q.elem+"()"
				}
				r.CheckT("C7", sf.Name+":elementwise", okEl, sf.Body.Pos(), &path, "every element is serialised into its own slot")
			}
			ret := r.retCanon(sf, &path)
			r.CheckT("C7", sf.Name+":length", len(ret) == 1 && strings.HasPrefix(ret[0], "make(") && strings.Contains(ret[0], "len(param:"+param+")"), sf.Body.Pos(), &path, "the result has one slot per element (%v)", ret)
		}
		r.Check("C7", sf.Name+":iterates", iter >= 1, sf.Body.Pos(), "the serialiser iterates its argument")
	}
	// Entity.ToProtobuf carries id, owner, flag and the current pose; the add relay uses the same serialiser
	if tf := r.modelFunc("models.(*Entity).ToProtobuf"); tf != nil {
		r.Analysed(tf, 1)
		for _, path := range r.Paths(tf) {
			r.at(&path)
			for _, ev := range path.Events {
				if ev.Kind != EvReturn || ev.Depth != 0 {
					continue
				}
				lit, lfn := r.P.compositeOfIn(tf, ev.Results[0])
				ok := lit != nil
				detail := "no literal"
				if ok {
					detail = ""
					want := map[string]string{"Id": "recv.ID", "ParticipantId": "recv.ParticipantID", "Flag": "recv.Flag", "Pose": "recv.pose.call:Pose.ToProtobuf()"}
					for f, w := range want {
						if got := r.P.Canon(lfn, litField(lit, f)); got != w {
							ok = false
							detail += f + "=" + got + " "
						}
					}
				}
				r.CheckT("C7", tf.Name+":fields", ok, tf.Body.Pos(), &path, "an entity is serialised with its id, creator, flag and current pose (%s)", detail)
			}
		}
	}
	if pf := r.modelFunc("models.Pose.ToProtobuf"); pf != nil {
		r.Analysed(pf, 1)
		for _, path := range r.Paths(pf) {
			r.at(&path)
			for _, ev := range path.Events {
				if ev.Kind != EvReturn || ev.Depth != 0 {
					continue
				}
				lit := r.P.compositeOf(pf, ev.Results[0])
				ok := lit != nil && len(lit.Elts) == 7
				if ok {
					for _, el := range lit.Elts {
						kv := el.(*ast.KeyValueExpr)
						k := kv.Key.(*ast.Ident).Name
						if r.P.Canon(pf, kv.Value) != "recv."+strings.ToUpper(k) {
							ok = false
						}
					}
				}
				r.CheckT("C7", pf.Name+":fields", ok, pf.Body.Pos(), &path, "a pose is serialised component by component")
			}
		}
	}
	// entity-add relay and pose relay
	for _, h := range m.Handlers {
		for _, path := range r.Paths(h.Fn) {
			r.at(&path)
			for _, ev := range path.Events {
				if !r.isRelay(ev) {
					continue
				}
				ml := r.relayMsg(ev)
				switch ml.TypeConstNameOr("") {
				case "MSG_TYPE_ENTITY_ADD_BROADCAST":
					c := r.P.Canon(ml.Fn, litField(ml.Lit, "Entity"))
					r.CheckT("C7", h.Fn.Name+":add-relay-serialiser", strings.HasPrefix(c, "&lit:models.Entity@") && strings.HasSuffix(c, ".call:Entity.ToProtobuf()"), ev.Pos, &path,
						"observers are told about a new entity through the same serialiser the snapshot uses (%s)", c)
				case "MSG_TYPE_ENTITY_UPDATE_POSE_BROADCAST":
					c := r.P.Canon(ml.Fn, litField(ml.Lit, "Pose"))
					ent := r.P.Canon(ml.Fn, litField(ml.Lit, "EntityId"))
					okPose := strings.HasSuffix(c, "#0.call:Entity.Pose().call:Pose.ToProtobuf()") && strings.HasSuffix(ent, "#0.ID") &&
						strings.TrimSuffix(c, ".call:Entity.Pose().call:Pose.ToProtobuf()") == strings.TrimSuffix(ent, ".ID")
					r.CheckT("C11-pose", h.Fn.Name+":relays-stored-pose", okPose, ev.Pos, &path, "the pose relayed is the pose just stored for that entity, read back from the entity (%s / %s)", c, ent)
				}
			}
		}
	}
	// a pose update is applied only when it carries a pose (C11: "carries no pose is dropped without any effect")
	setPose := r.P.LookupFunc(pkgModels, "Entity", "SetPose")
	for _, h := range m.Handlers {
		if cname(h.Const) != "MSG_TYPE_ENTITY_UPDATE_POSE" || h.ReqVar == nil {
			continue
		}
		nSet := 0
		for _, path := range r.Paths(h.Fn) {
			r.at(&path)
			i := idxOfCall(&path, setPose, 0)
			if i < 0 {
				continue
			}
			nSet++
			g := r.guardMap(&Path{Fn: h.Fn, Events: path.Events[:i]})
			want := "var:req.Pose"
			has := g["nil:"+want] == "nonnil" || g["zero:"+want] == "nonzero"
			r.CheckT("C11-pose", h.Fn.Name+":applied-only-with-pose", has, path.Events[i].Pos, &path,
				"a pose is stored (and relayed) on a path that never established that the update carries one: an update without pose overwrites the entity's pose with zeros instead of being dropped")
		}
		r.Check("C11-pose", h.Fn.Name+":has-apply-path", nSet >= 1, h.Fn.Body.Pos(), "the pose handler has an applying path")
	}
	// module snapshots
	for _, mi := range m.Modules {
		var jf *Func
		for _, a := range mi.Arms {
			if cname(a.Const) == "MSG_TYPE_PARTICIPANT_JOIN_REQUEST" {
				jf = a.Impl
			}
		}
		want := map[string][2]string{"modules/vikja": {"EntityActions", "recv.state.call:State.EntityActions()"}, "modules/odal": {"AssetInstances", "recv.state.call:State.AssetInstances()"}}[mi.Short]
		if want[0] == "" {
			continue
		}
		if !r.Check("C7", mi.Short+":join-arm", jf != nil, mi.HandleMsg.Body.Pos(), "module with replicated state answers a join with its state") {
			continue
		}
		r.Analysed(jf, 1)
		for _, path := range r.Paths(jf) {
			r.at(&path)
			sent := 0
			for _, ev := range path.Events {
				if r.isSendCall(ev) {
					sent++
					ml := r.sendMsg(ev)
					ok := ml != nil && r.P.Canon(jf, litField(ml.Lit, want[0])) == want[1] && r.P.Canon(ev.Fn, ev.Recv) == "param:#1"
					r.CheckT("C7", jf.Name+":content", ok, ev.Pos, &path, "the module hands the newcomer its complete current state")
				}
			}
			r.CheckT("C7", jf.Name+":once", sent == 1, jf.Body.Pos(), &path, "the module state is handed over exactly once per join")
		}
	}
}

func (r *Run) isJoinLocalSessionByName(fn *Func, name string) bool {
	for obj := range fn.Defs().sites {
		if obj.Name() == name {
			id := &ast.Ident{Name: name}
			_ = id
			sites := fn.Defs().sites[obj]
			if len(sites) == 0 {
				return false
			}
			for _, s := range sites {
				if s.kind != "assign" || s.rhs == nil {
					return false
				}
				f, _ := r.calleeOfExpr(fn, s.rhs)
				if f == nil {
					return false
				}
				switch funcName(f) {
				case "models.(*SessionStore).GetByGlobalID", "models.NewSession":
				default:
					return false
				}
			}
			return true
		}
	}
	return false
}

// ruleModuleInit (J3, J4): modules are re-bound on every join and keep the session's state.
func ruleModuleInit(r *Run) {
	m := r.M()
	if r.broken() {
		return
	}
	getState := r.fn(pkgModels, "Session", "ModuleState")
	setState := r.fn(pkgModels, "Session", "SetModuleState")
	loadOrStore := r.P.LookupFunc(pkgModels, "Session", "LoadOrStoreModuleState") // get-or-create in one critical section (contract: J4 below)
	if loadOrStore != nil {
		r.loadOrStoreContract(loadOrStore)
	}
	names := map[string]string{}
	for _, mi := range m.Modules {
		prev, dup := names[mi.Name]
		r.Check("J3", mi.Short+":name", mi.Name != "" && !dup, mi.Init.Body.Pos(), "module name %q is a constant distinct from every other module's (%s)", mi.Name, prev)
		names[mi.Name] = mi.Short
		fn := mi.Init
		sig := fn.Obj.Type().(*types.Signature)
		ps, pp := "param:#0", "param:#1"
		_ = sig
		paths := r.Paths(fn)
		r.Analysed(fn, len(paths))
		created, reused := 0, 0
		for pi := range paths {
			path := &paths[pi]
			r.at(path)
			assigned := map[string]string{}
			stateWrites := 0
			lookup := ""
			iSet := idxOfCall(path, setState, 0)
			iLos := -1
			if loadOrStore != nil {
				iLos = idxOfCall(path, loadOrStore, 0)
			}
			for i, ev := range path.Events {
				if ev.Kind == EvGuard {
					g := r.Classify(path, i)
					if g.Callee == getState {
						lookup = g.Outcome
					}
				}
				if ev.Kind == EvAssign {
					for k, l := range ev.Lhs {
						c := r.P.Canon(fn, l)
						if len(ev.Rhs) == len(ev.Lhs) && strings.HasPrefix(c, "recv.") && !strings.Contains(strings.TrimPrefix(c, "recv."), ".") {
							assigned[c] = r.P.Canon(ev.Fn, ev.Rhs[k])
						}
						if strings.HasPrefix(c, "recv.state.") || (strings.HasPrefix(c, "local:") && strings.Contains(c, ".") && r.isModuleStateLocal(fn, l)) {
							stateWrites++
							if lookup == "hit" {
								r.CheckT("J4", fn.Name+":retention["+c+"]", false, ev.Pos, path,
									"joining a session whose module state already exists overwrites %s: what earlier members stored is lost", c)
							}
						}
					}
				}
			}
			r.CheckT("J3", fn.Name+":rebind", assigned["recv.currentSession"] == ps && assigned["recv.currentParticipant"] == pp, fn.Body.Pos(), path,
				"Init binds the module to the session and participant it is given (session=%q participant=%q)", assigned["recv.currentSession"], assigned["recv.currentParticipant"])
			st := assigned["recv.state"]
			okState := strings.Contains(st, "call:Session.ModuleState(")
			if !okState && iLos >= 0 {
				// get-or-create: the state bound is what the session says is registered
				okState = strings.Contains(st, "call:Session.LoadOrStoreModuleState(")
			}
			if !okState && iSet >= 0 && len(path.Events[iSet].Call.Args) == 2 {
				// creating path: the state bound is the very object just registered in the session
				reg := r.P.Canon(path.Events[iSet].Fn, path.Events[iSet].Call.Args[1])
				okState = reg != "" && strings.HasPrefix(st, reg)
			}
			r.CheckT("J3", fn.Name+":state-from-session", okState, fn.Body.Pos(), path, "the module's state is the one registered in the session under the module's name (%q)", st)
			// what Init offers to the session as a new state is a fresh object, never one the module already
			// holds (a connection that switches sessions would register the old session's state in the new one)
			for _, iReg := range []int{iLos, iSet} {
				if iReg < 0 || len(path.Events[iReg].Call.Args) != 2 {
					continue
				}
				cand := r.P.Canon(path.Events[iReg].Fn, path.Events[iReg].Call.Args[1])
				r.CheckT("J3", fn.Name+":fresh-candidate", !strings.Contains(cand, "recv.") && cand != "nil" && cand != "", path.Events[iReg].Pos, path,
					"the state Init registers in the session when none exists is created for that purpose (%q): a state the module carries over from an earlier join belongs to another session", cand)
			}
			iGet := idxOfCall(path, getState, 0)
			if iGet >= 0 {
				gev := path.Events[iGet]
				r.CheckT("J3", fn.Name+":state-key", r.P.Canon(gev.Fn, gev.Recv) == ps && r.P.Canon(gev.Fn, gev.Call.Args[0]) == "recv.call:Module.Name()", gev.Pos, path, "the state is looked up in the given session under the module's own name")
			}
			switch lookup {
			case "hit":
				reused++
				r.CheckT("J4", fn.Name+":reuse", iSet < 0, fn.Body.Pos(), path, "an existing module state is kept (not replaced) when another participant joins")
			case "miss":
				created++
				iReg := iSet
				if iReg < 0 {
					iReg = iLos
				}
				okSet := iReg >= 0 && r.P.Canon(path.Events[max0(iReg)].Fn, path.Events[max0(iReg)].Recv) == ps && r.P.Canon(path.Events[max0(iReg)].Fn, path.Events[max0(iReg)].Call.Args[0]) == "recv.call:Module.Name()"
				r.CheckT("J3", fn.Name+":create", okSet, fn.Body.Pos(), path, "a missing module state is created and registered in the session under the module's name")
			default:
				// no separate lookup: a single get-or-create call decides both cases inside the session
				okLos := iLos >= 0 && iSet < 0 && r.P.Canon(path.Events[max0(iLos)].Fn, path.Events[max0(iLos)].Recv) == ps && r.P.Canon(path.Events[max0(iLos)].Fn, path.Events[max0(iLos)].Call.Args[0]) == "recv.call:Module.Name()"
				if okLos {
					created++
					reused++
				}
				r.CheckT("J3", fn.Name+":get-or-create", okLos, fn.Body.Pos(), path, "Init is not decided by the lookup of the module state")
			}
		}
		r.Check("J3", fn.Name+":cases", created >= 1 && reused >= 1, fn.Body.Pos(), "Init has a creating and a reusing path")
	}
	r.Floor("J3", "modules", len(m.Modules), 3)
}

// loadOrStoreContract (J4): Session.LoadOrStoreModuleState keeps an existing state and registers the
// given one only when there is none, all inside one exclusive critical section.
func (r *Run) loadOrStoreContract(f *types.Func) {
	fn := r.P.Funcs[f]
	if fn == nil {
		r.Undecide("J4", "Session.LoadOrStoreModuleState has no body")
		return
	}
	paths := r.Paths(fn)
	r.Analysed(fn, len(paths))
	slot := "recv.moduleStates[param:#0]"
	hits, misses := 0, 0
	for pi := range paths {
		path := &paths[pi]
		r.at(path)
		held := r.locksAlong(path, lockset{})
		g := r.guardMap(path)
		ops := r.mapOps(fn, path)
		ret := r.retCanon(fn, path)
		var writes []mapOp
		for _, op := range ops {
			if op.Kind != "read" {
				writes = append(writes, op)
			}
		}
		locked, touched := true, 0
		for i, ev := range path.Events {
			if ev.Kind == EvAssign || ev.Kind == EvGuard || ev.Kind == EvDelete {
				touched++
				if held[i]["Session.moduleMutex"] != "W" {
					locked = false
				}
			}
		}
		r.CheckT("J4", fn.Name+":one-critical-section", locked && touched > 0, fn.Body.Pos(), path,
			"the lookup and the registration of a module state happen under the session's module lock, held exclusively")
		switch g["maplookup:"+slot] {
		case "hit":
			hits++
			r.CheckT("J4", fn.Name+":keeps-existing", len(writes) == 0 && len(ret) == 1 && strings.HasPrefix(ret[0], slot), fn.Body.Pos(), path,
				"an existing module state is returned and not replaced (writes=%d returns %v)", len(writes), ret)
		case "miss":
			misses++
			ok := len(writes) == 1 && writes[0].Kind == "write" && writes[0].Map == "recv.moduleStates" && writes[0].Key == "param:#0" && writes[0].Val == "param:#1" &&
				len(ret) == 1 && ret[0] == "param:#1"
			r.CheckT("J4", fn.Name+":registers-given", ok, fn.Body.Pos(), path, "a missing module state is registered under the given name and returned (returns %v)", ret)
		default:
			r.CheckT("J4", fn.Name+":decided-by-lookup", false, fn.Body.Pos(), path, "LoadOrStoreModuleState is not decided by a lookup of the state under the given name (%s)", r.pathSig(path))
		}
	}
	r.Check("J4", fn.Name+":cases", hits >= 1 && misses >= 1, fn.Body.Pos(), "LoadOrStoreModuleState has a keeping and a registering path")
}

// joinSessionCanon: canonical name of the join handler's local that holds the session being joined
// (every definition is GetByGlobalID(...) or NewSession(...)); "" if there is no such local.
func (r *Run) joinSessionCanon(fn *Func) string {
	for obj, sites := range fn.Defs().sites {
		if len(sites) == 0 {
			continue
		}
		ok := true
		for _, s := range sites {
			if s.kind != "assign" || s.rhs == nil {
				ok = false
				break
			}
			f, _ := r.calleeOfExpr(fn, r.throughLocals(fn, s.rhs))
			if f == nil {
				ok = false
				break
			}
			switch funcName(f) {
			case "models.(*SessionStore).GetByGlobalID":
				if !s.multi || s.idx != 0 {
					ok = false
				}
			case "models.NewSession":
			default:
				if !r.returnsNewSession(f) {
					ok = false
				}
			}
		}
		if ok {
			if len(sites) == 1 {
				// single definition: canon inlines it; rebuild that form
				id := &ast.Ident{Name: obj.Name()}
				_ = id
			}
			return "local:" + obj.Name()
		}
	}
	return ""
}

// isModuleStateLocal: the assignment target is rooted at a local that holds the module state
// fetched from (or created for) the session.
func (r *Run) isModuleStateLocal(fn *Func, lhs ast.Expr) bool {
	x := lhs
	for {
		switch v := ast.Unparen(x).(type) {
		case *ast.SelectorExpr:
			x = v.X
			continue
		case *ast.IndexExpr:
			x = v.X
			continue
		case *ast.StarExpr:
			x = v.X
			continue
		case *ast.TypeAssertExpr:
			x = v.X
			continue
		}
		break
	}
	id, ok := ast.Unparen(x).(*ast.Ident)
	if !ok {
		return false
	}
	obj := fn.Info().Uses[id]
	for _, s := range fn.Defs().sites[obj] {
		if s.rhs != nil {
			if f, _ := r.calleeOfExpr(fn, s.rhs); f != nil && funcName(f) == "models.(*Session).ModuleState" {
				return true
			}
		}
	}
	return false
}

// ruleFrameLimit (G8): the size of the frames a client may send is the transport's (x/net/websocket: 32 MiB
// when Conn.MaxPayloadBytes is left alone). A server that assigns the limit lowers it for requests that are
// accepted today: a frame over the new limit ends the connection at the transport — the request in it is never
// answered, an over-long custom message is not refused with its error, and the participant is dropped from its
// session. Accepted: no assignment at all, or a constant that is at least the transport's default.
func ruleFrameLimit(r *Run) {
	if r.broken() {
		return
	}
	const transportDefault = 32 << 20
	n := 0
	for _, fn := range r.P.All {
		if fn.Body == nil || fn.Lit != nil {
			continue
		}
		ast.Inspect(fn.Body, func(nd ast.Node) bool {
			as, ok := nd.(*ast.AssignStmt)
			if !ok {
				return true
			}
			for i, l := range as.Lhs {
				se, ok := ast.Unparen(l).(*ast.SelectorExpr)
				if !ok {
					continue
				}
				sel, ok := fn.Info().Selections[se]
				if !ok || sel.Kind() != types.FieldVal || sel.Obj().Name() != "MaxPayloadBytes" || sel.Obj().Pkg() == nil || sel.Obj().Pkg().Path() != "golang.org/x/net/websocket" {
					continue
				}
				n++
				good := false
				val := "a value computed at run time"
				if len(as.Rhs) == len(as.Lhs) && as.Tok == token.ASSIGN {
					if c, isC := intConstVal(fn.Info(), as.Rhs[i]); isC {
						good = c >= transportDefault || c == 0
						val = fmt.Sprintf("%d", c)
					}
				}
				r.Check("G8", fn.Name+":frame-limit-not-lowered", good, as.Pos(),
					"%s sets the connection's frame size limit to %s; clients can send frames of up to %d bytes today, and a request in a frame over a lower limit ends the connection unanswered (an over-long custom message is no longer refused with its error)", fn.Name, val, transportDefault)
			}
			return true
		})
	}
	if n == 0 {
		r.Check("G8", "frame-limit-left-to-the-transport", true, 0, "no function of the repository assigns Conn.MaxPayloadBytes (all non-test functions scanned)")
	}
}

// ruleDeadlines (G9): a deadline of the client connection is an absolute time; it bounds the operations that
// follow only if it is re-armed for each of them. A Set*Deadline with a real time that is not made per operation
// (inside the loop that does the I/O, or in a function called from such a loop) expires once: from then on every
// read or write fails and an active, healthy client is disconnected. Clearing a deadline (the zero time) is free.
func ruleDeadlines(r *Run) {
	if r.broken() {
		return
	}
	funcs := append([]*Func{}, r.P.All...)
	for _, lf := range r.P.Lits {
		funcs = append(funcs, lf)
	}
	sort.Slice(funcs, func(i, j int) bool { return funcs[i].Name < funcs[j].Name })
	inLoop := func(fn *Func, pos token.Pos) bool {
		found := false
		ast.Inspect(fn.Body, func(nd ast.Node) bool {
			switch v := nd.(type) {
			case *ast.FuncLit:
				return r.P.Lits[v] == fn
			case *ast.ForStmt:
				if v.Body.Pos() <= pos && pos < v.Body.End() {
					found = true
				}
			case *ast.RangeStmt:
				if v.Body.Pos() <= pos && pos < v.Body.End() {
					found = true
				}
			}
			return true
		})
		return found
	}
	var perOp func(fn *Func, pos token.Pos, depth int) bool
	perOp = func(fn *Func, pos token.Pos, depth int) bool {
		if inLoop(fn, pos) {
			return true
		}
		if fn.Obj == nil || depth > 3 {
			return false
		}
		calls, all := 0, true
		for _, g := range funcs {
			if g.Body == nil {
				continue
			}
			ast.Inspect(g.Body, func(nd ast.Node) bool {
				if l, isLit := nd.(*ast.FuncLit); isLit && r.P.Lits[l] != g {
					return false
				}
				if c, ok := nd.(*ast.CallExpr); ok && calleeObj(g.Info(), c) == types.Object(fn.Obj) {
					calls++
					if !perOp(g, c.Pos(), depth+1) {
						all = false
					}
				}
				return true
			})
		}
		return calls > 0 && all
	}
	n := 0
	for _, fn := range funcs {
		if fn.Body == nil || !isRepoPkg(fn.Pkg.Types) {
			continue
		}
		info := fn.Info()
		ast.Inspect(fn.Body, func(nd ast.Node) bool {
			if l, isLit := nd.(*ast.FuncLit); isLit && r.P.Lits[l] != fn {
				return false
			}
			call, ok := nd.(*ast.CallExpr)
			if !ok || len(call.Args) != 1 {
				return true
			}
			f, _ := calleeObj(info, call).(*types.Func)
			if f == nil || f.Pkg() == nil || f.Pkg().Path() != "golang.org/x/net/websocket" {
				return true
			}
			switch f.Name() {
			case "SetDeadline", "SetReadDeadline", "SetWriteDeadline":
			default:
				return true
			}
			// the zero time clears the deadline
			if cl, isLit := ast.Unparen(call.Args[0]).(*ast.CompositeLit); isLit && len(cl.Elts) == 0 {
				return true
			}
			n++
			r.Check("G9", fn.Name+":deadline-armed-per-operation["+f.Name()+"]", perOp(fn, call.Pos(), 0), call.Pos(),
				"%s sets an absolute %s on the client connection once, not for each operation it is meant to bound: when it has passed, every later read or write fails and a client that is active and healthy is disconnected", fn.Name, f.Name())
			return true
		})
	}
	if n == 0 {
		r.Check("G9", "no-connection-deadlines", true, 0, "no function of the repository sets a deadline on the client connection (all non-test functions scanned)")
	}
}

// measurementObjectFresh (I2): the measurement object of a participant is created with that participant. A
// participant literal whose SignedLatency is anything but a literal created there (directly, or through a local
// that is only ever given such literals) carries a measurement over from another participant: pings issued in
// one session are then accepted, and reported under that session's id, for a client that has moved on.
func (r *Run) measurementObjectFresh() {
	pt := r.P.LookupType(pkgModels, "Participant")
	if pt == nil {
		return
	}
	n := 0
	for _, fn := range r.P.All {
		if fn.Body == nil || fn.Pkg.PkgPath != pkgWS {
			continue
		}
		info := fn.Info()
		isFreshLit := func(x ast.Expr) bool {
			// a literal, directly or as what a builder of the repository returns (newSignedLatency())
			if o, _ := r.originOf(fn, x, 0); o != nil {
				x = o
			}
			x = ast.Unparen(x)
			if u, ok := x.(*ast.UnaryExpr); ok && u.Op == token.AND {
				x = ast.Unparen(u.X)
			}
			if call, ok := x.(*ast.CallExpr); ok {
				if b, isB := calleeObj(info, call).(*types.Builtin); isB && b.Name() == "new" {
					return true
				}
			}
			_, ok := x.(*ast.CompositeLit)
			return ok
		}
		ast.Inspect(fn.Body, func(nd ast.Node) bool {
			cl, ok := nd.(*ast.CompositeLit)
			if !ok {
				return true
			}
			t := info.TypeOf(cl)
			if t == nil || !types.Identical(t, pt.Type()) {
				return true
			}
			v := litField(cl, "SignedLatency")
			if v == nil {
				return true
			}
			n++
			fresh := isFreshLit(v)
			if id, isID := ast.Unparen(v).(*ast.Ident); isID && !fresh {
				if obj := info.Uses[id]; obj != nil {
					fresh = true
					seen := 0
					ast.Inspect(fn.Body, func(k ast.Node) bool {
						switch a := k.(type) {
						case *ast.AssignStmt:
							for i, l := range a.Lhs {
								lid, ok := ast.Unparen(l).(*ast.Ident)
								if !ok || (info.Uses[lid] != obj && info.Defs[lid] != obj) {
									continue
								}
								seen++
								if len(a.Rhs) != len(a.Lhs) || !isFreshLit(a.Rhs[i]) {
									fresh = false
								}
							}
						case *ast.ValueSpec:
							for i, nm := range a.Names {
								if info.Defs[nm] == obj && i < len(a.Values) {
									seen++
									if !isFreshLit(a.Values[i]) {
										fresh = false
									}
								}
							}
						}
						return true
					})
					fresh = fresh && seen > 0
				}
			}
			r.Check("I2", fn.Name+":measurement-object-created-with-the-participant", fresh, v.Pos(),
				"the participant built in %s gets %s as its measurement object, which is not created there: a measurement begun for another participant (an earlier session of the connection) carries on under this one", fn.Name, r.P.exprStr(v))
			return true
		})
		// … or given to the participant field by field: p.SignedLatency = …
		slField := r.P.LookupField(pkgModels, "Participant", "SignedLatency")
		ast.Inspect(fn.Body, func(nd ast.Node) bool {
			as, ok := nd.(*ast.AssignStmt)
			if !ok || slField == nil {
				return true
			}
			for i, l := range as.Lhs {
				se, ok := ast.Unparen(l).(*ast.SelectorExpr)
				if !ok || r.P.selField(info, se) != slField {
					continue
				}
				n++
				fresh := len(as.Rhs) == len(as.Lhs) && isFreshLit(as.Rhs[i])
				r.Check("I2", fn.Name+":measurement-object-created-with-the-participant", fresh, as.Pos(),
					"a participant is given a measurement object in %s that is not created there: a measurement begun for another participant (an earlier session of the connection) carries on under this one", fn.Name)
			}
			return true
		})
	}
	// (constructors of the models package)
	for _, fn := range r.P.All {
		if fn.Body == nil || fn.Pkg.PkgPath != pkgModels {
			continue
		}
		ast.Inspect(fn.Body, func(nd ast.Node) bool {
			if cl, ok := nd.(*ast.CompositeLit); ok {
				if t := fn.Info().TypeOf(cl); t != nil && types.Identical(t, pt.Type()) && litField(cl, "SignedLatency") != nil {
					n++
				}
			}
			return true
		})
	}
	r.Floor("I2", "participant literals with a measurement object", n, 1)
}

// ruleLoopTimers (G11): the periods of the connection's main loop — what `time.NewTicker` / `time.NewTimer` in
// `Handle` are given — are the server's configuration: the getters that supply them return, on every path, a
// constant or a field of the handler that is set at construction only. A period computed from what the client
// presented (a header, a query parameter) can be zero or negative: `time.NewTicker` panics on it, outside the
// per-message recover, after the connection was counted — the disconnect funnel never runs for it.
func ruleLoopTimers(r *Run) {
	if r.broken() {
		return
	}
	hh := r.modelFunc("websocket.(*handler).Handle")
	rhT := r.P.LookupType(pkgWS, "RealtimeHandler")
	if hh == nil || rhT == nil {
		return
	}
	rn, _ := rhT.Type().(*types.Named)
	// the getters of the Handler interface whose result reaches NewTicker / NewTimer / Timer.Reset in the loop
	getters := map[string]bool{}
	funcs := []*Func{hh}
	for _, f := range r.P.All {
		if f.Obj != nil && f.Pkg == hh.Pkg && f != hh && r.onlyFrom(f, hh.Name) {
			funcs = append(funcs, f)
		}
	}
	for _, f := range funcs {
		info := f.Info()
		locals := map[types.Object]string{} // local := h.Handler.X()
		ast.Inspect(f.Body, func(nd ast.Node) bool {
			if as, ok := nd.(*ast.AssignStmt); ok && len(as.Lhs) == 1 && len(as.Rhs) == 1 {
				if id, ok := as.Lhs[0].(*ast.Ident); ok {
					if call, ok := ast.Unparen(as.Rhs[0]).(*ast.CallExpr); ok {
						if g, ok := calleeObj(info, call).(*types.Func); ok && g.Type().(*types.Signature).Recv() != nil && len(call.Args) == 0 {
							if o := objOf(info, id); o != nil {
								locals[o] = g.Name()
							}
						}
					}
				}
			}
			return true
		})
		// (any period the connection's own functions read from the handler: it ends up in a timer sooner or later)
		ast.Inspect(f.Body, func(nd ast.Node) bool {
			if call, ok := nd.(*ast.CallExpr); ok && len(call.Args) == 0 {
				if m, ok := calleeObj(info, call).(*types.Func); ok {
					if sig := m.Type().(*types.Signature); sig.Recv() != nil && sig.Results().Len() == 1 && sig.Results().At(0).Type().String() == "time.Duration" {
						if _, isIface := sig.Recv().Type().Underlying().(*types.Interface); isIface {
							getters[m.Name()] = true
						}
					}
				}
			}
			return true
		})
		ast.Inspect(f.Body, func(nd ast.Node) bool {
			call, ok := nd.(*ast.CallExpr)
			if !ok || len(call.Args) == 0 {
				return true
			}
			g, _ := calleeObj(info, call).(*types.Func)
			if g == nil || g.Pkg() == nil || g.Pkg().Path() != "time" || !(g.Name() == "NewTicker" || g.Name() == "NewTimer" || g.Name() == "Reset" || g.Name() == "After" || g.Name() == "Tick") {
				return true
			}
			ast.Inspect(call.Args[0], func(k ast.Node) bool {
				switch v := k.(type) {
				case *ast.CallExpr:
					if m, ok := calleeObj(info, v).(*types.Func); ok && len(v.Args) == 0 && m.Type().(*types.Signature).Recv() != nil {
						getters[m.Name()] = true
					}
				case *ast.Ident:
					if nm, ok := locals[info.Uses[v]]; ok {
						getters[nm] = true
					}
				}
				return true
			})
			return true
		})
	}
	n := 0
	var names []string
	for nm := range getters {
		names = append(names, nm)
	}
	sort.Strings(names)
	for _, nm := range names {
		g := r.P.LookupFunc(pkgWS, "RealtimeHandler", nm)
		gd := r.P.Funcs[g]
		if gd == nil || gd.Body == nil {
			continue
		}
		for _, path := range r.Paths(gd) {
			path := path
			r.at(&path)
			ret := r.retCanon(gd, &path)
			if len(ret) != 1 {
				continue
			}
			n++
			ok := false
			why := ret[0]
			switch {
			case strings.HasPrefix(ret[0], "const:") || strings.HasPrefix(ret[0], "lit:"):
				ok = true
			case strings.HasPrefix(ret[0], "recv.") && !strings.ContainsAny(ret[0][5:], ".([ "):
				if fv := r.P.LookupField(pkgWS, "RealtimeHandler", ret[0][5:]); fv != nil && rn != nil {
					ok = !r.assignedAfterConstruction(fv)
					if !ok {
						why = ret[0] + ", which is assigned after construction"
					}
				}
			}
			r.CheckT("G11", gd.Name+":period-from-configuration", ok, gd.Body.Pos(), &path,
				"%s supplies a period of the connection's main loop and returns %s: not a constant or a field set at construction only. A period the client can influence may be zero or negative, and the ticker / timer made from it panics outside the per-message recover", gd.Name, why)
		}
	}
	r.Floor("G11", "returns of the getters that supply the main loop's periods", n, 2)
}

// assignedAfterConstruction: some statement of the repository assigns to (or increments) a selection of the
// field; values given in composite literals are construction.
func (r *Run) assignedAfterConstruction(fv *types.Var) bool {
	for _, fn := range r.P.All {
		if fn.Body == nil {
			continue
		}
		found := false
		ast.Inspect(fn.Body, func(nd ast.Node) bool {
			check := func(x ast.Expr) {
				if se, ok := ast.Unparen(x).(*ast.SelectorExpr); ok && r.P.selField(fn.Info(), se) == fv {
					found = true
				}
			}
			switch v := nd.(type) {
			case *ast.AssignStmt:
				for _, l := range v.Lhs {
					check(l)
				}
			case *ast.IncDecStmt:
				check(v.X)
			case *ast.UnaryExpr:
				if v.Op == token.AND {
					check(v.X) // its address is taken: anything may write it
				}
			}
			return !found
		})
		if found {
			return true
		}
	}
	return false
}
