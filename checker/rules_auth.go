package main

import (
	"fmt"
	"go/ast"
	"go/token"
	"go/types"
	"strings"
)

const (
	pkgHTTP      = repoMod + "/http"
	pkgSmoke     = repoMod + "/smoketest"
	pkgXWS       = "golang.org/x/net/websocket"
	pkgHDS       = "github.com/aukilabs/hagall-common/hdsclient"
	pkgHCHTTP    = "github.com/aukilabs/hagall-common/http"
	pkgReceipt   = repoMod + "/receipt"
	pkgNCS       = "github.com/aukilabs/hagall-common/ncsclient"
	pkgEthCrypto = "github.com/ethereum/go-ethereum/crypto"
)

// litsUnder: function literals lexically inside fn (any depth).
func (r *Run) litsUnder(fn *Func) []*Func {
	var out []*Func
	for _, lf := range r.P.Lits {
		if lf.root() == fn {
			out = append(out, lf)
		}
	}
	return out
}

func (r *Run) bodyCalls(body ast.Node, info *types.Info, f *types.Func) bool {
	found := false
	ast.Inspect(body, func(n ast.Node) bool {
		if c, ok := n.(*ast.CallExpr); ok && calleeObj(info, c) == f {
			found = true
		}
		return !found
	})
	return found
}

// ruleAuthGate (I6): nothing mounts the relay or the smoke test without the token check, and the
// token check accepts only behind a successful verification of the request's own token.
func ruleAuthGate(r *Run) {
	if r.broken() {
		return
	}
	main := r.modelFunc("cmd.main")
	handle := r.P.LookupFunc(pkgWS, "", "Handle")
	verifyTok := r.P.LookupFunc(pkgHTTP, "", "VerifyAuthToken")
	verifyH := r.P.LookupFunc(pkgHTTP, "", "VerifyAuthTokenHandler")
	smoke := r.P.LookupFunc(pkgSmoke, "", "HandleSmokeTest")
	verifyUser := r.P.LookupFunc(pkgHDS, "Client", "VerifyUserAuth")
	getTok := r.P.LookupFunc(pkgHCHTTP, "", "GetUserTokenFromHTTPRequest")
	if main == nil || handle == nil || verifyTok == nil || verifyH == nil || smoke == nil || verifyUser == nil || getTok == nil {
		r.Undecide("anchors", "auth anchors not found (cmd.main, websocket.Handle, VerifyAuthToken, VerifyAuthTokenHandler, HandleSmokeTest, VerifyUserAuth, GetUserTokenFromHTTPRequest)")
		return
	}
	// (a) every websocket.Server literal whose handler reaches the relay has the token handshake, and the
	// relay is entered from nowhere else. "Reaches" looks through repository functions the handler calls
	// (serveClient(ctx, conn, opts)); a function that enters the relay must have every one of its uses
	// inside the handler expression of a gated server (or inside another such function).
	type span struct{ lo, hi token.Pos }
	var gated []span
	scaffolding := func(fn *Func) bool {
		// test scaffolding compiled into the package; never reachable from cmd.main
		return strings.HasSuffix(r.P.Fset.Position(fn.Body.Pos()).Filename, "/websocket/testing.go")
	}
	reachMemo := map[*Func]bool{}
	var reachesRelay func(body ast.Node, info *types.Info, depth int) bool
	reachesRelay = func(body ast.Node, info *types.Info, depth int) bool {
		if r.bodyCalls(body, info, handle) {
			return true
		}
		if depth > 3 {
			return false
		}
		found := false
		ast.Inspect(body, func(n ast.Node) bool {
			if found {
				return false
			}
			var obj types.Object
			switch v := n.(type) {
			case *ast.CallExpr:
				obj = calleeObj(info, v)
			case *ast.Ident:
				obj = info.Uses[v] // a declared function handed over as a value (Handler: serveClient)
			}
			if f, ok := obj.(*types.Func); ok && f.Pkg() != nil && isRepoPkg(f.Pkg()) && f.Pkg().Path() != pkgWS {
				if g := r.P.Funcs[f]; g != nil {
					if v, done := reachMemo[g]; done {
						found = found || v
					} else {
						reachMemo[g] = false
						v := reachesRelay(g.Body, g.Info(), depth+1)
						reachMemo[g] = v
						found = found || v
					}
				}
			}
			return true
		})
		return found
	}
	nRelay := 0
	for _, fn := range r.P.All {
		if scaffolding(fn) {
			continue
		}
		info := fn.Info()
		ast.Inspect(fn.Body, func(n ast.Node) bool {
			cl, ok := n.(*ast.CompositeLit)
			if !ok {
				return true
			}
			tv, ok := info.Types[cl]
			if !ok {
				return true
			}
			nt, ok := derefNamedT(tv.Type)
			if !ok || nt.Obj().Pkg() == nil || nt.Obj().Pkg().Path() != pkgXWS || nt.Obj().Name() != "Server" {
				return true
			}
			hx := litField(cl, "Handler")
			if hx == nil || !reachesRelay(hx, info, 0) {
				return true
			}
			nRelay++
			hs := litField(cl, "Handshake")
			okHS := false
			if hs != nil {
				if f, call := r.calleeOfExpr(fn, hs); f == verifyTok && call != nil {
					okHS = true
				}
			}
			if okHS {
				gated = append(gated, span{hx.Pos(), hx.End()})
			}
			r.Check("I6", fn.Name+":relay-server-handshake", okHS, cl.Pos(), "a websocket server whose handler reaches the relay verifies the access token in its handshake (before any handler code runs)")
			return true
		})
	}
	inGate := func(pos token.Pos) bool {
		for _, g := range gated {
			if g.lo <= pos && pos < g.hi {
				return true
			}
		}
		return false
	}
	// every use of a function that enters the relay lies behind a gate
	var usesGated func(f *types.Func, depth int) bool
	usesGated = func(f *types.Func, depth int) bool {
		n := 0
		for _, fn := range r.P.All {
			if scaffolding(fn) || fn.Pkg.PkgPath == pkgWS {
				continue
			}
			info := fn.Info()
			bad := false
			ast.Inspect(fn.Body, func(nd ast.Node) bool {
				id, ok := nd.(*ast.Ident)
				if !ok || info.Uses[id] != types.Object(f) {
					return true
				}
				n++
				if inGate(id.Pos()) {
					return true
				}
				if fn.Obj != nil && fn != main && depth < 3 && usesGated(fn.Obj, depth+1) {
					return true
				}
				bad = true
				r.Check("I6", fn.Name+":relay-caller", false, id.Pos(), "the relay (%s) is entered only from the handler of a websocket server whose handshake verifies the token", f.Name())
				return true
			})
			if !bad && n > 0 && depth == 0 {
				r.Check("I6", fn.Name+":relay-caller", true, fn.Body.Pos(), "the relay is entered only from the handler of a websocket server whose handshake verifies the token")
			}
		}
		return n > 0
	}
	_ = usesGated(handle, 0)
	r.Floor("I6", "websocket servers that reach the relay", nRelay, 1)
	// (b) the smoke test is only ever mounted behind the token check
	nSmoke := 0
	for _, fn := range r.P.All {
		info := fn.Info()
		pm := buildParents(fn.Decl)
		ast.Inspect(fn.Body, func(n ast.Node) bool {
			call, ok := n.(*ast.CallExpr)
			if !ok || calleeObj(info, call) != smoke {
				return true
			}
			nSmoke++
			wrapped := false
			if pc, ok := pm[call].(*ast.CallExpr); ok && calleeObj(info, pc) == verifyH && len(pc.Args) == 2 && ast.Unparen(pc.Args[1]) == call {
				wrapped = true
			}
			r.Check("I6", fn.Name+":smoke-test-wrapped", wrapped, call.Pos(), "the smoke-test handler is handed directly to VerifyAuthTokenHandler (never mounted bare)")
			return true
		})
	}
	r.Floor("I6", "smoke-test mount sites", nSmoke, 1)
	// (c) the two gates
	for _, q := range []struct {
		fn     *types.Func
		accept string
	}{{verifyTok, "return-nil"}, {verifyH, "next"}} {
		def := r.P.Funcs[q.fn]
		if def == nil {
			r.Undecide("I6", "%s has no body", q.fn.Name())
			continue
		}
		var gate *Func
		for _, lf := range r.litsUnder(def) {
			gate = lf
		}
		if !r.Check("I6", def.Name+":closure", gate != nil, def.Body.Pos(), "%s returns a gate function literal", def.Name) {
			continue
		}
		paths := r.Paths(gate)
		r.Analysed(gate, len(paths))
		nAcc, nRej := 0, 0
		for pi := range paths {
			path := &paths[pi]
			r.at(path)
			verdict := ""
			tokOK := false
			for i, ev := range path.Events {
				if ev.Kind == EvCall && ev.Callee == verifyUser {
					c := r.P.Canon(ev.Fn, ev.Call.Args[0])
					tokOK = strings.HasPrefix(c, "call:http.GetUserTokenFromHTTPRequest(param:lit@") && strings.HasSuffix(c, ".#1)")
				}
				if ev.Kind == EvGuard {
					g := r.Classify(path, i)
					if g.Callee == verifyUser {
						verdict = g.Outcome
					}
				}
			}
			accepted := false
			switch q.accept {
			case "return-nil":
				ret := r.retCanon(gate, path)
				accepted = len(ret) == 1 && ret[0] == "nil"
			case "next":
				for _, ev := range path.Events {
					if ev.Kind == EvCall && ev.Call != nil {
						if se, ok := ast.Unparen(ev.Call.Fun).(*ast.SelectorExpr); ok && se.Sel.Name == "ServeHTTP" && r.P.Canon(gate, se.X) == "param:#1" {
							accepted = true
						}
					}
				}
			}
			site := fmt.Sprintf("%s:gate[%s]", def.Name, verdict)
			if accepted {
				nAcc++
				r.CheckT("I6", site+":accept", verdict == "ok" && tokOK, gate.Body.Pos(), path,
					"the request is admitted only after VerifyUserAuth succeeded on the token taken from this very request (verdict %q, token from request %v)", verdict, tokOK)
			} else {
				nRej++
				r.CheckT("I6", site+":reject", verdict == "err", gate.Body.Pos(), path, "a request is turned away only because its token did not verify (verdict %q)", verdict)
				if q.accept == "next" {
					wrote := false
					for _, ev := range path.Events {
						if ev.Kind == EvCall && ev.Call != nil {
							if se, ok := ast.Unparen(ev.Call.Fun).(*ast.SelectorExpr); ok && se.Sel.Name == "WriteHeader" {
								if tv, ok := gate.Info().Types[ev.Call.Args[0]]; ok && tv.Value != nil && tv.Value.ExactString() == "401" {
									wrote = true
								}
							}
						}
					}
					r.CheckT("I6", site+":401", wrote, gate.Body.Pos(), path, "a rejected smoke-test trigger is answered 401")
				}
			}
		}
		r.Check("I6", def.Name+":both-outcomes", nAcc >= 1 && nRej >= 1, def.Body.Pos(), "the gate has an admitting and a rejecting path (%d, %d)", nAcc, nRej)
	}
	// the gates' client is the one the server registers with (same hdsClient variable in main)
	checked := false
	for _, path := range r.Paths(main) {
		r.at(&path)
		var args []string
		for _, ev := range path.Events {
			if ev.Kind == EvCall && (ev.Callee == verifyTok || ev.Callee == verifyH) {
				idx := 1
				if ev.Callee == verifyH {
					idx = 0
				}
				// the variable the client lives in (a helper's parameter is main's argument), not the printed form
				// of its definition: two prints of one long expression may be cut differently
				bfn, bx := resolveBound(ev.Fn, ev.Call.Args[idx])
				c := r.P.Canon(bfn, bx)
				if id, isID := ast.Unparen(bx).(*ast.Ident); isID {
					if obj := bfn.Info().Uses[id]; obj != nil {
						tag := "other"
						if strings.Contains(c, "NewClient(") {
							tag = "NewClient("
						}
						c = fmt.Sprintf("var@%d:%s", obj.Pos(), tag)
					}
				}
				// where the value was created, through locals, option structs and parameters of single-call-site helpers
				if o, ofn := r.originOf(bfn, bx, 0); o != nil && ofn != nil {
					if call, isCall := ast.Unparen(o).(*ast.CallExpr); isCall {
						if oc := r.P.Canon(ofn, call); strings.Contains(oc, "NewClient(") {
							c = fmt.Sprintf("created@%d:NewClient(", call.Pos())
						}
					}
				}
				args = append(args, c)
			}
		}
		if len(args) == 0 {
			continue
		}
		checked = true
		ok := len(args) >= 2
		for _, a := range args {
			if a != args[0] || !strings.Contains(a, "NewClient(") {
				ok = false
			}
		}
		r.CheckT("I6", "cmd.main:same-client", ok, main.Body.Pos(), &path, "both gates verify against the discovery-service client the server pairs with (secret currently issued to this server) (%v)", args)
	}
	r.Check("I6", "cmd.main:gates-mounted", checked, main.Body.Pos(), "cmd.main mounts the token gates")
}

// ruleReceiptFlow (I5): a receipt is forwarded iff it verifies, once, unchanged; submitting never blocks.
func ruleReceiptFlow(r *Run) {
	m := r.M()
	if r.broken() {
		return
	}
	var hi *HandlerInfo
	for _, h := range m.Handlers {
		if cname(h.Const) == "MSG_TYPE_RECEIPT_REQUEST" {
			hi = h
		}
	}
	if hi == nil {
		r.Undecide("I5", "receipt handler not found")
		return
	}
	fn := hi.Fn
	paths := r.Paths(fn)
	r.Analysed(fn, len(paths))
	queued := 0
	for pi := range paths {
		path := &paths[pi]
		r.at(path)
		for _, ev := range path.Events {
			if ev.Kind != EvChanOp || !ev.Send {
				continue
			}
			queued++
			r.CheckT("I5", fn.Name+":never-blocks", ev.NonBlocking, ev.Pos, path, "submitting a receipt never blocks the connection (select with default)")
			r.CheckT("I5", fn.Name+":queue", r.P.Canon(ev.Fn, ev.Chan) == "recv.ReceiptChan", ev.Pos, path, "the receipt is queued on the handler's receipt channel")
			// a receipt is queued only when none of its three fields is empty
			g := r.guardMap(path)
			allSet := true
			var missing []string
			for _, f := range []string{"Receipt", "Hash", "Signature"} {
				if g["zero:len(var:req."+f+")"] != "nonzero" {
					allSet = false
					missing = append(missing, f)
				}
			}
			r.CheckT("I5", fn.Name+":fields-nonempty", allSet, ev.Pos, path, "a receipt is queued only after its receipt, hash and signature were each found non-empty (not established on this path: %v): a request with an empty field is answered bad request, never forwarded", missing)
			if ss, ok := ev.Node.(*ast.SendStmt); ok {
				lit, lfn := r.P.compositeOfIn(ev.Fn, ss.Value)
				okP := lit != nil
				if okP {
					for _, f := range []string{"Receipt", "Hash", "Signature"} {
						if r.P.Canon(lfn, litField(lit, f)) != "var:req."+f {
							okP = false
						}
					}
				}
				r.CheckT("I5", fn.Name+":payload-unchanged", okP, ev.Pos, path, "the queued payload carries the request's receipt, hash and signature unchanged")
			}
			// accepted answer on this path
			okAns := false
			for _, a := range r.answersOn(path) {
				if a.Kind == "response" && a.Lit.TypeConstName() == "MSG_TYPE_RECEIPT_RESPONSE" {
					okAns = true
				}
			}
			r.CheckT("I5", fn.Name+":accepted-iff-queued", okAns, ev.Pos, path, "the submitter is told 'accepted' exactly when the receipt was queued")
		}
		// a path that answers RECEIPT_RESPONSE must have queued
		for _, a := range r.answersOn(path) {
			if a.Kind == "response" && a.Lit.TypeConstName() == "MSG_TYPE_RECEIPT_RESPONSE" {
				sent := false
				for _, ev := range path.Events[:a.Idx] {
					if ev.Kind == EvChanOp && ev.Send {
						sent = true
					}
				}
				r.CheckT("I5", fn.Name+":accepted-only-if-queued", sent, a.Ev.Pos, path, "'accepted' is answered only after the receipt was queued")
			}
		}
	}
	r.Check("I5", fn.Name+":has-queue-path", queued >= 1, fn.Body.Pos(), "the receipt handler has a queuing path")
	// the worker: verify, then forward exactly the verified payload, once
	hr := r.modelFunc("receipt.ReceiptHandler.HandleReceipts")
	verify := r.P.LookupFunc(pkgReceipt, "ReceiptHandler", "VerifyPayload")
	forward := r.P.LookupFunc(pkgReceipt, "ReceiptHandler", "ForwardToNCS")
	if hr == nil || verify == nil || forward == nil {
		r.Undecide("I5", "receipt worker anchors not found")
		return
	}
	// the goroutine HandleReceipts starts: a literal, or a (glue) method / function of the package
	var worker *Func
	queueParam := "" // the worker's parameter that is the queue, when the queue is handed to it
	ast.Inspect(hr.Body, func(nd ast.Node) bool {
		gs, ok := nd.(*ast.GoStmt)
		if !ok {
			return true
		}
		if lit, isLit := ast.Unparen(gs.Call.Fun).(*ast.FuncLit); isLit {
			worker = r.P.Lits[lit]
		} else if f, _ := calleeObj(hr.Info(), gs.Call).(*types.Func); f != nil && r.P.isGlue(f) {
			worker = r.P.Funcs[f]
			for k, a := range gs.Call.Args {
				if strings.HasSuffix(r.P.Canon(hr, a), ".ReceiptChan") {
					queueParam = fmt.Sprintf("param:#%d", k)
				}
			}
		}
		return false
	})
	isQueue := func(c string) bool {
		return strings.HasSuffix(c, ".ReceiptChan") || (queueParam != "" && c == queueParam)
	}
	if !r.Check("I5", hr.Name+":worker", worker != nil, hr.Body.Pos(), "HandleReceipts starts a worker goroutine") {
		return
	}
	wpaths := r.Paths(worker)
	r.Analysed(worker, len(wpaths))
	nFwd, nDrop := 0, 0
	for pi := range wpaths {
		path := &wpaths[pi]
		r.at(path)
		verdict := ""
		var recvIdx = -1
		for i, ev := range path.Events {
			if ev.Kind == EvChanOp && !ev.Send && isQueue(r.P.Canon(ev.Fn, ev.Chan)) {
				recvIdx = i
			}
			if ev.Kind == EvGuard {
				g := r.Classify(path, i)
				if strings.HasPrefix(g.Subject, "err:") && (strings.Contains(g.Subject, "instrumentReceiptVerification") || g.Callee == verify) {
					verdict = g.Outcome
				}
			}
		}
		if recvIdx < 0 {
			continue
		}
		fwd := 0
		for _, ev := range path.Events[recvIdx:] {
			if ev.Kind == EvCall && ev.Callee == forward {
				fwd++
				c := r.P.Canon(ev.Fn, ev.Call.Args[1])
				r.CheckT("I5", worker.Name+":forwards-received", strings.HasSuffix(c, ".ReceiptChan") || strings.HasPrefix(c, "<-"), ev.Pos, path, "what is forwarded is the payload taken from the queue (%s)", c)
			}
			if ev.Kind == EvCall && ev.Callee == verify {
				c := r.P.Canon(ev.Fn, ev.Call.Args[0])
				r.CheckT("I5", worker.Name+":verifies-received", strings.HasSuffix(c, ".ReceiptChan") || strings.HasPrefix(c, "<-"), ev.Pos, path, "what is verified is the payload taken from the queue (%s)", c)
			}
		}
		for _, ev := range path.Events[recvIdx:] {
			if ev.Kind == EvAssign {
				for _, l := range ev.Lhs {
					if _, isIdent := ast.Unparen(l).(*ast.Ident); isIdent {
						continue
					}
					c := r.P.Canon(ev.Fn, l)
					if strings.Contains(c, ".ReceiptChan") || (queueParam != "" && strings.Contains(c, "<-"+queueParam)) {
						r.CheckT("I5", worker.Name+":payload-untouched", false, ev.Pos, path, "the worker rewrites the received payload (%s) before verifying / forwarding it: what is verified or forwarded is no longer what the client submitted", c)
					}
				}
			}
		}
		switch verdict {
		case "ok":
			nFwd++
			r.CheckT("I5", worker.Name+":valid-forwarded-once", fwd == 1, worker.Body.Pos(), path, "a receipt that verifies is forwarded exactly once (%d)", fwd)
		case "err":
			nDrop++
			r.CheckT("I5", worker.Name+":invalid-never-forwarded", fwd == 0, worker.Body.Pos(), path, "a receipt that does not verify is never forwarded")
		default:
			r.CheckT("I5", worker.Name+":verdict", fwd == 0, worker.Body.Pos(), path, "a receipt is forwarded without a verification verdict")
		}
	}
	r.Check("I5", worker.Name+":both", nFwd >= 1 && nDrop >= 1, worker.Body.Pos(), "the worker has a forwarding and a dropping path (%d, %d)", nFwd, nDrop)
	// VerifyPayload: hash and signature
	if vf := r.P.Funcs[verify]; vf != nil {
		r.Analysed(vf, 1)
		keccak := r.P.LookupFunc(pkgEthCrypto, "", "Keccak256Hash")
		ecrec := r.P.LookupFunc(pkgEthCrypto, "", "Ecrecover")
		nOK := 0
		for _, path := range r.Paths(vf) {
			r.at(&path)
			ret := r.retCanon(vf, &path)
			if len(ret) != 1 || ret[0] != "nil" {
				continue
			}
			nOK++
			hashOK, sigOK := false, false
			for i, ev := range path.Events {
				if ev.Kind != EvGuard {
					continue
				}
				g := r.Classify(&path, i)
				if strings.HasPrefix(g.Subject, "boolcall:bytes.Equal") && g.Outcome == "true" {
					call := ast.Unparen(ev.Cond).(*ast.CallExpr)
					a, b := r.P.Canon(vf, call.Args[0]), r.P.Canon(vf, call.Args[1])
					want := "call:crypto.Keccak256Hash(conv:[]byte(param:#0.Receipt)).call:Hash.Bytes()"
					hashOK = (a == want && b == "param:#0.Hash") || (b == want && a == "param:#0.Hash")
				}
				if g.Callee == ecrec && g.Outcome == "ok" {
					for _, pe := range path.Events[:i] {
						if pe.Kind == EvCall && pe.Callee == ecrec {
							sigOK = r.P.Canon(vf, pe.Call.Args[0]) == "param:#0.Hash" && r.P.Canon(vf, pe.Call.Args[1]) == "param:#0.Signature"
						}
					}
				}
			}
			_ = keccak
			r.CheckT("I5", vf.Name+":hash", hashOK, vf.Body.Pos(), &path, "a payload verifies only if its hash equals the Keccak-256 of the receipt text")
			r.CheckT("I5", vf.Name+":signature", sigOK, vf.Body.Pos(), &path, "a payload verifies only if its signature recovers a key over that hash")
		}
		r.Check("I5", vf.Name+":has-accept", nOK == 1, vf.Body.Pos(), "VerifyPayload has exactly one accepting return (%d)", nOK)
	}
	// ForwardToNCS: one PostReceipt of the payload handed in, no loop — examined on the paths of the
	// forwarding code itself and of what it starts with `go` (a literal or a glue function)
	if ff := r.P.Funcs[forward]; ff != nil {
		post := r.P.LookupFunc(pkgNCS, "NCSClient", "PostReceipt")
		type body struct {
			fn      *Func
			payload string // canonical form of the payload inside this body
		}
		bodies := []body{{ff, "param:#1"}}
		ast.Inspect(ff.Body, func(nd ast.Node) bool {
			gs, ok := nd.(*ast.GoStmt)
			if !ok {
				return true
			}
			if lit, isLit := ast.Unparen(gs.Call.Fun).(*ast.FuncLit); isLit {
				if lf := r.P.Lits[lit]; lf != nil {
					bodies = append(bodies, body{lf, "param:#1"}) // captures ForwardToNCS's own parameter
				}
			} else if g, _ := calleeObj(ff.Info(), gs.Call).(*types.Func); g != nil && r.P.isGlue(g) {
				if gd := r.P.Funcs[g]; gd != nil {
					pl := ""
					for k, a := range gs.Call.Args {
						if r.P.Canon(ff, a) == "param:#1" {
							pl = fmt.Sprintf("param:#%d", k)
						}
					}
					bodies = append(bodies, body{gd, pl})
				}
			}
			return true
		})
		total := 0
		for _, bd := range bodies {
			for _, path := range r.Paths(bd.fn) {
				path := path
				r.at(&path)
				k := 0
				var loopStack []bool
				for _, ev := range path.Events {
					switch ev.Kind {
					case EvEnter:
						loopStack = append(loopStack, ev.Loop)
						continue
					case EvExit:
						if n := len(loopStack); n > 0 {
							loopStack = loopStack[:n-1]
						}
						continue
					}
					if ev.Kind != EvCall {
						continue
					}
					f, ok := ev.Callee.(*types.Func)
					if !ok || f.Name() != "PostReceipt" || (post != nil && f != post) {
						continue
					}
					k++
					total++
					inLoop := ev.Loop
					for _, l := range loopStack {
						inLoop = inLoop || l
					}
					c := r.P.Canon(ev.Fn, ev.Call.Args[1])
					r.CheckT("I5", ff.Name+":posts-payload", bd.payload != "" && c == bd.payload, ev.Pos, &path, "the payload posted to the credit service is the one handed in (%s)", c)
					r.CheckT("I5", ff.Name+":once", !inLoop, ev.Pos, &path, "forwarding posts the receipt once, not in a retry loop")
				}
				r.CheckT("I5", ff.Name+":at-most-once-per-path", k <= 1, bd.fn.Body.Pos(), &path, "a receipt is posted to the credit service at most once on every path (%d times here): a second attempt after an error can deliver an accepted receipt twice", k)
			}
		}
		r.Check("I5", ff.Name+":posts", total >= 1, ff.Body.Pos(), "forwarding posts the receipt to the credit service")
	}

	// the channel the handler queues on is the one the worker drains (wired in package cmd: the two
	// literals may sit in cmd.main or in functions it hands the channel to, e.g. through an options struct)
	if main := r.modelFunc("cmd.main"); main != nil {
		var origins []ast.Expr
		okWire := true
		for _, fn := range r.P.All {
			if fn.Pkg != main.Pkg {
				continue
			}
			ast.Inspect(fn.Body, func(nd ast.Node) bool {
				cl, ok := nd.(*ast.CompositeLit)
				if !ok {
					return true
				}
				_, tn := litTypeName(fn.Info(), cl)
				if tn == "ReceiptHandler" || tn == "RealtimeHandler" {
					if x := litField(cl, "ReceiptChan"); x != nil {
						o, ofn := r.originOf(fn, x, 0)
						if o == nil || !strings.HasPrefix(r.P.Canon(ofn, o), "make(") {
							okWire = false
						}
						origins = append(origins, o)
					} else {
						okWire = false // a handler without the queue
					}
				}
				return true
			})
		}
		okWire = okWire && len(origins) >= 2
		for _, o := range origins {
			if o != origins[0] {
				okWire = false
			}
		}
		r.Check("I5", "cmd.main:wiring", okWire, main.Body.Pos(), "the relay's receipt channel and the receipt worker's channel are one and the same buffered channel")
	}
}

// originOf follows a value back to the expression that created it: through single-assignment locals
// (also of the enclosing function, for closures), through a parameter of a function with exactly one call
// site to the argument at that site, and through a field of a struct built by a literal.
func (r *Run) originOf(fn *Func, x ast.Expr, depth int) (ast.Expr, *Func) {
	for i := 0; i < 8 && x != nil; i++ {
		switch v := ast.Unparen(x).(type) {
		case *ast.Ident:
			obj, _ := fn.Info().Uses[v].(*types.Var)
			if obj == nil {
				return x, fn
			}
			root := fn.root()
			if k := paramIndex(root, obj); k >= 0 && root.Obj != nil {
				var caller *Func
				var arg ast.Expr
				n := 0
				for _, g := range r.P.All {
					ast.Inspect(g.Body, func(nd ast.Node) bool {
						if c, ok := nd.(*ast.CallExpr); ok && calleeObj(g.Info(), c) == types.Object(root.Obj) && k < len(c.Args) {
							n++
							caller, arg = g, c.Args[k]
						}
						return true
					})
				}
				if n != 1 {
					return x, fn
				}
				fn, x = caller, arg
				continue
			}
			ds, ok := fn.Defs().singleDef(obj)
			if !ok || ds.kind != "assign" || ds.multi || ds.rhs == nil {
				return x, fn
			}
			x = ds.rhs
		case *ast.SelectorExpr:
			sel, ok := fn.Info().Selections[v]
			if !ok || sel.Kind() != types.FieldVal || depth > 3 {
				return x, fn
			}
			base, bfn := r.originOf(fn, v.X, depth+1)
			if ue, ok := ast.Unparen(base).(*ast.UnaryExpr); ok && ue.Op == token.AND {
				base = ue.X
			}
			cl, ok := ast.Unparen(base).(*ast.CompositeLit)
			if !ok {
				// the holder is not in sight (a receiver, a parameter with several call sites): when the field is given
				// a value at exactly one place of the package, that value is the one
				if sx, sfn := r.soleFieldSetter(fn, sel.Obj().(*types.Var)); sx != nil {
					fn, x = sfn, sx
					continue
				}
				return x, fn
			}
			fv := litField(cl, sel.Obj().Name())
			if fv == nil {
				// not given in the literal: set by the one assignment of the package (t := &T{…}; t.f = …)
				if sx, sfn := r.soleFieldSetter(fn, sel.Obj().(*types.Var)); sx != nil {
					fn, x = sfn, sx
					continue
				}
				return x, fn
			}
			fn, x = bfn, fv
		case *ast.CallExpr:
			// a builder of the repository with one return statement: what it returns
			g, _ := calleeObj(fn.Info(), v).(*types.Func)
			gd := r.P.Funcs[g]
			if g == nil || gd == nil || gd.Body == nil || depth > 3 {
				return x, fn
			}
			var rets []*ast.ReturnStmt
			ast.Inspect(gd.Body, func(nd ast.Node) bool {
				if _, isLit := nd.(*ast.FuncLit); isLit {
					return false
				}
				if rs, ok := nd.(*ast.ReturnStmt); ok {
					rets = append(rets, rs)
				}
				return true
			})
			if len(rets) != 1 || len(rets[0].Results) != 1 {
				return x, fn
			}
			if _, isLit := ast.Unparen(rets[0].Results[0]).(*ast.CompositeLit); isLit {
				return rets[0].Results[0], gd
			}
			if _, isID := ast.Unparen(rets[0].Results[0]).(*ast.Ident); !isID {
				return x, fn
			}
			fn, x = gd, rets[0].Results[0]
			depth++
		default:
			return x, fn
		}
	}
	return x, fn
}

// soleFieldSetter: the one expression of the field's package that gives the struct field a value (a keyed element
// of a composite literal of its struct, or an assignment to a selection of it); nil when there are none or several.
func (r *Run) soleFieldSetter(from *Func, fv *types.Var) (ast.Expr, *Func) {
	var x ast.Expr
	var xfn *Func
	n := 0
	funcs := append([]*Func{}, r.P.All...)
	for _, lf := range r.P.Lits {
		funcs = append(funcs, lf)
	}
	for _, g := range funcs {
		if g.Body == nil || fv.Pkg() == nil || g.Pkg.PkgPath != fv.Pkg().Path() {
			continue
		}
		info := g.Info()
		ast.Inspect(g.Body, func(nd ast.Node) bool {
			if l, isLit := nd.(*ast.FuncLit); isLit && r.P.Lits[l] != g {
				return false
			}
			switch v := nd.(type) {
			case *ast.CompositeLit:
				for _, el := range v.Elts {
					if kv, ok := el.(*ast.KeyValueExpr); ok {
						if id, ok := kv.Key.(*ast.Ident); ok && info.Uses[id] == types.Object(fv) {
							n++
							x, xfn = kv.Value, g
						}
					}
				}
			case *ast.AssignStmt:
				for i, l := range v.Lhs {
					if se, ok := ast.Unparen(l).(*ast.SelectorExpr); ok && info.Uses[se.Sel] == types.Object(fv) {
						n++
						if len(v.Rhs) == len(v.Lhs) {
							x, xfn = v.Rhs[i], g
						} else {
							n++ // a multi-value assignment: not followed
						}
					}
				}
			}
			return true
		})
	}
	if n != 1 {
		return nil, nil
	}
	return x, xfn
}
