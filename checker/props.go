package main

import "strings"

type propSpec struct {
	Rules       []func(*Run)
	Keep        []string            // rule-id prefixes whose obligations belong to this property (empty: all)
	Sites       map[string][]string // rule prefix -> substrings one of which the site must contain (narrowing shared rule functions)
	Explanation string
	Assumptions []string
}

func (s propSpec) keeps(rule string) bool {
	if len(s.Keep) == 0 {
		return true
	}
	for _, k := range s.Keep {
		if rule == k || strings.HasPrefix(rule, k) {
			return true
		}
	}
	return rule == "anchors" || rule == "tables" || rule == "controls" || rule == "loader"
}

func (s propSpec) keepsSite(rule, site string) bool {
	for pre, subs := range s.Sites {
		if rule != pre && !(strings.HasPrefix(rule, pre) && rule[len(pre)] >= '0' && rule[len(pre)] <= '9') {
			continue // "B" narrows B1, B2, ...; "E8" narrows E8 but not E8a
		}
		any := false
		for _, sub := range subs {
			if strings.Contains(site, sub) {
				any = true
			}
		}
		if !any {
			return false
		}
	}
	return true
}

type rl = []func(*Run)
type kp = []string

var properties = map[string]propSpec{
	"C01": {Rules: rl{ruleAcceptedPerforms, ruleBroadcastShape, ruleMutateRelay, ruleAcceptedApplies, ruleCascade, ruleSnapshot, ruleErrorDiscipline, ruleModuleCleanup, ruleModuleInit, ruleStoreContracts, ruleSubscriptions, ruleEntityActions, ruleAtomicity, ruleRelaySync, ruleIDGenerator, ruleLeaveComplete, ruleMembershipContracts, ruleNoGlobalSessionData}, Keep: kp{"B9", "C3", "C1", "B8", "E4", "C7", "ERR", "E3", "J3", "J4", "S-", "E8", "C6", "D3", "E1", "S-Members", "J5"}, Sites: map[string][]string{"E8": {"entity:exists", "modulestate:missing"}}},
	"C02": {Rules: rl{ruleMutateRelay, ruleAcceptedApplies, ruleAnswers, ruleSenderExcluded, ruleDecoratorForward, ruleBroadcastShape, ruleRelaySync, ruleModuleInit, ruleIDGenerator, rulePairedState, ruleMembershipContracts, ruleLeaveCallers, ruleFramePair, ruleSnapshot, ruleGuardedBy, ruleQueueDrained}, Keep: kp{"C1", "B8", "B5", "B7", "C2", "A2", "C3", "C6", "J3", "D3", "E9", "S-Members", "E2", "E6", "C11-pose", "F1", "G10"}, Sites: map[string][]string{"F1": {"SequentialIDGenerator"}}},
	"C03": {Rules: rl{ruleNoGlobalSessionData, ruleBroadcastShape, ruleSenderExcluded, ruleJoinedGuard, rulePairedState, ruleDispatchTotal, ruleAnswers, ruleModuleInit, ruleRegistry, ruleIDGenerator, ruleLeaveCallers, ruleLeaveComplete, ruleNoStateCopy, ruleMembershipContracts, ruleRelaySync, ruleIDSources}, Keep: kp{"J5", "C3", "J6", "J1", "J2", "E9", "A1", "B5", "J3", "E7", "D3", "E2", "E6", "F2c", "S-Members", "C6", "D2"}},
	"C04": {Rules: rl{ruleAcceptedPerforms, ruleDispatchTotal, ruleAnswers, ruleAcceptedApplies, ruleJoinedGuard, ruleDecoratorForward, ruleModuleCleanup, ruleStoreContracts, ruleSubscriptions, ruleRelaySync, ruleSplitCriticalSection, ruleModuleInit, ruleFrameLimit, ruleLatencyReport, ruleLockOrder, ruleRegistry}, Keep: kp{"A1", "B", "J2", "A2", "E3", "S-", "C6", "E8a", "J3", "G8", "I4", "F3", "E7"}},
	"C05": {Rules: rl{rulePairedState, ruleModuleInit, ruleOwnerGuard, ruleAnswers, ruleSenderExcluded, ruleIDGenerator, ruleIDSources, ruleGuardedBy, ruleNoStateCopy, ruleModuleCleanup}, Keep: kp{"E9", "J3", "D1", "B5", "J1", "D3", "D2", "D5", "F1", "F2c", "E3"}, Sites: map[string][]string{"F1": {"SequentialIDGenerator"}}},
	"C06": {Rules: rl{ruleFunnelOnce, ruleLeaveComplete, ruleLeaveCallers, ruleModuleCleanup, ruleCascade, ruleDecoratorForward, ruleMutateRelay, ruleSnapshot, ruleSubscriptions, ruleStoreContracts, ruleModuleInit, ruleNoStateCopy, ruleMembershipContracts, ruleRelaySync, ruleAnswers, ruleIDSources, ruleEntityActions, ruleMainLineBlocking, ruleQueueDrained}, Keep: kp{"E5", "E1", "E2", "E3", "E4", "E6", "E9", "A2", "C1", "C7", "S-UnsubscribeAll", "S-DeleteByEntity", "J3", "F2c", "S-Members", "C6", "B5", "D2", "S-A", "G7", "G10"}, Sites: map[string][]string{"B5": {"HandleEntityAdd", "HandleEntityDelete"}}},
	"C07": {Rules: rl{ruleAcceptedPerforms, rulePairedState, ruleLeaveComplete, ruleLeaveCallers, ruleRegistry, ruleIDGenerator, ruleFramePair, ruleAnswers, ruleAtomicity, ruleMembershipContracts, ruleSplitCriticalSection, ruleLockOrder, ruleQueueDrained}, Keep: kp{"B9", "E1", "E2", "E6", "E7", "E9", "D3", "B4", "B1", "E8", "S-Members", "E8a", "F3", "G10"}, Sites: map[string][]string{"B9": {"HandleParticipantJoin"}, "B": {"HandleParticipantJoin"}, "E8": {"registry:", "session:empty"}}},
	"C08": {Rules: rl{ruleLockOrder, ruleMainLineBlocking, rulePairedState, ruleDecoratorForward, rulePBNil, ruleFunnelOnce, ruleGaugePair, ruleWaitFor, rulePanicContainment, ruleClampSymmetry, ruleTaintAlloc, ruleDeferUnlock, ruleFramePair, ruleRelaySync, ruleGridAxes, ruleGuardedBy, ruleDeadlines, ruleLeaveCallers, ruleQueueDrained, ruleLoopTimers}, Keep: kp{"F3", "A2", "G1", "E5", "G5", "G6", "F4", "G2", "G3", "G4", "F6b", "E6", "C6", "E9", "G7", "F1", "G9", "E2", "G10", "G11"}, Sites: map[string][]string{"F1": {"handlerWithLogs.", "handlerWithMetrics.", "handler.", "RealtimeHandler.", "EntityComponentStore.", "Session.", "SessionStore.", "SequentialIDGenerator", "State."}}},
	"C09": {Rules: rl{ruleGuardedBy, ruleNoEscape, ruleLockOrder, ruleLockPairing, ruleSplitCriticalSection, ruleWaitFor, ruleDeferUnlock, ruleFramePair, ruleAtomicity, ruleThreadConfinement, ruleFunnelOnce, ruleNoLockCopy, ruleNoStateCopy, ruleNoGlobalSessionData, ruleQueueDrained}, Keep: kp{"F1", "F2", "F2t", "F3", "F4", "F5", "F6", "F6b", "E6", "E8", "E8a", "E5", "F6c", "F2c", "J5", "G10"}, Sites: map[string][]string{"E5": {"join-goroutines", "wait-group", "done-when"}}},
	"C10": {Rules: rl{ruleModuleInit, ruleGuardedBy, ruleIDGenerator, ruleStoreContracts, ruleSplitCriticalSection, ruleIDSources, ruleEntityActions, ruleRegistry, ruleAtomicity, ruleAcceptedPerforms, ruleLeaveComplete, rulePairedState}, Keep: kp{"J3", "F1", "D3", "D4", "E8a", "D5", "E7", "E8", "B9", "E1", "E9"}, Sites: map[string][]string{"B9": {"EntityComponentTypeAdd", "EntityComponentGetID", "EntityComponentGetName"}, "E8": {"session:empty", "modulestate:missing"}, "E1": {"emptiness-test", "count-after-remove", "registry"}, "F1": {"SequentialIDGenerator", "EntityComponentStore.idIndex", "EntityComponentStore.nameIndex", "SessionStore.sessions"}}},
	"C11": {Rules: rl{ruleLeaveComplete, ruleRelaySync, rulePairedState, rulePBNil, ruleSnapshot, ruleAnswers, ruleOwnerGuard, ruleFramePair, ruleIDGenerator, ruleMutateRelay, ruleFlagWrap, ruleLeaveCallers, ruleQueueDrained}, Keep: kp{"E1", "C6", "E9", "G1", "C11-pose", "B5", "B7", "D1", "E6", "D3", "C1", "C4c", "E2", "G10"}, Sites: map[string][]string{"E1": {"emptiness-test", "count-after-remove", "registry"}}},
	"C12": {Rules: rl{ruleAcceptedPerforms, ruleJoinedGuard, rulePairedState, ruleStoreContracts, ruleCascade, ruleErrorDiscipline, ruleSplitCriticalSection, ruleLeaveComplete, ruleArgRoles, ruleAnswers, ruleMutateRelay, ruleFunnelOnce}, Keep: kp{"B9", "J2", "E9", "S-", "D4", "E4", "ERR", "E8a", "E1", "B10", "B5", "C1", "E5", "G5"}, Sites: map[string][]string{"B5": {"EntityComponent"}, "C1": {"EntityComponent"}}},
	"C13": {Rules: rl{ruleRelaySync, ruleAcceptedPerforms, ruleNotifyGated, ruleSenderExcluded, ruleSubscriptions, ruleLeaveComplete, ruleArgRoles, ruleBroadcastShape, ruleGuardedBy, ruleLeaveCallers, ruleFramePair, ruleQueueDrained}, Keep: kp{"C6", "B9", "C5", "C2", "S-", "E1", "B10", "C3", "F1", "E2", "E6", "G10"}, Sites: map[string][]string{"F1": {"EntityComponentStore.subscriptions"}}},
	"C14": {Rules: rl{rulePairedState, ruleBroadcastShape, ruleSenderExcluded, ruleCustomMessage, ruleRelaySync, ruleGuardedBy, ruleMembershipContracts, ruleDecoratorForward, ruleFrameLimit, ruleLeaveCallers, ruleQueueDrained}, Keep: kp{"E9", "C3", "J6", "C2", "H1", "H4", "C6", "F1", "S-Members", "A2", "G8", "E2", "G10"}, Sites: map[string][]string{"F1": {"Session."}}},
	"C15": {Rules: rl{ruleAuthGate}, Keep: kp{"I6"}},
	"C16": {Rules: rl{ruleEntityActions, ruleSnapshot, ruleOwnerGuard, ruleModuleInit, ruleModuleCleanup, ruleRelaySync, ruleLeaveComplete, ruleNoGlobalSessionData, ruleMutateRelay}, Keep: kp{"H3", "S-", "D5", "C7", "D1", "J4", "J3", "E3", "C6", "E1", "J5", "C1"}, Sites: map[string][]string{"E1": {"entity-loop", "modules-told"}}},
	"C17": {Rules: rl{ruleFlagWrap}},
	"C18": {Rules: rl{ruleLatencyStart, ruleLatencyReport, ruleMapOrderFree, ruleAnswers, rulePairedState}, Keep: kp{"H2", "I1", "I2", "I3", "I4", "B1", "B2", "B4", "B7", "E9"}, Sites: map[string][]string{"B": {"HandleSignedLatency", "HandlePingResponse"}, "E9": {"signedLatency"}}},
	"C19": {Rules: rl{ruleReceiptFlow, ruleAnswers, ruleRelaySync, ruleNoGlobalSessionData}, Keep: kp{"I5", "B1", "B2", "B4", "C6", "J5"}, Sites: map[string][]string{"B": {"HandleReceipt"}, "J5": {"receipt"}}},
	"C20": {Rules: rl{ruleModuleInit, ruleClampSymmetry, ruleGuardedBy, ruleDeferUnlock, ruleNoLockCopy, ruleGridAxes, ruleAxes, ruleIndexContracts, ruleNoGlobalSessionData}, Keep: kp{"J3", "J4", "G3", "F1", "F6b", "F6c", "Q", "J5"}, Sites: map[string][]string{"F1": {"RegularGrid", "State.SpatialPartition"}, "F6b": {"modules/dagaz"}}},
}
