package main

type propSpec struct {
	Rules       []func(*Run)
	Explanation string
	Assumptions []string
}

var properties = map[string]propSpec{
	"C04": {Rules: []func(*Run){ruleAnswers, ruleJoinedGuard}, Explanation: "every path of every dispatched handler"},
	"X":   {Rules: []func(*Run){ruleMutateRelay, ruleSenderExcluded, ruleFlagWrap, ruleNotifyGated, ruleOwnerGuard, ruleCascade}, Explanation: "scratch"},
}
