package main

import "strings"

type propSpec struct {
	Rules       []func(*Run)
	Keep        []string // rule-id prefixes whose obligations belong to this property (empty: all)
	Explanation string
	Assumptions []string
}

func (s propSpec) keeps(rule string) bool {
	if len(s.Keep) == 0 {
		return true
	}
	for _, k := range s.Keep {
		if rule == k || strings.HasPrefix(rule, k) {
			return true
		}
	}
	return rule == "anchors" || rule == "tables" || rule == "controls" || rule == "loader"
}

type rl = []func(*Run)

var properties = map[string]propSpec{
	"C01": {Rules: rl{ruleMutateRelay, ruleCascade}, Keep: []string{"C1", "E4"}},
	"C02": {Rules: rl{ruleMutateRelay, ruleAnswers, ruleSenderExcluded, ruleDecoratorForward, ruleBroadcastShape}, Keep: []string{"C1", "B5", "C2", "A2", "C3"}},
	"C03": {Rules: rl{ruleSenderExcluded, ruleJoinedGuard, rulePairedState, ruleDispatchTotal, ruleAnswers}, Keep: []string{"J1", "J2", "E9", "A1", "B5"}},
	"C04": {Rules: rl{ruleDispatchTotal, ruleAnswers, ruleJoinedGuard, ruleDecoratorForward}},
	"C05": {Rules: rl{ruleOwnerGuard, ruleAnswers, ruleSenderExcluded, ruleIDGenerator}, Keep: []string{"D1", "B5", "J1", "D3"}},
	"C06": {Rules: rl{ruleLeaveComplete, ruleLeaveCallers, ruleModuleCleanup, ruleCascade, ruleDecoratorForward, ruleMutateRelay}, Keep: []string{"E1", "E2", "E3", "E4", "E6", "E9", "A2", "C1"}},
	"C07": {Rules: rl{ruleLeaveComplete, ruleLeaveCallers}, Keep: []string{"E1", "E2", "E6"}},
	"C08": {Rules: rl{ruleDecoratorForward}, Keep: []string{"A2"}},
	"C10": {Rules: rl{ruleIDGenerator, ruleStoreContracts}, Keep: []string{"D3", "D4"}},
	"C12": {Rules: rl{ruleStoreContracts, ruleCascade}, Keep: []string{"S-", "D4", "E4"}},
	"C13": {Rules: rl{ruleNotifyGated, ruleSenderExcluded, ruleSubscriptions}, Keep: []string{"C5", "C2", "S-"}},
	"C14": {Rules: rl{ruleBroadcastShape, ruleSenderExcluded}, Keep: []string{"C3", "J6", "C2"}},
	"C17": {Rules: rl{ruleFlagWrap}},
	"X":   {Rules: rl{ruleStoreContracts, ruleSubscriptions, ruleIDGenerator, ruleBroadcastShape}},
}
