package main

import (
	"fmt"
	"golang.org/x/tools/go/packages"
)

func main() {
	cfg := &packages.Config{Mode: packages.NeedName | packages.NeedSyntax | packages.NeedTypes | packages.NeedTypesInfo | packages.NeedFiles | packages.NeedImports | packages.NeedDeps, Dir: "/repo", Env: append([]string{"GOFLAGS=-mod=mod", "GOPROXY=off", "GOSUMDB=off", "GOTOOLCHAIN=local", "GOWORK=off"}, envBase()...)}
	pkgs, err := packages.Load(cfg, "./...")
	fmt.Println(len(pkgs), err)
	for _, p := range pkgs { fmt.Println(p.PkgPath, len(p.Syntax), len(p.Errors)) }
}
