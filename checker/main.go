package main

import (
	"flag"
	"fmt"
	"go/ast"
	"os"
	"reflect"
	"runtime"
	"runtime/debug"
	"runtime/pprof"
	"sort"
	"strconv"
	"strings"
)

var extraCmds = map[string]func([]string){}

func main() {
	if len(os.Args) > 1 {
		if f, ok := extraCmds[os.Args[1]]; ok {
			f(os.Args[2:])
			return
		}
	}
	if len(os.Args) > 1 && os.Args[1] == "dump" {
		dumpCmd(os.Args[2:])
		return
	}
	if len(os.Args) > 1 && os.Args[1] == "explain" {
		explainCmd(os.Args[2:])
		return
	}
	prop := flag.String("property", "", "property id (C01..C20), or a comma separated list / 'all' (one process, shared program; for sweeps)")
	tier := flag.String("tier", "", "quick|thorough")
	repo := flag.String("repo", "/repo", "repository working tree")
	verif := flag.String("verif", "/verif", "verification directory")
	control := flag.String("control", "", "apply a positive-control edit (JSON file) in memory before analysing")
	outDir := flag.String("out", "", "directory for evidence/ and out/ (default: the verification directory)")
	cpuprof := flag.String("cpuprofile", "", "write a CPU profile")
	flag.Parse()
	debug.SetGCPercent(200)
	if *cpuprof != "" {
		f, _ := os.Create(*cpuprof)
		pprof.StartCPUProfile(f)
		defer pprof.StopCPUProfile()
	}
	if *outDir == "" {
		*outDir = *verif
	}
	if *tier == "" {
		*tier = os.Getenv("VERIF_TIER")
	}
	if *tier == "" {
		*tier = "quick"
	}
	seed, _ := strconv.Atoi(os.Getenv("VERIF_SEED"))
	if *prop == "all" || strings.Contains(*prop, ",") {
		os.Exit(runMany(*prop, *tier, *repo, *verif, *outDir, seed, *control))
	}
	spec, ok := properties[*prop]
	if !ok {
		fmt.Printf("UNDECIDED property=%s reason=unknown property\n", *prop)
		os.Exit(2)
	}
	var overlay map[string][]byte
	if *control != "" {
		ov, err := controlOverlay(*repo, *control)
		if err != nil {
			fmt.Printf("CONTROL-STALE %s: %v\n", *control, err)
			os.Exit(3)
		}
		overlay = ov
	}
	code := runProperty(*prop, spec, *tier, *repo, *verif, *outDir, seed, overlay)
	pprof.StopCPUProfile()
	os.Exit(code)
}

// runMany analyses several properties over one loaded program (sweeps over seeded changes and
// refactorings). Prints one "== <id> exit=<code>" line per property; exit code is the maximum.
func runMany(list, tier, repo, verif, outDir string, seed int, control string) int {
	var ids []string
	if list == "all" {
		for id := range properties {
			if id != "X" {
				ids = append(ids, id)
			}
		}
		sort.Strings(ids)
	} else {
		ids = strings.Split(list, ",")
	}
	var overlay map[string][]byte
	if control != "" {
		ov, err := controlOverlay(repo, control)
		if err != nil {
			fmt.Printf("CONTROL-STALE %s: %v\n", control, err)
			return 3
		}
		overlay = ov
	}
	p, err := Load(repo, true, overlay)
	if err != nil {
		fmt.Printf("UNDECIDED property=all reason=load failed: %v\n", err)
		return 2
	}
	max := 0
	for _, id := range ids {
		spec, ok := properties[id]
		if !ok {
			continue
		}
		code := runLoaded(p, id, spec, tier, repo, verif, outDir, seed, overlay != nil)
		fmt.Printf("== %s exit=%d\n", id, code)
		if code > max {
			max = code
		}
	}
	return max
}

func runProperty(prop string, spec propSpec, tier, repo, verif, outDir string, seed int, overlay map[string][]byte) (code int) {
	p, err := Load(repo, false, overlay)
	if err != nil {
		fmt.Printf("UNDECIDED property=%s reason=load failed: %v\n", prop, err)
		return 2
	}
	return runLoaded(p, prop, spec, tier, repo, verif, outDir, seed, overlay != nil)
}

func runLoaded(p *Program, prop string, spec propSpec, tier, repo, verif, outDir string, seed int, isControl bool) (code int) {
	r := NewRun(p, prop, tier, seed)
	r.Spec = &spec
	defer func() {
		if e := recover(); e != nil {
			fmt.Printf("UNDECIDED property=%s reason=internal panic: %v\n%s\n", prop, e, debug.Stack())
			code = 2
		}
	}()
	if len(p.Pkgs) < 11 {
		r.Undecide("loader", "only %d repository packages loaded (expected at least 11)", len(p.Pkgs))
	}
	for _, rule := range spec.Rules {
		name := runtime.FuncForPC(reflect.ValueOf(rule).Pointer()).Name()
		name = name[strings.LastIndex(name, ".")+1:]
		missing := ""
		for _, a := range ruleFieldAnchors[name] {
			if p.LookupField(a.pkg, a.typ, a.field) == nil {
				missing = a.typ + "." + a.field
				break
			}
		}
		if missing != "" {
			if gone, typ := p.roleRemoved(missing); gone {
				// not renamed: the struct holds fewer fields of the role's type than roles of that type. The state the rule is about was
				// taken out, which is a change of behaviour, not of spelling
				r.Check("anchors", name+":removed["+missing+"]", false, 0,
					"%s is gone and its struct holds no field of type %s that could play its part: the state that rule %s is about (it names this field) was removed, not renamed", missing, typ, name)
				continue
			}
			r.Undecide("anchors", "%s: field %s not found (renamed or removed); the rule names it and cannot be evaluated", name, missing)
			continue
		}
		rule(r)
	}
	for _, a := range spec.Assumptions {
		r.Assume(a)
	}
	if tier == "thorough" && !isControl {
		runControls(r, prop, repo, verif)
	}
	return r.Finish(verif, outDir, spec.Explanation)
}

func dumpCmd(args []string) {
	fs := flag.NewFlagSet("dump", flag.ExitOnError)
	repo := fs.String("repo", "/repo", "")
	classes := fs.Bool("classes", false, "print the classified guards of each path")
	fs.Parse(args)
	p, err := Load(*repo, false, nil)
	if err != nil {
		fmt.Println("load:", err)
		os.Exit(2)
	}
	e := NewEngine(p)
	p.engine = e
	run := NewRun(p, "dump", "quick", 0)
	for _, f := range p.All {
		match := fs.NArg() == 0
		for _, a := range fs.Args() {
			if strings.Contains(f.Name, a) {
				match = true
			}
		}
		if !match {
			continue
		}
		ps := e.Paths(f)
		fmt.Printf("== %s: %d paths\n", f.Name, len(ps))
		if fs.NArg() > 0 {
			for i, pt := range ps {
				fmt.Printf("  #%d %s\n", i, p.PathStr(pt))
				if *classes {
					pt := pt
					run.at(&pt)
					fmt.Printf("      classes: %s\n", run.pathSig(&pt))
					for _, op := range run.mapOps(f, &pt) {
						fmt.Printf("      op: %s %s[%s] = %s\n", op.Kind, op.Map, op.Key, op.Val)
					}
				}
			}
		}
	}
	fmt.Println("truncated:", e.Trunc)
}

func explainCmd(args []string) {
	if len(args) < 1 {
		fmt.Println("usage: hagcheck explain <violation.json>")
		os.Exit(2)
	}
	b, err := os.ReadFile(args[0])
	if err != nil {
		fmt.Println(err)
		os.Exit(2)
	}
	fmt.Println(string(b))
}

func init() {
	// api: the exported functions and methods of the repository (input of tools/mkapi.sh)
	extraCmds["api"] = func(args []string) {
		fs := flag.NewFlagSet("api", flag.ExitOnError)
		repo := fs.String("repo", "/repo", "")
		fs.Parse(args)
		p, err := Load(*repo, false, nil)
		if err != nil {
			fmt.Println("load:", err)
			os.Exit(2)
		}
		var names []string
		for _, f := range p.All {
			if f.Obj != nil && f.Obj.Exported() && f.Lit == nil {
				names = append(names, f.Name)
			}
		}
		sort.Strings(names)
		for _, n := range names {
			fmt.Println(n)
		}
	}
	extraCmds["callees"] = func(args []string) {
		p, err := Load("/repo", true, nil)
		if err != nil {
			fmt.Println(err)
			os.Exit(2)
		}
		r := NewRun(p, "X", "quick", 0)
		d := r.Deep()
		for _, fn := range append(append([]*Func{}, p.All...), p.Ext...) {
			match := false
			for _, a := range args {
				if strings.Contains(fn.Name, a) {
					match = true
				}
			}
			if !match {
				continue
			}
			ast.Inspect(fn.Body, func(n ast.Node) bool {
				if c, ok := n.(*ast.CallExpr); ok {
					k, o := d.Callees(p, c)
					var ks []string
					for _, f := range k {
						ks = append(ks, f.Name)
					}
					fmt.Printf("%s: %s -> %v opaque=%d\n", p.Pos(c.Pos()), p.exprStr(c.Fun), ks, len(o))
				}
				return true
			})
		}
	}
}
