package main

import (
	"flag"
	"go/ast"
	"fmt"
	"os"
	"runtime/debug"
	"strconv"
	"strings"
)


var extraCmds = map[string]func([]string){}

func main() {
	if len(os.Args) > 1 {
		if f, ok := extraCmds[os.Args[1]]; ok {
			f(os.Args[2:])
			return
		}
	}
	if len(os.Args) > 1 && os.Args[1] == "dump" {
		dumpCmd(os.Args[2:])
		return
	}
	if len(os.Args) > 1 && os.Args[1] == "explain" {
		explainCmd(os.Args[2:])
		return
	}
	prop := flag.String("property", "", "property id (C01..C20)")
	tier := flag.String("tier", "", "quick|thorough")
	repo := flag.String("repo", "/repo", "repository working tree")
	verif := flag.String("verif", "/verif", "verification directory")
	control := flag.String("control", "", "apply a positive-control edit (JSON file) in memory before analysing")
	outDir := flag.String("out", "", "directory for evidence/ and out/ (default: the verification directory)")
	flag.Parse()
	if *outDir == "" {
		*outDir = *verif
	}
	if *tier == "" {
		*tier = os.Getenv("VERIF_TIER")
	}
	if *tier == "" {
		*tier = "quick"
	}
	seed, _ := strconv.Atoi(os.Getenv("VERIF_SEED"))
	spec, ok := properties[*prop]
	if !ok {
		fmt.Printf("UNDECIDED property=%s reason=unknown property\n", *prop)
		os.Exit(2)
	}
	var overlay map[string][]byte
	if *control != "" {
		ov, err := controlOverlay(*repo, *control)
		if err != nil {
			fmt.Printf("CONTROL-STALE %s: %v\n", *control, err)
			os.Exit(3)
		}
		overlay = ov
	}
	code := runProperty(*prop, spec, *tier, *repo, *verif, *outDir, seed, overlay)
	os.Exit(code)
}

func runProperty(prop string, spec propSpec, tier, repo, verif, outDir string, seed int, overlay map[string][]byte) (code int) {
	p, err := Load(repo, false, overlay)
	if err != nil {
		fmt.Printf("UNDECIDED property=%s reason=load failed: %v\n", prop, err)
		return 2
	}
	r := NewRun(p, prop, tier, seed)
	r.Spec = &spec
	defer func() {
		if e := recover(); e != nil {
			fmt.Printf("UNDECIDED property=%s reason=internal panic: %v\n%s\n", prop, e, debug.Stack())
			code = 2
		}
	}()
	if len(p.Pkgs) < 11 {
		r.Undecide("loader", "only %d repository packages loaded (expected at least 11)", len(p.Pkgs))
	}
	for _, rule := range spec.Rules {
		rule(r)
	}
	for _, a := range spec.Assumptions {
		r.Assume(a)
	}
	if tier == "thorough" && overlay == nil {
		runControls(r, prop, repo, verif)
	}
	return r.Finish(verif, outDir, spec.Explanation)
}

func dumpCmd(args []string) {
	fs := flag.NewFlagSet("dump", flag.ExitOnError)
	repo := fs.String("repo", "/repo", "")
	fs.Parse(args)
	p, err := Load(*repo, false, nil)
	if err != nil {
		fmt.Println("load:", err)
		os.Exit(2)
	}
	e := NewEngine(p)
	for _, f := range p.All {
		match := fs.NArg() == 0
		for _, a := range fs.Args() {
			if strings.Contains(f.Name, a) {
				match = true
			}
		}
		if !match {
			continue
		}
		ps := e.Paths(f)
		fmt.Printf("== %s: %d paths\n", f.Name, len(ps))
		if fs.NArg() > 0 {
			for i, pt := range ps {
				fmt.Printf("  #%d %s\n", i, p.PathStr(pt))
			}
		}
	}
	fmt.Println("truncated:", e.Trunc)
}

func explainCmd(args []string) {
	if len(args) < 1 {
		fmt.Println("usage: hagcheck explain <violation.json>")
		os.Exit(2)
	}
	b, err := os.ReadFile(args[0])
	if err != nil {
		fmt.Println(err)
		os.Exit(2)
	}
	fmt.Println(string(b))
}

func init() {
	extraCmds["callees"] = func(args []string) {
		p, err := Load("/repo", true, nil)
		if err != nil {
			fmt.Println(err)
			os.Exit(2)
		}
		r := NewRun(p, "X", "quick", 0)
		d := r.Deep()
		for _, fn := range append(append([]*Func{}, p.All...), p.Ext...) {
			match := false
			for _, a := range args {
				if strings.Contains(fn.Name, a) {
					match = true
				}
			}
			if !match {
				continue
			}
			ast.Inspect(fn.Body, func(n ast.Node) bool {
				if c, ok := n.(*ast.CallExpr); ok {
					k, o := d.Callees(p, c)
					var ks []string
					for _, f := range k {
						ks = append(ks, f.Name)
					}
					fmt.Printf("%s: %s -> %v opaque=%d\n", p.Pos(c.Pos()), p.exprStr(c.Fun), ks, len(o))
				}
				return true
			})
		}
	}
}
