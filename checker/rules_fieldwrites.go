package main

import (
	"go/ast"
	"go/token"
	"go/types"
	"strings"
)

// fieldWrite is one write (m[k] = v) or delete(m, k) on a map that lives in (or below) a given
// struct field, found on a path of a top-level function of the field's package. Writes made inside
// unexported helpers are seen in the context of each caller (helper look-in), with the helper's
// parameters bound to the caller's arguments.
type fieldWrite struct {
	Top   *Func // function whose path this is
	Path  *Path
	Idx   int
	Kind  string   // "write" | "delete"
	Fn    *Func    // function (instance) the statement belongs to
	Keys  []string // canonical keys from the field downwards: f[k0][k1]
	Val   ast.Expr // nil for delete
	ValC  string
	Depth int
}

// baseField peels index expressions off x and reports the struct field at the bottom, following
// one level of local aliasing (m := s.f[k]; m[k2] = v).
func (r *Run) baseField(fn *Func, path *Path, i int, x ast.Expr) (fv *types.Var, keys []ast.Expr) {
	for depth := 0; depth < 4; depth++ {
		switch v := ast.Unparen(x).(type) {
		case *ast.IndexExpr:
			keys = append([]ast.Expr{v.Index}, keys...)
			x = v.X
		case *ast.SelectorExpr:
			if sel := fn.Info().Selections[v]; sel != nil {
				if f, ok := sel.Obj().(*types.Var); ok && f.IsField() {
					return f, keys
				}
			}
			return nil, nil
		case *ast.Ident:
			obj := fn.Info().Uses[v]
			if obj == nil {
				obj = fn.Info().Defs[v]
			}
			if obj == nil {
				return nil, nil
			}
			rhs, _, ok := lastDefOnPath(fn, path, i, obj)
			if !ok || rhs == nil {
				return nil, nil
			}
			x = rhs
		default:
			return nil, nil
		}
	}
	return nil, nil
}

// writesOfField enumerates the writes and deletes on the map field fv over every top-level function
// of fv's package. Unexported functions that are looked into from their callers are analysed in
// the callers' context only.
func (r *Run) writesOfField(rule string, fv *types.Var) []fieldWrite {
	var out []fieldWrite
	if fv == nil || fv.Pkg() == nil {
		return nil
	}
	seenInlined := map[*Func]bool{}
	direct := map[*Func]bool{} // functions whose own body touches the field
	var tops []*Func
	for _, fn := range r.P.All {
		if fn.Pkg == nil || fn.Pkg.Types != fv.Pkg() || fn.Lit != nil || fn.Decl == nil {
			continue
		}
		touches := false
		ast.Inspect(fn.Body, func(n ast.Node) bool {
			if se, ok := n.(*ast.SelectorExpr); ok {
				if sel := fn.Info().Selections[se]; sel != nil && sel.Obj() == fv {
					touches = true
				}
			}
			return !touches
		})
		if touches {
			direct[fn] = true
		}
		tops = append(tops, fn)
	}
	for _, fn := range tops {
		if strings.HasSuffix(fn.Pkg.Fset.Position(fn.Body.Pos()).Filename, "_test.go") {
			continue
		}
		paths := r.Paths(fn)
		found := false
		for pi := range paths {
			path := &paths[pi]
			r.at(path)
			var stack []*Func // looked-into functions enclosing the current event
			markInlined := func() {
				for _, f := range stack {
					if f != nil {
						seenInlined[f] = true
					}
				}
			}
			for i, ev := range path.Events {
				efn := ev.Fn
				if efn == nil {
					efn = fn
				}
				switch ev.Kind {
				case EvEnter:
					var tf *Func
					if ev.Helper && ev.Target != nil {
						tf = r.P.Funcs[ev.Target]
					}
					stack = append(stack, tf)
				case EvExit:
					if len(stack) > 0 {
						stack = stack[:len(stack)-1]
					}
				case EvAssign:
					if ev.Tok != token.ASSIGN && ev.Tok != token.DEFINE {
						continue
					}
					for k, l := range ev.Lhs {
						if _, ok := ast.Unparen(l).(*ast.IndexExpr); !ok {
							continue
						}
						f, keys := r.baseField(efn, path, i, l)
						if f != fv {
							continue
						}
						w := fieldWrite{Top: fn, Path: path, Idx: i, Kind: "write", Fn: efn, Depth: len(keys)}
						for _, ke := range keys {
							w.Keys = append(w.Keys, r.P.Canon(efn, ke))
						}
						if len(ev.Rhs) == len(ev.Lhs) {
							w.Val = ev.Rhs[k]
							w.ValC = r.P.Canon(efn, ev.Rhs[k])
						}
						out = append(out, w)
						found = true
						markInlined()
					}
				case EvDelete:
					f, keys := r.baseField(efn, path, i, ev.Call.Args[0])
					if f != fv {
						continue
					}
					w := fieldWrite{Top: fn, Path: path, Idx: i, Kind: "delete", Fn: efn, Depth: len(keys) + 1}
					for _, ke := range keys {
						w.Keys = append(w.Keys, r.P.Canon(efn, ke))
					}
					w.Keys = append(w.Keys, r.P.Canon(efn, ev.Call.Args[1]))
					out = append(out, w)
					found = true
					markInlined()
				}
			}
		}
		_ = found
	}
	// an unexported function that writes the field itself but is attributed to its callers must
	// have been seen in their context; otherwise its writes were analysed without bindings only.
	var keep []fieldWrite
	for _, w := range out {
		top := w.Top
		if top.Obj != nil && r.P.isGlue(top.Obj) && !r.attributed(top)[top.Name] {
			if !seenInlined[top] {
				r.Undecide(rule, "writes of %s.%s inside the unexported helper %s were not seen in the context of its callers", ownerName(fv), fv.Name(), top.Name)
			}
			continue // analysed through its callers
		}
		keep = append(keep, w)
	}
	return keep
}

func ownerName(fv *types.Var) string {
	if fv.Pkg() != nil {
		return shortPkg(fv.Pkg().Path())
	}
	return "?"
}

// fieldOfValue: canonical form of <val>.<field> where val may be a composite literal (possibly
// handed in through a bound helper parameter) or any other expression.
func (r *Run) fieldOfValue(fn *Func, val ast.Expr, field string) string {
	if val == nil {
		return ""
	}
	if lit, lfn := r.P.compositeOfIn(fn, val); lit != nil {
		if fe := litField(lit, field); fe != nil {
			return r.P.Canon(lfn, fe)
		}
		return "zero"
	}
	return r.P.Canon(fn, val) + "." + field
}
