package main

import (
	"fmt"
	"go/ast"
	"go/token"
	"go/types"
	"golang.org/x/tools/go/packages"
	"strings"

	"golang.org/x/tools/go/cfg"
)

// ---------------------------------------------------------------------------------------------
// Events: what a path through a function does, recognised through resolved callees and types.

type EvKind int

const (
	EvCall    EvKind = iota // a call (callee resolved through types.Info)
	EvGuard                 // a branch outcome
	EvReturn                // return statement (Depth 0: of the analysed function)
	EvAssign                // assignment / inc-dec / define
	EvChanOp                // channel send or receive (blocking unless NonBlocking)
	EvGo                    // go statement
	EvDefer                 // defer statement
	EvEnter                 // entering an inlined closure / function value passed to a synchronous combinator
	EvExit                  // leaving it
	EvSkip                  // the combinator did not invoke the closure on this path
	EvFuncVal               // a function literal that escapes (stored, returned, passed to an unknown callee)
	EvDelete                // builtin delete(m, k)
	EvEnd                   // path ended without return (panic / no-return call)
	EvCut                   // path cut at the back edge of a loop without header condition
)

type GuardKind int

const (
	GIf GuardKind = iota
	GSwitchCase
	GSelectCase
	GRange
	GFor
	GUnknown
)

type Event struct {
	Kind  EvKind
	Pos   token.Pos
	Node  ast.Node
	Fn    *Func // function (or literal) whose body contains the node
	Depth int   // closure nesting depth relative to the analysed function
	Loop  bool  // node sits inside a loop body of Fn

	// EvCall / EvGo / EvDefer
	Call   *ast.CallExpr
	Callee types.Object // *types.Func, *types.Var (func value), *types.Builtin, or nil
	Recv   ast.Expr     // receiver expression for method calls

	// EvGuard
	GKind GuardKind
	Cond  ast.Expr // condition (negations stripped), case expression, or nil
	Val   bool     // outcome of Cond
	Tag   ast.Expr // switch tag for GSwitchCase
	Stmt  ast.Stmt // if/switch-clause/comm-clause/range statement

	// EvAssign
	Lhs []ast.Expr
	Rhs []ast.Expr
	Tok token.Token

	// EvReturn
	Results  []ast.Expr
	RetTruth map[int]bool // results (by index) whose boolean value is known on this path (compound conditions split by the engine)

	// EvChanOp
	Chan        ast.Expr
	Send        bool
	NonBlocking bool
	InSelect    bool // the operation is the communication of a select arm

	// EvGuard with GKind == GRange: the collection iterated (range statement, or the canonical
	// index loop `for i := 0; i < len(x); i++`, which is presented as a range over x)
	Over ast.Expr

	// EvEnter/EvExit/EvSkip/EvFuncVal
	Via     types.Object // combinator through which the closure is invoked
	ViaCall *ast.CallExpr
	Lit     *ast.FuncLit
	Target  *types.Func // for method values / function identifiers passed to a combinator
	Helper  bool        // EvEnter/EvExit bracket of an inlined unexported helper of the same package
}

type Path struct {
	Fn     *Func
	Events []Event
	Exit   string // "return", "end"
}

// ---------------------------------------------------------------------------------------------
// Engine

type Engine struct {
	single   map[*Func]int // number of call sites per function (see singleCallSite)
	P        *Program
	cache    map[*Func][]Path
	combs    map[*types.Var]*combSummary // func-typed parameter -> how often the function calls it
	busy     map[*Func]bool
	MaxPth   int
	Trunc    []string // functions whose path enumeration was truncated
	Shallow  []string // functions enumerated without looking into their helpers (over budget otherwise)
	noLook   bool
	inl      map[*Func]bool // helpers being inlined (recursion guard)
	inlDepth map[*Func]int  // how often each of them is on the look-in stack
	hcount   map[*Func]int  // cached path counts of helper candidates
}

type combSummary struct {
	ok       bool // parameter only ever called (never stored, passed on, or spawned)
	min, max int  // calls per path
}

func NewEngine(p *Program) *Engine {
	return &Engine{P: p, cache: map[*Func][]Path{}, combs: map[*types.Var]*combSummary{}, busy: map[*Func]bool{}, MaxPth: 60000, inl: map[*Func]bool{}, hcount: map[*Func]int{}}
}

// frozen summaries for library combinators: {min,max} invocations of the function argument.
// One line of reason each.
var libCombinators = map[string][2]int{
	"(*sync.Once).Do": {0, 1}, // runs f at most once, synchronously, on the calling goroutine
}

func (e *Engine) mayReturn(info *types.Info) func(*ast.CallExpr) bool {
	return func(c *ast.CallExpr) bool {
		obj := calleeObj(info, c)
		switch o := obj.(type) {
		case *types.Builtin:
			return o.Name() != "panic"
		case *types.Func:
			full := o.FullName()
			if full == "os.Exit" || full == "github.com/aukilabs/go-tooling/pkg/logs.Fatal" || full == "log.Fatal" || full == "log.Fatalf" {
				return false
			}
		}
		return true
	}
}

// calleeObj resolves the called object of a call expression.
func calleeObj(info *types.Info, call *ast.CallExpr) types.Object {
	obj := calleeObjRaw(info, call)
	// a method of an instantiated generic type, or an instantiated generic function: the declaration
	if f, ok := obj.(*types.Func); ok && f.Origin() != nil {
		obj = f.Origin()
	}
	// a method of an unexported repository interface that exactly one repository type implements: that
	// type's method (state held behind a small private interface is still that state)
	if f, ok := obj.(*types.Func); ok {
		if d := devirt[f]; d != nil {
			return d
		}
	}
	return obj
}

// devirt: interface method -> the only implementation (see buildDevirt).
var devirt = map[*types.Func]*types.Func{}

// ifaceImpl: unexported repository interface -> its only implementing type.
var ifaceImpl = map[*types.Named]types.Type{}

// buildDevirt fills devirt for every unexported named interface of a repository package that has exactly
// one implementing named type among the repository packages.
func buildDevirt(pkgs []*packages.Package) {
	devirt = map[*types.Func]*types.Func{}
	ifaceImpl = map[*types.Named]types.Type{}
	var named []*types.Named
	for _, pk := range pkgs {
		sc := pk.Types.Scope()
		for _, nm := range sc.Names() {
			if tn, ok := sc.Lookup(nm).(*types.TypeName); ok && !tn.IsAlias() {
				if n, ok := tn.Type().(*types.Named); ok && n.TypeParams().Len() == 0 {
					named = append(named, n)
				}
			}
		}
	}
	for _, in := range named {
		iface, ok := in.Underlying().(*types.Interface)
		if !ok || in.Obj().Exported() || iface.NumMethods() == 0 {
			continue
		}
		var impls []types.Type
		for _, n := range named {
			if _, isIface := n.Underlying().(*types.Interface); isIface {
				continue
			}
			if types.Implements(n, iface) {
				impls = append(impls, n)
			} else if types.Implements(types.NewPointer(n), iface) {
				impls = append(impls, types.NewPointer(n))
			}
		}
		if len(impls) != 1 {
			continue
		}
		ifaceImpl[in] = impls[0]
		for i := 0; i < iface.NumMethods(); i++ {
			m := iface.Method(i)
			obj, _, _ := types.LookupFieldOrMethod(impls[0], true, m.Pkg(), m.Name())
			if f, ok := obj.(*types.Func); ok {
				devirt[m] = f
			}
		}
	}
}

func calleeObjRaw(info *types.Info, call *ast.CallExpr) types.Object {
	fun := ast.Unparen(call.Fun)
	switch f := fun.(type) {
	case *ast.Ident:
		return info.Uses[f]
	case *ast.SelectorExpr:
		if sel, ok := info.Selections[f]; ok {
			return sel.Obj()
		}
		return info.Uses[f.Sel]
	case *ast.IndexExpr: // generic instantiation
		return genericFuncObj(info, f.X)
	case *ast.IndexListExpr:
		return genericFuncObj(info, f.X)
	}
	return nil
}

func genericFuncObj(info *types.Info, x ast.Expr) types.Object {
	if id, ok := ast.Unparen(x).(*ast.Ident); ok {
		return info.Uses[id]
	}
	if se, ok := ast.Unparen(x).(*ast.SelectorExpr); ok {
		return info.Uses[se.Sel]
	}
	return nil
}

func recvExpr(call *ast.CallExpr) ast.Expr {
	if se, ok := ast.Unparen(call.Fun).(*ast.SelectorExpr); ok {
		return se.X
	}
	return nil
}

// Paths enumerates every entry→exit path of fn (loops: body zero or one time), with closures handed
// to synchronous combinators inlined.
func (e *Engine) Paths(fn *Func) []Path {
	if ps, ok := e.cache[fn]; ok {
		return ps
	}
	if e.busy[fn] {
		return nil
	}
	e.busy[fn] = true
	defer delete(e.busy, fn)
	nt := len(e.Trunc)
	ps := e.enumerate(fn, 0)
	if len(e.Trunc) > nt && !e.noLook && len(e.busy) == 1 {
		// over budget with helpers looked into: enumerate the function's own paths, its helpers as calls (their
		// effects are then seen through summaries, as for any function that is not looked into)
		e.Trunc = e.Trunc[:nt]
		e.noLook = true
		ps = e.enumerate(fn, 0)
		e.noLook = false
		e.Shallow = append(e.Shallow, fn.Name)
	}
	e.cache[fn] = ps
	return ps
}

type blockInfo struct {
	variants [][]Event // alternatives of the events of the block (closure variants)
}

type fnCtx struct {
	noEval  bool // expanding a named condition: its calls were already made
	e       *Engine
	fn      *Func
	info    *types.Info
	depth   int
	g       *cfg.CFG
	caseOf  map[ast.Expr]*caseInfo
	commOf  map[ast.Stmt]*commInfo
	loops   []ast.Node
	blocks  map[*cfg.Block]*blockInfo
	paths   []Path
	trunc   bool
	visited map[*cfg.Block]int
	nbranch int
}

type caseInfo struct {
	sw     *ast.SwitchStmt
	clause *ast.CaseClause
}
type commInfo struct {
	sel        *ast.SelectStmt
	clause     *ast.CommClause
	hasDefault bool
}

func (e *Engine) enumerate(fn *Func, depth int) []Path {
	c := &fnCtx{e: e, fn: fn, info: fn.Info(), depth: depth, caseOf: map[ast.Expr]*caseInfo{}, commOf: map[ast.Stmt]*commInfo{},
		blocks: map[*cfg.Block]*blockInfo{}, visited: map[*cfg.Block]int{}}
	if fn.Body == nil {
		return nil
	}
	ast.Inspect(fn.Body, func(n ast.Node) bool {
		switch s := n.(type) {
		case *ast.FuncLit:
			return false
		case *ast.SwitchStmt:
			for _, cl := range s.Body.List {
				cc := cl.(*ast.CaseClause)
				for _, x := range cc.List {
					c.caseOf[x] = &caseInfo{sw: s, clause: cc}
				}
			}
		case *ast.SelectStmt:
			hasDef := false
			for _, cl := range s.Body.List {
				if cl.(*ast.CommClause).Comm == nil {
					hasDef = true
				}
			}
			for _, cl := range s.Body.List {
				cc := cl.(*ast.CommClause)
				if cc.Comm != nil {
					c.commOf[cc.Comm] = &commInfo{sel: s, clause: cc, hasDefault: hasDef}
				}
			}
		case *ast.ForStmt:
			c.loops = append(c.loops, s.Body)
		case *ast.RangeStmt:
			c.loops = append(c.loops, s.Body)
		}
		return true
	})
	c.g = cfg.New(fn.Body, e.mayReturn(c.info))
	if len(c.g.Blocks) == 0 {
		return nil
	}
	c.dfs(c.g.Blocks[0], nil)
	if c.trunc {
		e.Trunc = append(e.Trunc, fn.Name)
	}
	return c.paths
}

func (c *fnCtx) inLoop(pos token.Pos) bool {
	for _, l := range c.loops {
		if l.Pos() <= pos && pos < l.End() {
			return true
		}
	}
	return false
}

func (c *fnCtx) dfs(b *cfg.Block, cur []Event) {
	if c.trunc {
		return
	}
	if len(c.paths) >= c.e.MaxPth {
		c.trunc = true
		return
	}
	limit := 1
	if b.Kind == cfg.KindRangeLoop || b.Kind == cfg.KindForLoop {
		limit = 2
	}
	if c.visited[b] >= limit {
		// loop body already taken on this path. For a loop without a header condition (for { ... })
		// the iteration would otherwise vanish from every complete path: keep it as a cut path.
		if fs, ok := b.Stmt.(*ast.ForStmt); ok && b.Kind == cfg.KindForBody && fs.Cond == nil && len(cur) > 0 {
			evs := append([]Event(nil), cur...)
			evs = append(evs, Event{Kind: EvCut, Fn: c.fn, Depth: c.depth, Pos: c.fn.Body.End()})
			c.paths = append(c.paths, Path{Fn: c.fn, Events: evs, Exit: "cut"})
		}
		return
	}
	c.visited[b]++
	defer func() { c.visited[b]-- }()

	bi := c.blockInfo(b)
	for _, variant := range bi.variants {
		evs := append(append([]Event(nil), cur...), variant...)
		if !consistent(c.info, evs, len(cur)) {
			continue
		}
		switch len(b.Succs) {
		case 0:
			exit := "end"
			if n := len(b.Nodes); n > 0 {
				if _, ok := b.Nodes[n-1].(*ast.ReturnStmt); ok {
					exit = "return"
				}
			}
			if exit == "end" {
				evs = append(evs, Event{Kind: EvEnd, Fn: c.fn, Depth: c.depth, Pos: c.fn.Body.End()})
			}
			c.paths = append(c.paths, Path{Fn: c.fn, Events: evs, Exit: exit})
		case 1:
			c.dfs(b.Succs[0], evs)
		default:
			for i, s := range b.Succs {
				for _, g := range c.guardFor(b, i) {
					nevs := append(append([]Event(nil), evs...), g...)
					if !consistent(c.info, nevs, len(evs)) {
						continue
					}
					c.dfs(s, nevs)
				}
			}
		}
	}
}

// guardFor builds the guard event(s) for taking successor i of a two-way block.
func (c *fnCtx) guardFor(b *cfg.Block, i int) alts {
	val := i == 0
	base := Event{Kind: EvGuard, Fn: c.fn, Depth: c.depth, Val: val, Stmt: b.Stmt}
	if b.Kind == cfg.KindRangeLoop {
		base.GKind = GRange
		base.Pos = b.Stmt.Pos()
		base.Node = b.Stmt
		if rs, ok := b.Stmt.(*ast.RangeStmt); ok {
			base.Over = rs.X
		}
		return one(base)
	}
	if b.Succs[0].Kind == cfg.KindSelectCaseBody {
		clause := b.Succs[0].Stmt.(*ast.CommClause)
		base.GKind = GSelectCase
		base.Stmt = clause
		base.Pos = clause.Pos()
		base.Node = clause
		out := []Event{base}
		if val {
			if ci := c.commOf[clause.Comm]; ci != nil {
				out = append(out, c.chanOpsOfComm(clause.Comm, ci.hasDefault)...)
			}
		}
		return alts{out}
	}
	if len(b.Nodes) == 0 {
		base.GKind = GUnknown
		return one(base)
	}
	last, ok := b.Nodes[len(b.Nodes)-1].(ast.Expr)
	if !ok {
		base.GKind = GUnknown
		base.Pos = b.Nodes[len(b.Nodes)-1].Pos()
		return one(base)
	}
	base.Pos = last.Pos()
	base.Node = last
	if ci := c.caseOf[last]; ci != nil {
		if ci.sw.Tag == nil {
			// tagless switch: each case expression is an ordinary condition
			base.GKind = GIf
			base.Stmt = ci.clause
			return c.condAlts(last, val, base)
		}
		base.GKind = GSwitchCase
		base.Cond = last
		base.Tag = ci.sw.Tag
		base.Stmt = ci.clause
		return one(base)
	}
	base.GKind = GIf
	if b.Kind == cfg.KindForLoop {
		base.GKind = GFor
		if fs, ok := b.Stmt.(*ast.ForStmt); ok {
			if _, over := indexLoop(c.info, fs); over != nil {
				// canonical index loop: the same thing as `for i := range x`
				base.GKind = GRange
				base.Pos = fs.Pos()
				base.Node = fs
				base.Over = over
				return one(base)
			}
		}
	}
	return c.condAlts(last, val, base)
}

// indexLoop recognises `for i := 0; i < len(x); i++ { … }` whose body assigns neither i nor x and
// returns the index variable and x. Such a loop visits every element of x in order, like range.
func indexLoop(info *types.Info, fs *ast.ForStmt) (types.Object, ast.Expr) {
	as, ok := fs.Init.(*ast.AssignStmt)
	if !ok || as.Tok != token.DEFINE || len(as.Lhs) != 1 || len(as.Rhs) != 1 {
		return nil, nil
	}
	id, ok := as.Lhs[0].(*ast.Ident)
	if !ok {
		return nil, nil
	}
	if bl, ok := ast.Unparen(as.Rhs[0]).(*ast.BasicLit); !ok || bl.Value != "0" {
		return nil, nil
	}
	iv := info.Defs[id]
	if iv == nil {
		return nil, nil
	}
	cond, ok := ast.Unparen(fs.Cond).(*ast.BinaryExpr)
	if !ok || cond.Op != token.LSS {
		return nil, nil
	}
	if cid, ok := ast.Unparen(cond.X).(*ast.Ident); !ok || info.Uses[cid] != iv {
		return nil, nil
	}
	call, ok := ast.Unparen(cond.Y).(*ast.CallExpr)
	if !ok || len(call.Args) != 1 {
		return nil, nil
	}
	if b, ok := calleeObj(info, call).(*types.Builtin); !ok || b.Name() != "len" {
		return nil, nil
	}
	over := call.Args[0]
	inc, ok := fs.Post.(*ast.IncDecStmt)
	if !ok || inc.Tok != token.INC {
		return nil, nil
	}
	if pid, ok := ast.Unparen(inc.X).(*ast.Ident); !ok || info.Uses[pid] != iv {
		return nil, nil
	}
	// the body leaves i and x alone
	var root func(x ast.Expr) types.Object
	root = func(x ast.Expr) types.Object {
		switch v := ast.Unparen(x).(type) {
		case *ast.Ident:
			return info.Uses[v]
		case *ast.SelectorExpr:
			return info.Uses[v.Sel]
		case *ast.IndexExpr:
			return root(v.X)
		case *ast.StarExpr:
			return root(v.X)
		}
		return nil
	}
	overRoot := root(over)
	clean := true
	ast.Inspect(fs.Body, func(n ast.Node) bool {
		switch st := n.(type) {
		case *ast.AssignStmt:
			for _, l := range st.Lhs {
				if lid, ok := ast.Unparen(l).(*ast.Ident); ok && (info.Uses[lid] == iv || (overRoot != nil && info.Uses[lid] == overRoot)) {
					clean = false
				}
				if se, ok := ast.Unparen(l).(*ast.SelectorExpr); ok && overRoot != nil && info.Uses[se.Sel] == overRoot {
					clean = false
				}
			}
		case *ast.IncDecStmt:
			if lid, ok := ast.Unparen(st.X).(*ast.Ident); ok && info.Uses[lid] == iv {
				clean = false
			}
		case *ast.UnaryExpr:
			if st.Op == token.AND {
				if lid, ok := ast.Unparen(st.X).(*ast.Ident); ok && info.Uses[lid] == iv {
					clean = false
				}
			}
		}
		return clean
	})
	if !clean {
		return nil, nil
	}
	return iv, over
}

// condIsSplit: the block's last node is a plain branch condition whose evaluation (including
// short-circuit operands) is modelled by condAlts rather than by the block's own events.
func (c *fnCtx) condIsSplit(b *cfg.Block) bool {
	if len(b.Succs) != 2 || len(b.Nodes) == 0 || b.Kind == cfg.KindRangeLoop || b.Succs[0].Kind == cfg.KindSelectCaseBody {
		return false
	}
	last, ok := b.Nodes[len(b.Nodes)-1].(ast.Expr)
	if !ok {
		return false
	}
	ci := c.caseOf[last]
	return ci == nil || ci.sw.Tag == nil
}

// condAlts expands a condition with short-circuit operators into the alternative operand
// outcomes that make it evaluate to want; each operand's calls are evaluated only when reached.
func (c *fnCtx) condAlts(x ast.Expr, want bool, base Event) alts {
	x = ast.Unparen(x)
	switch v := x.(type) {
	case *ast.UnaryExpr:
		if v.Op == token.NOT {
			return c.condAlts(v.X, !want, base)
		}
	case *ast.Ident:
		// a boolean local that names a compound condition (inBounds := n >= lo && n <= hi; if !inBounds):
		// the condition itself, when it is free of calls
		if lv, ok := c.info.Uses[v].(*types.Var); ok && !lv.IsField() && !isParamOf(c.fn, lv) {
			if ds, ok := c.fn.Defs().singleDef(lv); ok && ds.kind == "assign" && !ds.multi && ds.rhs != nil && c.isCompoundBool(ds.rhs) {
				pure := true
				ast.Inspect(ds.rhs, func(n ast.Node) bool {
					if call, isCall := n.(*ast.CallExpr); isCall {
						if tv, ok := c.info.Types[call.Fun]; !ok || !tv.IsType() {
							if b, isB := calleeObj(c.info, call).(*types.Builtin); !isB || b.Name() != "len" {
								pure = false
							}
						}
					}
					return pure
				})
				if pure {
					return c.condAlts(ds.rhs, want, base)
				}
				// with calls: they were made (and recorded) where the local got its value; the tests on their results
				// are what the guard adds
				if !c.noEval {
					c.noEval = true
					a := c.condAlts(ds.rhs, want, base)
					c.noEval = false
					return a
				}
			}
		}
	case *ast.BinaryExpr:
		switch v.Op {
		case token.LOR:
			if want {
				return append(c.condAlts(v.X, true, base), seq(c.condAlts(v.X, false, base), c.condAlts(v.Y, true, base))...)
			}
			return seq(c.condAlts(v.X, false, base), c.condAlts(v.Y, false, base))
		case token.LAND:
			if want {
				return seq(c.condAlts(v.X, true, base), c.condAlts(v.Y, true, base))
			}
			return append(c.condAlts(v.X, false, base), seq(c.condAlts(v.X, true, base), c.condAlts(v.Y, false, base))...)
		}
	}
	g := base
	g.Cond = x
	g.Val = want
	g.Pos = x.Pos()
	g.Node = x
	g.Loop = c.inLoop(x.Pos())
	if c.noEval {
		return one(g)
	}
	return seq(c.exprEvents(x), one(g))
}

// isCompoundBool: a boolean expression built from comparisons and logical operators (not a plain
// identifier, constant or call).
func (c *fnCtx) isCompoundBool(x ast.Expr) bool {
	tv, ok := c.info.Types[x]
	if !ok || tv.Value != nil {
		return false
	}
	if b, ok := tv.Type.Underlying().(*types.Basic); !ok || b.Info()&types.IsBoolean == 0 {
		return false
	}
	switch v := ast.Unparen(x).(type) {
	case *ast.BinaryExpr:
		switch v.Op {
		case token.LAND, token.LOR, token.EQL, token.NEQ, token.LSS, token.GTR, token.LEQ, token.GEQ:
			return true
		}
	case *ast.UnaryExpr:
		if v.Op == token.NOT {
			if _, isCall := ast.Unparen(v.X).(*ast.CallExpr); isCall {
				return true
			}
			return c.isCompoundBool(v.X)
		}
	}
	return false
}

func (c *fnCtx) chanOpsOfComm(comm ast.Stmt, nonBlocking bool) []Event {
	var out []Event
	mk := func(ch ast.Expr, send bool, n ast.Node) {
		out = append(out, Event{Kind: EvChanOp, Fn: c.fn, Depth: c.depth, Pos: n.Pos(), Node: n, Chan: ch, Send: send, NonBlocking: nonBlocking, InSelect: true, Loop: c.inLoop(n.Pos())})
	}
	switch s := comm.(type) {
	case *ast.SendStmt:
		mk(s.Chan, true, s)
	case *ast.ExprStmt:
		if u, ok := ast.Unparen(s.X).(*ast.UnaryExpr); ok && u.Op == token.ARROW {
			mk(u.X, false, s)
		}
	case *ast.AssignStmt:
		if len(s.Rhs) == 1 {
			if u, ok := ast.Unparen(s.Rhs[0]).(*ast.UnaryExpr); ok && u.Op == token.ARROW {
				mk(u.X, false, s)
			}
		}
	}
	return out
}

// blockInfo computes the event alternatives of a block's nodes.
func (c *fnCtx) blockInfo(b *cfg.Block) *blockInfo {
	if bi, ok := c.blocks[b]; ok {
		return bi
	}
	bi := &blockInfo{variants: [][]Event{nil}}
	nodes := b.Nodes
	if c.condIsSplit(b) {
		nodes = nodes[:len(nodes)-1]
	}
	for _, n := range nodes {
		alts := c.nodeEvents(n)
		if len(alts) == 0 {
			continue
		}
		var next [][]Event
		for _, v := range bi.variants {
			for _, a := range alts {
				next = append(next, append(append([]Event(nil), v...), a...))
			}
		}
		bi.variants = next
		if len(bi.variants) > c.e.MaxPth {
			c.trunc = true
			break
		}
	}
	c.blocks[b] = bi
	return bi
}

// alternatives of event sequences
type alts [][]Event

func seq(a, b alts) alts {
	if len(a) == 0 {
		return b
	}
	if len(b) == 0 {
		return a
	}
	var out alts
	for _, x := range a {
		for _, y := range b {
			out = append(out, append(append([]Event(nil), x...), y...))
		}
	}
	return out
}

func one(evs ...Event) alts { return alts{evs} }

func (c *fnCtx) nodeEvents(n ast.Node) alts {
	ev := func(k EvKind, node ast.Node) Event {
		return Event{Kind: k, Fn: c.fn, Depth: c.depth, Pos: node.Pos(), Node: node, Loop: c.inLoop(node.Pos())}
	}
	switch s := n.(type) {
	case *ast.ExprStmt:
		if _, isComm := c.commOf[s]; isComm {
			// "<-ch" of a select clause: only evaluate the channel expression here
			if u, ok := ast.Unparen(s.X).(*ast.UnaryExpr); ok && u.Op == token.ARROW {
				return c.exprEvents(u.X)
			}
		}
		return c.exprEvents(s.X)
	case *ast.SendStmt:
		a := seq(c.exprEvents(s.Chan), c.exprEvents(s.Value))
		if _, isComm := c.commOf[s]; isComm {
			return a
		}
		e := ev(EvChanOp, s)
		e.Chan, e.Send = s.Chan, true
		return seq(a, one(e))
	case *ast.AssignStmt:
		var a alts
		if _, isComm := c.commOf[s]; isComm {
			if len(s.Rhs) == 1 {
				if u, ok := ast.Unparen(s.Rhs[0]).(*ast.UnaryExpr); ok && u.Op == token.ARROW {
					return c.exprEvents(u.X)
				}
			}
		}
		for _, r := range s.Rhs {
			a = seq(a, c.exprEvents(r))
		}
		for _, l := range s.Lhs {
			a = seq(a, c.lhsEvents(l))
		}
		if parts := c.partAssign(s); parts != nil {
			// x.part = T{f: v, …} with part a by-value piece of x: one assignment per field of the piece
			var evs []Event
			for _, pa := range parts {
				e := ev(EvAssign, s)
				e.Lhs, e.Rhs, e.Tok = []ast.Expr{pa.lhs}, []ast.Expr{pa.rhs}, token.ASSIGN
				evs = append(evs, e)
			}
			return seq(a, alts{evs})
		}
		e := ev(EvAssign, s)
		e.Lhs, e.Rhs, e.Tok = s.Lhs, s.Rhs, s.Tok
		return seq(a, one(e))
	case *ast.IncDecStmt:
		a := c.lhsEvents(s.X)
		e := ev(EvAssign, s)
		e.Lhs, e.Tok = []ast.Expr{s.X}, s.Tok
		return seq(a, one(e))
	case *ast.ValueSpec:
		var a alts
		for _, v := range s.Values {
			a = seq(a, c.exprEvents(v))
		}
		if len(s.Values) > 0 {
			e := ev(EvAssign, s)
			for _, nm := range s.Names {
				e.Lhs = append(e.Lhs, nm)
			}
			e.Rhs, e.Tok = s.Values, token.DEFINE
			a = seq(a, one(e))
		}
		return a
	case *ast.DeclStmt:
		var a alts
		if gd, ok := s.Decl.(*ast.GenDecl); ok {
			for _, sp := range gd.Specs {
				if vs, ok := sp.(*ast.ValueSpec); ok {
					a = seq(a, c.nodeEvents(vs))
				}
			}
		}
		return a
	case *ast.ReturnStmt:
		// Inside a looked-into helper, a boolean result computed by a compound condition
		// (a && b, x != nil, !p(y) …) is split into its operand outcomes, exactly like the condition
		// of an if: the helper's paths then say which operand decided, and the caller's test of the
		// result is matched against the recorded truth value (Run.knownTruth).
		if c.depth > 0 {
			for k, r := range s.Results {
				if !c.isCompoundBool(r) {
					continue
				}
				var out alts
				for _, want := range []bool{true, false} {
					base := Event{Kind: EvGuard, GKind: GIf, Fn: c.fn, Depth: c.depth, Val: want, Stmt: s}
					var a alts
					for j, r2 := range s.Results {
						if j != k {
							a = seq(a, c.exprEvents(r2))
						}
					}
					a = seq(a, c.condAlts(r, want, base))
					e := ev(EvReturn, s)
					e.Results = s.Results
					e.RetTruth = map[int]bool{k: want}
					out = append(out, seq(a, one(e))...)
				}
				return out
			}
		}
		var a alts
		for _, r := range s.Results {
			a = seq(a, c.exprEvents(r))
		}
		e := ev(EvReturn, s)
		e.Results = s.Results
		return seq(a, one(e))
	case *ast.GoStmt:
		var a alts
		for _, arg := range s.Call.Args {
			a = seq(a, c.exprEvents(arg))
		}
		if _, ok := ast.Unparen(s.Call.Fun).(*ast.FuncLit); !ok {
			if r := recvExpr(s.Call); r != nil {
				a = seq(a, c.exprEvents(r))
			}
		}
		e := ev(EvGo, s)
		e.Call = s.Call
		e.Callee = calleeObj(c.info, s.Call)
		e.Recv = recvExpr(s.Call)
		if lit, ok := ast.Unparen(s.Call.Fun).(*ast.FuncLit); ok {
			e.Lit = lit
		}
		return seq(a, one(e))
	case *ast.DeferStmt:
		var a alts
		for _, arg := range s.Call.Args {
			a = seq(a, c.exprEvents(arg))
		}
		if _, ok := ast.Unparen(s.Call.Fun).(*ast.FuncLit); !ok {
			if r := recvExpr(s.Call); r != nil {
				a = seq(a, c.exprEvents(r))
			}
		}
		e := ev(EvDefer, s)
		e.Call = s.Call
		e.Callee = calleeObj(c.info, s.Call)
		e.Recv = recvExpr(s.Call)
		if lit, ok := ast.Unparen(s.Call.Fun).(*ast.FuncLit); ok {
			e.Lit = lit
		}
		return seq(a, one(e))
	case ast.Expr:
		return c.exprEvents(s)
	case *ast.EmptyStmt, *ast.BranchStmt, *ast.LabeledStmt:
		return nil
	}
	return nil
}

func (c *fnCtx) lhsEvents(l ast.Expr) alts {
	switch x := ast.Unparen(l).(type) {
	case *ast.IndexExpr:
		return seq(c.exprEvents(x.X), c.exprEvents(x.Index))
	case *ast.SelectorExpr:
		return c.exprEvents(x.X)
	case *ast.StarExpr:
		return c.exprEvents(x.X)
	}
	return nil
}

// exprEvents walks an expression in evaluation order (operands before the call that uses them).
func (c *fnCtx) exprEvents(x ast.Expr) alts {
	if x == nil {
		return nil
	}
	switch v := x.(type) {
	case *ast.ParenExpr:
		return c.exprEvents(v.X)
	case *ast.CallExpr:
		return c.callEvents(v)
	case *ast.FuncLit:
		e := Event{Kind: EvFuncVal, Fn: c.fn, Depth: c.depth, Pos: v.Pos(), Node: v, Lit: v, Loop: c.inLoop(v.Pos())}
		return one(e)
	case *ast.UnaryExpr:
		a := c.exprEvents(v.X)
		if v.Op == token.ARROW {
			e := Event{Kind: EvChanOp, Fn: c.fn, Depth: c.depth, Pos: v.Pos(), Node: v, Chan: v.X, Send: false, Loop: c.inLoop(v.Pos())}
			a = seq(a, one(e))
		}
		return a
	case *ast.BinaryExpr:
		// && and || are already split by go/cfg when they are branch conditions; elsewhere
		// (value context) both operands are walked, which over-approximates evaluation.
		return seq(c.exprEvents(v.X), c.exprEvents(v.Y))
	case *ast.SelectorExpr:
		return c.exprEvents(v.X)
	case *ast.IndexExpr:
		return seq(c.exprEvents(v.X), c.exprEvents(v.Index))
	case *ast.SliceExpr:
		a := c.exprEvents(v.X)
		a = seq(a, c.exprEvents(v.Low))
		a = seq(a, c.exprEvents(v.High))
		return seq(a, c.exprEvents(v.Max))
	case *ast.StarExpr:
		return c.exprEvents(v.X)
	case *ast.TypeAssertExpr:
		return c.exprEvents(v.X)
	case *ast.CompositeLit:
		var a alts
		for _, el := range v.Elts {
			if kv, ok := el.(*ast.KeyValueExpr); ok {
				if _, isIdent := kv.Key.(*ast.Ident); !isIdent {
					a = seq(a, c.exprEvents(kv.Key))
				}
				a = seq(a, c.exprEvents(kv.Value))
			} else {
				a = seq(a, c.exprEvents(el))
			}
		}
		return a
	case *ast.KeyValueExpr:
		return seq(c.exprEvents(v.Key), c.exprEvents(v.Value))
	}
	return nil
}

func (c *fnCtx) callEvents(call *ast.CallExpr) alts {
	info := c.info
	// conversions
	if tv, ok := info.Types[call.Fun]; ok && tv.IsType() {
		var a alts
		for _, arg := range call.Args {
			a = seq(a, c.exprEvents(arg))
		}
		return a
	}
	callee := calleeObj(info, call)
	var a alts
	// immediately invoked literal: func(){...}()
	if lit, ok := ast.Unparen(call.Fun).(*ast.FuncLit); ok {
		for _, arg := range call.Args {
			a = seq(a, c.exprEvents(arg))
		}
		return seq(a, c.inlineLit(lit, nil, call, 1, 1))
	}
	if r := recvExpr(call); r != nil {
		// receiver chain first (package qualifiers produce nothing)
		a = seq(a, c.exprEvents(r))
	}
	// arguments; function literals / function values handed to combinators are inlined after the other args
	type fnArg struct {
		idx int
		lit *ast.FuncLit
		tgt *types.Func
		own *Func // the instance a handed-through literal belongs to (nil: the current function)
	}
	var fargs []fnArg
	for i, arg := range call.Args {
		ua := ast.Unparen(arg)
		if lit, ok := ua.(*ast.FuncLit); ok {
			fargs = append(fargs, fnArg{idx: i, lit: lit})
			continue
		}
		if tgt := funcValueTarget(info, ua); tgt != nil {
			if se, ok := ua.(*ast.SelectorExpr); ok {
				a = seq(a, c.exprEvents(se.X))
			}
			fargs = append(fargs, fnArg{idx: i, tgt: tgt})
			continue
		}
		// a function-typed parameter of a looked-into helper handed on (store.Notify(id, notify)): what the
		// helper's caller bound to it
		if id, ok := ua.(*ast.Ident); ok {
			if pv, isVar := info.Uses[id].(*types.Var); isVar {
				// a local closure handed over by name (post := func() error {…}; instrument(post))
				if !pv.IsField() && !isParamOf(c.fn, pv) {
					if ds, ok := c.fn.Defs().singleDef(pv); ok && ds.kind == "assign" && !ds.multi && ds.rhs != nil {
						if lit, isLit := ast.Unparen(ds.rhs).(*ast.FuncLit); isLit {
							fargs = append(fargs, fnArg{idx: i, lit: lit})
							continue
						}
					}
				}
				if lit, tgt, owner := c.boundFuncArg(pv); owner != nil {
					if lit != nil {
						fargs = append(fargs, fnArg{idx: i, lit: lit, own: owner})
						continue
					}
					if tgt != nil {
						fargs = append(fargs, fnArg{idx: i, tgt: tgt})
						continue
					}
				}
			}
		}
		a = seq(a, c.exprEvents(arg))
	}
	// builtin delete
	if b, ok := callee.(*types.Builtin); ok && b.Name() == "delete" {
		e := Event{Kind: EvDelete, Fn: c.fn, Depth: c.depth, Pos: call.Pos(), Node: call, Call: call, Callee: callee, Loop: c.inLoop(call.Pos())}
		return seq(a, one(e))
	}
	ce := Event{Kind: EvCall, Fn: c.fn, Depth: c.depth, Pos: call.Pos(), Node: call, Call: call, Callee: callee, Recv: recvExpr(call), Loop: c.inLoop(call.Pos())}
	// a call through a function-typed parameter of a looked-into helper: the caller's argument
	if pv, isVar := callee.(*types.Var); isVar {
		if lit, tgt, owner := c.boundFuncArg(pv); owner != nil {
			switch {
			case tgt != nil:
				ce2 := ce
				ce2.Callee = tgt
				if sub := c.inlineHelperX(tgt, call, true); sub != nil {
					return seq(seq(a, one(ce2)), sub)
				}
				return seq(a, one(ce2))
			case lit != nil:
				lf := c.e.P.Lits[lit]
				if lf != nil {
					if owner.bind != nil || owner.derived {
						d := *lf
						d.Outer = owner
						d.derived = true
						d.orig = lf
						lf = &d
					}
					return seq(seq(a, one(ce)), c.inlineLitFunc(lit, lf, callee, call))
				}
			}
		}
	}
	// a call through a local variable whose only definition is a function literal (send := func(){…};
	// send()): the literal's body runs here
	if lv, isVar := callee.(*types.Var); isVar && !lv.IsField() && !isParamOf(c.fn, lv) {
		if ds, ok := c.fn.Defs().singleDef(lv); ok && ds.kind == "assign" && !ds.multi && ds.rhs != nil {
			if lit, isLit := ast.Unparen(ds.rhs).(*ast.FuncLit); isLit {
				if lf := c.litFunc(lit); lf != nil {
					if sub := c.inlineLitFunc(lit, lf, callee, call); sub != nil {
						return seq(seq(a, one(ce)), sub)
					}
				}
			}
			// … or the closure a glue constructor returns (verify := newVerifier(client); verify(r)):
			// the literal runs with the constructor's parameters bound to the constructing call
			if mk, isCall := ast.Unparen(ds.rhs).(*ast.CallExpr); isCall {
				owner := c.fn.root()
				if g, _ := calleeObj(owner.Info(), mk).(*types.Func); g != nil && c.e.P.isGlue(g) {
					if gd := c.e.P.Funcs[g]; gd != nil && gd.Body != nil && !c.e.inl[gd] {
						var lit *ast.FuncLit
						nRet := 0
						ast.Inspect(gd.Body, func(nd ast.Node) bool {
							if _, isL := nd.(*ast.FuncLit); isL {
								return false
							}
							if rs, ok := nd.(*ast.ReturnStmt); ok {
								nRet++
								if len(rs.Results) == 1 {
									lit, _ = ast.Unparen(rs.Results[0]).(*ast.FuncLit)
								}
							}
							return true
						})
						if nRet == 1 && lit != nil && len(gd.Body.List) == 1 {
							if base := c.e.P.Lits[lit]; base != nil {
								var recv ast.Expr
								if se, ok := ast.Unparen(mk.Fun).(*ast.SelectorExpr); ok {
									if _, isSel := owner.Info().Selections[se]; isSel {
										recv = se.X
									}
								}
								inst := deriveFunc(gd, owner, mk, recv)
								d := *base
								d.Outer = inst
								d.derived = true
								d.orig = base
								if sub := c.inlineLitFunc(lit, &d, callee, call); sub != nil {
									return seq(seq(a, one(ce)), sub)
								}
							}
						}
					}
				}
			}
		}
	}
	// glue that takes function values is looked into like any other glue; the calls through its
	// function-typed parameters are resolved inside (above)
	if len(fargs) > 0 {
		if f, isF := callee.(*types.Func); isF && c.e.P.isGlue(f) {
			if sub := c.inlineHelper(callee, call); sub != nil {
				return seq(seq(a, one(ce)), sub)
			}
		}
	}
	if len(fargs) == 0 {
		if sub := c.inlineHelper(callee, call); sub != nil {
			return seq(seq(a, one(ce)), sub)
		}
		return seq(a, one(ce))
	}
	// Is the callee a synchronous combinator for these parameters?
	var inl alts
	allInlined := true
	for _, fa := range fargs {
		min, max, ok := c.e.combinatorFor(callee, fa.idx)
		if !ok {
			allInlined = false
			if fa.lit != nil {
				e := Event{Kind: EvFuncVal, Fn: c.fn, Depth: c.depth, Pos: fa.lit.Pos(), Node: fa.lit, Lit: fa.lit, Via: callee, ViaCall: call, Loop: c.inLoop(fa.lit.Pos())}
				inl = seq(inl, one(e))
			}
			continue
		}
		if fa.lit != nil && fa.own != nil {
			oc := *c
			oc.fn = fa.own
			inl = seq(inl, oc.inlineLitVia(fa.lit, callee, call, min, max))
		} else if fa.lit != nil {
			inl = seq(inl, c.inlineLitVia(fa.lit, callee, call, min, max))
		} else {
			inl = seq(inl, c.inlineTarget(fa.tgt, callee, call, min, max))
		}
	}
	_ = allInlined
	// the call event of the combinator itself comes first (its own effects), then the closure's
	return seq(seq(a, one(ce)), inl)
}

// boundFuncArg: v is a function-typed parameter of a looked-into helper instance (the current
// function or an enclosing one); returns the argument bound to it — a literal or a declared function —
// and the function instance the argument expression belongs to.
func (c *fnCtx) boundFuncArg(v *types.Var) (*ast.FuncLit, *types.Func, *Func) {
	if _, isSig := v.Type().Underlying().(*types.Signature); !isSig {
		return nil, nil, nil
	}
	for f := c.fn; f != nil; f = f.Outer {
		k := paramIndex(f, v)
		if k < 0 {
			continue
		}
		if f.bind == nil || f.bind.call == nil || k >= len(f.bind.argv()) {
			return nil, nil, nil
		}
		arg := ast.Unparen(f.bind.argv()[k])
		caller := f.bind.caller
		if lit, ok := arg.(*ast.FuncLit); ok {
			return lit, nil, caller
		}
		if tgt := funcValueTarget(caller.Info(), arg); tgt != nil {
			return nil, tgt, caller
		}
		// a local closure of the caller handed over by name (post := func() error {…}; instrument(post))
		if id, ok := arg.(*ast.Ident); ok {
			if lv, ok := caller.Info().Uses[id].(*types.Var); ok && !lv.IsField() && !isParamOf(caller, lv) {
				if ds, ok := caller.Defs().singleDef(lv); ok && ds.kind == "assign" && !ds.multi && ds.rhs != nil {
					if lit, isLit := ast.Unparen(ds.rhs).(*ast.FuncLit); isLit {
						return lit, nil, caller
					}
				}
			}
		}
		// handed through from the caller's own bound parameter
		if id, ok := arg.(*ast.Ident); ok {
			if pv, ok := caller.Info().Uses[id].(*types.Var); ok {
				sub := &fnCtx{fn: caller}
				return sub.boundFuncArg(pv)
			}
		}
		return nil, nil, nil
	}
	return nil, nil, nil
}

// inlineLitFunc: the body of a function literal (given with the Func that resolves its captured
// variables) runs exactly once here.
func (c *fnCtx) inlineLitFunc(lit *ast.FuncLit, lf *Func, via types.Object, call *ast.CallExpr) alts {
	enter := Event{Kind: EvEnter, Fn: c.fn, Depth: c.depth, Pos: lit.Pos(), Node: lit, Lit: lit, Via: via, ViaCall: call, Helper: true, Loop: c.inLoop(call.Pos())}
	exit := Event{Kind: EvExit, Fn: c.fn, Depth: c.depth, Pos: lit.End(), Node: lit, Lit: lit, Via: via, ViaCall: call, Helper: true, Loop: c.inLoop(call.Pos())}
	if c.e.inl[lf.origOrSelf()] || c.depth >= 6 {
		return nil
	}
	// the literal is invoked by this very call: its parameters are the call's arguments
	{
		d := *lf
		if d.orig == nil {
			d.orig = lf
		}
		d.derived = true
		d.bind = &binding{caller: c.fn, call: call}
		lf = &d
	}
	c.e.inl[lf.origOrSelf()] = true
	sub := c.e.enumerate(lf, c.depth+1)
	delete(c.e.inl, lf.origOrSelf())
	var out alts
	for _, sp := range sub {
		evs := []Event{enter}
		evs = append(evs, sp.Events...)
		evs = append(evs, exit)
		out = append(out, evs)
	}
	return out
}

// funcValueTarget: expression denotes a declared function or method value (not a call).
func funcValueTarget(info *types.Info, x ast.Expr) *types.Func {
	switch v := x.(type) {
	case *ast.Ident:
		if f, ok := info.Uses[v].(*types.Func); ok {
			return f
		}
	case *ast.SelectorExpr:
		if sel, ok := info.Selections[v]; ok && sel.Kind() == types.MethodVal {
			if f, ok := sel.Obj().(*types.Func); ok {
				return f
			}
		}
		if f, ok := info.Uses[v.Sel].(*types.Func); ok {
			if _, isSel := info.Selections[v]; !isSel {
				return f // pkg.Func
			}
		}
	}
	return nil
}

func (c *fnCtx) inlineLit(lit *ast.FuncLit, via types.Object, call *ast.CallExpr, min, max int) alts {
	return c.inlineLitVia(lit, via, call, min, max)
}

func (c *fnCtx) inlineLitVia(lit *ast.FuncLit, via types.Object, call *ast.CallExpr, min, max int) alts {
	lf := c.litFunc(lit)
	var out alts
	if min == 0 {
		out = append(out, []Event{{Kind: EvSkip, Fn: c.fn, Depth: c.depth, Pos: lit.Pos(), Node: lit, Lit: lit, Via: via, ViaCall: call, Loop: c.inLoop(lit.Pos())}})
	}
	if max == 0 || lf == nil {
		return out
	}
	sub := c.e.enumerate(lf, c.depth+1)
	enter := Event{Kind: EvEnter, Fn: c.fn, Depth: c.depth, Pos: lit.Pos(), Node: lit, Lit: lit, Via: via, ViaCall: call, Loop: c.inLoop(lit.Pos())}
	exit := Event{Kind: EvExit, Fn: c.fn, Depth: c.depth, Pos: lit.End(), Node: lit, Lit: lit, Via: via, ViaCall: call, Loop: c.inLoop(lit.Pos())}
	for _, sp := range sub {
		evs := []Event{enter}
		evs = append(evs, sp.Events...)
		evs = append(evs, exit)
		out = append(out, evs)
	}
	return out
}

func (c *fnCtx) inlineTarget(tgt *types.Func, via types.Object, call *ast.CallExpr, min, max int) alts {
	var out alts
	if min == 0 {
		out = append(out, []Event{{Kind: EvSkip, Fn: c.fn, Depth: c.depth, Pos: call.Pos(), Node: call, Target: tgt, Via: via, ViaCall: call}})
	}
	if max == 0 {
		return out
	}
	// represented as a call event to the target bracketed by enter/exit
	enter := Event{Kind: EvEnter, Fn: c.fn, Depth: c.depth, Pos: call.Pos(), Node: call, Target: tgt, Via: via, ViaCall: call}
	ce := Event{Kind: EvCall, Fn: c.fn, Depth: c.depth + 1, Pos: call.Pos(), Node: call, Callee: tgt, Loop: c.inLoop(call.Pos())}
	exit := Event{Kind: EvExit, Fn: c.fn, Depth: c.depth, Pos: call.End(), Node: call, Target: tgt, Via: via, ViaCall: call}
	// method value of an unexported helper of this package (once.Do(s.worker)): look into its body
	if def := c.e.P.Funcs[tgt]; def != nil && c.e.P.isGlue(tgt) && (def.Pkg == c.fn.Pkg || tgt.Exported()) && !c.e.inl[def] && c.depth < 6 {
		var recv ast.Expr
		for _, a := range call.Args {
			if se, ok := ast.Unparen(a).(*ast.SelectorExpr); ok && funcValueTarget(c.info, se) == tgt {
				recv = se.X
			}
		}
		d := deriveFunc(def, c.fn, nil, recv)
		c.e.inl[def] = true
		sub := c.e.enumerate(d, c.depth+1)
		delete(c.e.inl, def)
		if len(sub) > 0 && len(sub) <= 32 {
			for _, sp := range sub {
				evs := []Event{enter, ce}
				evs = append(evs, sp.Events...)
				evs = append(evs, exit)
				out = append(out, evs)
			}
			return out
		}
	}
	out = append(out, []Event{enter, ce, exit})
	return out
}

// branchy: the function has so many branch points that multiplying its paths by a helper's is not
// worth it (numeric code); helpers are then left as plain call events.
func (c *fnCtx) branchy() bool {
	if c.nbranch == 0 {
		c.nbranch = 1
		for _, b := range c.g.Blocks {
			if len(b.Succs) == 2 {
				c.nbranch++
			}
		}
	}
	return c.nbranch > 16
}

// deriveFunc makes the per-call-site instance of a helper: same syntax and types, with its
// parameters and receiver bound to the caller's argument expressions (for provenance).
func deriveFunc(def *Func, caller *Func, call *ast.CallExpr, recv ast.Expr) *Func {
	d := *def
	d.defs = def.Defs()
	def.isDecodeTarget(nil)
	d.decodeTargets = def.root().decodeTargets
	d.bind = &binding{caller: caller, call: call, recv: recv}
	if def.recvAsParam && call != nil && len(call.Args) > 0 {
		d.bind.recv, d.bind.args = call.Args[0], call.Args[1:]
	}
	d.orig = def
	return &d
}

// inlineHelper: glue (an unexported function or method of the caller's own package, or an exported
// repository function that is not part of the reference API) with a small body is
// looked into (its events follow the call event, bracketed), so that extracting or inlining a
// helper does not change what a path is seen to do.
func (c *fnCtx) inlineHelper(callee types.Object, call *ast.CallExpr) alts {
	return c.inlineHelperX(callee, call, false)
}

// hasFuncParam: the function takes a function value.
func hasFuncParam(def *Func) bool {
	if def.Obj == nil {
		return false
	}
	sig := def.Obj.Type().(*types.Signature)
	for i := 0; i < sig.Params().Len(); i++ {
		if _, ok := sig.Params().At(i).Type().Underlying().(*types.Signature); ok {
			return true
		}
	}
	return false
}

// inlineHelperX: anyPkg lifts the same-package restriction for unexported functions (used when the
// function arrived as a value bound to a parameter of a looked-into helper).
func (c *fnCtx) inlineHelperX(callee types.Object, call *ast.CallExpr, anyPkg bool) alts {
	f, ok := callee.(*types.Func)
	if !ok || c.e.noLook || !c.e.P.isGlue(f) || c.depth >= 6 || len(c.paths) > 400 || c.branchy() {
		return nil // (path-heavy numeric code is not expanded further)
	}
	def := c.e.P.Funcs[f]
	busy := def != nil && c.e.inl[def]
	if busy && c.e.inlDepth[def] < 2 && hasFuncParam(def) {
		// a higher-order helper met again inside the closure it was handed (locked(a, func(){ locked(b, …) })):
		// not a recursion of the helper
		busy = false
	}
	if def == nil || (def.Pkg != c.fn.Pkg && !f.Exported() && !anyPkg) || busy || def == c.fn.origOrSelf() {
		return nil
	}
	if sig, ok := f.Type().(*types.Signature); ok && sig.Variadic() {
		return nil
	}
	// size bound (measured once on the unbound helper)
	n, seen := c.e.hcount[def]
	if !seen {
		c.e.inl[def] = true
		n = len(c.e.enumerate(def, 0))
		delete(c.e.inl, def)
		c.e.hcount[def] = n
	}
	if n == 0 || (n > 48 && !(n <= 600 && c.e.singleCallSite(def))) {
		return nil // (a big function that was split off its only caller is still looked into: the caller's path set is what it was before the split)
	}
	var recv ast.Expr
	if se, ok := ast.Unparen(call.Fun).(*ast.SelectorExpr); ok {
		if _, isSel := c.info.Selections[se]; isSel {
			recv = se.X
		}
	}
	d := deriveFunc(def, c.fn, call, recv)
	if c.e.inlDepth == nil {
		c.e.inlDepth = map[*Func]int{}
	}
	c.e.inl[def] = true
	c.e.inlDepth[def]++
	sub := c.e.enumerate(d, c.depth+1)
	c.e.inlDepth[def]--
	if c.e.inlDepth[def] == 0 {
		delete(c.e.inl, def)
	}
	if len(sub) == 0 {
		return nil
	}
	enter := Event{Kind: EvEnter, Fn: c.fn, Depth: c.depth, Pos: call.Pos(), Node: call, Target: f, Via: f, ViaCall: call, Helper: true, Loop: c.inLoop(call.Pos())}
	exit := Event{Kind: EvExit, Fn: c.fn, Depth: c.depth, Pos: call.End(), Node: call, Target: f, Via: f, ViaCall: call, Helper: true, Loop: c.inLoop(call.Pos())}
	var out alts
	for _, sp := range sub {
		// a sub-path on which a select without default took none of its arms does not come back to the caller
		// (the helper blocks there): it is a way of not returning, not a way of returning
		if n := len(sp.Events); n >= 2 && sp.Events[n-1].Kind == EvEnd {
			blocked := false
			for k := n - 2; k >= 0; k-- {
				g := sp.Events[k]
				if g.Kind == EvGuard {
					blocked = g.GKind == GSelectCase && !g.Val
					break
				}
				if g.Kind == EvCall || g.Kind == EvAssign || g.Kind == EvReturn || g.Kind == EvEnter || g.Kind == EvExit {
					break
				}
			}
			if blocked {
				continue
			}
		}
		evs := []Event{enter}
		evs = append(evs, sp.Events...)
		evs = append(evs, exit)
		out = append(out, evs)
	}
	return out
}

// litFunc returns the Func of a literal; inside a bound helper instance the literal gets its own
// instance whose Outer chain leads to the bound helper (so captured parameters resolve to the
// caller's arguments).
func (c *fnCtx) litFunc(lit *ast.FuncLit) *Func {
	lf := c.e.P.Lits[lit]
	if lf == nil {
		return nil
	}
	if c.fn.bind == nil && !c.fn.derived {
		return lf
	}
	d := *lf
	d.Outer = c.fn
	d.derived = true
	d.orig = lf
	return &d
}

// combinatorFor reports how often callee invokes its idx-th (function-typed) argument.
func (e *Engine) combinatorFor(callee types.Object, idx int) (min, max int, ok bool) {
	f, isFunc := callee.(*types.Func)
	if !isFunc {
		return 0, 0, false
	}
	key := f.FullName()
	if mm, ok := libCombinators[key]; ok {
		return mm[0], mm[1], true
	}
	def := e.P.Funcs[f]
	if def == nil {
		return 0, 0, false
	}
	sig := f.Type().(*types.Signature)
	if idx >= sig.Params().Len() {
		return 0, 0, false
	}
	param := sig.Params().At(idx)
	if sig.Variadic() && idx >= sig.Params().Len()-1 {
		return 0, 0, false
	}
	if _, isSig := param.Type().Underlying().(*types.Signature); !isSig {
		return 0, 0, false
	}
	if s, ok := e.combs[param]; ok {
		return s.min, s.max, s.ok
	}
	s := &combSummary{}
	e.combs[param] = s // provisional (recursion guard): not a combinator
	// every use of param must be the Fun of a call
	onlyCalled := true
	ast.Inspect(def.Body, func(n ast.Node) bool {
		switch v := n.(type) {
		case *ast.CallExpr:
			if id, ok := ast.Unparen(v.Fun).(*ast.Ident); ok && def.Info().Uses[id] == param {
				for _, a := range v.Args {
					ast.Inspect(a, func(m ast.Node) bool {
						if id2, ok := m.(*ast.Ident); ok && def.Info().Uses[id2] == param {
							onlyCalled = false
						}
						return true
					})
				}
				return false
			}
		case *ast.GoStmt:
			if id, ok := ast.Unparen(v.Call.Fun).(*ast.Ident); ok && def.Info().Uses[id] == param {
				onlyCalled = false
			}
		case *ast.DeferStmt:
			if id, ok := ast.Unparen(v.Call.Fun).(*ast.Ident); ok && def.Info().Uses[id] == param {
				onlyCalled = false
			}
		case *ast.Ident:
			if def.Info().Uses[v] == param {
				onlyCalled = false
			}
		}
		return true
	})
	if !onlyCalled {
		return 0, 0, false
	}
	// the parameter must not be called from inside a nested literal that escapes; count per path
	paths := e.Paths(def)
	if len(paths) == 0 {
		return 0, 0, false
	}
	min, max = 1<<30, 0
	for _, p := range paths {
		n := 0
		for _, ev := range p.Events {
			if ev.Kind == EvCall && ev.Callee == param {
				n++
				if ev.Loop {
					n += 100
				}
			}
			if (ev.Kind == EvGo || ev.Kind == EvDefer || ev.Kind == EvFuncVal) && ev.Lit != nil && usesObj(def.Info(), ev.Lit, param) {
				n += 1000
			}
		}
		if n < min {
			min = n
		}
		if n > max {
			max = n
		}
	}
	if max > 1 {
		return 0, 0, false
	}
	s.ok, s.min, s.max = true, min, max
	return min, max, true
}

func usesObj(info *types.Info, n ast.Node, obj types.Object) bool {
	found := false
	ast.Inspect(n, func(m ast.Node) bool {
		if id, ok := m.(*ast.Ident); ok && info.Uses[id] == obj {
			found = true
		}
		return !found
	})
	return found
}

// consistent prunes paths on which one single-assignment boolean local is observed with two truth
// values without an intervening assignment (the only infeasible paths in this code base).
func consistent(info *types.Info, evs []Event, from int) bool {
	for i := from; i < len(evs); i++ {
		g := evs[i]
		if g.Kind != EvGuard || g.GKind != GIf || g.Cond == nil {
			continue
		}
		key, neg := guardKey(info, g.Cond)
		if key == nil {
			continue
		}
		val := g.Val != neg
		for j := i - 1; j >= 0; j-- {
			p := evs[j]
			if p.Kind == EvAssign && assigns(info, p, key) {
				break
			}
			if p.Kind == EvGuard && p.GKind == GIf && p.Cond != nil && p.Depth == g.Depth {
				k2, n2 := guardKey(info, p.Cond)
				if sameKey(key, k2) {
					if (p.Val != n2) != val {
						return false
					}
					break
				}
			}
		}
	}
	return true
}

type gkey struct {
	obj types.Object // the variable
	nil bool         // comparison with nil (x == nil)
}

func guardKey(info *types.Info, cond ast.Expr) (*gkey, bool) {
	switch v := ast.Unparen(cond).(type) {
	case *ast.Ident:
		if obj, ok := info.Uses[v].(*types.Var); ok && !obj.IsField() && obj.Parent() != nil && obj.Parent() != obj.Pkg().Scope() {
			return &gkey{obj: obj}, false
		}
	case *ast.BinaryExpr:
		if v.Op != token.EQL && v.Op != token.NEQ {
			return nil, false
		}
		var id *ast.Ident
		if isNilIdent(info, v.Y) {
			id, _ = ast.Unparen(v.X).(*ast.Ident)
		} else if isNilIdent(info, v.X) {
			id, _ = ast.Unparen(v.Y).(*ast.Ident)
		}
		if id == nil {
			return nil, false
		}
		if obj, ok := info.Uses[id].(*types.Var); ok && !obj.IsField() && obj.Parent() != nil && obj.Parent() != obj.Pkg().Scope() {
			return &gkey{obj: obj, nil: true}, v.Op == token.NEQ
		}
	}
	return nil, false
}

func sameKey(a, b *gkey) bool {
	return a != nil && b != nil && a.obj == b.obj && a.nil == b.nil
}

func isNilIdent(info *types.Info, x ast.Expr) bool {
	id, ok := ast.Unparen(x).(*ast.Ident)
	if !ok {
		return false
	}
	if _, isNil := info.Uses[id].(*types.Nil); isNil {
		return true
	}
	// the zero value the engine writes for a field left out of a part literal (partAssign)
	_, used := info.Uses[id]
	_, defd := info.Defs[id]
	return id.Name == "nil" && !used && !defd
}

func assigns(info *types.Info, ev Event, key *gkey) bool {
	for _, l := range ev.Lhs {
		if id, ok := ast.Unparen(l).(*ast.Ident); ok {
			if info.Defs[id] == key.obj || info.Uses[id] == key.obj {
				return true
			}
		}
	}
	return false
}

// ---------------------------------------------------------------------------------------------
// Rendering (for evidence samples and violation reports)

func (p *Program) exprStr(x ast.Expr) string {
	if x == nil {
		return ""
	}
	s := types.ExprString(x)
	if len(s) > 80 {
		s = s[:77] + "..."
	}
	return s
}

func (p *Program) EventStr(ev Event) string {
	switch ev.Kind {
	case EvCall:
		name := "?"
		if ev.Callee != nil {
			name = ev.Callee.Name()
			if f, ok := ev.Callee.(*types.Func); ok {
				name = shortFuncName(f)
			}
		} else if ev.Call != nil {
			name = p.exprStr(ev.Call.Fun)
		}
		return "call " + name
	case EvGuard:
		switch ev.GKind {
		case GRange:
			if ev.Val {
				return "range:iter"
			}
			return "range:done"
		case GSelectCase:
			cl := ev.Stmt.(*ast.CommClause)
			return fmt.Sprintf("select[%s]=%v", strings.TrimSpace(nodeStr(p.Fset, cl.Comm)), ev.Val)
		case GSwitchCase:
			return fmt.Sprintf("case[%s==%s]=%v", p.exprStr(ev.Tag), p.exprStr(ev.Cond), ev.Val)
		case GUnknown:
			return fmt.Sprintf("branch?=%v", ev.Val)
		}
		return fmt.Sprintf("[%s]=%v", p.exprStr(ev.Cond), ev.Val)
	case EvReturn:
		var rs []string
		for _, r := range ev.Results {
			rs = append(rs, p.exprStr(r))
		}
		return "return " + strings.Join(rs, ", ")
	case EvAssign:
		var ls []string
		for _, l := range ev.Lhs {
			ls = append(ls, p.exprStr(l))
		}
		return "assign " + strings.Join(ls, ",")
	case EvChanOp:
		dir := "recv"
		if ev.Send {
			dir = "send"
		}
		nb := ""
		if ev.NonBlocking {
			nb = " nonblocking"
		}
		return fmt.Sprintf("chan-%s %s%s", dir, p.exprStr(ev.Chan), nb)
	case EvGo:
		return "go " + p.exprStr(ev.Call.Fun)
	case EvDefer:
		if ev.Lit != nil {
			return "defer func-literal"
		}
		return "defer " + p.exprStr(ev.Call.Fun)
	case EvEnter:
		return "enter{" + objName(ev.Via)
	case EvExit:
		return "}"
	case EvSkip:
		return "skip{" + objName(ev.Via) + "}"
	case EvFuncVal:
		return "funcval"
	case EvDelete:
		return "delete " + p.exprStr(ev.Call.Args[0])
	case EvEnd:
		return "end(no return)"
	case EvCut:
		return "cut(loop back edge)"
	}
	return "?"
}

func objName(o types.Object) string {
	if o == nil {
		return "func"
	}
	if f, ok := o.(*types.Func); ok {
		return shortFuncName(f)
	}
	return o.Name()
}

func shortFuncName(f *types.Func) string {
	sig, _ := f.Type().(*types.Signature)
	if sig != nil && sig.Recv() != nil {
		t := sig.Recv().Type()
		if pt, ok := t.(*types.Pointer); ok {
			t = pt.Elem()
		}
		if n, ok := t.(*types.Named); ok {
			return typeDisplay(n.Obj()) + "." + funcDisplay(f)
		}
	}
	if f.Pkg() != nil {
		return f.Pkg().Name() + "." + funcDisplay(f)
	}
	return funcDisplay(f)
}

func (p *Program) PathStr(path Path) string {
	var parts []string
	for _, ev := range path.Events {
		parts = append(parts, p.EventStr(ev))
	}
	return strings.Join(parts, " ; ")
}

func nodeStr(fset *token.FileSet, n ast.Node) string {
	if n == nil {
		return ""
	}
	switch v := n.(type) {
	case ast.Expr:
		return types.ExprString(v)
	case *ast.SendStmt:
		return types.ExprString(v.Chan) + " <- " + types.ExprString(v.Value)
	case *ast.ExprStmt:
		return types.ExprString(v.X)
	case *ast.AssignStmt:
		var l, r []string
		for _, x := range v.Lhs {
			l = append(l, types.ExprString(x))
		}
		for _, x := range v.Rhs {
			r = append(r, types.ExprString(x))
		}
		return strings.Join(l, ", ") + " " + v.Tok.String() + " " + strings.Join(r, ", ")
	}
	return fmt.Sprintf("%T", n)
}

// singleCallSite: the function is called from exactly one place in the repository (and its value
// is not taken anywhere).
func (e *Engine) singleCallSite(def *Func) bool {
	if e.single == nil {
		e.single = map[*Func]int{}
	}
	if n, ok := e.single[def]; ok {
		return n == 1
	}
	n := 0
	for _, fn := range e.P.All {
		if fn.Body == nil {
			continue
		}
		info := fn.Info()
		ast.Inspect(fn.Body, func(nd ast.Node) bool {
			switch v := nd.(type) {
			case *ast.CallExpr:
				if calleeObj(info, v) == types.Object(def.Obj) {
					n++
				}
			case *ast.SelectorExpr:
				if funcValueTarget(info, v) == def.Obj {
					if sel, ok := info.Selections[v]; ok && sel.Kind() == types.MethodVal {
						// counted as a call above when it is the Fun of a call; a bare method value is one more use
						n += 0
					}
				}
			}
			return true
		})
	}
	e.single[def] = n
	return n == 1
}

type partField struct {
	lhs *ast.SelectorExpr
	rhs ast.Expr
}

// partAssign: the statement assigns a composite literal (keyed or empty) to a by-value part of a struct
// (h.joined = membership{session: s, participant: p}); returns the equivalent per-field assignments,
// fields the literal leaves out being assigned their zero value. The synthesized selections are known to
// canon through Program.synthSel.
func (c *fnCtx) partAssign(s *ast.AssignStmt) []partField {
	if s.Tok != token.ASSIGN || len(s.Lhs) != 1 || len(s.Rhs) != 1 {
		return nil
	}
	info := c.fn.Info()
	se, ok := ast.Unparen(s.Lhs[0]).(*ast.SelectorExpr)
	if !ok {
		return nil
	}
	sel, ok := info.Selections[se]
	if !ok || sel.Kind() != types.FieldVal {
		return nil
	}
	pf, ok := sel.Obj().(*types.Var)
	if !ok || !c.e.P.isPartField(pf) {
		return nil
	}
	lit, ok := ast.Unparen(s.Rhs[0]).(*ast.CompositeLit)
	if !ok {
		return nil
	}
	st, ok := pf.Type().Underlying().(*types.Struct)
	if !ok {
		return nil
	}
	vals := map[string]ast.Expr{}
	for _, el := range lit.Elts {
		kv, ok := el.(*ast.KeyValueExpr)
		if !ok {
			return nil // positional literal: left as it is
		}
		id, ok := kv.Key.(*ast.Ident)
		if !ok {
			return nil
		}
		vals[id.Name] = kv.Value
	}
	if c.e.P.synthSel == nil {
		c.e.P.synthSel = map[*ast.SelectorExpr]*types.Var{}
	}
	var out []partField
	for i := 0; i < st.NumFields(); i++ {
		f := st.Field(i)
		ns := &ast.SelectorExpr{X: s.Lhs[0], Sel: &ast.Ident{NamePos: s.Lhs[0].Pos(), Name: f.Name()}}
		c.e.P.synthSel[ns] = f
		v, set := vals[f.Name()]
		if !set {
			zero := "nil"
			if b, isB := f.Type().Underlying().(*types.Basic); isB {
				switch {
				case b.Info()&types.IsString != 0:
					zero = `""`
				case b.Info()&types.IsBoolean != 0:
					zero = "false"
				default:
					zero = "0"
				}
			}
			v = &ast.Ident{NamePos: s.Rhs[0].Pos(), Name: zero}
		}
		out = append(out, partField{ns, v})
	}
	return out
}
