package main

import (
	"go/ast"
	"go/types"
	"sort"
)

// Field roles. The rules name a few dozen unexported struct fields (in canonical forms such as
// "recv.moduleStates", in lock keys such as "Session.frameMutex", in literal-field lookups). The names
// are those of the reference tree; they are *roles*, not spellings: when a field of that name no longer
// exists in the struct (renamed, or moved onto a by-value / embedded sub-struct under another name), the
// role is re-attached to the field that plays it — the only field of the struct (sub-structs included)
// with the role's type, or, when several fields have that type, the only one of them that the role's
// API method uses (Session.participantMutex is the RWMutex that AddParticipant takes). The rest of the
// checker then sees the canonical name: canonical forms, lock keys and owner tables are unchanged by the
// rename. A role that cannot be re-attached unambiguously stays unresolved and the rules that name it are
// UNDECIDED (ruleFieldAnchors), never silently passed.
type fieldRole struct {
	pkg, typ, field string
	typeStr         string // types.TypeString of the field on the reference tree (qualified by package path)
	usedIn          string // an API method of typ whose body (helpers included) uses the field; "" when the type is unique
}

const tRW = "sync.RWMutex"
const tMu = "sync.Mutex"
const tGen = repoMod + "/models.SequentialIDGenerator"

var fieldRoles = []fieldRole{
	// models.Session
	{pkgModels, "Session", "participants", "map[uint32]*" + repoMod + "/models.Participant", ""},
	{pkgModels, "Session", "entities", "map[uint32]*" + repoMod + "/models.Entity", ""},
	{pkgModels, "Session", "moduleStates", "map[string]any", ""},
	{pkgModels, "Session", "frameHandlers", "map[uint32]func()", ""},
	{pkgModels, "Session", "closeFrameChan", "chan struct{}", ""},
	{pkgModels, "Session", "frameTicker", "*time.Ticker", ""},
	{pkgModels, "Session", "entityComponents", "*" + repoMod + "/models.EntityComponentStore", ""},
	{pkgModels, "Session", "participantIDs", tGen, "NewParticipantID"},
	{pkgModels, "Session", "entityIDs", tGen, "NewEntityID"},
	{pkgModels, "Session", "frameHandlerIDs", tGen, "HandleFrame"},
	{pkgModels, "Session", "participantMutex", tRW, "AddParticipant"},
	{pkgModels, "Session", "entityMutex", tRW, "AddEntity"},
	{pkgModels, "Session", "moduleMutex", tRW, "SetModuleState"},
	{pkgModels, "Session", "frameMutex", tRW, "HandleFrame"},
	{pkgModels, "Session", "startFrameOnce", "sync.Once", "StartDispatchFrames"},
	{pkgModels, "Session", "closeOnce", "sync.Once", "Close"},
	// models.SessionStore
	{pkgModels, "SessionStore", "sessions", "map[string]*" + repoMod + "/models.Session", ""},
	{pkgModels, "SessionStore", "ids", tGen, ""},
	{pkgModels, "SessionStore", "mutex", tRW, ""},
	// models.EntityComponentStore
	{pkgModels, "EntityComponentStore", "entityComponents", "map[uint32]map[uint32]*github.com/aukilabs/hagall-common/messages/hagallpb.EntityComponent", ""},
	{pkgModels, "EntityComponentStore", "subscriptions", "map[uint32]map[uint32]struct{}", ""},
	{pkgModels, "EntityComponentStore", "nameIndex", "map[uint32]string", ""},
	{pkgModels, "EntityComponentStore", "idIndex", "map[string]uint32", ""},
	{pkgModels, "EntityComponentStore", "ids", tGen, ""},
	{pkgModels, "EntityComponentStore", "mutex", tRW, "AddType"},
	{pkgModels, "EntityComponentStore", "subscriptionMutex", tRW, "Unsubscribe"},
	// models.SequentialIDGenerator
	{pkgModels, "SequentialIDGenerator", "currentID", "uint32", ""},
	{pkgModels, "SequentialIDGenerator", "reusableIDs", "map[uint32]struct{}", ""},
	{pkgModels, "SequentialIDGenerator", "mutex", tMu, ""},
	// models.Participant / Entity / SignedLatency
	{pkgModels, "Participant", "entityIDs", "map[uint32]struct{}", ""},
	{pkgModels, "Entity", "pose", repoMod + "/models.Pose", ""},
	{pkgModels, "Entity", "mutex", tRW, ""},
	{pkgModels, "SignedLatency", "sender", "github.com/aukilabs/hagall-common/websocket.ResponseSender", ""},
	{pkgModels, "SignedLatency", "privateKey", "*crypto/ecdsa.PrivateKey", ""},
	// websocket.RealtimeHandler
	{pkgWS, "RealtimeHandler", "currentSession", "*" + repoMod + "/models.Session", ""},
	{pkgWS, "RealtimeHandler", "currentParticipant", "*" + repoMod + "/models.Participant", ""},
	{pkgWS, "RealtimeHandler", "stopFrameHandling", "func()", ""},
	{pkgWS, "RealtimeHandler", "clientID", "string", "GetClientID"},
	// websocket.handler
	{pkgWS, "handler", "sendChan", "chan github.com/aukilabs/hagall-common/websocket.Msg", ""},
	{pkgWS, "handler", "disconnectChan", "chan error", ""},
	// modules
	{pkgVikja, "Module", "currentSession", "*" + repoMod + "/models.Session", ""},
	{pkgVikja, "Module", "currentParticipant", "*" + repoMod + "/models.Participant", ""},
	{pkgVikja, "Module", "state", "*" + repoMod + "/modules/vikja.State", ""},
	{pkgOdal, "Module", "currentSession", "*" + repoMod + "/models.Session", ""},
	{pkgOdal, "Module", "currentParticipant", "*" + repoMod + "/models.Participant", ""},
	{pkgOdal, "Module", "state", "*" + repoMod + "/modules/odal.State", ""},
	{pkgDagaz, "Module", "currentSession", "*" + repoMod + "/models.Session", ""},
	{pkgDagaz, "Module", "currentParticipant", "*" + repoMod + "/models.Participant", ""},
	{pkgDagaz, "Module", "state", "*" + repoMod + "/modules/dagaz.State", ""},
	{pkgVikja, "State", "entityActions", "map[uint32]map[string]*github.com/aukilabs/hagall-common/messages/vikjapb.EntityAction", ""},
	{pkgOdal, "State", "assetInstances", "map[uint32]*github.com/aukilabs/hagall-common/messages/odalpb.AssetInstance", ""},
	{pkgWS, "handler", "sender", "github.com/aukilabs/hagall-common/websocket.Sender", ""},
	{pkgWS, "handler", "receiver", "github.com/aukilabs/hagall-common/websocket.Receiver", ""},
	{pkgWS, "handlerWithLogs", "closeSummaryWorker", "func()", ""},
	{pkgVikja, "State", "entityActionMutex", tRW, ""},
	{pkgOdal, "State", "assetMutex", tRW, ""},
	{pkgOdal, "State", "assetInstanceIDs", tGen, ""},
	{pkgDagaz, "State", "mutex", tMu, ""},
}

type roleKey struct{ pkg, typ, field string }

// partOf: nt is a piece of exactly one repository struct (see OwnerName).
func (p *Program) partOf(nt *types.Named) bool {
	return p.OwnerName(nt) != nt.Obj().Name()
}

// deepFields: the fields of a struct, including those of its embedded and by-value sub-structs that are
// parts of it.
func (p *Program) deepFields(nt *types.Named, depth int) []*types.Var {
	st, ok := nt.Underlying().(*types.Struct)
	if !ok || depth > 3 {
		return nil
	}
	var out []*types.Var
	for i := 0; i < st.NumFields(); i++ {
		f := st.Field(i)
		out = append(out, f)
		inner, ok := derefNamedT(f.Type())
		if !ok || inner.Obj().Pkg() == nil || !isRepoPkg(inner.Obj().Pkg()) {
			continue
		}
		_, byPtr := f.Type().(*types.Pointer)
		if ((f.Embedded() || !byPtr) && p.partOf(inner)) || (f.Embedded() && !byPtr) {
			// (the fields of a struct embedded by value are promoted, whoever else embeds it)
			out = append(out, p.deepFields(inner, depth+1)...)
		}
	}
	return out
}

func typeStr(t types.Type) string {
	// a private interface with one implementation stands for that implementation
	if n, ok := t.(*types.Named); ok {
		if impl := ifaceImpl[n]; impl != nil {
			t = impl
		}
	}
	return types.TypeString(unaliasDeep(t), func(pk *types.Package) string { return pk.Path() })
}

// roleTypeMatch: the field's type is the role's type, or a defined type over it (type idSet map[uint32]struct{}):
// a container given a name and methods is still that container.
func roleTypeMatch(t types.Type, want string) bool {
	if typeStr(t) == want {
		return true
	}
	return typeStr(plainContainers(t)) == want
}

// plainContainers: the type with every defined map / slice / channel type (type idSet map[uint32]struct{}),
// also nested inside other containers (map[uint32]idSet), replaced by the container it is defined as.
func plainContainers(t types.Type) types.Type {
	switch v := types.Unalias(t).(type) {
	case *types.Named:
		switch v.Underlying().(type) {
		case *types.Map, *types.Slice, *types.Chan, *types.Signature:
			return plainContainers(v.Underlying()) // (type frameCancel func(): still that function type)
		}
	case *types.Map:
		return types.NewMap(plainContainers(v.Key()), plainContainers(v.Elem()))
	case *types.Slice:
		return types.NewSlice(plainContainers(v.Elem()))
	case *types.Chan:
		return types.NewChan(v.Dir(), plainContainers(v.Elem()))
	case *types.Pointer:
		return types.NewPointer(plainContainers(v.Elem()))
	}
	return t
}

// unaliasDeep: the type with every alias (type idSet = map[uint32]struct{}) replaced by what it stands for,
// also inside containers; an alias gives a type another spelling, not another identity.
func unaliasDeep(t types.Type) types.Type {
	switch v := t.(type) {
	case *types.Alias:
		return unaliasDeep(types.Unalias(v))
	case *types.Map:
		k, e := unaliasDeep(v.Key()), unaliasDeep(v.Elem())
		if k != v.Key() || e != v.Elem() {
			return types.NewMap(k, e)
		}
	case *types.Slice:
		if e := unaliasDeep(v.Elem()); e != v.Elem() {
			return types.NewSlice(e)
		}
	case *types.Array:
		if e := unaliasDeep(v.Elem()); e != v.Elem() {
			return types.NewArray(e, v.Len())
		}
	case *types.Pointer:
		if e := unaliasDeep(v.Elem()); e != v.Elem() {
			return types.NewPointer(e)
		}
	case *types.Chan:
		if e := unaliasDeep(v.Elem()); e != v.Elem() {
			return types.NewChan(v.Dir(), e)
		}
	}
	return t
}

// resolveRoles attaches every role whose name is gone to the field that plays it (see fieldRoles).
func (p *Program) resolveRoles() {
	p.roleVar = map[roleKey]*types.Var{}
	p.roleName = map[*types.Var]string{}
	// names that are present keep their meaning: such a field is never a candidate for another role
	present := map[*types.Var]bool{}
	byType := map[string][]fieldRole{}
	for _, r := range fieldRoles {
		byType[r.pkg+"|"+r.typ] = append(byType[r.pkg+"|"+r.typ], r)
	}
	var keys []string
	for k := range byType {
		keys = append(keys, k)
	}
	sort.Strings(keys)
	for _, k := range keys {
		roles := byType[k]
		tn := p.LookupType(roles[0].pkg, roles[0].typ)
		if tn == nil {
			continue
		}
		nt, ok := tn.Type().(*types.Named)
		if !ok {
			continue
		}
		fields := p.deepFields(nt, 0)
		var missing []fieldRole
		for _, r := range roles {
			found := false
			for _, f := range fields {
				if f.Name() == r.field && roleTypeMatch(f.Type(), r.typeStr) {
					present[f] = true
					found = true
					if p.plainLookup(r.pkg, r.typ, r.field) == nil {
						// same name, but on a by-value sub-struct: still the role's field
						p.roleVar[roleKey{r.pkg, r.typ, r.field}] = f
					}
				}
			}
			if !found {
				missing = append(missing, r)
			}
		}
		for _, r := range missing {
			// a field that carries the role's name with another type (the name was reused for the sub-struct
			// that now holds the role's field) is not the role
			for _, f := range fields {
				if f.Name() == r.field && !roleTypeMatch(f.Type(), r.typeStr) {
					if p.shadowed == nil {
						p.shadowed = map[*types.Var]bool{}
					}
					p.shadowed[f] = true
				}
			}
			var cands []*types.Var
			for _, f := range fields {
				if !present[f] && roleTypeMatch(f.Type(), r.typeStr) && (p.roleName[f] == "" || p.roleName[f] == r.field) {
					// (a field of a struct embedded by several owners plays the same role in each of them)
					cands = append(cands, f)
				}
			}
			if len(cands) > 1 && r.usedIn != "" {
				used := p.fieldsUsedBy(p.LookupFunc(r.pkg, r.typ, r.usedIn), 0, map[*types.Func]bool{})
				var narrowed []*types.Var
				for _, c := range cands {
					if used[c] {
						narrowed = append(narrowed, c)
					}
				}
				cands = narrowed
			}
			if len(cands) == 1 {
				p.roleVar[roleKey{r.pkg, r.typ, r.field}] = cands[0]
				p.roleName[cands[0]] = r.field
			}
		}
	}
}

// roleRemoved: "Type.field" names a role (fieldRoles) and the struct has, also through its parts, no field of
// the role's type at all.
func (p *Program) roleRemoved(typeField string) (bool, string) {
	for _, r := range fieldRoles {
		if r.typ+"."+r.field != typeField {
			continue
		}
		tn := p.LookupType(r.pkg, r.typ)
		if tn == nil {
			return false, ""
		}
		nt, ok := tn.Type().(*types.Named)
		if !ok {
			return false, ""
		}
		// fewer fields of the role's type than roles of that type: the one that cannot be attached is gone
		// (the others still answer to their names)
		have, want := 0, 0
		for _, f := range p.deepFields(nt, 0) {
			if roleTypeMatch(f.Type(), r.typeStr) || typeStr(f.Type()) == "*"+r.typeStr || "*"+typeStr(f.Type()) == r.typeStr {
				have++
			}
		}
		for _, o := range fieldRoles {
			if o.pkg == r.pkg && o.typ == r.typ && o.typeStr == r.typeStr {
				want++
			}
		}
		if have >= want {
			return false, ""
		}
		return true, r.typeStr
	}
	return false, ""
}

// fieldsUsedBy: the struct fields selected in the body of f and of the glue it calls.
func (p *Program) fieldsUsedBy(f *types.Func, depth int, seen map[*types.Func]bool) map[*types.Var]bool {
	out := map[*types.Var]bool{}
	def := p.Funcs[f]
	if f == nil || def == nil || def.Body == nil || seen[f] || depth > 3 {
		return out
	}
	seen[f] = true
	info := def.Info()
	ast.Inspect(def.Body, func(n ast.Node) bool {
		switch v := n.(type) {
		case *ast.SelectorExpr:
			if sel, ok := info.Selections[v]; ok && sel.Kind() == types.FieldVal {
				if fv, ok := sel.Obj().(*types.Var); ok {
					out[fv] = true
				}
			}
		case *ast.CallExpr:
			if g, ok := calleeObj(info, v).(*types.Func); ok && g.Pkg() != nil && isRepoPkg(g.Pkg()) && p.isGlue(g) {
				for k := range p.fieldsUsedBy(g, depth+1, seen) {
					out[k] = true
				}
			}
		}
		return true
	})
	return out
}

// FieldName: the name the rules know a field by (its role when it plays one under another spelling).
func (p *Program) FieldName(v *types.Var) string {
	if n, ok := p.roleName[v]; ok {
		return n
	}
	if p.shadowed[v] {
		return v.Name() + "'" // carries a role's name but is not the role
	}
	return v.Name()
}

func init() {
	// roles: how every field role resolves on a tree (debugging aid)
	extraCmds["roles"] = func(args []string) {
		repo := "/repo"
		if len(args) > 0 {
			repo = args[0]
		}
		p, err := Load(repo, false, nil)
		if err != nil {
			println("load:", err.Error())
			return
		}
		for _, r := range fieldRoles {
			v := p.plainLookup(r.pkg, r.typ, r.field)
			switch {
			case v != nil && typeStr(v.Type()) == r.typeStr:
				// as on the reference tree
			case v != nil:
				println("TYPE", r.typ+"."+r.field, "is", typeStr(v.Type()), "table says", r.typeStr)
			default:
				if a := p.roleVar[roleKey{r.pkg, r.typ, r.field}]; a != nil {
					println("ROLE", r.typ+"."+r.field, "played by", a.Name())
				} else {
					println("UNRESOLVED", r.typ+"."+r.field)
				}
			}
		}
	}
}

// isPartField: a by-value field whose struct type is a part of exactly one repository struct (the
// selection hop through it is elided in canonical forms, like the hop through an embedded struct).
func (p *Program) isPartField(f *types.Var) bool {
	if _, byPtr := f.Type().(*types.Pointer); byPtr {
		return false
	}
	nt, ok := f.Type().(*types.Named)
	if !ok || nt.Obj().Pkg() == nil || !isRepoPkg(nt.Obj().Pkg()) {
		return false
	}
	if _, isStruct := nt.Underlying().(*types.Struct); !isStruct {
		return false
	}
	return p.partOf(nt)
}

// topOwner: the outermost repository struct a part belongs to (see OwnerName).
func (p *Program) topOwner(nt *types.Named) *types.Named {
	p.OwnerName(nt) // (fills p.embedders)
	seen := map[*types.TypeName]bool{}
	for {
		tn := nt.Obj()
		es := p.embedders[tn]
		if seen[tn] || len(es) != 1 || es[0] == nil || tn.Exported() {
			return nt
		}
		seen[tn] = true
		nt = es[0]
	}
}

// FieldKey: "Owner.field" under the names the rules know; when two parts of one struct each have a field
// of that name (counters.mu and tags.mu), the part's type is included so that the two stay distinct.
func (p *Program) FieldKey(nt *types.Named, f *types.Var) string {
	top := p.topOwner(nt)
	name := p.FieldName(f)
	n := 0
	for _, g := range p.deepFields(top, 0) {
		if p.FieldName(g) == name {
			n++
		}
	}
	owner := typeDisplay(top.Obj())
	if n > 1 {
		if part := p.declaringPart(top, f, 0); part != nil && part != top {
			return owner + "." + typeDisplay(part.Obj()) + "." + name
		}
	}
	return owner + "." + name
}

func (p *Program) declaringPart(nt *types.Named, f *types.Var, depth int) *types.Named {
	st, ok := nt.Underlying().(*types.Struct)
	if !ok || depth > 3 {
		return nil
	}
	for i := 0; i < st.NumFields(); i++ {
		g := st.Field(i)
		if g == f {
			return nt
		}
		if inner, ok := derefNamedT(g.Type()); ok && inner.Obj().Pkg() != nil && isRepoPkg(inner.Obj().Pkg()) {
			if d := p.declaringPart(inner, f, depth+1); d != nil && p.partOf(inner) {
				return d
			}
		}
	}
	return nil
}

// selField: the struct field a selection denotes — a real one, or one synthesized by the engine for the
// assignment of a whole by-value part (engine.partAssign).
func (p *Program) selField(info *types.Info, se *ast.SelectorExpr) *types.Var {
	if fv, ok := p.synthSel[se]; ok {
		return fv
	}
	if sel, ok := info.Selections[se]; ok && sel.Kind() == types.FieldVal {
		fv, _ := sel.Obj().(*types.Var)
		return fv
	}
	return nil
}

// stmtAssignsField: the assignment statement writes fv — directly (x.f = v), or by assigning a whole
// by-value part that contains it (x.part = T{…}).
func (p *Program) stmtAssignsField(info *types.Info, as *ast.AssignStmt, fv *types.Var) bool {
	for _, l := range as.Lhs {
		se, ok := ast.Unparen(l).(*ast.SelectorExpr)
		if !ok {
			continue
		}
		sel, ok := info.Selections[se]
		if !ok || sel.Kind() != types.FieldVal {
			continue
		}
		if sel.Obj() == types.Object(fv) {
			return true
		}
		if pf, isVar := sel.Obj().(*types.Var); isVar && p.isPartField(pf) {
			if nt, ok := pf.Type().(*types.Named); ok {
				for _, g := range p.deepFields(nt, 0) {
					if g == fv {
						return true
					}
				}
			}
		}
	}
	return false
}
