package main

import (
	"fmt"
	"go/ast"
	"go/token"
	"go/types"
	"os"
	"sort"
	"strings"

	"golang.org/x/tools/go/packages"
)

const repoMod = "github.com/aukilabs/hagall"

// Program is the type-checked view of /repo's working tree.
type Program struct {
	keySnap    map[*types.Func]string // methods that return a fresh slice of the keys of a map field
	shadowed   map[*types.Var]bool    // fields that carry a role's name with another type
	normalized int                    // constructions rewritten into composite literals by the loader
	Dir        string
	Fset       *token.FileSet
	Pkgs       []*packages.Package          // the repo packages (sorted by path)
	ByPth      map[string]*packages.Package // all loaded packages (incl. deps)
	Funcs      map[*types.Func]*Func        // every declared function/method of the repo packages
	Lits       map[*ast.FuncLit]*Func       // every function literal in repo packages
	All        []*Func                      // declared funcs of the repository, sorted
	Ext        []*Func                      // declared funcs of indexed dependency packages

	info map[*ast.File]*packages.Package

	cur        *pathCtx
	engine     *Engine
	deepShared *Deep
	deep       bool // deps loaded with syntax
	allPkgs    []*packages.Package
	embedders  map[*types.TypeName][]*types.Named
	leaveMemo  *[]*Func
	synthSel   map[*ast.SelectorExpr]*types.Var // selections synthesized by the engine (partAssign) -> the field
	roleVar    map[roleKey]*types.Var           // role -> the field that plays it under another name / on a sub-struct
	roleName   map[*types.Var]string            // such a field -> the role's (canonical) name
}

// Func is a declared function, method or function literal of a repo package.
type Func struct {
	recvAsParam      bool // a method of the reference tree written as a function taking the receiver first (names.go)
	decodePtrTargets map[types.Object]bool
	decodeParams     map[int]bool
	progFuncs        map[*types.Func]*Func     // the program's function index (set by Load)
	idxLoops         map[types.Object]ast.Expr // index variable of a canonical index loop -> collection
	Pkg              *packages.Package
	Decl             *ast.FuncDecl
	Lit              *ast.FuncLit
	Obj              *types.Func // nil for literals
	Outer            *Func       // enclosing function for literals
	Name             string      // pkg.(*T).M / pkg.F / outer$N
	Body             *ast.BlockStmt
	Type             *ast.FuncType
	Recv             *types.Var
	nlits            int

	defs          *defInfo
	decodeTargets map[types.Object]bool

	lockOps int   // 0 unknown, 1 yes, 2 no
	flat    *Path // flattened event list (functions without lock operations)

	bind    *binding // set on a per-call-site instance of an inlined helper
	derived bool     // literal instance inside a bound helper
	orig    *Func    // the unbound function this instance was derived from
}

type binding struct {
	caller *Func
	call   *ast.CallExpr // nil for method values
	recv   ast.Expr
	args   []ast.Expr // the arguments bound to the parameters (call.Args unless the receiver travels as the first argument)
}

// argv: the argument expressions bound to the instance's parameters, by parameter index.
func (b *binding) argv() []ast.Expr {
	if b == nil || b.call == nil {
		return nil
	}
	if b.args != nil {
		return b.args
	}
	return b.call.Args
}

func (f *Func) origOrSelf() *Func {
	if f.orig != nil {
		return f.orig
	}
	return f
}

func (f *Func) Info() *types.Info { return f.Pkg.TypesInfo }

func (f *Func) String() string { return f.Name }

func loadEnv() []string {
	env := os.Environ()
	out := env[:0:0]
	for _, e := range env {
		if strings.HasPrefix(e, "GOWORK=") || strings.HasPrefix(e, "GOFLAGS=") || strings.HasPrefix(e, "GOPROXY=") ||
			strings.HasPrefix(e, "GOSUMDB=") || strings.HasPrefix(e, "GOTOOLCHAIN=") {
			continue
		}
		out = append(out, e)
	}
	return append(out, "GOFLAGS=-mod=mod", "GOPROXY=off", "GOSUMDB=off", "GOTOOLCHAIN=local", "GOWORK=off")
}

// Load parses and type-checks every package of the repository. With deep=true the
// dependencies are loaded with syntax as well (needed for SSA / dependency contracts).
func Load(dir string, deep bool, overlay map[string][]byte) (*Program, error) {
	mode := packages.NeedName | packages.NeedFiles | packages.NeedCompiledGoFiles | packages.NeedImports |
		packages.NeedDeps | packages.NeedTypes | packages.NeedSyntax | packages.NeedTypesInfo | packages.NeedTypesSizes | packages.NeedModule
	cfg := &packages.Config{
		Mode:    mode,
		Dir:     dir,
		Env:     loadEnv(),
		Fset:    token.NewFileSet(),
		Tests:   false,
		Overlay: overlay,
	}
	if !deep {
		// Types of dependencies come from export data / source as go list decides; syntax only for roots.
		cfg.Mode = packages.NeedName | packages.NeedFiles | packages.NeedCompiledGoFiles | packages.NeedImports |
			packages.NeedDeps | packages.NeedTypes | packages.NeedSyntax | packages.NeedTypesInfo | packages.NeedTypesSizes | packages.NeedModule
	}
	pkgs, err := packages.Load(cfg, "./...")
	if err != nil {
		return nil, fmt.Errorf("packages.Load: %w", err)
	}
	if len(pkgs) == 0 {
		return nil, fmt.Errorf("no packages loaded from %s", dir)
	}
	p := &Program{Dir: dir, Fset: cfg.Fset, ByPth: map[string]*packages.Package{}, Funcs: map[*types.Func]*Func{},
		Lits: map[*ast.FuncLit]*Func{}, info: map[*ast.File]*packages.Package{}, deep: deep}
	var errs []string
	packages.Visit(pkgs, nil, func(pk *packages.Package) {
		p.ByPth[pk.PkgPath] = pk
		if strings.HasPrefix(pk.PkgPath, repoMod) && !strings.HasPrefix(pk.PkgPath, repoMod+"-") {
			for _, e := range pk.Errors {
				errs = append(errs, e.Error())
			}
		}
	})
	if len(errs) > 0 {
		return nil, fmt.Errorf("type/parse errors in repository packages: %s", strings.Join(errs, "; "))
	}
	for _, pk := range pkgs {
		if pk.Types == nil || pk.TypesInfo == nil || len(pk.Syntax) == 0 {
			return nil, fmt.Errorf("package %s has no syntax/types", pk.PkgPath)
		}
		p.Pkgs = append(p.Pkgs, pk)
	}
	sort.Slice(p.Pkgs, func(i, j int) bool { return p.Pkgs[i].PkgPath < p.Pkgs[j].PkgPath })
	p.allPkgs = pkgs
	p.deep = true
	decls := map[types.Object]*ast.FuncDecl{}
	for _, pk := range p.Pkgs {
		for _, f := range pk.Syntax {
			for _, d := range f.Decls {
				if fd, ok := d.(*ast.FuncDecl); ok {
					if o := pk.TypesInfo.Defs[fd.Name]; o != nil {
						decls[o] = fd
					}
				}
			}
		}
	}
	for _, pk := range p.Pkgs {
		p.normalized += normalizeConstructions(pk)
		p.normalized += unrollFunctionTables(pk)
		p.normalized += normalizeFlagGates(pk, decls)
	}
	resolveNames(p.Pkgs)
	buildDevirt(p.Pkgs)
	for _, pk := range p.Pkgs {
		p.indexPkg(pk)
	}
	nRepo := len(p.All)
	for _, path := range extraIndexed {
		if pk := p.ByPth[path]; pk != nil && len(pk.Syntax) > 0 && pk.TypesInfo != nil {
			p.indexPkg(pk)
		}
	}
	p.Ext = append(p.Ext, p.All[nRepo:]...)
	p.All = p.All[:nRepo]
	sort.Slice(p.All, func(i, j int) bool { return p.All[i].Name < p.All[j].Name })
	p.resolveRoles()
	return p, nil
}

func shortPkg(path string) string {
	if path == repoMod {
		return "hagall"
	}
	return strings.TrimPrefix(path, repoMod+"/")
}

func (p *Program) indexPkg(pk *packages.Package) {
	for _, file := range pk.Syntax {
		p.info[file] = pk
		for _, d := range file.Decls {
			fd, ok := d.(*ast.FuncDecl)
			if !ok || fd.Body == nil {
				continue
			}
			obj, _ := pk.TypesInfo.Defs[fd.Name].(*types.Func)
			if obj == nil {
				continue
			}
			f := &Func{Pkg: pk, Decl: fd, Obj: obj, Body: fd.Body, Type: fd.Type, Name: funcName(obj), progFuncs: p.Funcs}
			if sig, ok := obj.Type().(*types.Signature); ok {
				f.Recv = sig.Recv()
				if funcAliasRecv[obj] != "" && sig.Recv() == nil && sig.Params().Len() > 0 && len(fd.Type.Params.List) > 0 && len(fd.Type.Params.List[0].Names) == 1 {
					// the reference tree's method, now a function taking the receiver first: seen as the method
					f.recvAsParam = true
					f.Recv = sig.Params().At(0)
					f.Type = &ast.FuncType{Func: fd.Type.Func, Params: &ast.FieldList{List: fd.Type.Params.List[1:]}, Results: fd.Type.Results}
				}
			}
			p.Funcs[obj] = f
			p.All = append(p.All, f)
			p.indexLits(f, fd.Body)
		}
		// function literals in package-level var initialisers
		for _, d := range file.Decls {
			gd, ok := d.(*ast.GenDecl)
			if !ok {
				continue
			}
			holder := &Func{Pkg: pk, Name: shortPkg(pk.PkgPath) + ".init"}
			ast.Inspect(gd, func(n ast.Node) bool {
				if lit, ok := n.(*ast.FuncLit); ok {
					holder.nlits++
					lf := &Func{Pkg: pk, Lit: lit, Outer: nil, Body: lit.Body, Type: lit.Type, Name: fmt.Sprintf("%s$%d", holder.Name, holder.nlits)}
					p.Lits[lit] = lf
					p.indexLits(lf, lit.Body)
					return false
				}
				return true
			})
		}
	}
}

func (p *Program) indexLits(outer *Func, body ast.Node) {
	root := outer
	for root.Outer != nil {
		root = root.Outer
	}
	ast.Inspect(body, func(n ast.Node) bool {
		if lit, ok := n.(*ast.FuncLit); ok {
			root.nlits++
			lf := &Func{Pkg: outer.Pkg, Lit: lit, Outer: outer, Body: lit.Body, Type: lit.Type, Name: fmt.Sprintf("%s$%d", root.Name, root.nlits)}
			p.Lits[lit] = lf
			p.indexLits(lf, lit.Body)
			return false
		}
		return true
	})
}

func funcName(obj *types.Func) string {
	pkg := ""
	if obj.Pkg() != nil {
		pkg = shortPkg(obj.Pkg().Path())
	}
	sig, _ := obj.Type().(*types.Signature)
	if rv := funcAliasRecv[obj]; rv != "" {
		// a method of the reference tree that is now a function taking the receiver first
		if strings.HasPrefix(rv, "*") {
			return fmt.Sprintf("%s.(%s).%s", pkg, rv, funcDisplay(obj))
		}
		return fmt.Sprintf("%s.%s.%s", pkg, rv, funcDisplay(obj))
	}
	if sig != nil && sig.Recv() != nil {
		t := sig.Recv().Type()
		ptr := ""
		if pt, ok := t.(*types.Pointer); ok {
			t = pt.Elem()
			ptr = "*"
		}
		name := t.String()
		if n, ok := t.(*types.Named); ok {
			name = typeDisplay(n.Obj())
		}
		if ptr != "" {
			return fmt.Sprintf("%s.(*%s).%s", pkg, name, funcDisplay(obj))
		}
		return fmt.Sprintf("%s.%s.%s", pkg, name, funcDisplay(obj))
	}
	return pkg + "." + funcDisplay(obj)
}

// Pkg returns the repo package with the given short path ("websocket", "modules/vikja").
func (p *Program) Pkg(short string) *packages.Package {
	if short == "" {
		return p.ByPth[repoMod]
	}
	return p.ByPth[repoMod+"/"+short]
}

// LookupFunc finds pkg.F or pkg.T.M (pointer or value receiver) in a repo package or dependency.
func (p *Program) LookupFunc(pkgPath, typeName, name string) *types.Func {
	pk := p.ByPth[pkgPath]
	if pk == nil || pk.Types == nil {
		return nil
	}
	if typeName == "" {
		if f, _ := pk.Types.Scope().Lookup(name).(*types.Func); f != nil {
			return f
		}
		for f, a := range funcAlias { // a renamed function playing that role
			if a == name && f.Pkg() == pk.Types && f.Type().(*types.Signature).Recv() == nil {
				return f
			}
		}
		return nil
	}
	tn := p.LookupType(pkgPath, typeName)
	if tn == nil {
		return nil
	}
	obj, _, _ := types.LookupFieldOrMethod(types.NewPointer(tn.Type()), true, pk.Types, name)
	if f, ok := obj.(*types.Func); ok {
		return f
	}
	obj, _, _ = types.LookupFieldOrMethod(tn.Type(), true, pk.Types, name)
	if f, _ := obj.(*types.Func); f != nil {
		return f
	}
	for f, a := range funcAlias { // a renamed method playing that role
		if a != name || f.Pkg() != pk.Types {
			continue
		}
		if rv := f.Type().(*types.Signature).Recv(); rv != nil {
			if nt, ok := derefNamedT(rv.Type()); ok && nt.Obj() == tn {
				return f
			}
		} else if funcAliasRecv[f] != "" && strings.TrimPrefix(funcAliasRecv[f], "*") == typeName {
			return f
		}
	}
	return nil
}

func (p *Program) LookupType(pkgPath, typeName string) *types.TypeName {
	pk := p.ByPth[pkgPath]
	if pk == nil || pk.Types == nil {
		return nil
	}
	if tn, _ := pk.Types.Scope().Lookup(typeName).(*types.TypeName); tn != nil {
		return tn
	}
	for tn, a := range typeAlias { // a renamed type playing that role
		if a == typeName && tn.Pkg() == pk.Types {
			return tn
		}
	}
	return nil
}

func (p *Program) LookupField(pkgPath, typeName, field string) *types.Var {
	if v := p.plainLookup(pkgPath, typeName, field); v != nil && !p.shadowed[v] {
		return v
	}
	return p.roleVar[roleKey{pkgPath, typeName, field}]
}

func (p *Program) plainLookup(pkgPath, typeName, field string) *types.Var {
	tn := p.LookupType(pkgPath, typeName)
	if tn == nil {
		return nil
	}
	st, ok := tn.Type().Underlying().(*types.Struct)
	if !ok {
		return nil
	}
	for i := 0; i < st.NumFields(); i++ {
		if st.Field(i).Name() == field {
			return st.Field(i)
		}
	}
	// a field promoted from an embedded struct (state grouped on a sub-struct)
	if obj, _, _ := types.LookupFieldOrMethod(tn.Type(), true, tn.Pkg(), field); obj != nil {
		if v, ok := obj.(*types.Var); ok && v.IsField() {
			return v
		}
	}
	return nil
}

func (p *Program) Pos(pos token.Pos) string {
	if !pos.IsValid() {
		return "-"
	}
	ps := p.Fset.Position(pos)
	return fmt.Sprintf("%s:%d", strings.TrimPrefix(ps.Filename, p.Dir+"/"), ps.Line)
}

// FuncByName returns the declared function with the given qualified name (as produced by funcName).
func (p *Program) FuncByName(name string) *Func {
	for _, f := range p.All {
		if f.Name == name {
			return f
		}
	}
	// the same method with the other kind of receiver (pkg.T.M <-> pkg.(*T).M): changing the receiver kind of
	// a type that carries no lock and no container does not make it another function
	alt := ""
	if i := strings.Index(name, ".(*"); i >= 0 {
		if j := strings.Index(name[i:], ")."); j > 0 {
			alt = name[:i+1] + name[i+3:i+j] + name[i+j+1:]
		}
	} else if parts := strings.Split(name, "."); len(parts) >= 3 {
		n := len(parts)
		alt = strings.Join(parts[:n-2], ".") + ".(*" + parts[n-2] + ")." + parts[n-1]
	}
	if alt != "" {
		for _, f := range p.All {
			if f.Name == alt {
				return f
			}
		}
	}
	return nil
}

func isRepoPkg(pkg *types.Package) bool {
	if pkg == nil {
		return false
	}
	return pkg.Path() == repoMod || strings.HasPrefix(pkg.Path(), repoMod+"/")
}

// isGlue: a repository function the path engine looks into instead of treating its call as an
// opaque event — every unexported function, and every exported function or method that is not part
// of the reference API (knownAPI). Rules speak about the API primitives by name; everything
// else is glue whose effects must be visible in its callers' paths, so that wrapping primitives in a
// new (even exported, even cross-package) function does not hide what a path does.
func (p *Program) isGlue(f *types.Func) bool {
	if !p.isGlueRaw(f) {
		return false
	}
	for _, l := range p.leaveFuncs() {
		if l.Obj == f {
			return false
		}
	}
	return true
}

func (p *Program) isGlueRaw(f *types.Func) bool {
	if f == nil || f.Pkg() == nil || !isRepoPkg(f.Pkg()) {
		return false
	}
	def := p.Funcs[f]
	if def == nil || def.Body == nil {
		return false
	}
	if p.keySnapshotField(f) != "" {
		return false // a snapshot of a map's keys: its call stands for the map it reads, like a getter
	}
	if !f.Exported() {
		return true
	}
	return !knownAPI[def.Name]
}

// OwnerName names the struct that owns a field for the purposes of rule tables and lock keys. State
// grouped on an unexported sub-struct that exactly one repository struct embeds or holds by value (and no
// repository struct holds in any other way) is the state of the embedding struct: frameDispatch{frameMutex} embedded in Session is
// Session.frameMutex, whether it is reached as s.frameMutex or, inside the sub-struct's own methods,
// as d.frameMutex.
func (p *Program) OwnerName(nt *types.Named) string {
	if p.embedders == nil {
		p.embedders = map[*types.TypeName][]*types.Named{}
		for _, pk := range p.Pkgs {
			sc := pk.Types.Scope()
			for _, nm := range sc.Names() {
				tn, ok := sc.Lookup(nm).(*types.TypeName)
				if !ok || tn.IsAlias() {
					continue
				}
				outer, ok := tn.Type().(*types.Named)
				if !ok {
					continue
				}
				st, ok := outer.Underlying().(*types.Struct)
				if !ok {
					continue
				}
				for i := 0; i < st.NumFields(); i++ {
					inner, ok := derefNamedT(st.Field(i).Type())
					if !ok || !isRepoPkg(inner.Obj().Pkg()) {
						continue
					}
					if _, isStruct := inner.Underlying().(*types.Struct); !isStruct {
						continue
					}
					_, byPtr := st.Field(i).Type().(*types.Pointer)
					if st.Field(i).Embedded() || !byPtr {
						p.embedders[inner.Obj()] = append(p.embedders[inner.Obj()], outer)
					} else {
						// held by pointer under a name: an object of its own, not a part of one struct
						p.embedders[inner.Obj()] = append(p.embedders[inner.Obj()], nil)
					}
				}
			}
		}
	}
	seen := map[*types.TypeName]bool{}
	for {
		tn := nt.Obj()
		es := p.embedders[tn]
		if seen[tn] || len(es) != 1 || es[0] == nil || tn.Exported() {
			return typeDisplay(tn)
		}
		seen[tn] = true
		nt = es[0]
	}
}
