package main

import (
	"fmt"
	"go/ast"
	"go/token"
	"go/types"
	"golang.org/x/tools/go/packages"
	"sort"
	"strings"
)

const (
	pkgHCWS     = "github.com/aukilabs/hagall-common/websocket"
	pkgHagallPB = "github.com/aukilabs/hagall-common/messages/hagallpb"
	pkgVikjaPB  = "github.com/aukilabs/hagall-common/messages/vikjapb"
	pkgOdalPB   = "github.com/aukilabs/hagall-common/messages/odalpb"
	pkgDagazPB  = "github.com/aukilabs/hagall-common/messages/dagazpb"
	pkgWS       = repoMod + "/websocket"
	pkgModels   = repoMod + "/models"
	pkgModules  = repoMod + "/modules"
	pkgFF       = repoMod + "/featureflag"
)

// Arm is one arm of a dispatch switch: message type constant -> handler.
type Arm struct {
	Const  *types.Const
	Method *types.Func // method called in the arm (interface method for the core dispatch)
	Impl   *Func       // concrete implementation analysed (RealtimeHandler / module method)
	Clause *ast.CaseClause
	Module *ModuleInfo // nil for core
}

type ModuleInfo struct {
	Named            *types.Named
	Name             string // module name constant returned by Name()
	Short            string // package short name
	HandleMsg        *Func
	Init             *Func
	HandleDisconnect *Func
	Arms             []Arm
}

// Model holds the anchors every rule needs, resolved through the type checker.
type Model struct {
	P *Program

	DataTo      *types.Func
	Send        *types.Func
	SendMsg     *types.Func
	Broadcast   *types.Func
	BroadcastTo *types.Func
	IfNotSet    *types.Func
	IfSet       *types.Func
	Notify      *types.Func

	HandlerIface *types.Named
	ModuleIface  *types.Named
	Realtime     *types.Named
	Session      *types.Named
	Participant  *types.Named
	Entity       *types.Named
	SessionStore *types.Named
	ECS          *types.Named
	IDGen        *types.Named

	Dispatch      *Func
	CoreArms      []Arm
	TableDispatch bool // the core dispatch is a table (map / slice literal), not a switch
	Modules       []*ModuleInfo
	Decorators    []*types.Named
	Leave         []*Func // functions of RealtimeHandler that call Session.RemoveParticipant

	Handlers []*HandlerInfo // primary + secondary handlers with their message constants
}

type HandlerInfo struct {
	Fn        *Func
	Const     *types.Const // dispatched message type
	Module    *ModuleInfo
	Secondary bool // module handler for a core message type (the core handler owns the answer)
	Respond   *types.Var
	ReqVar    types.Object // variable the message is decoded into
	ReqType   *types.Named
	HasReqID  bool
}

func (r *Run) M() *Model {
	if r.model != nil {
		return r.model
	}
	m := &Model{P: r.P}
	r.model = m
	p := r.P
	need := func(what string, ok bool) bool {
		if !ok {
			r.Undecide("anchors", "cannot resolve %s", what)
		}
		return ok
	}
	named := func(pkg, name string) *types.Named {
		tn := p.LookupType(pkg, name)
		if tn == nil {
			r.Undecide("anchors", "type %s.%s not found", pkg, name)
			return nil
		}
		n, _ := tn.Type().(*types.Named)
		return n
	}
	m.DataTo = p.LookupFunc(pkgHCWS, "Msg", "DataTo")
	need("hwebsocket.Msg.DataTo", m.DataTo != nil)
	m.Send = p.LookupFunc(pkgHCWS, "ResponseSender", "Send")
	m.SendMsg = p.LookupFunc(pkgHCWS, "ResponseSender", "SendMsg")
	need("hwebsocket.ResponseSender.Send/SendMsg", m.Send != nil && m.SendMsg != nil)
	m.Broadcast = p.LookupFunc(pkgModels, "Session", "Broadcast")
	m.BroadcastTo = p.LookupFunc(pkgModels, "Session", "BroadcastTo")
	need("models.Session.Broadcast/BroadcastTo", m.Broadcast != nil && m.BroadcastTo != nil)
	m.IfNotSet = p.LookupFunc(pkgFF, "FeatureFlag", "IfNotSet")
	m.IfSet = p.LookupFunc(pkgFF, "FeatureFlag", "IfSet")
	need("featureflag.FeatureFlag.IfNotSet/IfSet", m.IfNotSet != nil && m.IfSet != nil)
	m.Notify = p.LookupFunc(pkgModels, "EntityComponentStore", "Notify")
	need("models.EntityComponentStore.Notify", m.Notify != nil)
	m.HandlerIface = named(pkgWS, "Handler")
	m.ModuleIface = named(pkgModules, "Module")
	m.Realtime = named(pkgWS, "RealtimeHandler")
	m.Session = named(pkgModels, "Session")
	m.Participant = named(pkgModels, "Participant")
	m.Entity = named(pkgModels, "Entity")
	m.SessionStore = named(pkgModels, "SessionStore")
	m.ECS = named(pkgModels, "EntityComponentStore")
	m.IDGen = named(pkgModels, "SequentialIDGenerator")
	if r.broken() {
		return m
	}
	m.findDispatch(r)
	m.findModules(r)
	m.findDecorators(r)
	m.findLeave(r)
	m.buildHandlers(r)
	return m
}

// msgTypeSwitchArms extracts (constant -> called method) from a switch whose tag is the Type field of
// a hwebsocket.Msg value (possibly converted: pb.MsgType(msg.Type.Number())).
func (m *Model) msgTypeSwitches(fn *Func) []*ast.SwitchStmt {
	var out []*ast.SwitchStmt
	info := fn.Info()
	ast.Inspect(fn.Body, func(n ast.Node) bool {
		sw, ok := n.(*ast.SwitchStmt)
		if !ok || sw.Tag == nil {
			return true
		}
		isMsgType := false
		tag := ast.Node(sw.Tag)
		// switch t { … } with t, ok := msg.Type.(pb.MsgType) (or t := msg.Type): the local stands for the field
		if id, isID := ast.Unparen(sw.Tag).(*ast.Ident); isID {
			if lv, ok := info.Uses[id].(*types.Var); ok && !lv.IsField() {
				if ds, ok := fn.Defs().singleDef(lv); ok && ds.rhs != nil {
					tag = ds.rhs
				}
			}
		}
		ast.Inspect(tag, func(x ast.Node) bool {
			se, ok := x.(*ast.SelectorExpr)
			if !ok {
				return true
			}
			if sel, ok := info.Selections[se]; ok && sel.Kind() == types.FieldVal && sel.Obj().Name() == "Type" {
				if nt, ok := derefNamed(sel.Recv()); ok && nt.Obj().Pkg() != nil && nt.Obj().Pkg().Path() == pkgHCWS && nt.Obj().Name() == "Msg" {
					isMsgType = true
				}
			}
			return true
		})
		if isMsgType {
			out = append(out, sw)
		}
		return true
	})
	return out
}

func derefNamed(t types.Type) (*types.Named, bool) {
	if pt, ok := t.(*types.Pointer); ok {
		t = pt.Elem()
	}
	n, ok := t.(*types.Named)
	return n, ok
}

// armCalls returns the repo-relevant calls in a case clause body (handler invocations).
func armCalls(info *types.Info, cc *ast.CaseClause, accept func(*types.Func) bool) []*types.Func {
	var out []*types.Func
	for _, st := range cc.Body {
		ast.Inspect(st, func(n ast.Node) bool {
			if call, ok := n.(*ast.CallExpr); ok {
				if f, ok := calleeObj(info, call).(*types.Func); ok && accept(f) {
					out = append(out, f)
				}
			}
			return true
		})
	}
	return out
}

// switchArms: the arms of a message-type switch. An arm that lists several kinds and hands the message to a
// function of the package that switches on the message type again (dispatch grouped by category) is
// resolved, per kind, to the arm of that inner switch.
func (m *Model) switchArms(fn *Func, sw *ast.SwitchStmt, accept func(*types.Func) bool, depth int) []Arm {
	var arms []Arm
	for _, cl := range sw.Body.List {
		cc := cl.(*ast.CaseClause)
		calls := armCalls(fn.Info(), cc, accept)
		var inner []Arm
		if len(calls) == 0 && depth < 2 {
			// a call to a function of the same package with a message-type switch of its own
			for _, st := range cc.Body {
				ast.Inspect(st, func(n ast.Node) bool {
					call, ok := n.(*ast.CallExpr)
					if !ok {
						return true
					}
					if f, ok := calleeObj(fn.Info(), call).(*types.Func); ok {
						if g := m.P.Funcs[f]; g != nil && g.Pkg == fn.Pkg && g != fn {
							for _, isw := range m.msgTypeSwitches(g) {
								inner = append(inner, m.switchArms(g, isw, accept, depth+1)...)
							}
						}
					}
					return true
				})
			}
		}
		for _, x := range cc.List {
			c := constOf(fn.Info(), x)
			if c == nil {
				continue
			}
			a := Arm{Const: c, Clause: cc}
			if len(calls) == 1 {
				a.Method = calls[0]
			}
			if len(calls) == 0 && inner != nil {
				var hit []Arm
				for _, ia := range inner {
					if ia.Const == c {
						hit = append(hit, ia)
					}
				}
				if len(hit) == 1 {
					a.Method = hit[0].Method
				}
			}
			arms = append(arms, a)
		}
	}
	return arms
}

func (m *Model) findDispatch(r *Run) {
	p := m.P
	iface := m.HandlerIface.Underlying().(*types.Interface)
	isHandlerMethod := func(f *types.Func) bool {
		for i := 0; i < iface.NumMethods(); i++ {
			if iface.Method(i) == f {
				return true
			}
		}
		return false
	}
	var best *Func
	var bestArms []Arm
	for _, fn := range p.All {
		if fn.Pkg.PkgPath != pkgWS {
			continue
		}
		for _, sw := range m.msgTypeSwitches(fn) {
			arms := m.switchArms(fn, sw, isHandlerMethod, 0)
			if len(arms) > len(bestArms) {
				best, bestArms = fn, arms
			}
		}
	}
	if best == nil || len(bestArms) < 5 {
		// table-driven dispatch: a map / slice literal of {message type, handler}
		if pk := p.ByPth[pkgWS]; pk != nil {
			arms, tbl := m.tableArms(pk, isHandlerMethod, map[string]bool{pkgHagallPB: true}, false)
			swFn, swArms := best, bestArms
			if len(arms) >= 5 && tbl != nil {
				// a small switch next to the table, in a function that reads the table too (the kinds whose handlers
				// have another signature): its arms count with the table's
				if swFn != nil && len(swArms) > 0 {
					reads := false
					ast.Inspect(swFn.Body, func(n ast.Node) bool {
						if id, ok := n.(*ast.Ident); ok && swFn.Info().Uses[id] == tbl {
							reads = true
						}
						return true
					})
					if reads {
						have := map[*types.Const]bool{}
						for _, a := range arms {
							have[a.Const] = true
						}
						for _, a := range swArms {
							if !have[a.Const] {
								arms = append(arms, a)
							}
						}
					}
				}
				best = nil
				// the dispatch function: the one that reads the table and consults the modules
				for _, fn := range p.All {
					if fn.Pkg.PkgPath != pkgWS || fn.Body == nil {
						continue
					}
					uses, mods := false, false
					ast.Inspect(fn.Body, func(n ast.Node) bool {
						if id, ok := n.(*ast.Ident); ok && fn.Info().Uses[id] == tbl {
							uses = true
						}
						if call, ok := n.(*ast.CallExpr); ok {
							if f, ok := calleeObj(fn.Info(), call).(*types.Func); ok && f.Name() == "HandleWithModule" {
								mods = true
							}
						}
						return true
					})
					if uses && (mods || best == nil) {
						best = fn
					}
				}
				bestArms = arms
				m.TableDispatch = true
			}
		}
	}
	if best == nil || len(bestArms) < 5 {
		r.Undecide("anchors", "core dispatch (switch or table over hwebsocket.Msg.Type) not found in package websocket")
		return
	}
	// the dispatch function is the one that also consults the modules: when the switch lives in a helper
	// (dispatch split into "core" and "modules" parts), climb to the caller that does both
	mentionsHWM := func(fn *Func) bool {
		seen := map[*Func]bool{}
		var visit func(fn *Func, depth int) bool
		visit = func(fn *Func, depth int) bool {
			if fn == nil || seen[fn] || depth > 3 {
				return false
			}
			seen[fn] = true
			found := false
			ast.Inspect(fn.Body, func(n ast.Node) bool {
				if call, ok := n.(*ast.CallExpr); ok && !found {
					if f, ok := calleeObj(fn.Info(), call).(*types.Func); ok {
						if f.Name() == "HandleWithModule" {
							found = true
						} else if g := p.Funcs[f]; g != nil && g.Pkg == fn.Pkg && p.isGlue(f) {
							if visit(g, depth+1) {
								found = true
							}
						}
					}
				}
				return !found
			})
			return found
		}
		return visit(fn, 0)
	}
	for climb := 0; climb < 3 && !m.TableDispatch && !mentionsHWM(best); climb++ {
		var callers []*Func
		for _, fn := range p.All {
			if fn.Pkg != best.Pkg || fn == best || fn.Obj == nil {
				continue
			}
			calls := false
			ast.Inspect(fn.Body, func(n ast.Node) bool {
				if call, ok := n.(*ast.CallExpr); ok {
					if f, ok := calleeObj(fn.Info(), call).(*types.Func); ok && f == best.Obj {
						calls = true
					}
				}
				return true
			})
			if calls {
				callers = append(callers, fn)
			}
		}
		if len(callers) != 1 {
			break
		}
		best = callers[0]
	}
	m.Dispatch = best
	for i := range bestArms {
		a := &bestArms[i]
		if a.Method != nil {
			if impl := p.LookupFunc(pkgWS, "RealtimeHandler", a.Method.Name()); impl != nil {
				a.Impl = p.Funcs[impl]
			}
		}
	}
	m.CoreArms = bestArms
}

func (m *Model) findModules(r *Run) {
	p := m.P
	iface := m.ModuleIface.Underlying().(*types.Interface)
	for _, pk := range p.Pkgs {
		if !strings.HasPrefix(pk.PkgPath, pkgModules+"/") {
			continue
		}
		scope := pk.Types.Scope()
		names := scope.Names()
		sort.Strings(names)
		for _, nm := range names {
			tn, ok := scope.Lookup(nm).(*types.TypeName)
			if !ok {
				continue
			}
			n, ok := tn.Type().(*types.Named)
			if !ok {
				continue
			}
			if _, isStruct := n.Underlying().(*types.Struct); !isStruct {
				continue
			}
			if !types.Implements(types.NewPointer(n), iface) {
				continue
			}
			mi := &ModuleInfo{Named: n, Short: shortPkg(pk.PkgPath)}
			get := func(name string) *Func {
				f := p.LookupFunc(pk.PkgPath, nm, name)
				if f == nil {
					return nil
				}
				return p.Funcs[f]
			}
			mi.HandleMsg, mi.Init, mi.HandleDisconnect = get("HandleMsg"), get("Init"), get("HandleDisconnect")
			if mi.HandleMsg == nil || mi.Init == nil || mi.HandleDisconnect == nil {
				r.Undecide("anchors", "module %s lacks HandleMsg/Init/HandleDisconnect bodies", n)
				continue
			}
			if nf := get("Name"); nf != nil {
				mi.Name = stringResult(nf)
			}
			isOwn := func(f *types.Func) bool {
				sig := f.Type().(*types.Signature)
				if sig.Recv() == nil {
					return false
				}
				rn, ok := derefNamed(sig.Recv().Type())
				return ok && rn == n
			}
			for _, sw := range m.msgTypeSwitches(mi.HandleMsg) {
				for _, cl := range sw.Body.List {
					cc := cl.(*ast.CaseClause)
					calls := armCalls(mi.HandleMsg.Info(), cc, isOwn)
					for _, x := range cc.List {
						c := constOf(mi.HandleMsg.Info(), x)
						if c == nil {
							continue
						}
						a := Arm{Const: c, Clause: cc, Module: mi}
						if len(calls) == 1 {
							a.Method = calls[0]
							a.Impl = p.Funcs[calls[0]]
						}
						mi.Arms = append(mi.Arms, a)
					}
				}
			}
			// table-driven module dispatch
			if len(mi.Arms) == 0 {
				arms, _ := m.tableArms(pk, isOwn, map[string]bool{pkgHagallPB: true, pkgVikjaPB: true, pkgOdalPB: true, pkgDagazPB: true}, true)
				for _, a := range arms {
					a.Module = mi
					if a.Method != nil {
						a.Impl = p.Funcs[a.Method]
					}
					mi.Arms = append(mi.Arms, a)
				}
			}
			// the same written as `if <msg.Type …> == CONST { … }`
			info := mi.HandleMsg.Info()
			mentionsMsgType := func(x ast.Expr) bool {
				found := false
				ast.Inspect(x, func(nd ast.Node) bool {
					if se, ok := nd.(*ast.SelectorExpr); ok {
						if sel, ok := info.Selections[se]; ok && sel.Kind() == types.FieldVal && sel.Obj().Name() == "Type" {
							if nt, ok := derefNamed(sel.Recv()); ok && nt.Obj().Pkg() != nil && nt.Obj().Pkg().Path() == pkgHCWS && nt.Obj().Name() == "Msg" {
								found = true
							}
						}
					}
					return true
				})
				return found
			}
			ast.Inspect(mi.HandleMsg.Body, func(nd ast.Node) bool {
				is, ok := nd.(*ast.IfStmt)
				if !ok {
					return true
				}
				be, ok := ast.Unparen(is.Cond).(*ast.BinaryExpr)
				if !ok || be.Op != token.EQL {
					return true
				}
				var c *types.Const
				switch {
				case mentionsMsgType(be.X):
					c = constOf(info, be.Y)
				case mentionsMsgType(be.Y):
					c = constOf(info, be.X)
				}
				if c == nil {
					return true
				}
				cc := &ast.CaseClause{Case: is.Pos(), Body: is.Body.List}
				calls := armCalls(info, cc, isOwn)
				a := Arm{Const: c, Clause: cc, Module: mi}
				if len(calls) == 1 {
					a.Method = calls[0]
					a.Impl = p.Funcs[calls[0]]
				}
				mi.Arms = append(mi.Arms, a)
				return true
			})
			m.Modules = append(m.Modules, mi)
		}
	}
}

func stringResult(fn *Func) string {
	if len(fn.Body.List) != 1 {
		return ""
	}
	rs, ok := fn.Body.List[0].(*ast.ReturnStmt)
	if !ok || len(rs.Results) != 1 {
		return ""
	}
	if tv, ok := fn.Info().Types[rs.Results[0]]; ok && tv.Value != nil {
		return strings.Trim(tv.Value.ExactString(), "\"")
	}
	return ""
}

// findDecorators: struct types of package websocket that embed the Handler interface.
func (m *Model) findDecorators(r *Run) {
	pk := m.P.ByPth[pkgWS]
	scope := pk.Types.Scope()
	names := scope.Names()
	sort.Strings(names)
	for _, nm := range names {
		tn, ok := scope.Lookup(nm).(*types.TypeName)
		if !ok {
			continue
		}
		n, ok := tn.Type().(*types.Named)
		if !ok {
			continue
		}
		st, ok := n.Underlying().(*types.Struct)
		if !ok {
			continue
		}
		for i := 0; i < st.NumFields(); i++ {
			f := st.Field(i)
			if f.Embedded() && types.Identical(f.Type(), m.HandlerIface) {
				m.Decorators = append(m.Decorators, n)
			}
		}
	}
}

func (m *Model) findLeave(r *Run) {
	rm := m.P.LookupFunc(pkgModels, "Session", "RemoveParticipant")
	if rm == nil {
		r.Undecide("anchors", "models.Session.RemoveParticipant not found")
		return
	}
	m.Leave = m.P.leaveFuncs()
	_ = rm
}

// leaveFuncs: the function(s) of RealtimeHandler that take the connection's participant out of its
// session (they call Session.RemoveParticipant, directly or in a piece split off with a single call
// site). The leave function is an operation with rules of its own (E1, E2, its E8 rows); like the listed
// API it is never looked into from its callers, whatever its size.
func (p *Program) leaveFuncs() []*Func {
	if p.leaveMemo != nil {
		return *p.leaveMemo
	}
	var out []*Func
	p.leaveMemo = &out
	rm := p.LookupFunc(pkgModels, "Session", "RemoveParticipant")
	rtn := p.LookupType(pkgWS, "RealtimeHandler")
	if rm == nil || rtn == nil {
		return out
	}
	realtime, _ := rtn.Type().(*types.Named)
	m := struct {
		P        *Program
		Realtime *types.Named
		Leave    []*Func
	}{p, realtime, nil}
	for _, fn := range p.All {
		if fn.Recv == nil {
			continue
		}
		if rn, ok := derefNamed(fn.Recv.Type()); !ok || rn != m.Realtime {
			continue
		}
		found := false
		ast.Inspect(fn.Body, func(n ast.Node) bool {
			if call, ok := n.(*ast.CallExpr); ok && calleeObj(fn.Info(), call) == rm {
				found = true
			}
			return true
		})
		if found {
			// the removal may sit in a piece split off the leave function: a helper with exactly one
			// call site is part of its caller
			for hop := 0; hop < 3 && fn.Obj != nil && m.P.isGlueRaw(fn.Obj); hop++ {
				var caller *Func
				n := 0
				for _, g := range m.P.All {
					ast.Inspect(g.Body, func(nd ast.Node) bool {
						if id, ok := nd.(*ast.Ident); ok && g.Info().Uses[id] == types.Object(fn.Obj) {
							n++
							caller = g
						}
						return true
					})
				}
				if n != 1 || caller.Recv == nil {
					break
				}
				if rn, ok := derefNamed(caller.Recv.Type()); !ok || rn != m.Realtime {
					break
				}
				fn = caller
			}
			dup := false
			for _, l := range m.Leave {
				dup = dup || l == fn
			}
			if !dup {
				m.Leave = append(m.Leave, fn)
			}
		}
	}
	out = m.Leave
	return out
}

func (m *Model) buildHandlers(r *Run) {
	coreConsts := map[*types.Const]bool{}
	seen := map[*Func]bool{}
	add := func(a Arm, secondary bool) {
		if a.Impl == nil || seen[a.Impl] {
			return
		}
		seen[a.Impl] = true
		hi := &HandlerInfo{Fn: a.Impl, Const: a.Const, Module: a.Module, Secondary: secondary}
		m.fillHandler(hi)
		m.Handlers = append(m.Handlers, hi)
	}
	for _, a := range m.CoreArms {
		coreConsts[a.Const] = true
		add(a, false)
	}
	for _, mi := range m.Modules {
		for _, a := range mi.Arms {
			add(a, coreConsts[a.Const])
		}
	}
}

func (m *Model) fillHandler(hi *HandlerInfo) {
	fn := hi.Fn
	info := fn.Info()
	// respond parameter: the parameter of type hwebsocket.ResponseSender
	if fn.Type.Params != nil {
		for _, fld := range fn.Type.Params.List {
			for _, nm := range fld.Names {
				if v, ok := info.Defs[nm].(*types.Var); ok {
					if nt, ok := v.Type().(*types.Named); ok && nt.Obj().Name() == "ResponseSender" && nt.Obj().Pkg().Path() == pkgHCWS {
						hi.Respond = v
					}
				}
			}
		}
	}
	// decoded request: msg.DataTo(&v)
	ast.Inspect(fn.Body, func(n ast.Node) bool {
		call, ok := n.(*ast.CallExpr)
		if !ok || calleeObj(info, call) != m.DataTo || len(call.Args) != 1 || hi.ReqVar != nil {
			return true
		}
		if u, ok := ast.Unparen(call.Args[0]).(*ast.UnaryExpr); ok {
			if id, ok := ast.Unparen(u.X).(*ast.Ident); ok {
				hi.ReqVar = info.Uses[id]
				if nt, ok := hi.ReqVar.Type().(*types.Named); ok {
					hi.ReqType = nt
					if st, ok := nt.Underlying().(*types.Struct); ok {
						for i := 0; i < st.NumFields(); i++ {
							if st.Field(i).Name() == "RequestId" {
								hi.HasReqID = true
							}
						}
					}
				}
			}
		}
		return true
	})
	setReq := func(obj types.Object) {
		if obj == nil || hi.ReqVar != nil {
			return
		}
		t := obj.Type()
		if pt, ok := t.(*types.Pointer); ok {
			t = pt.Elem()
		}
		nt, ok := t.(*types.Named)
		if !ok {
			return
		}
		hi.ReqVar, hi.ReqType = obj, nt
		if st, ok := nt.Underlying().(*types.Struct); ok {
			for i := 0; i < st.NumFields(); i++ {
				if st.Field(i).Name() == "RequestId" {
					hi.HasReqID = true
				}
			}
		}
	}
	if hi.ReqVar == nil {
		// decoded through a helper: decodeX(msg, &req) or req, err := decodeX[T](msg)
		fn.scanDecodeTargets()
		for obj := range fn.root().decodeTargets {
			setReq(obj)
		}
		if hi.ReqVar == nil {
			ast.Inspect(fn.Body, func(n ast.Node) bool {
				as, ok := n.(*ast.AssignStmt)
				if !ok || len(as.Rhs) != 1 || len(as.Lhs) < 1 {
					return true
				}
				call, ok := ast.Unparen(as.Rhs[0]).(*ast.CallExpr)
				if !ok {
					return true
				}
				g, _ := calleeObj(info, call).(*types.Func)
				if g == nil || fn.progFuncs == nil {
					return true
				}
				gd := fn.progFuncs[g]
				if gd == nil || gd.Body == nil {
					return true
				}
				gd.scanDecodeTargets()
				returnsDecoded := false
				ast.Inspect(gd.Body, func(m2 ast.Node) bool {
					if rs, ok := m2.(*ast.ReturnStmt); ok && len(rs.Results) >= 1 {
						if id, ok := ast.Unparen(rs.Results[0]).(*ast.Ident); ok && gd.root().decodePtrTargets[gd.Info().Uses[id]] {
							returnsDecoded = true
						}
						// var req T; msg.DataTo(&req); return &req, nil
						if u, ok := ast.Unparen(rs.Results[0]).(*ast.UnaryExpr); ok && u.Op == token.AND {
							if id, ok := ast.Unparen(u.X).(*ast.Ident); ok && gd.root().decodeTargets[gd.Info().Uses[id]] {
								returnsDecoded = true
							}
						}
					}
					return true
				})
				if returnsDecoded {
					if id, ok := ast.Unparen(as.Lhs[0]).(*ast.Ident); ok {
						obj := info.Defs[id]
						if obj == nil {
							obj = info.Uses[id]
						}
						setReq(obj)
					}
				}
				return true
			})
		}
		if hi.ReqVar == nil {
			m.reqFromDecodingHelper(fn, setReq)
		}
	}
}

// reqFromDecodingHelper: the handler hands a literal to a helper that decodes the message and calls the
// literal with a pointer to what it decoded (withSession(h, msg, func(req *T, …) error {…})): the literal's
// message-typed parameter is the request.
func (m *Model) reqFromDecodingHelper(fn *Func, setReq func(types.Object)) {
	info := fn.Info()
	ast.Inspect(fn.Body, func(n ast.Node) bool {
		call, ok := n.(*ast.CallExpr)
		if !ok {
			return true
		}
		g, _ := calleeObj(info, call).(*types.Func)
		if g == nil || fn.progFuncs == nil {
			return true
		}
		gd := fn.progFuncs[g]
		if gd == nil || gd.Body == nil {
			return true
		}
		decodes := false
		ast.Inspect(gd.Body, func(x ast.Node) bool {
			if c, ok := x.(*ast.CallExpr); ok && calleeObj(gd.Info(), c) == m.DataTo {
				decodes = true
			}
			return true
		})
		if !decodes {
			return true
		}
		for _, a := range call.Args {
			lit, ok := ast.Unparen(a).(*ast.FuncLit)
			if !ok || lit.Type.Params == nil {
				continue
			}
			for _, fld := range lit.Type.Params.List {
				for _, nm := range fld.Names {
					obj := info.Defs[nm]
					if obj == nil {
						continue
					}
					if pt, ok := obj.Type().(*types.Pointer); ok {
						if nt, ok := pt.Elem().(*types.Named); ok && nt.Obj().Pkg() != nil && strings.Contains(nt.Obj().Pkg().Path(), "/messages/") {
							setReq(obj)
						}
					}
				}
			}
		}
		return true
	})
}

func (hi *HandlerInfo) Key() string {
	return hi.Fn.Name
}

func (m *Model) String() string {
	var sb strings.Builder
	fmt.Fprintf(&sb, "dispatch=%s arms=%d modules=%d decorators=%d handlers=%d", m.Dispatch, len(m.CoreArms), len(m.Modules), len(m.Decorators), len(m.Handlers))
	return sb.String()
}

// tableArms: message kinds dispatched through a table instead of a switch — a package-level (or
// local) map or slice literal whose entries pair a message-type constant with an expression that names
// exactly one target method (a method expression / method value, possibly wrapped in an adapter call or
// a small closure). Returns the arms of the largest such table of the package and the table variable, or
// (merge) the arms of all tables whose entries all name a handler.
func (m *Model) tableArms(pk *packages.Package, isTarget func(*types.Func) bool, constPkgs map[string]bool, merge bool) ([]Arm, types.Object) {
	info := pk.TypesInfo
	var targetsIn func(x ast.Node, depth int) []*types.Func
	targetsIn0 := func(x ast.Expr) []*types.Func { return targetsIn(x, 0) }
	targetsIn = func(x ast.Node, depth int) []*types.Func {
		var out []*types.Func
		ast.Inspect(x, func(n ast.Node) bool {
			switch v := n.(type) {
			case *ast.SelectorExpr:
				if sel, ok := info.Selections[v]; ok && (sel.Kind() == types.MethodExpr || sel.Kind() == types.MethodVal) {
					if f, ok := sel.Obj().(*types.Func); ok && isTarget(f) {
						out = append(out, f)
					}
				}
			case *ast.Ident:
				// a dedicated function of the package standing for one handler (handleParticipantJoin)
				if f, ok := info.Uses[v].(*types.Func); ok && depth < 2 && f.Pkg() == pk.Types {
					if def := m.P.Funcs[f]; def != nil && def.Body != nil && !isTarget(f) {
						out = append(out, targetsIn(def.Body, depth+1)...)
					}
				}
			}
			return true
		})
		return out
	}
	msgConst := func(x ast.Expr) *types.Const {
		c := constOf(info, x)
		if c == nil || c.Pkg() == nil || !constPkgs[c.Pkg().Path()] {
			return nil
		}
		return c
	}
	var best []Arm
	var bestObj types.Object
	for _, file := range pk.Syntax {
		if strings.HasSuffix(pk.Fset.Position(file.Pos()).Filename, "_test.go") {
			continue
		}
		ast.Inspect(file, func(n ast.Node) bool {
			vs, ok := n.(*ast.ValueSpec)
			var lits []*ast.CompositeLit
			var owner types.Object
			if ok {
				for i, v := range vs.Values {
					if cl, isCL := ast.Unparen(v).(*ast.CompositeLit); isCL && i < len(vs.Names) {
						lits = append(lits, cl)
						owner = info.Defs[vs.Names[i]]
					}
				}
			} else if as, isAs := n.(*ast.AssignStmt); isAs && len(as.Lhs) == 1 && len(as.Rhs) == 1 {
				if cl, isCL := ast.Unparen(as.Rhs[0]).(*ast.CompositeLit); isCL {
					lits = append(lits, cl)
					if id, ok := as.Lhs[0].(*ast.Ident); ok {
						owner = info.Defs[id]
						if owner == nil {
							owner = info.Uses[id]
						}
					}
				}
			}
			for _, cl := range lits {
				var arms []Arm
				for _, el := range cl.Elts {
					var c *types.Const
					var tg []*types.Func
					switch e := el.(type) {
					case *ast.KeyValueExpr: // map entry
						c = msgConst(e.Key)
						tg = targetsIn0(e.Value)
					case *ast.CompositeLit: // slice of structs
						for _, fe := range e.Elts {
							v := fe
							if kv, isKV := fe.(*ast.KeyValueExpr); isKV {
								v = kv.Value
							}
							if cc := msgConst(v); cc != nil {
								c = cc
							} else {
								tg = append(tg, targetsIn0(v)...)
							}
						}
					}
					if c == nil {
						continue
					}
					a := Arm{Const: c, Clause: &ast.CaseClause{Case: el.Pos()}}
					if len(tg) == 1 {
						a.Method = tg[0]
					}
					arms = append(arms, a)
				}
				if merge {
					// several tables consulted one after the other (core kinds, then the module's own):
					// every table whose entries all name a handler contributes its arms
					all := len(arms) > 0
					for _, a := range arms {
						all = all && a.Method != nil
					}
					if all {
						best = append(best, arms...)
						bestObj = owner
					}
				} else if len(arms) > len(best) {
					best, bestObj = arms, owner
				}
			}
			return true
		})
	}
	return best, bestObj
}
