package main

// Q2–Q5 — structural contracts of the ground-plane index (dagaz), on the go/cfg path engine.
//
// Q2 plane accounting: on every path of the grid's InsertQuad a sample is either merged into an existing
//    plane (then it is neither counted nor registered as a new plane) or stored as a new plane and counted
//    exactly once; what is registered in the cells is the sample handed in.
// Q3 a region query returns a plane at most once although a plane is registered in every cell it covers:
//    what goes into the result comes from the keys of a pointer-keyed map or is guarded by a "not yet
//    seen" test on such a map; the cell loops visit every cell of the range (no break / early return).
// Q4 every plane of a sample message reaches the index: the handler converts every element of the sample
//    list and hands the whole list over, the state inserts every element, a region answer converts every
//    plane found.
// Q5 paired fields are not crossed: a composite literal or call in dagaz whose slot F (field or parameter
//    name) has a sibling slot G does not fill F from the counterpart's G (Center from GetExtents, To from
//    GetFrom, min from req.Max).

import (
	"fmt"
	"go/ast"
	"go/token"
	"go/types"
	"strings"
)

func (r *Run) dagazFuncs() []*Func {
	var out []*Func
	for _, fn := range r.P.All {
		if fn.Pkg.PkgPath == pkgDagaz && fn.Obj != nil {
			out = append(out, fn)
		}
	}
	return out
}

// assignsFieldNamed: the function body assigns (=, op=, ++) a selector whose field is named name and
// belongs to a struct of package dagaz.
func assignsFieldNamed(fn *Func, name string, ownerHasGrid bool) bool {
	found := false
	info := fn.Info()
	isIt := func(x ast.Expr) bool {
		se, ok := ast.Unparen(x).(*ast.SelectorExpr)
		if !ok || se.Sel.Name != name {
			return false
		}
		v, ok := info.Uses[se.Sel].(*types.Var)
		if !ok || !v.IsField() || v.Pkg() == nil || v.Pkg().Path() != pkgDagaz {
			return false
		}
		if !ownerHasGrid {
			return true
		}
		t := info.TypeOf(se.X)
		if p, ok := t.Underlying().(*types.Pointer); ok {
			t = p.Elem()
		}
		st, ok := t.Underlying().(*types.Struct)
		if !ok {
			return false
		}
		for i := 0; i < st.NumFields(); i++ {
			if st.Field(i).Name() == "Grid" {
				return true
			}
		}
		return false
	}
	ast.Inspect(fn.Body, func(n ast.Node) bool {
		switch v := n.(type) {
		case *ast.AssignStmt:
			for _, l := range v.Lhs {
				if isIt(l) {
					found = true
				}
			}
		case *ast.IncDecStmt:
			if isIt(v.X) {
				found = true
			}
		}
		return true
	})
	return found
}

func ruleIndexContracts(r *Run) {
	if r.broken() {
		return
	}
	fns := r.dagazFuncs()
	r.markCellSlots(fns)
	// mergers: functions of the package that write the grid's MergeCount (directly)
	mergers := map[*types.Func]bool{}
	for _, fn := range fns {
		if assignsFieldNamed(fn, "MergeCount", true) {
			mergers[fn.Obj] = true
		}
	}
	insert := r.P.FuncByName("modules/dagaz.(*RegularGrid).InsertQuad")
	region := r.P.FuncByName("modules/dagaz.(*RegularGrid).GetRegion")
	if insert == nil || region == nil {
		r.Undecide("anchors", "function modules/dagaz.(*RegularGrid).InsertQuad / GetRegion not found")
		return
	}
	// ---- Q2
	{
		fn := insert
		paths := r.Paths(fn)
		r.Analysed(fn, len(paths))
		nMergePaths, nNewPaths, nReg, nInfeasible := 0, 0, 0, 0
		for pi := range paths {
			path := &paths[pi]
			r.at(path)
			if r.addrIdentityInfeasible(fn, path) {
				nInfeasible++
				continue
			}
			merges, counts, regs := 0, 0, 0
			var regPos token.Pos
			regOK := true
			for _, ev := range path.Events {
				switch ev.Kind {
				case EvCall:
					if f, ok := ev.Callee.(*types.Func); ok && mergers[f] {
						merges++
					}
				case EvAssign:
					for k, l := range ev.Lhs {
						c := r.P.Canon(ev.Fn, l)
						if strings.HasSuffix(c, ".MergeCount") && strings.HasPrefix(c, "recv.") {
							merges++
						}
						if c == "recv.PlaneCount" {
							counts++
							if ev.Tok != token.INC && !(ev.Tok == token.ADD_ASSIGN && len(ev.Rhs) == 1 && r.P.exprStr(ev.Rhs[0]) == "1") {
								regOK = regOK && r.CheckT("Q2", fn.Name+":count-by-one", false, ev.Pos, path, "the plane count is changed by something other than an increment by one when a sample is stored")
							}
						}
						if strings.HasPrefix(c, "recv.Grid[") || cellSlotDerefs[ast.Unparen(l)] {
							regs++
							regPos = ev.Pos
							if len(ev.Rhs) == len(ev.Lhs) {
								ok := strings.Contains(r.P.Canon(ev.Fn, ev.Rhs[k]), "&param:#0")
								if !ok {
									ast.Inspect(resolveLocal(ev.Fn, ev.Rhs[k], 0), func(n ast.Node) bool {
										if id, isID := n.(*ast.Ident); isID {
											if strings.Contains(r.P.Canon(ev.Fn, id), "&param:#0") {
												ok = true
											}
										}
										return true
									})
								}
								r.CheckT("Q2", fn.Name+":registers-the-sample", ok, ev.Pos, path,
									"what is registered in the cells of a new plane is not (a pointer to) the sample handed in: %s", r.P.exprStr(ev.Rhs[k]))
							}
						}
					}
				}
			}
			if path.Exit != "return" && path.Exit != "" {
				continue // cut paths of the endless merge loop end before the accounting is reached
			}
			if !reachesFunctionEnd(path) {
				continue
			}
			if merges > 0 {
				nMergePaths++
				r.CheckT("Q2", fn.Name+":merged-not-counted", counts == 0, path.Events[len(path.Events)-1].Pos, path,
					"a sample that was merged into an existing plane is also counted as a new plane (count changes: %d): the plane count exceeds the number of distinct stored planes", counts)
				r.CheckT("Q2", fn.Name+":merged-not-registered", regs == 0, regPos, path,
					"a sample that was merged into an existing plane is also registered in cells as a plane of its own")
			} else {
				nNewPaths++
				r.CheckT("Q2", fn.Name+":new-plane-counted-once", counts == 1, path.Events[len(path.Events)-1].Pos, path,
					"a sample that is not merged is stored as a new plane and must be counted exactly once (count changes on this path: %d)", counts)
			}
			nReg += regs
		}
		if nInfeasible > 0 {
			r.Assume(fmt.Sprintf("Q2: %d paths of InsertQuad are infeasible: they test a variable for identity with the address of the call's own parameter against the value last assigned to it (a pointer obtained from the index, or nil, is never the address of the current call's parameter)", nInfeasible))
		}
		r.Floor("Q2", "InsertQuad paths that merge", nMergePaths, 1)
		r.Floor("Q2", "InsertQuad paths that store a new plane", nNewPaths, 1)
		r.Floor("Q2", "cell registrations on InsertQuad paths", nReg, 1)
	}
	// ---- Q3
	r.regionDedup(region)
	// ---- Q4
	r.sampleForwarded()
	// ---- Q5
	r.pairedSlots(fns)
	// ---- Q6, Q7
	r.cellListsDisjoint(fns)
	r.staleCellIndex(fns)
	// ---- Q8, Q9
	r.footprintThenCells(fns)
	r.pointConversionsVerbatim(fns)
	r.cellShrinksByWhatWasFound(fns)
}

// writesCells: the function assigns a grid cell itself or through a helper of the package it calls.
func (r *Run) writesCells(fn *Func, depth int, seen map[*Func]bool) bool {
	if fn == nil || fn.Body == nil || seen[fn] || depth > 3 {
		return false
	}
	seen[fn] = true
	found := false
	ast.Inspect(fn.Body, func(nd ast.Node) bool {
		if found {
			return false
		}
		switch v := nd.(type) {
		case *ast.AssignStmt:
			for _, l := range v.Lhs {
				if gridCell(l) == 2 {
					found = true
				}
			}
		case *ast.CallExpr:
			if f, ok := calleeObj(fn.Info(), v).(*types.Func); ok && f.Pkg() != nil && f.Pkg().Path() == pkgDagaz {
				if r.writesCells(r.P.Funcs[f], depth+1, seen) {
					found = true
				}
			}
		}
		return true
	})
	return found
}

// footprintThenCells (Q8): a function that moves or resizes a stored plane (it changes Center or Extents of a
// quad it reaches through a pointer) brings the cells up to date before it returns: after such a change no
// path leaves the function early. A plane whose footprint grew while its registration stayed what it was is
// missing from the cells it now covers.
func (r *Run) footprintThenCells(fns []*Func) {
	n := 0
	for _, fn := range fns {
		if fn.Recv == nil {
			continue
		}
		// only functions that also write grid cells (the ones responsible for the registration)
		if !r.writesCells(fn, 0, map[*Func]bool{}) {
			continue
		}
		var last ast.Stmt
		if len(fn.Body.List) > 0 {
			last = fn.Body.List[len(fn.Body.List)-1]
		}
		isFootprint := func(c string) bool {
			return strings.HasPrefix(c, "param:#") && (strings.HasSuffix(c, ".Center") || strings.HasSuffix(c, ".Extents") || strings.Contains(c, ".Center.") || strings.Contains(c, ".Extents."))
		}
		paths := r.Paths(fn)
		paths = r.capPaths(fn, paths, 20000)
		for pi := range paths {
			path := &paths[pi]
			r.at(path)
			changed := token.NoPos
			for _, ev := range path.Events {
				if ev.Fn != fn {
					continue
				}
				switch ev.Kind {
				case EvCall:
					if ev.Recv != nil && ev.Callee != nil {
						if f, ok := ev.Callee.(*types.Func); ok && f.Pkg() != nil && f.Pkg().Path() == pkgDagaz {
							if sig := f.Type().(*types.Signature); sig.Recv() != nil {
								if _, ptr := sig.Recv().Type().(*types.Pointer); ptr && isFootprint(r.P.Canon(ev.Fn, ev.Recv)) {
									// a pointer-receiver method of the package on the plane's centre / extents that writes it
									if g := r.P.Funcs[f]; g != nil && assignsOwnFields(g) {
										changed = ev.Pos
									}
								}
							}
						}
					}
				case EvAssign:
					for _, l := range ev.Lhs {
						if _, plain := ast.Unparen(l).(*ast.Ident); plain {
							continue // a local that is given the value (a := b.Center), not the plane's field
						}
						if isFootprint(r.P.Canon(ev.Fn, l)) {
							changed = ev.Pos
						}
					}
				case EvReturn:
					if changed.IsValid() && ev.Depth == 0 {
						n++
						early := false
						if rs, ok := ev.Node.(*ast.ReturnStmt); ok && ast.Stmt(rs) != last && last != nil && rs.Pos() < last.End() {
							early = true // (an explicit return before the end of the body; the closing brace is not)
						}
						r.CheckT("Q8", fn.Name+":cells-follow-footprint", !early, ev.Pos, path,
							"the footprint of a stored plane was changed (Center / Extents) and the function returns here before the cell updates that follow: the plane stays registered in its old cells only")
					}
				}
			}
		}
	}
	r.Floor("Q8", "returns after a footprint change", n, 1)
}

// assignsOwnFields: the method assigns fields of its receiver.
func assignsOwnFields(g *Func) bool {
	found := false
	ast.Inspect(g.Body, func(nd ast.Node) bool {
		check := func(x ast.Expr) {
			if se, ok := ast.Unparen(x).(*ast.SelectorExpr); ok {
				if id, ok := ast.Unparen(se.X).(*ast.Ident); ok && g.Recv != nil && g.Info().Uses[id] == g.Recv {
					found = true
				}
			}
		}
		switch v := nd.(type) {
		case *ast.AssignStmt:
			for _, l := range v.Lhs {
				check(l)
			}
		case *ast.IncDecStmt:
			check(v.X)
		}
		return true
	})
	return found
}

// pointConversionsVerbatim (Q9): the conversions between a protobuf point and the package's vector copy the
// three components as they are. A conversion that "cleans" a component (clamps it, replaces a non-finite value)
// changes what every caller — samples, rays, region bounds — means by the same message.
func (r *Run) pointConversionsVerbatim(fns []*Func) {
	n := 0
	for _, fn := range fns {
		if fn.Obj == nil {
			continue
		}
		sig := fn.Obj.Type().(*types.Signature)
		if sig.Results().Len() != 1 {
			continue
		}
		var in types.Type
		src := ""
		switch {
		case sig.Recv() != nil && sig.Params().Len() == 0:
			in, src = sig.Recv().Type(), "recv"
		case sig.Recv() == nil && sig.Params().Len() == 1:
			in, src = sig.Params().At(0).Type(), "param:#0"
		default:
			continue
		}
		out := sig.Results().At(0).Type()
		isVec := func(t types.Type) bool {
			if p, ok := t.Underlying().(*types.Pointer); ok {
				t = p.Elem()
			}
			st, ok := t.Underlying().(*types.Struct)
			if !ok || st.NumFields() != 3 {
				return false
			}
			nt, ok := t.(*types.Named)
			return ok && nt.Obj().Pkg() != nil && nt.Obj().Pkg().Path() == pkgDagaz && isFloat(st.Field(0).Type()) && isFloat(st.Field(1).Type()) && isFloat(st.Field(2).Type())
		}
		if !(isVec(in) && isPBPoint(out)) && !(isPBPoint(in) && isVec(out)) {
			continue
		}
		for _, path := range r.Paths(fn) {
			path := path
			r.at(&path)
			for _, ev := range path.Events {
				if ev.Kind != EvReturn || ev.Depth != 0 || len(ev.Results) != 1 {
					continue
				}
				lit, lfn := r.P.compositeOfIn(fn, ev.Results[0])
				if lit == nil {
					// return NewVector3f(p.GetX(), p.GetY(), p.GetZ()): a constructor of the package whose one return is a
					// literal of its own parameters, in some order
					if call, isCall := ast.Unparen(ev.Results[0]).(*ast.CallExpr); isCall {
						if g, _ := calleeObj(fn.Info(), call).(*types.Func); g != nil && g.Pkg() != nil && g.Pkg().Path() == pkgDagaz {
							if gd := r.P.Funcs[g]; gd != nil && gd.Body != nil && len(gd.Body.List) == 1 {
								if rs, isRet := gd.Body.List[0].(*ast.ReturnStmt); isRet && len(rs.Results) == 1 {
									if gl, isLit := ast.Unparen(rs.Results[0]).(*ast.CompositeLit); isLit && len(gl.Elts) == len(call.Args) {
										okCtor := true
										args := make([]ast.Expr, len(gl.Elts))
										for i, el := range gl.Elts {
											v := el
											if kv, ok := el.(*ast.KeyValueExpr); ok {
												v = kv.Value
											}
											id, isID := ast.Unparen(v).(*ast.Ident)
											if !isID {
												okCtor = false
												break
											}
											pv, _ := gd.Info().Uses[id].(*types.Var)
											k := -1
											if pv != nil {
												k = paramIndex(gd, pv)
											}
											if k < 0 || k >= len(call.Args) {
												okCtor = false
												break
											}
											args[i] = call.Args[k]
										}
										if okCtor {
											for i, a := range args {
												c := r.P.Canon(fn, a)
												n++
												ok := strings.HasPrefix(c, src+".") && !strings.ContainsAny(c[len(src)+1:], ".([ ")
												r.CheckT("Q9", fmt.Sprintf("%s:verbatim[%d]", fn.Name, i), ok, a.Pos(), &path,
													"component %d of the converted point is %q, not the corresponding component of the value handed in as it is", i, c)
											}
											continue
										}
									}
								}
							}
						}
					}
					n++
					r.CheckT("Q9", fn.Name+":verbatim", false, ev.Pos, &path, "the conversion does not return a literal built from the three components")
					continue
				}
				for i, el := range lit.Elts {
					v := el
					if kv, ok := el.(*ast.KeyValueExpr); ok {
						v = kv.Value
					}
					c := r.P.Canon(lfn, v)
					n++
					ok := strings.HasPrefix(c, src+".") && !strings.ContainsAny(c[len(src)+1:], ".([ ")
					r.CheckT("Q9", fmt.Sprintf("%s:verbatim[%d]", fn.Name, i), ok, v.Pos(), &path,
						"component %d of the converted point is %q, not the corresponding component of the value handed in as it is", i, c)
				}
			}
		}
	}
	r.Floor("Q9", "components of point conversions", n, 6)
}

// isKeysFunc: a one-parameter function that ranges over its (map) parameter by key only and has no other
// loop: it returns the keys of the map.
func isKeysFunc(g *Func) bool {
	if g.Type == nil || g.Type.Params == nil || len(g.Type.Params.List) != 1 || len(g.Type.Params.List[0].Names) != 1 {
		return false
	}
	param := g.Info().Defs[g.Type.Params.List[0].Names[0]]
	loops, keyLoops := 0, 0
	ast.Inspect(g.Body, func(n ast.Node) bool {
		switch v := n.(type) {
		case *ast.ForStmt:
			loops++
		case *ast.RangeStmt:
			loops++
			if id, ok := ast.Unparen(v.X).(*ast.Ident); ok && g.Info().Uses[id] == param && v.Key != nil && v.Value == nil {
				keyLoops++
			}
		}
		return true
	})
	return param != nil && loops == 1 && keyLoops == 1
}

// gridImplements: the interface is one the grid type (the struct of modules/dagaz with the Grid field)
// implements: the index seen through its interface, not some other interface of the package.
func (r *Run) gridImplements(iface *types.Interface) bool {
	pk := r.P.ByPth[pkgDagaz]
	if pk == nil {
		return false
	}
	sc := pk.Types.Scope()
	for _, nm := range sc.Names() {
		tn, ok := sc.Lookup(nm).(*types.TypeName)
		if !ok {
			continue
		}
		st, ok := tn.Type().Underlying().(*types.Struct)
		if !ok {
			continue
		}
		for i := 0; i < st.NumFields(); i++ {
			if st.Field(i).Name() == "Grid" {
				return types.Implements(types.NewPointer(tn.Type()), iface) || types.Implements(tn.Type(), iface)
			}
		}
	}
	return false
}

// resolveLocal: a local with a single definition stands for its definition (depth-limited).
func resolveLocal(fn *Func, x ast.Expr, depth int) ast.Expr {
	if id, ok := ast.Unparen(x).(*ast.Ident); ok && depth < 4 {
		if v, ok := fn.Info().Uses[id].(*types.Var); ok && !v.IsField() {
			if ds, ok := fn.Defs().singleDef(v); ok && ds.rhs != nil && !ds.multi {
				return resolveLocal(fn, ds.rhs, depth+1)
			}
		}
	}
	return x
}

// gridCell: x is X.Grid[a][b] (returns depth 2), X.Grid[a] (1) or X.Grid (0); -1 otherwise.
// cellSlotDerefs: the expressions `*c` of the package where c is a pointer to a defined slice-of-planes type that is
// only ever obtained as the address of a grid cell (cellAt(x, y) returning (*cell)(&grid.Grid[y][x])): such a
// dereference is the cell. Filled by markCellSlots before the rules that use gridCell run.
var cellSlotDerefs = map[ast.Expr]bool{}

// markCellSlots finds the slot types of the package: a defined type T over []*Quad-like slices such that every
// conversion to *T in the package converts the address of a grid cell. `*c` for any c of type *T is then a cell.
func (r *Run) markCellSlots(fns []*Func) {
	cellSlotDerefs = map[ast.Expr]bool{}
	good, bad := map[*types.Named]bool{}, map[*types.Named]bool{}
	for _, fn := range fns {
		info := fn.Info()
		ast.Inspect(fn.Body, func(nd ast.Node) bool {
			call, ok := nd.(*ast.CallExpr)
			if !ok || len(call.Args) != 1 {
				return true
			}
			tv, ok := info.Types[call.Fun]
			if !ok || !tv.IsType() {
				return true
			}
			pt, ok := tv.Type.(*types.Pointer)
			if !ok {
				return true
			}
			nt, ok := pt.Elem().(*types.Named)
			if !ok || nt.Obj().Pkg() == nil || nt.Obj().Pkg().Path() != pkgDagaz {
				return true
			}
			if _, isSlice := nt.Underlying().(*types.Slice); !isSlice {
				return true
			}
			u, isAddr := ast.Unparen(call.Args[0]).(*ast.UnaryExpr)
			if isAddr && u.Op == token.AND && gridCellSyntax(u.X) == 2 {
				good[nt] = true
			} else {
				bad[nt] = true
			}
			return true
		})
	}
	for _, fn := range fns {
		info := fn.Info()
		ast.Inspect(fn.Body, func(nd ast.Node) bool {
			st, ok := nd.(*ast.StarExpr)
			if !ok {
				return true
			}
			if t := info.TypeOf(st.X); t != nil {
				if pt, ok := t.(*types.Pointer); ok {
					if nt, ok := pt.Elem().(*types.Named); ok && good[nt] && !bad[nt] {
						cellSlotDerefs[st] = true
					}
				}
			}
			return true
		})
	}
}

func gridCell(x ast.Expr) int {
	if e, ok := ast.Unparen(x).(ast.Expr); ok && cellSlotDerefs[e] {
		return 2
	}
	// (*c)[i], (*c)[:n]: an element / a re-slice of the cell a slot stands for
	{
		y := ast.Unparen(x)
		d := 0
		for {
			switch v := y.(type) {
			case *ast.IndexExpr:
				d++
				y = ast.Unparen(v.X)
				continue
			case *ast.SliceExpr:
				y = ast.Unparen(v.X)
				continue
			}
			break
		}
		if d > 0 || y != ast.Unparen(x) {
			if cellSlotDerefs[y] {
				return 2 + d
			}
		}
	}
	return gridCellSyntax(x)
}

func gridCellSyntax(x ast.Expr) int {
	depth := 0
	for {
		x = ast.Unparen(x)
		switch v := x.(type) {
		case *ast.IndexExpr:
			depth++
			x = v.X
			continue
		case *ast.SliceExpr:
			x = v.X
			continue
		case *ast.SelectorExpr:
			if v.Sel.Name == "Grid" {
				return depth
			}
		}
		return -1
	}
}

// cellListsDisjoint (Q6): every cell owns its list of planes. What is stored into a cell X.Grid[a][b] is an
// append to / a re-slice of that same cell, nil, or a list built inside the loop iteration that stores it;
// a list built once and stored into several cells makes them share one backing array: removing a plane
// from one cell and appending to it later overwrites the plane in all the others.
func (r *Run) cellListsDisjoint(fns []*Func) {
	n := 0
	for _, fn := range fns {
		info := fn.Info()
		var loops []ast.Node
		var walk func(nd ast.Node)
		walk = func(nd ast.Node) {
			if nd == nil {
				return
			}
			switch nd.(type) {
			case *ast.ForStmt, *ast.RangeStmt, *ast.FuncLit:
				// (a literal handed to an iterator helper is a loop body)
				loops = append(loops, nd)
				defer func() { loops = loops[:len(loops)-1] }()
			}
			if as, ok := nd.(*ast.AssignStmt); ok && len(as.Lhs) == len(as.Rhs) {
				for k, l := range as.Lhs {
					if gridCell(l) != 2 {
						continue
					}
					if !cellSlotDerefs[ast.Unparen(l)] { // (*c = …: the slot is the cell)
						if _, isIdx := ast.Unparen(l).(*ast.IndexExpr); !isIdx {
							continue
						}
						if ix := ast.Unparen(l).(*ast.IndexExpr); gridCell(ix.X) != 1 {
							continue // an element of a cell's list, not the cell
						}
					}
					n++
					rhs := as.Rhs[k]
					own := types.ExprString(ast.Unparen(l))
					ok, why := false, ""
					val := ast.Unparen(rhs)
					definedOutside := false
					if id, isID := val.(*ast.Ident); isID {
						if v, isV := info.Uses[id].(*types.Var); isV && !v.IsField() {
							if ds, ok2 := fn.Defs().singleDef(v); ok2 && ds.rhs != nil && !ds.multi {
								val = ast.Unparen(ds.rhs)
								if len(loops) > 0 {
									in := loops[len(loops)-1]
									definedOutside = !(ds.rhs.Pos() >= in.Pos() && ds.rhs.End() <= in.End())
								}
							}
						}
					}
					switch v := val.(type) {
					case *ast.CallExpr:
						if b, isB := calleeObj(info, v).(*types.Builtin); isB && b.Name() == "append" && len(v.Args) >= 1 {
							if types.ExprString(ast.Unparen(v.Args[0])) == own || types.ExprString(ast.Unparen(resolveLocal(fn, v.Args[0], 0))) == own {
								ok = true // (also through a local that names this very cell)
							} else {
								why = "appends to " + types.ExprString(v.Args[0])
							}
						} else if isB && b.Name() == "make" {
							ok = !definedOutside
							why = "a list made outside the loop"
						}
					case *ast.SliceExpr:
						ok = types.ExprString(ast.Unparen(v.X)) == own || types.ExprString(ast.Unparen(resolveLocal(fn, v.X, 0))) == own
						why = "a re-slice of another list"
					case *ast.CompositeLit:
						ok = !definedOutside
						why = "a list built once outside the loop over the cells"
					case *ast.Ident:
						ok = v.Name == "nil"
						why = "a list held in a variable"
					}
					r.Check("Q6", fmt.Sprintf("%s:cell-owns-its-list", fn.Name), ok, as.Pos(),
						"the list stored into cell %s is %s: cells come to share one backing array, and removing a plane from one of them followed by an append overwrites the plane in the others (a stored plane disappears from the index)", own, why)
				}
			}
			for _, c := range childrenOf(nd) {
				walk(c)
			}
		}
		walk(fn.Body)
	}
	r.Floor("Q6", "cell list stores examined", n, 2)
}

// staleCellIndex (Q7): cell coordinates are relative to the grid's origin. A call that may move the
// origin or reshape the grid (it assigns Min, the Grid field or a whole row) invalidates every cell
// coordinate computed before it; using such a coordinate as a grid index afterwards addresses the wrong
// cell.
func (r *Run) staleCellIndex(fns []*Func) {
	// expanders: functions that assign X.Min.*, X.Grid or X.Grid[i], directly or through calls in the package
	expander := map[*types.Func]bool{}
	direct := func(fn *Func) bool {
		found := false
		ast.Inspect(fn.Body, func(n ast.Node) bool {
			as, ok := n.(*ast.AssignStmt)
			if !ok {
				return true
			}
			for _, l := range as.Lhs {
				l = ast.Unparen(l)
				if d := gridCell(l); d == 0 || d == 1 {
					if _, isSel := l.(*ast.SelectorExpr); isSel || d == 1 {
						found = true
					}
				}
				if se, ok := l.(*ast.SelectorExpr); ok {
					if inner, ok := ast.Unparen(se.X).(*ast.SelectorExpr); ok && inner.Sel.Name == "Min" {
						found = true
					}
					if se.Sel.Name == "Min" {
						found = true
					}
				}
			}
			return true
		})
		return found
	}
	for _, fn := range fns {
		if direct(fn) {
			expander[fn.Obj] = true
		}
	}
	for changed := true; changed; {
		changed = false
		for _, fn := range fns {
			if expander[fn.Obj] {
				continue
			}
			info := fn.Info()
			ast.Inspect(fn.Body, func(n ast.Node) bool {
				if call, ok := n.(*ast.CallExpr); ok {
					if f, ok := calleeObjRaw(info, call).(*types.Func); ok && expander[f] && !expander[fn.Obj] {
						expander[fn.Obj] = true
						changed = true
					}
				}
				return true
			})
		}
	}
	// Q10 fitted before written: a function that fits the grid to what it is about to register (it calls an
	// expander) does so before it writes any cell, itself or through a helper — a merge that runs first registers a
	// footprint reaching past the bounds the grid has at that moment.
	nFit := 0
	for _, fn := range fns {
		if fn.Obj == nil || direct(fn) || !r.writesCells(fn, 0, map[*Func]bool{}) {
			continue
		}
		callsExp := false
		ast.Inspect(fn.Body, func(n ast.Node) bool {
			if call, ok := n.(*ast.CallExpr); ok {
				if f, ok := calleeObjRaw(fn.Info(), call).(*types.Func); ok && expander[f] && f != fn.Obj {
					callsExp = true
				}
			}
			return true
		})
		if !callsExp {
			continue
		}
		paths := r.capPaths(fn, r.Paths(fn), 20000)
		for pi := range paths {
			path := &paths[pi]
			r.at(path)
			fitted := false
			for _, ev := range path.Events {
				if ev.Fn == nil || ev.Fn.root().origOrSelf() != fn {
					continue
				}
				switch ev.Kind {
				case EvCall:
					f, _ := ev.Callee.(*types.Func)
					if f == nil {
						continue
					}
					if expander[f] {
						fitted = true
						continue
					}
					if g := r.P.Funcs[f]; g != nil && f.Pkg() != nil && f.Pkg().Path() == pkgDagaz && r.writesCells(g, 0, map[*Func]bool{}) {
						nFit++
						r.CheckT("Q10", fn.Name+":fitted-before-written["+f.Name()+"]", fitted, ev.Pos, path,
							"%s writes grid cells through %s before the grid was fitted to the sample on this path (the expansion comes later or not at all): a footprint that reaches past the current bounds is registered out of range", fn.Name, f.Name())
					}
				case EvAssign:
					for _, l := range ev.Lhs {
						if gridCell(l) == 2 {
							nFit++
							r.CheckT("Q10", fn.Name+":fitted-before-written", fitted, ev.Pos, path,
								"%s writes a grid cell before the grid was fitted to the sample on this path", fn.Name)
						}
					}
				}
			}
		}
	}
	r.Floor("Q10", "cell writes in functions that fit the grid first", nFit, 1)
	// functions whose result is computed from the origin
	originFns := map[*types.Func]bool{}
	for changed := true; changed; {
		changed = false
		for _, fn := range fns {
			if originFns[fn.Obj] || fn.Obj.Type().(*types.Signature).Results().Len() == 0 {
				continue
			}
			hit := false
			ast.Inspect(fn.Body, func(nd ast.Node) bool {
				rs, ok := nd.(*ast.ReturnStmt)
				if !ok {
					return true
				}
				for _, res := range rs.Results {
					ast.Inspect(res, func(m ast.Node) bool {
						if se, ok := m.(*ast.SelectorExpr); ok && se.Sel.Name == "Min" {
							if v, ok := fn.Info().Uses[se.Sel].(*types.Var); ok && v.IsField() {
								hit = true
							}
						}
						if call, ok := m.(*ast.CallExpr); ok {
							if f, ok := calleeObjRaw(fn.Info(), call).(*types.Func); ok && originFns[f] {
								hit = true
							}
						}
						return true
					})
				}
				return true
			})
			if hit {
				originFns[fn.Obj] = true
				changed = true
			}
		}
	}
	n := 0
	for _, fn := range fns {
		if fn.Recv == nil {
			continue
		}
		info := fn.Info()
		// only functions that index the grid
		uses := false
		ast.Inspect(fn.Body, func(nd ast.Node) bool {
			if ix, ok := nd.(*ast.IndexExpr); ok && gridCell(ix) >= 1 {
				uses = true
			}
			return true
		})
		if !uses {
			continue
		}
		paths := r.Paths(fn)
		paths = r.capPaths(fn, paths, 20000)
		r.Analysed(fn, len(paths))
		mentionsOrigin := func(x ast.Expr) bool {
			hit := false
			ast.Inspect(x, func(nd ast.Node) bool {
				if se, ok := nd.(*ast.SelectorExpr); ok && se.Sel.Name == "Min" {
					if v, ok := info.Uses[se.Sel].(*types.Var); ok && v.IsField() {
						hit = true
					}
				}
				// a helper of the package that returns something computed from the origin (cellRectOf, cellIndex)
				if call, ok := nd.(*ast.CallExpr); ok {
					if f, ok := calleeObjRaw(info, call).(*types.Func); ok && originFns[f] {
						hit = true
					}
				}
				return true
			})
			return hit
		}
		for pi := range paths {
			path := &paths[pi]
			gen := 0
			born := map[types.Object]int{}
			staleUse := func(x ast.Node, pos token.Pos) {
				ast.Inspect(x, func(nd ast.Node) bool {
					ix, ok := nd.(*ast.IndexExpr)
					if !ok || gridCell(ix) < 1 {
						return true
					}
					ast.Inspect(ix.Index, func(m ast.Node) bool {
						if id, ok := m.(*ast.Ident); ok {
							if g, ok := born[info.Uses[id]]; ok {
								n++
								r.CheckT("Q7", fn.Name+":index-after-expansion["+id.Name+"]", g == gen, pos, path,
									"%s was computed relative to the grid's origin before a call that can move the origin or reshape the grid, and is used as a grid index after it: the cells addressed are not the ones the plane covers", id.Name)
							}
						}
						return true
					})
					return true
				})
			}
			for _, ev := range path.Events {
				if ev.Fn != fn {
					continue
				}
				switch ev.Kind {
				case EvCall:
					if f, ok := ev.Callee.(*types.Func); ok && expander[f] {
						gen++
					}
					if ev.Call != nil {
						for _, a := range ev.Call.Args {
							staleUse(a, ev.Pos)
						}
					}
				case EvAssign:
					for _, rh := range ev.Rhs {
						staleUse(rh, ev.Pos)
					}
					for _, l := range ev.Lhs {
						staleUse(l, ev.Pos)
					}
					// a cell coordinate kept in state (a field, a map or slice element that is not a local) outlives the
					// call — and the origin it is relative to moves when the grid grows
					for k, l := range ev.Lhs {
						if k >= len(ev.Rhs) && len(ev.Rhs) != 1 {
							continue
						}
						if _, isID := ast.Unparen(l).(*ast.Ident); isID {
							continue // a local or a by-value parameter
						}
						lc := r.P.Canon(ev.Fn, l)
						if !(strings.HasPrefix(lc, "recv.") || strings.HasPrefix(lc, "param:")) || strings.Contains(lc, ".Min") || strings.Contains(lc, ".Max") || gridCell(l) >= 0 {
							continue
						}
						rh := ev.Rhs[0]
						if k < len(ev.Rhs) {
							rh = ev.Rhs[k]
						}
						kept := mentionsOrigin(rh)
						ast.Inspect(rh, func(m ast.Node) bool {
							if id, ok := m.(*ast.Ident); ok {
								if _, ok := born[info.Uses[id]]; ok {
									kept = true
								}
							}
							return true
						})
						if kept {
							n++
							r.CheckT("Q7", fn.Name+":cell-coordinate-kept-in-state["+lc+"]", false, ev.Pos, path,
								"a cell coordinate (computed relative to the grid's origin) is stored in %s and so outlives this call; the origin moves when the grid grows towards negative x or z, and the stored coordinate then addresses other cells than the ones the plane covers", lc)
						}
					}
					if len(ev.Lhs) == len(ev.Rhs) {
						for k, l := range ev.Lhs {
							id, ok := ast.Unparen(l).(*ast.Ident)
							if !ok {
								continue
							}
							obj := objOf(info, id)
							if obj == nil {
								continue
							}
							if mentionsOrigin(ev.Rhs[k]) {
								born[obj] = gen
								continue
							}
							// derived from an earlier coordinate: inherits the oldest generation
							g, derived := 0, false
							ast.Inspect(ev.Rhs[k], func(m ast.Node) bool {
								if rid, ok := m.(*ast.Ident); ok {
									if bg, ok := born[info.Uses[rid]]; ok && info.Uses[rid] != obj {
										if !derived || bg < g {
											g = bg
										}
										derived = true
									}
								}
								return true
							})
							if derived {
								born[obj] = g
							} else if ev.Tok == token.ASSIGN || ev.Tok == token.DEFINE {
								delete(born, obj)
							}
						}
					}
				case EvGuard:
					if ev.Cond != nil {
						staleUse(ev.Cond, ev.Pos)
					}
				}
			}
		}
	}
	r.Floor("Q7", "grid indices derived from the grid origin", n, 8)
	r.Floor("Q7", "functions that can move the origin or reshape the grid", len(expander), 1)
}

// addrIdentityInfeasible: the path takes a branch `a == b` / `a != b`, one side of which is (by provenance on
// this path: locals resolved to their most recent definition, results of looked-into helpers to what was
// returned) the address of a parameter or local of the function, in a direction that contradicts the
// provenance of the other side: the same address compares equal; nil, a pointer handed out by a call, or
// another address compares different.
func (r *Run) addrIdentityInfeasible(fn *Func, path *Path) bool {
	isAddr := func(c string) bool {
		return strings.HasPrefix(c, "&param:") || strings.HasPrefix(c, "&local:") || strings.HasPrefix(c, "&var:")
	}
	definite := func(c string) bool {
		return c == "nil" || isAddr(c) || strings.Contains(c, "call:")
	}
	for _, ev := range path.Events {
		if ev.Kind != EvGuard || ev.Cond == nil {
			continue
		}
		be, ok := ast.Unparen(ev.Cond).(*ast.BinaryExpr)
		if !ok || (be.Op != token.EQL && be.Op != token.NEQ) {
			continue
		}
		ca, cb := r.P.Canon(ev.Fn, be.X), r.P.Canon(ev.Fn, be.Y)
		if !(isAddr(ca) && definite(cb)) && !(isAddr(cb) && definite(ca)) {
			continue
		}
		truth := ev.Val
		if be.Op == token.NEQ {
			truth = !truth
		}
		if truth != (ca == cb) {
			return true
		}
	}
	return false
}

// reachesFunctionEnd: the path ends with the function's own return (not a cut).
func reachesFunctionEnd(path *Path) bool {
	for k := len(path.Events) - 1; k >= 0; k-- {
		ev := path.Events[k]
		if ev.Kind == EvReturn && ev.Depth == 0 && !ev.Helper {
			return true
		}
	}
	return false
}

func isPtrKeyedMap(t types.Type) bool {
	if t == nil {
		return false
	}
	mt, ok := t.Underlying().(*types.Map)
	if !ok {
		return false
	}
	_, ok = mt.Key().Underlying().(*types.Pointer)
	return ok
}

// regionDedup (Q3): the region query and the helpers of the package it hands the work to.
func (r *Run) regionDedup(root *Func) {
	n := 0
	seen := map[*Func]bool{}
	var visit func(fn *Func, judgeResult bool, depth int)
	visit = func(fn *Func, judgeResult bool, depth int) {
		key := fn
		if seen[key] || depth > 3 {
			return
		}
		seen[key] = true
		more := r.regionDedupIn(root, fn, judgeResult, &n)
		// helpers called from here: loops examined everywhere, result writes where the result is built
		info := fn.Info()
		ast.Inspect(fn.Body, func(nd ast.Node) bool {
			call, ok := nd.(*ast.CallExpr)
			if !ok {
				return true
			}
			if f, ok := calleeObjRaw(info, call).(*types.Func); ok && f.Pkg() != nil && f.Pkg().Path() == pkgDagaz {
				if g := r.P.Funcs[f]; g != nil && g != root && r.P.isGlue(f) {
					visit(g, more[call], depth+1)
				}
			}
			return true
		})
	}
	visit(root, true, 0)
	r.Floor("Q3", "result writes and loops examined in GetRegion", n, 4)
}

// regionDedupIn examines one function; it returns the calls whose value is returned as (part of) the result.
func (r *Run) regionDedupIn(root, fn *Func, judgeResult bool, count *int) map[*ast.CallExpr]bool {
	info := fn.Info()
	r.Analysed(fn, 1)
	resultCalls := map[*ast.CallExpr]bool{}
	site := root.Name
	if fn != root {
		site = root.Name + ">" + shortFuncName(fn.Obj)
	}
	// the returned variables
	returned := map[types.Object]bool{}
	ast.Inspect(fn.Body, func(n ast.Node) bool {
		if _, ok := n.(*ast.FuncLit); ok {
			return false
		}
		if rs, ok := n.(*ast.ReturnStmt); ok && judgeResult {
			for _, res := range rs.Results {
				if id, ok := ast.Unparen(res).(*ast.Ident); ok {
					if o := info.Uses[id]; o != nil {
						returned[o] = true
					}
				}
				if call, ok := ast.Unparen(res).(*ast.CallExpr); ok {
					resultCalls[call] = true
					// … or through the standard iterator helpers: slices.Collect / AppendSeq / Sorted over maps.Keys(m)
					if kind, m := seqOverMap(info, call); kind != "" {
						*count++
						r.Check("Q3", site+":result-unique", kind == "keys" && isPtrKeyedMap(info.TypeOf(m)), call.Pos(),
							"the result of the region query is collected from %s, which does not make each plane appear once (accepted: the keys of a map keyed by plane pointers)", types.ExprString(m))
					}
					// the keys of a pointer-keyed map, through a generic helper of the repository (mapx.Keys(found))
					if f, ok := calleeObj(info, call).(*types.Func); ok && len(call.Args) == 1 && isRepoPkg(f.Pkg()) {
						if g := r.P.Funcs[f]; g != nil && isKeysFunc(g) {
							delete(resultCalls, call) // judged here, at the type the helper is used with
							*count++
							r.Check("Q3", site+":result-unique", isPtrKeyedMap(info.TypeOf(call.Args[0])), call.Pos(),
								"the result of the region query is the key set of %s, which is not a map keyed by plane pointers: a plane may be returned once per cell it is registered in", types.ExprString(call.Args[0]))
						}
					}
				}
			}
		}
		return true
	})
	if fn.Type.Results != nil && judgeResult {
		for _, f := range fn.Type.Results.List {
			for _, nm := range f.Names {
				if o := info.Defs[nm]; o != nil {
					returned[o] = true
				}
			}
		}
	}
	// walk with a stack of enclosing statements
	var stack []ast.Node
	n := 0
	defer func() { *count += n }()
	uniqueSource := func(val ast.Expr) (bool, string) {
		val = ast.Unparen(val)
		id, isID := val.(*ast.Ident)
		// (1) key variable of an enclosing range over a pointer-keyed map
		if isID {
			for i := len(stack) - 1; i >= 0; i-- {
				if rs, ok := stack[i].(*ast.RangeStmt); ok {
					if k, ok := rs.Key.(*ast.Ident); ok && (info.Defs[k] == info.Uses[id] || info.Uses[k] == info.Uses[id]) && info.Uses[id] != nil {
						if isPtrKeyedMap(info.TypeOf(rs.X)) {
							return true, "key of a pointer-keyed map"
						}
					}
				}
			}
		}
		// (2) an enclosing if tests that val is not yet in a pointer-keyed map
		vs := types.ExprString(val)
		for i := len(stack) - 1; i >= 0; i-- {
			ifs, ok := stack[i].(*ast.IfStmt)
			if !ok {
				continue
			}
			hit := false
			check := func(x ast.Node) {
				ast.Inspect(x, func(m ast.Node) bool {
					if ix, ok := m.(*ast.IndexExpr); ok && isPtrKeyedMap(info.TypeOf(ix.X)) && types.ExprString(ast.Unparen(ix.Index)) == vs {
						hit = true
					}
					return true
				})
			}
			if ifs.Init != nil {
				check(ifs.Init)
			}
			check(ifs.Cond)
			if hit {
				return true, "guarded by a membership test on a pointer-keyed map"
			}
		}
		return false, ""
	}
	var walk func(nd ast.Node)
	walk = func(nd ast.Node) {
		if nd == nil {
			return
		}
		if _, ok := nd.(*ast.FuncLit); ok {
			return
		}
		stack = append(stack, nd)
		defer func() { stack = stack[:len(stack)-1] }()
		if as, ok := nd.(*ast.AssignStmt); ok && len(as.Lhs) == len(as.Rhs) {
			for k, l := range as.Lhs {
				l = ast.Unparen(l)
				// result[i] = v
				if ix, ok := l.(*ast.IndexExpr); ok {
					if id, ok := ast.Unparen(ix.X).(*ast.Ident); ok && returned[info.Uses[id]] {
						n++
						ok, why := uniqueSource(as.Rhs[k])
						r.Check("Q3", site+":result-unique", ok, as.Pos(), "a plane is written into the result of the region query without anything that keeps it from being returned once per cell it is registered in (accepted: key of a pointer-keyed map; guarded by a not-yet-seen test) %s", why)
					}
				}
				// result = append(result, v...)
				if id, ok := l.(*ast.Ident); ok && returned[objOf(info, id)] {
					if call, ok := ast.Unparen(as.Rhs[k]).(*ast.CallExpr); ok {
						if b, ok := calleeObj(info, call).(*types.Builtin); ok && b.Name() == "append" && len(call.Args) >= 2 {
							for _, a := range call.Args[1:] {
								n++
								ok, why := uniqueSource(a)
								if call.Ellipsis.IsValid() {
									ok = false
								}
								r.Check("Q3", site+":result-unique", ok, as.Pos(), "a plane is appended to the result of the region query without anything that keeps it from being returned once per cell it is registered in (accepted: key of a pointer-keyed map; guarded by a not-yet-seen test) %s", why)
							}
						}
					}
				}
			}
		}
		// loops over cells are not left early
		switch lp := nd.(type) {
		case *ast.ForStmt, *ast.RangeStmt:
			early := token.NoPos
			var body *ast.BlockStmt
			if f, ok := lp.(*ast.ForStmt); ok {
				body = f.Body
			} else {
				body = lp.(*ast.RangeStmt).Body
			}
			depth := 0
			var scan func(x ast.Node) bool
			scan = func(x ast.Node) bool {
				switch b := x.(type) {
				case *ast.FuncLit:
					return false
				case *ast.ForStmt, *ast.RangeStmt, *ast.SwitchStmt, *ast.SelectStmt, *ast.TypeSwitchStmt:
					depth++
					for _, c := range childrenOf(b) {
						ast.Inspect(c, scan)
					}
					depth--
					return false
				case *ast.BranchStmt:
					if b.Tok == token.GOTO || b.Label != nil || (b.Tok == token.BREAK && depth == 0) {
						early = b.Pos()
					}
				case *ast.ReturnStmt:
					early = b.Pos()
				}
				return true
			}
			ast.Inspect(body, scan)
			n++
			r.Check("Q3", site+":cells-all-visited", !early.IsValid(), nd.Pos(), "a loop of the region query is left early (break / return / goto): cells of the queried range are skipped and their planes are missing from the answer")
		}
		for _, c := range childrenOf(nd) {
			walk(c)
		}
	}
	walk(fn.Body)
	// a local that is returned and was defined by a call: that call builds the result
	for o := range returned {
		if v, ok := o.(*types.Var); ok {
			if ds, ok := fn.Defs().singleDef(v); ok && ds.rhs != nil && !ds.multi {
				if call, ok := ast.Unparen(ds.rhs).(*ast.CallExpr); ok {
					resultCalls[call] = true
				}
			}
		}
	}
	return resultCalls
}

func objOf(info *types.Info, id *ast.Ident) types.Object {
	if o := info.Uses[id]; o != nil {
		return o
	}
	return info.Defs[id]
}

// childrenOf returns the direct child nodes of a node.
func childrenOf(n ast.Node) []ast.Node {
	var out []ast.Node
	first := true
	ast.Inspect(n, func(c ast.Node) bool {
		if first {
			first = false
			return true
		}
		if c != nil {
			out = append(out, c)
		}
		return false
	})
	return out
}

// sampleForwarded (Q4).
func (r *Run) sampleForwarded() {
	// functions that reach the index's InsertQuad / GetRegion through calls inside the package
	reach := func(method string) map[*types.Func]bool {
		set := map[*types.Func]bool{}
		for changed := true; changed; {
			changed = false
			for _, fn := range r.dagazFuncs() {
				if set[fn.Obj] {
					continue
				}
				info := fn.Info()
				ast.Inspect(fn.Body, func(n ast.Node) bool {
					call, ok := n.(*ast.CallExpr)
					if !ok {
						return true
					}
					if f, ok := calleeObjRaw(info, call).(*types.Func); ok {
						if (f.Name() == method && f.Pkg() != nil && f.Pkg().Path() == pkgDagaz && f.Type().(*types.Signature).Recv() != nil) || set[f] {
							if !set[fn.Obj] {
								set[fn.Obj] = true
								changed = true
							}
						}
					}
					return true
				})
			}
		}
		return set
	}
	inserters := reach("InsertQuad")
	regioners := reach("GetRegion")
	n := 0
	for _, fn := range r.dagazFuncs() {
		ins, reg := inserters[fn.Obj], regioners[fn.Obj]
		if !ins && !reg {
			continue
		}
		if fn.Name == "modules/dagaz.(*RegularGrid).InsertQuad" || fn.Name == "modules/dagaz.(*RegularGrid).GetRegion" || fn.Name == "modules/dagaz.(*Module).HandleMsg" {
			continue
		}
		paths := r.Paths(fn)
		r.Analysed(fn, len(paths))
		for pi := range paths {
			path := &paths[pi]
			r.at(path)
			r.loopsComplete("Q4", fn, path)
			// inside a loop: the forwarding call / element conversion is unconditional
			for i, ev := range path.Events {
				if ev.Kind != EvGuard || ev.GKind != GRange || !ev.Val {
					continue
				}
				n++
				// events of this iteration
				acted := false
				cond := false
				for j := i + 1; j < len(path.Events); j++ {
					pe := path.Events[j]
					if pe.Kind == EvGuard && pe.GKind == GRange && pe.Stmt == ev.Stmt {
						break
					}
					if pe.Kind == EvGuard && pe.Depth == ev.Depth && pe.GKind != GRange {
						cond = true
					}
					if pe.Kind == EvCall || pe.Kind == EvAssign {
						acted = true
					}
				}
				r.CheckT("Q4", fn.Name+":every-element["+r.P.Canon(ev.Fn, ev.Over)+"]", acted && !cond, ev.Pos, path,
					"an element of %s is skipped on some condition (or nothing is done with it) on the way between a sample message and the index / between the index and a region answer", r.P.Canon(ev.Fn, ev.Over))
			}
		}
	}
	// an answer comes from the index: a function that queries the index (calls a method of the
	// SpatialPartition interface outside a loop) does so on every path on which it returns
	for _, fn := range r.dagazFuncs() {
		info := fn.Info()
		var queried *types.Func
		inLoop := false
		var loopDepth int
		var scan func(nd ast.Node) bool
		scan = func(nd ast.Node) bool {
			switch v := nd.(type) {
			case *ast.ForStmt, *ast.RangeStmt:
				loopDepth++
				for _, c := range childrenOf(v) {
					ast.Inspect(c, scan)
				}
				loopDepth--
				return false
			case *ast.CallExpr:
				if f, ok := calleeObjRaw(info, v).(*types.Func); ok && f.Pkg() != nil && f.Pkg().Path() == pkgDagaz {
					if sig := f.Type().(*types.Signature); sig.Recv() != nil {
						if iface, isIface := sig.Recv().Type().Underlying().(*types.Interface); isIface && r.gridImplements(iface) {
							queried = f
							if loopDepth > 0 {
								inLoop = true
							}
						}
					}
				}
			}
			return true
		}
		ast.Inspect(fn.Body, scan)
		if queried == nil || inLoop {
			continue
		}
		paths := r.Paths(fn)
		r.Analysed(fn, len(paths))
		for pi := range paths {
			path := &paths[pi]
			if !reachesFunctionEnd(path) {
				continue
			}
			called := false
			for _, ev := range path.Events {
				if ev.Kind == EvCall {
					if f, ok := ev.Callee.(*types.Func); ok && f == queried {
						called = true
					}
				}
			}
			n++
			r.CheckT("Q4", fn.Name+":answer-from-the-index["+queried.Name()+"]", called, fn.Body.Pos(), path,
				"%s returns on this path without asking the index (%s): what it hands back is not the current content of the shared ground-plane index (a remembered answer goes stale when planes are merged in place)", fn.Name, queried.Name())
		}
	}
	// … and one level up: a handler that answers from such a function (state.region, state.groundPlane) calls it
	// on every path on which it sends its success answer — a remembered answer is not the index
	askers := map[*types.Func]bool{}
	for _, fn := range r.dagazFuncs() {
		if fn.Obj == nil {
			continue
		}
		info := fn.Info()
		ast.Inspect(fn.Body, func(nd ast.Node) bool {
			if v, ok := nd.(*ast.CallExpr); ok {
				if f, ok := calleeObjRaw(info, v).(*types.Func); ok && f.Pkg() != nil && f.Pkg().Path() == pkgDagaz {
					if sig := f.Type().(*types.Signature); sig.Recv() != nil {
						if iface, isIface := sig.Recv().Type().Underlying().(*types.Interface); isIface && r.gridImplements(iface) && sig.Results().Len() > 0 {
							askers[fn.Obj] = true
						}
					}
				}
			}
			return true
		})
	}
	for _, fn := range r.dagazFuncs() {
		if fn.Obj == nil || askers[fn.Obj] {
			continue
		}
		var asked *types.Func
		ast.Inspect(fn.Body, func(nd ast.Node) bool {
			if v, ok := nd.(*ast.CallExpr); ok {
				if f, ok := calleeObjRaw(fn.Info(), v).(*types.Func); ok && askers[f] {
					asked = f
				}
			}
			return true
		})
		if asked == nil {
			continue
		}
		paths := r.Paths(fn)
		for pi := range paths {
			path := &paths[pi]
			r.at(path)
			called := false
			for _, ev := range path.Events {
				if ev.Kind != EvCall || ev.Call == nil {
					continue
				}
				if f, ok := ev.Callee.(*types.Func); ok {
					if askers[f] {
						called = true
						continue
					}
					if f.Name() == "Send" && len(ev.Call.Args) >= 1 {
						if ml := r.msgLiteral(ev.Fn, ev.Call.Args[0]); ml != nil && ml.TypeC != nil {
							if cls := ml.TypeConstName(); strings.HasSuffix(cls, "_RESPONSE") && cls != "MSG_TYPE_ERROR_RESPONSE" {
								n++
								r.CheckT("Q4", fn.Name+":answer-from-the-index["+asked.Name()+"]", called, ev.Pos, path,
									"%s sends %s on this path without having asked the index (through %s): the answer is something remembered, which goes stale when another participant's sample is applied", fn.Name, cls, asked.Name())
							}
						}
					}
				}
			}
		}
	}
	// the sample handler hands the whole converted list to the state on its accepting paths
	if h := r.P.FuncByName("modules/dagaz.(*Module).HandleDagazQuadSample"); h != nil {
		paths := r.Paths(h)
		acc := 0
		for pi := range paths {
			path := &paths[pi]
			r.at(path)
			ret := r.retCanon(h, path)
			if len(ret) != 1 || ret[0] != "nil" {
				continue
			}
			acc++
			calls := 0
			overSamples := false
			for _, ev := range path.Events {
				if ev.Kind == EvCall {
					if f, ok := ev.Callee.(*types.Func); ok && (inserters[f] || (f.Name() == "InsertQuad" && f.Pkg() != nil && f.Pkg().Path() == pkgDagaz)) && ev.Depth == 0 && !ev.Loop {
						calls++
					}
					if f, ok := ev.Callee.(*types.Func); ok && f.Name() == "InsertQuad" && ev.Loop {
						calls = 1
					}
				}
				if ev.Kind == EvGuard && ev.GKind == GRange && strings.Contains(r.P.Canon(ev.Fn, ev.Over), "Samples") {
					overSamples = true
				}
			}
			n++
			r.CheckT("Q4", h.Name+":sample-inserted", calls >= 1 && overSamples, h.Body.Pos(), path,
				"a quad sample is accepted (nil result) without its planes being walked and handed to the index (insert calls: %d, loop over the samples: %v)", calls, overSamples)
		}
		r.Floor("Q4", "accepting paths of the sample handler", acc, 1)
	} else {
		r.Undecide("anchors", "function modules/dagaz.(*Module).HandleDagazQuadSample not found")
	}
	r.Floor("Q4", "element loops between messages and the index", n, 4)
}

// pairedSlots (Q5).
func (r *Run) pairedSlots(fns []*Func) {
	pairs := [][2]string{{"center", "extents"}, {"from", "to"}, {"min", "max"}}
	partner := map[string]string{}
	for _, p := range pairs {
		partner[p[0]], partner[p[1]] = p[1], p[0]
	}
	norm := func(s string) string {
		s = strings.ToLower(s)
		s = strings.TrimPrefix(s, "get")
		for _, suf := range []string{"_point", "point"} {
			s = strings.TrimSuffix(s, suf)
		}
		return s
	}
	// names read by an expression: selectors and getter calls, normalised
	reads := func(fn *Func, x ast.Expr, depth int, localNames bool) map[string]bool {
		out := map[string]bool{}
		var visit func(fn *Func, x ast.Expr, depth int)
		visit = func(fn *Func, x ast.Expr, depth int) {
			ast.Inspect(x, func(n ast.Node) bool {
				switch v := n.(type) {
				case *ast.SelectorExpr:
					out[norm(v.Sel.Name)] = true
				case *ast.Ident:
					if obj, ok := fn.Info().Uses[v].(*types.Var); ok && !obj.IsField() && depth < 3 {
						if localNames {
							out[norm(obj.Name())] = true
						}
						if ds, ok := fn.Defs().singleDef(obj); ok && ds.rhs != nil && !ds.multi {
							visit(fn, ds.rhs, depth+1)
						} else if paramIndex(fn, obj) >= 0 {
							out[norm(obj.Name())] = true
						}
					}
				}
				return true
			})
		}
		visit(fn, x, depth)
		return out
	}
	n := 0
	judge := func(fn *Func, slot string, val ast.Expr, siblings map[string]bool, pos token.Pos, what string) {
		s := norm(slot)
		p, ok := partner[s]
		if !ok || !siblings[p] {
			return
		}
		rd := reads(fn, val, 0, false)
		if !rd[s] && !rd[p] {
			rd = reads(fn, val, 0, true) // nothing paired in what the value is computed from: the names of the locals state the belief
		}
		if !rd[s] && !rd[p] {
			return
		}
		n++
		r.Check("Q5", fmt.Sprintf("%s:%s[%s]", fn.Name, what, s), !(rd[p] && !rd[s]), pos,
			"%s %q is filled from the counterpart's %q and never from its %q: the two paired values are crossed", what, slot, p, s)
	}
	for _, fn := range fns {
		info := fn.Info()
		ast.Inspect(fn.Body, func(nd ast.Node) bool {
			switch v := nd.(type) {
			case *ast.CompositeLit:
				st, ok := info.TypeOf(v).Underlying().(*types.Struct)
				if !ok {
					return true
				}
				sib := map[string]bool{}
				for i := 0; i < st.NumFields(); i++ {
					sib[norm(st.Field(i).Name())] = true
				}
				for i, el := range v.Elts {
					if kv, ok := el.(*ast.KeyValueExpr); ok {
						if k, ok := kv.Key.(*ast.Ident); ok {
							judge(fn, k.Name, kv.Value, sib, kv.Pos(), "field")
						}
					} else if i < st.NumFields() {
						judge(fn, st.Field(i).Name(), el, sib, el.Pos(), "field")
					}
				}
			case *ast.CallExpr:
				f, ok := calleeObjRaw(info, v).(*types.Func)
				if !ok || f.Pkg() == nil || f.Pkg().Path() != pkgDagaz {
					return true
				}
				sig := f.Type().(*types.Signature)
				sib := map[string]bool{}
				for i := 0; i < sig.Params().Len(); i++ {
					sib[norm(sig.Params().At(i).Name())] = true
				}
				for i, a := range v.Args {
					if i < sig.Params().Len() {
						judge(fn, sig.Params().At(i).Name(), a, sib, a.Pos(), "argument")
					}
				}
			}
			return true
		})
	}
	r.Floor("Q5", "paired slots filled from a paired source", n, 6)
}

// cellShrinksByWhatWasFound (Q11): a statement that shortens a cell's list (stores a re-slice of the cell into the
// cell) is reached only through a test of what a search of that very cell returned — the plane was found there.
// Shortening a cell on the strength of "the caller only asks for cells that hold it" drops whichever plane sits
// at the default position when the belief is wrong (a merge that shrinks on one axis while it grows on the other
// visits cells the plane was never registered in).
func (r *Run) cellShrinksByWhatWasFound(fns []*Func) {
	n := 0
	for _, fn := range fns {
		shrinks := false
		ast.Inspect(fn.Body, func(nd ast.Node) bool {
			if as, ok := nd.(*ast.AssignStmt); ok && len(as.Lhs) == 1 && len(as.Rhs) == 1 && gridCell(as.Lhs[0]) == 2 {
				if _, isSlice := ast.Unparen(as.Rhs[0]).(*ast.SliceExpr); isSlice {
					shrinks = true
				}
			}
			return true
		})
		if !shrinks {
			continue
		}
		info := fn.Info()
		paths := r.capPaths(fn, r.Paths(fn), 20000)
		for pi := range paths {
			path := &paths[pi]
			r.at(path)
			searched := map[types.Object]bool{} // results of calls that were handed a cell
			tested := false
			for _, ev := range path.Events {
				if ev.Fn == nil || ev.Fn.root().origOrSelf() != fn {
					continue
				}
				switch ev.Kind {
				case EvAssign:
					if len(ev.Rhs) == 1 {
						if call, ok := ast.Unparen(ev.Rhs[0]).(*ast.CallExpr); ok {
							cellArg := false
							if se, isSel := ast.Unparen(call.Fun).(*ast.SelectorExpr); isSel {
								// c.indexOf(q): a method of the cell (slot) itself
								if t := ev.Fn.Info().TypeOf(se.X); t != nil {
									if pt, isPtr := t.(*types.Pointer); isPtr {
										t = pt.Elem()
									}
									for d := range cellSlotDerefs {
										if st, isStar := d.(*ast.StarExpr); isStar {
											for _, f2 := range fns {
												if dt := f2.Info().TypeOf(st); dt != nil && types.Identical(dt, t) {
													cellArg = true
												}
											}
										}
										if cellArg {
											break
										}
									}
								}
								if gridCell(se.X) == 2 {
									cellArg = true
								}
							}
							for _, a := range call.Args {
								if gridCell(a) == 2 || gridCell(resolveLocal(ev.Fn, a, 0)) == 2 {
									cellArg = true // (the cell itself, or a local that stands for it)
								}
							}
							if cellArg {
								for _, l := range ev.Lhs {
									if id, ok := ast.Unparen(l).(*ast.Ident); ok {
										if o := objOf(info, id); o != nil {
											searched[o] = true
										}
									}
								}
							}
						}
					}
					if len(ev.Lhs) == 1 && len(ev.Rhs) == 1 && gridCell(ev.Lhs[0]) == 2 {
						if _, isSlice := ast.Unparen(ev.Rhs[0]).(*ast.SliceExpr); isSlice {
							n++
							r.CheckT("Q11", fn.Name+":cell-shrinks-by-what-was-found", tested, ev.Pos, path,
								"%s shortens a cell's list on a path that never tested what the search of that cell returned: when the plane is not registered there, another plane is dropped from the cell (or the index is out of range)", fn.Name)
						}
					}
				case EvGuard:
					if ev.Cond != nil && ev.GKind != GRange {
						ast.Inspect(ev.Cond, func(k ast.Node) bool {
							if id, ok := k.(*ast.Ident); ok && searched[info.Uses[id]] {
								tested = true
							}
							// a direct comparison of a cell element with the plane (a hand-written search loop)
							if be, ok := k.(*ast.BinaryExpr); ok && (be.Op == token.EQL || be.Op == token.NEQ) {
								if ix, ok := ast.Unparen(be.X).(*ast.IndexExpr); ok && gridCell(ix.X) == 2 {
									tested = true
								}
								if ix, ok := ast.Unparen(be.Y).(*ast.IndexExpr); ok && gridCell(ix.X) == 2 {
									tested = true
								}
							}
							return true
						})
					}
				}
			}
		}
	}
	r.Floor("Q11", "cell-shortening statements on paths", n, 1)
}
