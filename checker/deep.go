package main

import (
	"go/ast"
	"go/token"
	"go/types"
	"sort"
	"strings"

	"golang.org/x/tools/go/callgraph"
	"golang.org/x/tools/go/callgraph/cha"
	"golang.org/x/tools/go/callgraph/vta"
	"golang.org/x/tools/go/ssa"
	"golang.org/x/tools/go/ssa/ssautil"
)

// Deep is the whole-program view: SSA for every loaded package (dependencies included, from
// source) and a VTA call graph refined from CHA. It is only used to resolve *who is called*:
// dynamic calls through interfaces, function-valued fields, method values and callbacks. All
// ordering and lock reasoning stays on the go/cfg path engine.
type Deep struct {
	Prog   *ssa.Program
	CG     *callgraph.Graph
	bySite map[token.Pos][]*ssa.Function // call site (Lparen position) -> possible callees
	goSite map[token.Pos]bool
	fnOf   map[*ssa.Function]*Func
}

// extraIndexed: dependency packages whose function bodies the path engine may look into.
var extraIndexed = []string{pkgHCWS}

func (r *Run) Deep() *Deep {
	if r.deep != nil {
		return r.deep
	}
	if !r.P.deep {
		r.Undecide("loader", "whole-program view requested but the program was loaded without dependency sources")
		return nil
	}
	p := r.P
	var initial = p.allPkgs
	prog, _ := ssautil.AllPackages(initial, ssa.InstantiateGenerics)
	prog.Build()
	funcs := ssautil.AllFunctions(prog)
	cg := vta.CallGraph(funcs, cha.CallGraph(prog))
	d := &Deep{Prog: prog, CG: cg, bySite: map[token.Pos][]*ssa.Function{}, goSite: map[token.Pos]bool{}, fnOf: map[*ssa.Function]*Func{}}
	for fn, node := range cg.Nodes {
		if fn == nil {
			continue
		}
		for _, e := range node.Out {
			if e.Site == nil || e.Callee == nil || e.Callee.Func == nil {
				continue
			}
			pos := e.Site.Pos()
			if !pos.IsValid() {
				continue
			}
			d.bySite[pos] = append(d.bySite[pos], e.Callee.Func)
			if _, isGo := e.Site.(*ssa.Go); isGo {
				d.goSite[pos] = true
			}
		}
	}
	for pos, fs := range d.bySite {
		sort.Slice(fs, func(i, j int) bool { return fs[i].String() < fs[j].String() })
		// dedupe
		out := fs[:0]
		var prev *ssa.Function
		for _, f := range fs {
			if f != prev {
				out = append(out, f)
			}
			prev = f
		}
		d.bySite[pos] = out
	}
	for fn := range funcs {
		if f := d.mapFunc(p, fn); f != nil {
			d.fnOf[fn] = f
		}
	}
	r.deep = d
	r.P.deepShared = d
	return d
}

// mapFunc maps an SSA function to the engine's Func (declared function, method or literal).
func (d *Deep) mapFunc(p *Program, fn *ssa.Function) *Func {
	if fn == nil {
		return nil
	}
	if fn.Origin() != nil {
		fn = fn.Origin()
	}
	switch syn := fn.Syntax().(type) {
	case *ast.FuncLit:
		return p.Lits[syn]
	case *ast.FuncDecl:
		if obj, ok := fn.Object().(*types.Func); ok {
			return p.Funcs[obj]
		}
	}
	// bound method closures / thunks wrap a declared method
	if obj, ok := fn.Object().(*types.Func); ok {
		return p.Funcs[obj]
	}
	return nil
}

// Callees returns the possible callees of a call expression as engine functions (those whose
// source is indexed) plus the names of the others.
func (d *Deep) Callees(p *Program, call *ast.CallExpr) (known []*Func, opaque []string) {
	seen := map[*Func]bool{}
	var visit func(fn *ssa.Function, depth int)
	visit = func(fn *ssa.Function, depth int) {
		if f := d.fnOf[fn]; f != nil {
			if !seen[f] {
				seen[f] = true
				known = append(known, f)
			}
			return
		}
		// synthetic wrappers ($bound, $thunk): follow their single outgoing call
		if fn.Synthetic != "" && depth < 3 {
			if node := d.CG.Nodes[fn]; node != nil {
				for _, e := range node.Out {
					visit(e.Callee.Func, depth+1)
				}
				return
			}
		}
		opaque = append(opaque, fn.String())
	}
	for _, fn := range d.bySite[call.Lparen] {
		visit(fn, 0)
	}
	sort.Slice(known, func(i, j int) bool { return known[i].Name < known[j].Name })
	return
}

func isSyntheticWrapper(fn *ssa.Function) bool {
	return fn != nil && (strings.HasSuffix(fn.Name(), "$bound") || strings.HasSuffix(fn.Name(), "$thunk"))
}
