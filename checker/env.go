package main
import "os"
func envBase() []string { return os.Environ() }
