#!/usr/bin/env python3
"""Writes /verif/MANIFEST.json from the table below (one entry per claimed property)."""
import json
props = [json.loads(l) for l in open('/verif/properties.jsonl')]
ids = [p['id'] for p in props]

CLAIMS = {}
T_PATH = "go/cfg path enumeration + typed event abstraction + provenance canonicalisation (custom static analyser)"
def claim(pid, text, note, ref, technique=T_PATH):
    CLAIMS[pid] = dict(text=text, note=note, ref=ref, technique=technique)

claim('C01', "Structural necessary conditions of convergence, on every path of every handler: every accepted replicated change is followed by exactly one relay of its class and there is no relay without a change (C1); entity removal cascades to components (E4); the newcomer is registered before the snapshot is read and the snapshot/serialisers cover participants, entities (id, owner, flag, pose), components and both module states completely (C7); no failure result of a store operation is dropped (ERR).",
      "Decides the per-path shape, not equality of accumulated views over histories (DESIGN §6). Trusted: Go type checker, go/cfg, protobuf codec.", "DESIGN.md §4 C01")
claim('C02', "Every path of every handler and of Session.Broadcast/BroadcastTo: exactly one relay per accepted change, none on refusal (C1, B5); the sender argument is the acting participant and the relay goes to the own session (C2); Broadcast visits every member, skips exactly the sender, one SendMsg per other member, message encoded once (C3); decorators forward each call exactly once with unchanged arguments and result (A2).",
      "Delivery by the network and membership 'throughout' a concurrent block are not decided; ordering is covered only as far as relays are pushed synchronously in handling order (see C09/C08 checks for channels).", "DESIGN.md §4 C02")
claim('C03', "Provenance rules over all handlers: every relay and every session use starts from the connection's own session (J1) and is preceded by a joined test (J2); session and participant are assigned together (E9); modules are consulted only for joined connections, after the core handler (A1) and are re-bound to the given session on every join with state fetched from that session under distinct module names (J3); a refused request changes nothing (B5).",
      "Noninterference of message streams between sessions and stale scheduler entries across a session switch are not decided (DESIGN §6).", "DESIGN.md §4 C03")
claim('C04', "Every control-flow path of every dispatched handler (18 core kinds, 10 module kinds; dispatch totality A1) is enumerated with closures inlined and checked: exactly one answer then nil, or no answer with a decode/not-joined error (B1); echoed request id (B2); matching response type (B3); error code as a function of the refusing guard (B4); refusal paths free of state changes and relays (B5); answers only through the handler's own respond parameter (B6); joined test before any use of the connection's session (J2); decorators forward unchanged (A2).",
      "Decides the shape of the code on every path (hence all inputs and histories that can steer a branch), not delivery. Trusted: type checker, go/cfg, protobuf codec.", "DESIGN.md §3 B, §4 C04")
claim('C05', "Dominance/provenance: every path that deletes an entity, changes its pose or attaches an asset passes the comparison of that very entity's creator id with the acting participant's id, the entity being looked up in the caller's own session by the request's id (D1); refusals change nothing (B5); participant and entity ids are never released for reuse (D3: the only Reuse call sites are session ids and frame-handler ids).",
      "Counter wrap-around at 2^32 is not decided.", "DESIGN.md §4 C05")
claim('C06', "Every path of the leave function: modules told, subscriptions dropped, own entity ids walked, removal exactly for existing non-persistent entities with component cascade and relay, frame callback unregistered before removal, leaver removed, emptiness test after removal, both connection fields cleared (E1, E4, E6, E9); who may call it and that disconnect reaches it (E2); sibling agreement of vikja/odal cleanup on the persist predicate (E3); decorators forward HandleDisconnect (A2); relays of both classes (C1); survivors are serialised to later joiners (C7).",
      "That every way a connection ends reaches HandleDisconnect exactly once is covered by the C08 check (E5).", "DESIGN.md §4 C06")
claim('C07', "Structural part (registry, worker, leave): the session is removed from the registry exactly on the empty outcome of the test that follows the leaver's removal; leave is called only from disconnect and join behind a participant test (E1, E2, E6).",
      "Atomicity of lookup/add and remove/count/unregister across critical sections, the gauge value and goroutine termination are handled by the SSA-based rules when claimed; histories are not enumerated.", "DESIGN.md §4 C07")
claim('C08', "No client message may panic a handler through an absent sub-message: every dereference of a pointer-to-message field, repo-wide and through helper functions, is dominated by a nil test or goes through a generated getter (G1); decorators forward receive/send/disconnect exactly once (A2).",
      "Arithmetic panics in modules/dagaz (float to index), timing of the idle timeout are not decided (DESIGN §6).", "DESIGN.md §4 C08")
claim('C10', "Write-site and path rules: SequentialIDGenerator.New returns either a key it has just deleted from the pool or the counter after exactly one increment, the counter and pool have no other writers, and ids are given back only for session ids and frame-handler ids (D3); the component-type registry is written only in AddType, pairwise, behind the name-lookup miss, with an id from the store's generator, and resolves both ways (D4).",
      "Counter wrap-around is not decided. Lock discipline of the generator is part of the C09 check.", "DESIGN.md §4 C10")
claim('C11', "Drop clauses and provenance on every path of the pose handler: unknown entity, foreign entity and missing pose lead to return with no change and no relay (B5, G1, D1); the relayed pose is the pose just stored for that entity, read back from the entity (C11-pose).",
      "Order across frames, 'within a few frames', coalescing in the external scheduler and pending updates across join/switch/leave are timing facts and are not decided (DESIGN §6).", "DESIGN.md §4 C11")
claim('C12', "Path contracts of the component store's own methods: Add stores only for a registered type and an absent key and a refused Add stores nothing; Update assigns only when present and a refused Update changes nothing; Delete removes exactly the key and reports its prior presence; DeleteByEntityID/List/ListAll visit every element (S-*); AddType idempotent and bijective (D4); entity removal cascades (E4); no failure result dropped by callers (ERR).",
      "Agreement with a reference map over histories is the composition of these per-operation contracts and is not itself enumerated.", "DESIGN.md §4 C12")
claim('C13', "Component relays sit inside Notify's callback for that component's own type id on the own session's store; updates go with BroadcastTo to exactly the callback's subscriber ids, adds/deletes to every other member (C5); never to the author (C2); Subscribe refuses unregistered types and records (type, participant), Unsubscribe/UnsubscribeByParticipant delete exactly that, Notify runs its callback once iff the type has subscribers and hands over every subscriber id (S-*).",
      "Histories are not enumerated.", "DESIGN.md §4 C13")
claim('C14', "Integer-interval reasoning on the size guard: a custom message is relayed exactly for body lengths 0..10240 and refused as too large exactly from 10241 (H1); the relayed body is the request's body field untouched, stamped with the sender's id, BroadcastTo with the request's ids iff any are named (H4); BroadcastTo resolves ids in its own session, skips the sender, serves each member once (C3, J6).",
      "Byte equality on the wire relies on the protobuf codec (trusted).", "DESIGN.md §4 C14")
claim('C16', "Comparison normalisation: the only refusal for freshness is 'stored exists and new timestamp strictly before stored timestamp', everything else stores the request's action (H3); vikja state keyed by (entity id, name), odal state by entity id with a fresh instance id, both listed completely to newcomers (S-Actions, S-Assets, D5, C7); owner guard for assets (D1); module state is reused, never replaced, on later joins (J4); cleanup siblings agree (E3).",
      "Concurrent writers of one key are not quantified by the property and not decided.", "DESIGN.md §4 C16")
claim('C17', "For all 1024 subsets at once: flags and classes correspond by name (C4a); every emission site of a flagged class, repo-wide, is inside IfNotSet(<its flag>, literal) (C4b); such closures only build and emit that class (no state change, no answer, no write to captured variables) (C4c); the flag set is read nowhere else (C4d); IfNotSet/IfSet are the membership test and one call (C4e); flag arguments are declared constants (C4f).",
      "Independence of flags follows from where the flag is read, for every history; nothing is executed.", "DESIGN.md §4 C17")
claim('C18', "Preconditions and bindings of a measurement: Start is reached only for a joined participant, 3..50 rounds (integer interval from the guards) and a non-empty wallet, on the requester's own state, bound to the server key, responder, request id, session UUID, presented client id and wallet (H2, I2).",
      "Numeric relations between min/mean/max/p95/last, ping-id uniqueness and ECDSA are not decided (DESIGN §6).", "DESIGN.md §4 C18")
claim('C20', "One clause only: samples are shared per session and kept for as long as the session lives - every module's Init fetches its state from the given session under its own distinct name, creates it only when missing and never writes into an existing state on later joins (J3, J4).",
      "Index completeness, bounds, plane count and all geometric primitives are floating-point statements this family cannot decide (DESIGN §6).", "DESIGN.md §4 C20")
claim('C09', "Lockset analysis on every control-flow path of every repository function (locks held by callers propagated through the VTA call graph): each mutable field of a shared struct is written only under one consistent exclusive lock and read only under that lock (F1, with aliases of guarded containers followed); owner-confined state is reached only through the connection's own participant (F2); no guarded container is returned (F5); the acquire-while-held graph over lock identities, through calls and callbacks, is acyclic and free of re-entrance (F3); every lock is released on every path with the matching unlock (F6) and by defer wherever a recovered panic could otherwise leave it held (F6b); no read-then-write of one field is split across two critical sections (E8a); wait-for cycles between locks and bounded channels and self-waits on a channel are reported (F4); frame callbacks run under the registration lock (E6).",
      "Lock identity is (struct type, field): sound for cycles, may conflate instances. Progress beyond wait-for acyclicity and races inside dependencies are not decided. One known finding (frame worker vs leave: lock -> bounded queue -> lock).", "DESIGN.md §4 C09", technique="path-sensitive lockset + lock-order + wait-for analysis over go/cfg paths, callees resolved by go/ssa VTA call graph")
claim('C15', "Who-may-mount and gate-shape rules: every x/net websocket.Server literal whose handler reaches the relay has Handshake = VerifyAuthToken(...) and the relay is entered from nowhere else; the smoke-test handler is only ever handed directly to VerifyAuthTokenHandler; in both gates every admitting path (return nil / next.ServeHTTP) passes VerifyUserAuth == nil on the token taken from that very request, every other path rejects (401 for the smoke test); both gates use the discovery-service client the server pairs with (I6).",
      "JWT validation itself (signature, algorithm, expiry: golang-jwt and hagall-common) and secret rotation are behaviour of dependencies and are not decided; x/net calls Handshake before Handler (trusted).", "DESIGN.md §4 C15")
claim('C19', "Receipt flow on every path: the only send into the receipt channel is a select with default (never blocks) carrying the request's three fields unchanged; 'accepted' is answered iff the receipt was queued, one answer per path returning nil (B1/B2/B4 on HandleReceipt); the worker verifies and forwards exactly the dequeued payload without rewriting it, forwards once iff verification returned nil; VerifyPayload accepts only behind Keccak256(receipt) == hash and a successful Ecrecover(hash, signature); ForwardToNCS posts once without loop; handler and worker share one buffered channel (I5).",
      "Behaviour of the credit service and of Keccak256/Ecrecover is external and trusted.", "DESIGN.md §4 C19")
NA = {}

checks = []
for pid in ids:
    if pid in CLAIMS:
        c = CLAIMS[pid]
        checks.append({
            "property_id": pid,
            "quick_cmd": f"./run.sh {pid} quick",
            "thorough_cmd": f"./run.sh {pid} thorough",
            "evidence_file": f"/verif/evidence/{pid}.json",
            "replay_cmd_template": "/verif/bin/hagcheck explain {path}",
            "engine": "hagcheck",
            "level_claimed": {"category": "other", "text": c['text'], "design_ref": c['ref']},
            "level_note": c['note'],
            "technique": c['technique'],
        })
na = [{"property_id": pid, "reason": NA.get(pid, "check not built yet (framework under construction)")} for pid in ids if pid not in CLAIMS]
m = {
 "version": 1,
 "setup_cmd": "cd /verif/checker && GOFLAGS=-mod=mod GOPROXY=off GOSUMDB=off GOTOOLCHAIN=local GOWORK=off go build -o /verif/bin/hagcheck .",
 "hooks": {"guard": "verif", "enable": "none: checks never compile or run hagall; they analyse the sources of /repo's working tree",
           "baseline_off_cmd": "cd /repo && go test -vet=off -count=1 -timeout 25m ./...", "source_commits": [], "add_only": True},
 "engines": [{"name": "hagcheck", "path": "/verif/checker", "serves_properties": sorted(CLAIMS), "kind_free_text": "repository-specific static analyser: go/packages + go/cfg path/effect engine, provenance canonicalisation, go/ssa locksets and VTA call graph"}],
 "checks": checks,
 "not_applicable": na,
 "notes": "Technique family: static analysis only. See DESIGN.md. Exit codes: 0 holds / known findings only, 1 VIOLATION, 2 UNDECIDED (analysis could not be carried out).",
}
json.dump(m, open('/verif/MANIFEST.json', 'w'), indent=1)
print(len(checks), 'checks,', len(na), 'not applicable')
