#!/usr/bin/env python3
"""Writes /verif/MANIFEST.json from the table below (one entry per claimed property)."""
import json
props = [json.loads(l) for l in open('/verif/properties.jsonl')]
ids = [p['id'] for p in props]

CLAIMS = {
 'C04': dict(
   text="Static path analysis: every control-flow path of every dispatched handler (18 core, 10 module) is enumerated with closures inlined and checked for exactly-one-answer (B1), echoed request id (B2), matching response type (B3), error code as a function of the refusing guard (B4), purity of refusal paths (B5), answer to the requester only (B6) and a joined test before any use of the connection's session (J2). This covers all inputs and histories because the abstraction ignores concrete values.",
   note="Decides the shape of the code on every path, not delivery: the network, protobuf codec and the Go type checker / go/cfg are trusted. Value-level facts (e.g. that a lookup returns the right name) are not decided here.",
   technique="go/cfg path enumeration + typed event abstraction (custom static analyser)", ref="DESIGN.md §3 B, §4 C04"),
}
NA = {}

checks = []
for pid in ids:
    if pid in CLAIMS:
        c = CLAIMS[pid]
        checks.append({
            "property_id": pid,
            "quick_cmd": f"./run.sh {pid} quick",
            "thorough_cmd": f"./run.sh {pid} thorough",
            "evidence_file": f"/verif/evidence/{pid}.json",
            "replay_cmd_template": "/verif/bin/hagcheck explain {path}",
            "engine": "hagcheck",
            "level_claimed": {"category": "other", "text": c['text'], "design_ref": c['ref']},
            "level_note": c['note'],
            "technique": c['technique'],
        })
na = [{"property_id": pid, "reason": NA.get(pid, "check not built yet (framework under construction)")} for pid in ids if pid not in CLAIMS]
m = {
 "version": 1,
 "setup_cmd": "cd /verif/checker && GOFLAGS=-mod=mod GOPROXY=off GOSUMDB=off GOTOOLCHAIN=local GOWORK=off go build -o /verif/bin/hagcheck .",
 "hooks": {"guard": "verif", "enable": "none: checks never compile or run hagall; they analyse the sources of /repo's working tree",
           "baseline_off_cmd": "cd /repo && go test -vet=off -count=1 -timeout 25m ./...", "source_commits": [], "add_only": True},
 "engines": [{"name": "hagcheck", "path": "/verif/checker", "serves_properties": sorted(CLAIMS), "kind_free_text": "repository-specific static analyser: go/packages + go/cfg path/effect engine, provenance canonicalisation, go/ssa locksets and VTA call graph"}],
 "checks": checks,
 "not_applicable": na,
 "notes": "Technique family: static analysis only. See DESIGN.md. Exit codes: 0 holds / known findings only, 1 VIOLATION, 2 UNDECIDED (analysis could not be carried out).",
}
json.dump(m, open('/verif/MANIFEST.json', 'w'), indent=1)
print(len(checks), 'checks,', len(na), 'not applicable')
