#!/bin/bash
# usage: tools/muteval.sh <mutants-dir> <results-dir> <workers>
# For every <id>.diff: apply in a scratch worktree; build; run the existing suite; if the suite still
# passes, run every registered check (quick) on the mutated tree. One result line per mutant:
#   <id> nocompile | killed-by-tests | detected <props> | survived      # <file:line operator detail>
set -u
MUT=$1; RES=$2; N=${3:-8}
export GOFLAGS=-mod=mod GOPROXY=off GOSUMDB=off GOTOOLCHAIN=local
mkdir -p "$RES"
cp /verif/bin/hagcheck /tmp/hagcheck_mut
worker() {
  k=$1
  WT=/tmp/mw-$k
  git -C /repo worktree remove --force $WT >/dev/null 2>&1
  git -C /repo worktree add --detach $WT HEAD -q || exit 2
  i=0
  for d in $(ls $MUT/*.diff | sort); do
    i=$((i+1))
    [ $((i % N)) -eq $k ] || continue
    id=$(basename $d .diff)
    [ -f $RES/$id.txt ] && continue
    hdr=$(head -1 $d)
    cd $WT
    git checkout -q -- . ; git clean -fdq
    if ! git apply $d 2>/dev/null; then echo "$id noapply $hdr" > $RES/$id.txt; continue; fi
    if ! go build ./... >/dev/null 2>&1; then echo "$id nocompile $hdr" > $RES/$id.txt; continue; fi
    T=$(timeout 300 go test -vet=off -timeout 120s ./... 2>&1)   # result cache on: only packages that depend on the mutated file re-run
    rc=$?
    if [ $rc -ne 0 ]; then
      # tolerate the known flaky test only
      bad=$(echo "$T" | grep "^--- FAIL" | grep -v "TestHandlerHandleSignedLatency" | head -1)
      pan=$(echo "$T" | grep -c "^panic:\|test timed out\|^FAIL.*\[build failed\]")
      if [ -n "$bad" ] || [ "$pan" != 0 ] || [ $rc -eq 124 ]; then echo "$id killed-by-tests $hdr" > $RES/$id.txt; continue; fi
      if ! echo "$T" | grep -q "TestHandlerHandleSignedLatency"; then echo "$id killed-by-tests $hdr" > $RES/$id.txt; continue; fi
    fi
    OUT=$(mktemp -d)
    /tmp/hagcheck_mut -property all -tier quick -repo $WT -verif /verif -out $OUT > $OUT/all.log 2>&1
    props=$(awk '/^hagcheck property=/{split($2,a,"="); p=a[2]} /^VIOLATION|^UNDECIDED/{print p}' $OUT/all.log | sort -u | paste -sd,)
    rules=$(awk '/^VIOLATION/{getline; print}' $OUT/all.log | grep -o "rule=[A-Za-z0-9-]*" | sort -u | paste -sd, | cut -c1-120)
    rm -rf $OUT
    if [ -n "$props" ]; then echo "$id detected $props $rules $hdr" > $RES/$id.txt; else echo "$id survived $hdr" > $RES/$id.txt; fi
  done
  cd /; git -C /repo worktree remove --force $WT >/dev/null 2>&1
}
for k in $(seq 0 $((N-1))); do worker $k & done
wait
cat $RES/*.txt | awk '{print $2}' | sort | uniq -c
