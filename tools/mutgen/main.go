// mutgen: single-edit syntactic mutants of hagall's production sources, as unified diffs.
// usage: mutgen -repo <dir> -out <dir> file.go...
// Each mutant is written as <out>/<nnnn>.diff with a first-line comment "# <file>:<line> <operator> <detail>".
package main

import (
	"flag"
	"fmt"
	"go/ast"
	"go/parser"
	"go/token"
	"os"
	"os/exec"
	"path/filepath"
	"sort"
	"strconv"
	"strings"
)

type edit struct {
	start, end int // byte offsets
	repl       string
	op, detail string
	line       int
}

func main() {
	repo := flag.String("repo", "/repo", "")
	out := flag.String("out", "/tmp/mutants", "")
	flag.Parse()
	os.MkdirAll(*out, 0o755)
	n := 0
	for _, rel := range flag.Args() {
		path := filepath.Join(*repo, rel)
		src, err := os.ReadFile(path)
		if err != nil {
			fmt.Fprintln(os.Stderr, err)
			continue
		}
		fset := token.NewFileSet()
		f, err := parser.ParseFile(fset, path, src, parser.ParseComments)
		if err != nil {
			fmt.Fprintln(os.Stderr, err)
			continue
		}
		off := func(p token.Pos) int { return fset.Position(p).Offset }
		line := func(p token.Pos) int { return fset.Position(p).Line }
		var edits []edit
		add := func(s, e token.Pos, repl, op, detail string) {
			edits = append(edits, edit{off(s), off(e), repl, op, detail, line(s)})
		}
		swap := map[token.Token]string{token.EQL: "!=", token.NEQ: "==", token.LSS: "<=", token.LEQ: "<", token.GTR: ">=", token.GEQ: ">", token.LAND: "||", token.LOR: "&&"}
		loopDepth := 0
		var visit func(n ast.Node) bool
		inspectBlock := func(b *ast.BlockStmt, inIf bool) {
			if b == nil {
				return
			}
			for i, st := range b.List {
				switch s := st.(type) {
				case *ast.ExprStmt:
					if _, ok := s.X.(*ast.CallExpr); ok {
						add(s.Pos(), s.End(), "", "stmt-delete", string(src[off(s.Pos()):off(s.End())]))
					}
				case *ast.AssignStmt:
					if s.Tok == token.ASSIGN {
						add(s.Pos(), s.End(), "", "assign-delete", string(src[off(s.Pos()):off(s.End())]))
					}
				case *ast.ReturnStmt:
					if inIf && i == len(b.List)-1 {
						add(s.Pos(), s.End(), "", "return-delete", "early return removed")
					}
				case *ast.DeferStmt:
					add(s.Pos(), s.Call.Pos(), "", "defer-strip", string(src[off(s.Call.Pos()):off(s.Call.End())]))
				case *ast.GoStmt:
					if _, isLit := s.Call.Fun.(*ast.FuncLit); !isLit {
						add(s.Pos(), s.Call.Pos(), "", "go-strip", string(src[off(s.Call.Pos()):off(s.Call.End())]))
					}
				case *ast.IncDecStmt:
					r := "--"
					if s.Tok == token.DEC {
						r = "++"
					}
					add(s.TokPos, s.TokPos+2, r, "incdec-swap", "")
				case *ast.BranchStmt:
					if loopDepth > 0 && s.Label == nil {
						if s.Tok == token.CONTINUE {
							add(s.Pos(), s.End(), "break", "continue-to-break", "")
						}
					}
				}
			}
		}
		visit = func(n ast.Node) bool {
			switch v := n.(type) {
			case *ast.FuncDecl:
				if v.Body != nil {
					inspectBlock(v.Body, false)
				}
			case *ast.FuncLit:
				inspectBlock(v.Body, false)
			case *ast.IfStmt:
				c := string(src[off(v.Cond.Pos()):off(v.Cond.End())])
				add(v.Cond.Pos(), v.Cond.End(), "!("+c+")", "cond-negate", c)
				inspectBlock(v.Body, true)
				if eb, ok := v.Else.(*ast.BlockStmt); ok {
					inspectBlock(eb, true)
				}
			case *ast.ForStmt:
				loopDepth++
				inspectBlock(v.Body, false)
				ast.Inspect(v.Body, visit)
				loopDepth--
				if v.Init != nil {
					ast.Inspect(v.Init, visit)
				}
				if v.Cond != nil {
					ast.Inspect(v.Cond, visit)
				}
				return false
			case *ast.RangeStmt:
				loopDepth++
				inspectBlock(v.Body, false)
				ast.Inspect(v.Body, visit)
				loopDepth--
				return false
			case *ast.CaseClause:
				inspectBlock(&ast.BlockStmt{List: v.Body}, false)
			case *ast.CommClause:
				inspectBlock(&ast.BlockStmt{List: v.Body}, false)
			case *ast.BinaryExpr:
				if r, ok := swap[v.Op]; ok {
					add(v.OpPos, v.OpPos+token.Pos(len(v.Op.String())), r, "binop-swap", v.Op.String()+" -> "+r)
				}
			case *ast.BasicLit:
				if v.Kind == token.INT {
					if k, err := strconv.Atoi(v.Value); err == nil {
						add(v.Pos(), v.End(), strconv.Itoa(k+1), "const-bump", v.Value)
					}
				}
			}
			return true
		}
		ast.Inspect(f, visit)
		// dedupe and order
		seen := map[string]bool{}
		sort.SliceStable(edits, func(i, j int) bool { return edits[i].start < edits[j].start })
		for _, e := range edits {
			key := fmt.Sprintf("%d-%d-%s", e.start, e.end, e.repl)
			if seen[key] {
				continue
			}
			seen[key] = true
			mut := string(src[:e.start]) + e.repl + string(src[e.end:])
			tmp := filepath.Join(*out, "mut.go.tmp")
			os.WriteFile(tmp, []byte(mut), 0o644)
			cmd := exec.Command("diff", "-u", "--label", "a/"+rel, "--label", "b/"+rel, path, tmp)
			d, _ := cmd.Output()
			if len(d) == 0 {
				continue
			}
			n++
			det := strings.ReplaceAll(e.detail, "\n", " ")
			if len(det) > 100 {
				det = det[:100]
			}
			hdr := fmt.Sprintf("# %s:%d %s %s\n", rel, e.line, e.op, det)
			os.WriteFile(filepath.Join(*out, fmt.Sprintf("%05d.diff", n)), append([]byte(hdr), d...), 0o644)
			os.Remove(tmp)
		}
	}
	fmt.Println(n, "mutants")
}
