module mutgen

go 1.23
