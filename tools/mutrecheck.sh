#!/bin/bash
# usage: tools/mutrecheck.sh <mutants-dir> <results-file-of-a-previous-run> <out-dir> <workers>
# Re-runs only the checks (not the test suite) on the mutants that passed the suite in a previous run.
set -u
MUT=$1; PREV=$2; RES=$3; N=${4:-8}
mkdir -p "$RES"; cp /verif/bin/hagcheck /tmp/hagcheck_mut
ids=$(awk '$2=="detected"||$2=="survived"{print $1}' "$PREV")
worker() {
  k=$1; WT=/tmp/mr-$k
  git -C /repo worktree remove --force $WT >/dev/null 2>&1
  git -C /repo worktree add --detach $WT HEAD -q || exit 2
  i=0
  for id in $ids; do
    i=$((i+1)); [ $((i % N)) -eq $k ] || continue
    cd $WT; git checkout -q -- . ; git clean -fdq
    git apply $MUT/$id.diff 2>/dev/null || { echo "$id noapply" > $RES/$id.txt; continue; }
    OUT=$(mktemp -d)
    /tmp/hagcheck_mut -property all -tier quick -repo $WT -verif /verif -out $OUT > $OUT/all.log 2>&1
    props=$(awk '/^hagcheck property=/{split($2,a,"="); p=a[2]} /^VIOLATION|^UNDECIDED/{print p}' $OUT/all.log | sort -u | paste -sd,)
    rm -rf $OUT
    if [ -n "$props" ]; then echo "$id detected $props" > $RES/$id.txt; else echo "$id survived" > $RES/$id.txt; fi
  done
  cd /; git -C /repo worktree remove --force $WT >/dev/null 2>&1
}
for k in $(seq 0 $((N-1))); do worker $k & done
wait
cat $RES/*.txt | awk '{print $2}' | sort | uniq -c
