#!/bin/sh
# usage: tools/seedcheck.sh <patch.diff> [property ...]   (default: every claimed property)
# Applies a seeded change to /repo, runs the quick checks, prints which fire, and reverts the tree.
set -u
PATCH="$1"; shift
cd /repo || exit 2
if [ -n "$(git status --porcelain)" ]; then echo "repo not clean"; exit 2; fi
git apply "$PATCH" || { echo "patch does not apply"; exit 2; }
trap 'git -C /repo checkout -- . ; git -C /repo clean -fdq' EXIT
PROPS="$*"
if [ -z "$PROPS" ]; then PROPS=$(python3 -c "import json;print(' '.join(c['property_id'] for c in json.load(open('/verif/MANIFEST.json'))['checks']))"); fi
OUT=$(mktemp -d)
/verif/bin/hagcheck -property "$(echo $PROPS | tr " " ",")" -tier quick -out "$OUT" > "$OUT/all.log" 2>&1
awk "/^hagcheck property=/{p=\$2} /^== /{print} /rule=|^UNDECIDED/{print}" "$OUT/all.log" | sed "s/^ *//" | cut -c1-260 | grep -v "^== .* exit=0" | sort -u | head -60
for p in __NONE__; do
  /verif/bin/hagcheck -property $p -tier quick -out "$OUT" > "$OUT/$p.log" 2>&1; code=$?
  if [ $code -ne 0 ]; then
    echo "== $p exit=$code"; grep "rule=\|^UNDECIDED" "$OUT/$p.log" | sed 's/^ *//' | cut -c1-260 | sort -u | head -8
  fi
done
rm -rf "$OUT"
