#!/bin/sh
# usage: tools/seedcheck.sh <patch.diff> [property ...]   (default: every claimed property)
# Applies a change to /repo, runs the quick checks in one process, prints what fires, reverts the tree.
# REPO=<dir> and BIN=<hagcheck binary> select another (scratch) tree / checker build.
set -u
REPO=${REPO:-/repo}; BIN=${BIN:-/verif/bin/hagcheck}
PATCH="$1"; shift
cd "$REPO" || exit 2
if [ -n "$(git status --porcelain)" ]; then echo "repo not clean"; exit 2; fi
git apply "$PATCH" || { echo "patch does not apply"; exit 2; }
trap 'git -C "$REPO" checkout -- . ; git -C "$REPO" clean -fdq' EXIT
PROPS="$*"
if [ -z "$PROPS" ]; then PROPS=$(python3 -c "import json;print(' '.join(c['property_id'] for c in json.load(open('/verif/MANIFEST.json'))['checks']))"); fi
OUT=$(mktemp -d)
"$BIN" -property "$(echo $PROPS | tr ' ' ',')," -tier quick -repo "$REPO" -verif /verif -out "$OUT" > "$OUT/all.log" 2>&1
awk '/^hagcheck property=/{split($2,a,"="); p=a[2]} /rule=[A-Za-z0-9-]+ site=/{sub(/^ +/,""); print p": "$0} /^UNDECIDED/{print}' "$OUT/all.log" | cut -c1-250 | sort -u
echo "CHECKED $(grep -c '^hagcheck property=' "$OUT/all.log") properties"
rm -rf "$OUT"
