#!/bin/bash
# usage: tools/psweep.sh <seeds|refs> <shards> <outfile>
# Parallel sweep over scratch worktrees of /repo (never /repo itself): seeds are checked against the check of the
# property they were written for ("own"), refactorings against every check. One line per item in <outfile>.
export GOFLAGS=-mod=mod GOPROXY=off GOSUMDB=off GOTOOLCHAIN=local GOWORK=off
KIND=$1; N=${2:-4}; OUT=${3:-/tmp/psweep.out}
BIN=$(mktemp /tmp/hagcheck.psweep.XXXX); cp /verif/bin/hagcheck $BIN; chmod +x $BIN
: > $OUT
if [ "$KIND" = seeds ]; then ITEMS=$(ls -d /verif/seeded/C*-* | sort -V); else ITEMS=$(ls -d /verif/refactorings/R*-* | sort -V); fi
i=0
for it in $ITEMS; do echo $it >> /tmp/psweep.$$.$((i % N)); i=$((i+1)); done
for s in $(seq 0 $((N-1))); do
  (
    WT=/tmp/psw-$$-$s
    git -C /repo worktree add --detach $WT HEAD -q
    while read it; do
      id=$(basename $it)
      if [ "$KIND" = seeds ]; then
        p=${id%%-*}
        res=$(REPO=$WT BIN=$BIN /verif/tools/seedcheck.sh $it/patch.diff $p 2>&1 | grep -v "KNOWN-FINDING\|conda")
      else
        res=$(REPO=$WT BIN=$BIN /verif/tools/seedcheck.sh $it/patch.diff 2>&1 | grep -v "KNOWN-FINDING\|conda")
      fi
      ck=$(echo "$res" | grep -o "^CHECKED [0-9]*" | awk '{print $2}')
      if [ -z "$ck" ] || [ "$ck" = 0 ]; then echo "$id ERROR $(echo "$res" | head -1 | cut -c1-100)" >> $OUT; continue; fi
      nv=$(echo "$res" | grep -c "rule=")
      nu=$(echo "$res" | grep -c "^UNDECIDED")
      echo "$id violations=$nv undecided=$nu $(echo "$res" | grep "rule=\|^UNDECIDED" | head -2 | cut -c1-160 | paste -sd'|')" >> $OUT
    done < /tmp/psweep.$$.$s
    git -C /repo worktree remove --force $WT
    rm -f /tmp/psweep.$$.$s
  ) &
done
wait
rm -f $BIN
sort -V $OUT -o $OUT
echo "done: $(wc -l < $OUT) items"
