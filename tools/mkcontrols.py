#!/usr/bin/env python3
"""Regenerates /verif/controls/*.json from the table below and checks that every old snippet
occurs exactly once in the current /repo tree (a control whose snippet is gone is reported stale)."""
import json, os, sys
REPO = '/repo'
OUT = '/verif/controls'
C = []
def ctl(name, prop, rule, file, old, new, expect, note=''):
    C.append(dict(name=name, property=prop, rule=rule, file=file, old=old, new=new, expect=expect, note=note))

RT = 'websocket/realtime.go'
# ---- C04 answers
ctl('b1-answer-twice', 'C04', 'B1', RT,
    '''	if req.EntityComponentTypeId == 0 {
		respond.Send(&hagallpb.ErrorResponse{
			Type:      hagallpb.MsgType_MSG_TYPE_ERROR_RESPONSE,
			Timestamp: timestamppb.Now(),
			RequestId: req.RequestId,
			Code:      hagallpb.ErrorCode_ERROR_CODE_BAD_REQUEST,
		})
		return nil
	}

	session := h.CurrentSession()
	if session == nil {
		return errors.New("session not joined").
			WithType(hwebsocket.ErrTypeSessionNotJoined).
			WithTag("msg_type", msg.Type)
	}

	respond.Send(&hagallpb.EntityComponentListResponse{''',
    '''	if req.EntityComponentTypeId == 0 {
		respond.Send(&hagallpb.ErrorResponse{
			Type:      hagallpb.MsgType_MSG_TYPE_ERROR_RESPONSE,
			Timestamp: timestamppb.Now(),
			RequestId: req.RequestId,
			Code:      hagallpb.ErrorCode_ERROR_CODE_BAD_REQUEST,
		})
	}

	session := h.CurrentSession()
	if session == nil {
		return errors.New("session not joined").
			WithType(hwebsocket.ErrTypeSessionNotJoined).
			WithTag("msg_type", msg.Type)
	}

	respond.Send(&hagallpb.EntityComponentListResponse{''',
    'HandleEntityComponentList', 'missing return after the BAD_REQUEST answer: the request is answered twice')
ctl('b1-no-answer', 'C04', 'B1', RT,
    '''	entity, ok := session.EntityByID(req.EntityId)
	if !ok {
		respond.Send(&hagallpb.ErrorResponse{
			Type:      hagallpb.MsgType_MSG_TYPE_ERROR_RESPONSE,
			Timestamp: timestamppb.Now(),
			RequestId: req.RequestId,
			Code:      hagallpb.ErrorCode_ERROR_CODE_NOT_FOUND,
		})
		return nil
	}

	if !session.GetEntityComponents().Delete(''',
    '''	entity, ok := session.EntityByID(req.EntityId)
	if !ok {
		return nil
	}

	if !session.GetEntityComponents().Delete(''',
    'HandleEntityComponentDelete', 'unknown entity silently dropped')
ctl('b2-request-id-dropped', 'C04', 'B2', RT,
    '''		Type:      hagallpb.MsgType_MSG_TYPE_ENTITY_COMPONENT_TYPE_UNSUBSCRIBE_RESPONSE,
		Timestamp: timestamppb.Now(),
		RequestId: req.RequestId,''',
    '''		Type:      hagallpb.MsgType_MSG_TYPE_ENTITY_COMPONENT_TYPE_UNSUBSCRIBE_RESPONSE,
		Timestamp: timestamppb.Now(),''',
    'HandleEntityComponentUnsubscribe')
ctl('b3-wrong-response-type', 'C04', 'B3', RT,
    '''		Type:                  hagallpb.MsgType_MSG_TYPE_ENTITY_COMPONENT_TYPE_GET_ID_RESPONSE,''',
    '''		Type:                  hagallpb.MsgType_MSG_TYPE_ENTITY_COMPONENT_TYPE_ADD_RESPONSE,''',
    'HandleEntityComponentGetID')
ctl('b4-wrong-code', 'C04', 'B4', 'modules/odal/odal.go',
    '''			Code:      hagallpb.ErrorCode_ERROR_CODE_UNAUTHORIZED,''',
    '''			Code:      hagallpb.ErrorCode_ERROR_CODE_NOT_FOUND,''',
    'handleAssetInstanceAdd')
ctl('b5-mutate-before-validate', 'C04', 'B5', RT,
    '''	if err := session.GetEntityComponents().Subscribe(req.EntityComponentTypeId, participant.ID); err != nil {''',
    '''	session.GetEntityComponents().AddType("auto")
	if err := session.GetEntityComponents().Subscribe(req.EntityComponentTypeId, participant.ID); err != nil {''',
    'HandleEntityComponentSubscribe', 'a refused subscribe still registers a type')
ctl('b6-answer-to-someone-else', 'C04', 'B6', RT,
    '''	respond.Send(&hagallpb.EntityComponentTypeSubscribeResponse{''',
    '''	participant.Responder.Send(&hagallpb.EntityComponentTypeSubscribeResponse{''',
    'HandleEntityComponentSubscribe')
ctl('j2-use-before-joined-test', 'C04', 'J2', RT,
    '''	session := h.CurrentSession()
	if session == nil {
		return errors.New("session not joined").
			WithType(hwebsocket.ErrTypeSessionNotJoined).
			WithTag("msg_type", msg.Type)
	}

	respond.Send(&hagallpb.EntityComponentTypeAddResponse{''',
    '''	session := h.CurrentSession()

	respond.Send(&hagallpb.EntityComponentTypeAddResponse{''',
    'HandleEntityComponentTypeAdd')

os.makedirs(OUT, exist_ok=True)
bad = 0
names = set()
for c in C:
    assert c['name'] not in names, c['name']
    names.add(c['name'])
    src = open(os.path.join(REPO, c['file'])).read()
    n = src.count(c['old'])
    if n != 1:
        print('STALE', c['name'], 'old snippet occurs', n, 'times')
        bad += 1
    json.dump(c, open(os.path.join(OUT, c['name'] + '.json'), 'w'), indent=1)
for f in os.listdir(OUT):
    if f.endswith('.json') and f[:-5] not in names:
        os.remove(os.path.join(OUT, f))
print(len(C), 'controls written,', bad, 'stale')
sys.exit(1 if bad else 0)
