#!/usr/bin/env python3
"""Regenerates /verif/controls/*.json from the table below and checks that every old snippet
occurs exactly once in the current /repo tree (a control whose snippet is gone is reported stale)."""
import json, os, sys
REPO = '/repo'
OUT = '/verif/controls'
C = []
def ctl(name, prop, rule, file, old, new, expect, note='', edits=None):
    d = dict(name=name, property=prop, rule=rule, file=file, old=old, new=new, expect=expect, note=note)
    if edits:
        d['edits'] = edits
    C.append(d)

RT = 'websocket/realtime.go'
# ---- C04 answers
ctl('b1-answer-twice', 'C04', 'B1', RT,
    '''	if req.EntityComponentTypeId == 0 {
		respond.Send(&hagallpb.ErrorResponse{
			Type:      hagallpb.MsgType_MSG_TYPE_ERROR_RESPONSE,
			Timestamp: timestamppb.Now(),
			RequestId: req.RequestId,
			Code:      hagallpb.ErrorCode_ERROR_CODE_BAD_REQUEST,
		})
		return nil
	}

	session := h.CurrentSession()
	if session == nil {
		return errors.New("session not joined").
			WithType(hwebsocket.ErrTypeSessionNotJoined).
			WithTag("msg_type", msg.Type)
	}

	respond.Send(&hagallpb.EntityComponentListResponse{''',
    '''	if req.EntityComponentTypeId == 0 {
		respond.Send(&hagallpb.ErrorResponse{
			Type:      hagallpb.MsgType_MSG_TYPE_ERROR_RESPONSE,
			Timestamp: timestamppb.Now(),
			RequestId: req.RequestId,
			Code:      hagallpb.ErrorCode_ERROR_CODE_BAD_REQUEST,
		})
	}

	session := h.CurrentSession()
	if session == nil {
		return errors.New("session not joined").
			WithType(hwebsocket.ErrTypeSessionNotJoined).
			WithTag("msg_type", msg.Type)
	}

	respond.Send(&hagallpb.EntityComponentListResponse{''',
    'HandleEntityComponentList', 'missing return after the BAD_REQUEST answer: the request is answered twice')
ctl('b1-no-answer', 'C04', 'B1', RT,
    '''	entity, ok := session.EntityByID(req.EntityId)
	if !ok {
		respond.Send(&hagallpb.ErrorResponse{
			Type:      hagallpb.MsgType_MSG_TYPE_ERROR_RESPONSE,
			Timestamp: timestamppb.Now(),
			RequestId: req.RequestId,
			Code:      hagallpb.ErrorCode_ERROR_CODE_NOT_FOUND,
		})
		return nil
	}

	if !session.GetEntityComponents().Delete(''',
    '''	entity, ok := session.EntityByID(req.EntityId)
	if !ok {
		return nil
	}

	if !session.GetEntityComponents().Delete(''',
    'HandleEntityComponentDelete', 'unknown entity silently dropped')
ctl('b2-request-id-dropped', 'C04', 'B2', RT,
    '''		Type:      hagallpb.MsgType_MSG_TYPE_ENTITY_COMPONENT_TYPE_UNSUBSCRIBE_RESPONSE,
		Timestamp: timestamppb.Now(),
		RequestId: req.RequestId,''',
    '''		Type:      hagallpb.MsgType_MSG_TYPE_ENTITY_COMPONENT_TYPE_UNSUBSCRIBE_RESPONSE,
		Timestamp: timestamppb.Now(),''',
    'HandleEntityComponentUnsubscribe')
ctl('b3-wrong-response-type', 'C04', 'B3', RT,
    '''		Type:                  hagallpb.MsgType_MSG_TYPE_ENTITY_COMPONENT_TYPE_GET_ID_RESPONSE,''',
    '''		Type:                  hagallpb.MsgType_MSG_TYPE_ENTITY_COMPONENT_TYPE_ADD_RESPONSE,''',
    'HandleEntityComponentGetID')
ctl('b4-wrong-code', 'C04', 'B4', 'modules/odal/odal.go',
    '''			Code:      hagallpb.ErrorCode_ERROR_CODE_UNAUTHORIZED,''',
    '''			Code:      hagallpb.ErrorCode_ERROR_CODE_NOT_FOUND,''',
    'handleAssetInstanceAdd')
ctl('b5-mutate-before-validate', 'C04', 'B5', RT,
    '''	if err := session.GetEntityComponents().Subscribe(req.EntityComponentTypeId, participant.ID); err != nil {''',
    '''	session.GetEntityComponents().AddType("auto")
	if err := session.GetEntityComponents().Subscribe(req.EntityComponentTypeId, participant.ID); err != nil {''',
    'HandleEntityComponentSubscribe', 'a refused subscribe still registers a type')
ctl('b6-answer-to-someone-else', 'C04', 'B6', RT,
    '''	respond.Send(&hagallpb.EntityComponentTypeSubscribeResponse{''',
    '''	participant.Responder.Send(&hagallpb.EntityComponentTypeSubscribeResponse{''',
    'HandleEntityComponentSubscribe')
ctl('j2-use-before-joined-test', 'C04', 'J2', RT,
    '''	session := h.CurrentSession()
	if session == nil {
		return errors.New("session not joined").
			WithType(hwebsocket.ErrTypeSessionNotJoined).
			WithTag("msg_type", msg.Type)
	}

	respond.Send(&hagallpb.EntityComponentTypeAddResponse{''',
    '''	session := h.CurrentSession()

	respond.Send(&hagallpb.EntityComponentTypeAddResponse{''',
    'HandleEntityComponentTypeAdd')


VJ = 'modules/vikja/vikja.go'
OD = 'modules/odal/odal.go'
# ---- relays
ctl('c1-change-not-relayed', 'C02', 'C1', RT,
    """	session.RemoveEntity(entity)
	participant.RemoveEntity(entity)

	respond.Send(&hagallpb.EntityDeleteResponse{
		Type:      hagallpb.MsgType_MSG_TYPE_ENTITY_DELETE_RESPONSE,
		Timestamp: now,
		RequestId: req.RequestId,
	})

	h.FeatureFlags.IfNotSet(featureflag.FlagDisableEntityDeleteBroadcast, func() {
		session.Broadcast(participant, &hagallpb.EntityDeleteBroadcast{
			Type:            hagallpb.MsgType_MSG_TYPE_ENTITY_DELETE_BROADCAST,
			Timestamp:       now,
			OriginTimestamp: req.Timestamp,
			EntityId:        entity.ID,
		})
	})
""",
    """	session.RemoveEntity(entity)
	participant.RemoveEntity(entity)

	respond.Send(&hagallpb.EntityDeleteResponse{
		Type:      hagallpb.MsgType_MSG_TYPE_ENTITY_DELETE_RESPONSE,
		Timestamp: now,
		RequestId: req.RequestId,
	})
""", 'HandleEntityDelete', 'entity deletion no longer relayed')
ctl('c1-relayed-twice', 'C02', 'C1', VJ,
    """	session.Broadcast(participant, &vikjapb.EntityActionBroadcast{""",
    """	session.Broadcast(participant, &vikjapb.EntityActionBroadcast{
		Type:            vikjapb.MsgType_MSG_TYPE_VIKJA_ENTITY_ACTION_BROADCAST,
		Timestamp:       now,
		OriginTimestamp: req.Timestamp,
		EntityAction:    entityAction,
	})
	session.Broadcast(participant, &vikjapb.EntityActionBroadcast{""", 'handleSetEntityAction')
ctl('c1-relay-before-change', 'C02', 'C1', RT,
    """	entity.SetPose(models.Pose{
		PX: update.Pose.Px,
		PY: update.Pose.Py,
		PZ: update.Pose.Pz,
		RX: update.Pose.Rx,
		RY: update.Pose.Ry,
		RZ: update.Pose.Rz,
		RW: update.Pose.Rw,
	})

	h.FeatureFlags.IfNotSet(featureflag.FlagDisableEntityUpdatePoseBroadcast, func() {
		session.Broadcast(participant, &hagallpb.EntityUpdatePoseBroadcast{
			Type:            hagallpb.MsgType_MSG_TYPE_ENTITY_UPDATE_POSE_BROADCAST,
			Timestamp:       timestamppb.Now(),
			OriginTimestamp: update.Timestamp,
			EntityId:        entity.ID,
			Pose:            entity.Pose().ToProtobuf(),
		})
	})
""",
    """	h.FeatureFlags.IfNotSet(featureflag.FlagDisableEntityUpdatePoseBroadcast, func() {
		session.Broadcast(participant, &hagallpb.EntityUpdatePoseBroadcast{
			Type:            hagallpb.MsgType_MSG_TYPE_ENTITY_UPDATE_POSE_BROADCAST,
			Timestamp:       timestamppb.Now(),
			OriginTimestamp: update.Timestamp,
			EntityId:        entity.ID,
			Pose:            entity.Pose().ToProtobuf(),
		})
	})

	entity.SetPose(models.Pose{
		PX: update.Pose.Px,
		PY: update.Pose.Py,
		PZ: update.Pose.Pz,
		RX: update.Pose.Rx,
		RY: update.Pose.Ry,
		RZ: update.Pose.Rz,
		RW: update.Pose.Rw,
	})
""", 'HandleEntityUpdatePose', 'stale pose relayed: the relay precedes the change')
ctl('c2-sender-not-excluded', 'C02', 'C2', OD,
    """	session.Broadcast(participant, &odalpb.AssetInstanceAddBroadcast{""",
    """	session.Broadcast(nil, &odalpb.AssetInstanceAddBroadcast{""", 'handleAssetInstanceAdd')
# ---- flags
ctl('c4-wrong-flag', 'C17', 'C4b', RT,
    """	h.FeatureFlags.IfNotSet(featureflag.FlagDisableEntityAddBroadcast, func() {""",
    """	h.FeatureFlags.IfNotSet(featureflag.FlagDisableEntityDeleteBroadcast, func() {""", 'HandleEntityAdd')
ctl('c4-unflagged-emission', 'C17', 'C4b', RT,
    """	h.FeatureFlags.IfNotSet(featureflag.FlagDisableParticipantLeaveBroadcast, func() {
		session.Broadcast(participant, &hagallpb.ParticipantLeaveBroadcast{
			Type:            hagallpb.MsgType_MSG_TYPE_PARTICIPANT_LEAVE_BROADCAST,
			Timestamp:       now,
			OriginTimestamp: now,
			ParticipantId:   participant.ID,
		})
	})""",
    """	session.Broadcast(participant, &hagallpb.ParticipantLeaveBroadcast{
		Type:            hagallpb.MsgType_MSG_TYPE_PARTICIPANT_LEAVE_BROADCAST,
		Timestamp:       now,
		OriginTimestamp: now,
		ParticipantId:   participant.ID,
	})""", 'leaveSession')
ctl('c4-state-change-under-flag', 'C17', 'C4c', RT,
    """	session.AddEntity(entity)
	participant.AddEntity(entity)

	now := timestamppb.Now()
""",
    """	participant.AddEntity(entity)

	now := timestamppb.Now()
	h.FeatureFlags.IfNotSet(featureflag.FlagDisableEntityAddBroadcast, func() {
		session.AddEntity(entity)
	})
""", 'HandleEntityAdd', 'state change made to depend on the flag')
ctl('c4-flag-read-elsewhere', 'C17', 'C4d', RT,
    """	if len(customMessage.Body) > customMessageMaxSize {""",
    """	if _, off := h.FeatureFlags[featureflag.FlagDisableCustomMessageBroadcast]; off {
		return nil
	}
	if len(customMessage.Body) > customMessageMaxSize {""", 'HandleCustomMessage')
ctl('c4-ifnotset-inverted', 'C17', 'C4e', 'featureflag/featureflag.go',
    """func (f FeatureFlag) IfNotSet(flag Flag, do func()) {
	if _, ok := f[flag]; ok {""",
    """func (f FeatureFlag) IfNotSet(flag Flag, do func()) {
	if _, ok := f[flag]; !ok {""", 'IfNotSet')
# ---- notifications
ctl('c5-add-not-gated', 'C13', 'C5', RT,
    """		session.GetEntityComponents().Notify(entityComponent.EntityComponentTypeId, func(participantIDs []uint32) {
			session.Broadcast(participant, &hagallpb.EntityComponentAddBroadcast{
				Type:            hagallpb.MsgType_MSG_TYPE_ENTITY_COMPONENT_ADD_BROADCAST,
				Timestamp:       now,
				OriginTimestamp: req.Timestamp,
				EntityComponent: &entityComponent,
			})
		})""",
    """		session.Broadcast(participant, &hagallpb.EntityComponentAddBroadcast{
			Type:            hagallpb.MsgType_MSG_TYPE_ENTITY_COMPONENT_ADD_BROADCAST,
			Timestamp:       now,
			OriginTimestamp: req.Timestamp,
			EntityComponent: &entityComponent,
		})""", 'HandleEntityComponentAdd')
ctl('c5-update-to-everyone', 'C13', 'C5', RT,
    """			session.BroadcastTo(participant, &hagallpb.EntityComponentUpdateBroadcast{
				Type:            hagallpb.MsgType_MSG_TYPE_ENTITY_COMPONENT_UPDATE_BROADCAST,
				Timestamp:       timestamppb.Now(),
				OriginTimestamp: req.Timestamp,
				EntityComponent: &entityComponent,
			}, participantIDs...)""",
    """			session.Broadcast(participant, &hagallpb.EntityComponentUpdateBroadcast{
				Type:            hagallpb.MsgType_MSG_TYPE_ENTITY_COMPONENT_UPDATE_BROADCAST,
				Timestamp:       timestamppb.Now(),
				OriginTimestamp: req.Timestamp,
				EntityComponent: &entityComponent,
			})""", 'HandleEntityComponentUpdate')
ctl('c5-notify-wrong-type', 'C13', 'C5', RT,
    """		session.GetEntityComponents().Notify(req.EntityComponentTypeId, func(participantIDs []uint32) {
			session.Broadcast(participant, &hagallpb.EntityComponentDeleteBroadcast{""",
    """		session.GetEntityComponents().Notify(req.EntityId, func(participantIDs []uint32) {
			session.Broadcast(participant, &hagallpb.EntityComponentDeleteBroadcast{""", 'HandleEntityComponentDelete')
# ---- ownership
ctl('d1-guard-compares-entity-id', 'C05', 'D1', RT,
    """	if entity.ParticipantID != participant.ID {
		respond.Send(&hagallpb.ErrorResponse{""",
    """	if entity.ID != participant.ID {
		respond.Send(&hagallpb.ErrorResponse{""", 'HandleEntityDelete')
ctl('d1-pose-guard-removed', 'C05', 'D1', RT,
    """	if entity.ParticipantID != participant.ID {
		return nil
	}

	if update.Pose == nil {""",
    """	if update.Pose == nil {""", 'HandleEntityUpdatePose')
ctl('e4-components-not-dropped', 'C12', 'E4', RT,
    """	session.GetEntityComponents().DeleteByEntityID(entity.ID)
	session.RemoveEntity(entity)
	participant.RemoveEntity(entity)""",
    """	session.RemoveEntity(entity)
	participant.RemoveEntity(entity)""", 'HandleEntityDelete')
# ---- leaving
ctl('e1-persist-flipped', 'C06', 'E1', RT,
    """		if !ok || entity.Persist {
			continue
		}""",
    """		if !ok || !entity.Persist {
			continue
		}""", 'leaveSession')
ctl('e1-subscriptions-kept', 'C06', 'E1', RT,
    """	session.GetEntityComponents().UnsubscribeByParticipant(participant.ID)

""", "\n", 'leaveSession:unsubscribe')
ctl('e1-session-never-ends', 'C07', 'E1', RT,
    """	if session.ParticipantCount() == 0 {
		// Here we use""",
    """	if session.ParticipantCount() == 1 {
		// Here we use""", 'leaveSession')
ctl('e1-modules-not-told', 'C06', 'E1', RT,
    """	for _, m := range h.Modules {
		m.HandleDisconnect()
	}
""", "", 'leaveSession:modules-told')
ctl('e2-disconnect-does-not-leave', 'C06', 'E2', RT,
    """func (h *RealtimeHandler) HandleDisconnect(_ error) {
	if h.currentParticipant != nil {
		h.leaveSession()
	}
}""",
    """func (h *RealtimeHandler) HandleDisconnect(_ error) {
}""", 'disconnect-leaves')
ctl('e3-module-keeps-nonpersistent', 'C06', 'E3', VJ,
    """		if entity, ok := m.currentSession.EntityByID(entityID); !ok || !entity.Persist {
			m.state.RemoveEntityActions(entityID)""",
    """		if entity, ok := m.currentSession.EntityByID(entityID); !ok && !entity.Persist {
			m.state.RemoveEntityActions(entityID)""", 'vikja')
ctl('e3-module-delete-inverted', 'C06', 'E3', OD,
    """	if _, ok := m.currentSession.EntityByID(req.EntityId); !ok {
		m.state.RemoveAssetInstance(req.EntityId)""",
    """	if _, ok := m.currentSession.EntityByID(req.EntityId); ok {
		m.state.RemoveAssetInstance(req.EntityId)""", 'odal')
ctl('e9-participant-not-cleared', 'C03', 'E9', RT,
    """	h.currentParticipant = nil
	h.currentSession = nil
}""",
    """	h.currentSession = nil
}""", 'leaveSession')
# ---- dispatch / decorators
ctl('a1-arm-removed', 'C04', 'A1', 'websocket/handler.go',
    """	case hagallpb.MsgType_MSG_TYPE_ENTITY_COMPONENT_LIST_REQUEST:
		err = h.Handler.HandleEntityComponentList(ctx, responder, msg)

""", "", 'MSG_TYPE_ENTITY_COMPONENT_LIST_REQUEST')
ctl('a1-modules-before-joined-test', 'C03', 'A1', 'websocket/handler.go',
    """	if h.Handler.CurrentParticipant() == nil || h.Handler.CurrentSession() == nil {
		return nil
	}

	for _, m := range h.Handler.GetModules() {""",
    """	for _, m := range h.Handler.GetModules() {""", 'modules-joined')
ctl('a1-module-gate-removed', 'C03', 'A1', RT,
    """	if h.CurrentParticipant() == nil || h.CurrentSession() == nil {
		return nil
	}

	err := m.HandleMsg(ctx, respond, msg)""",
    """	err := m.HandleMsg(ctx, respond, msg)""", 'HandleWithModule')
ctl('a2-decorator-swallows-disconnect', 'C06', 'A2', 'websocket/logs.go',
    """func (h *handlerWithLogs) HandleDisconnect(err error) {
	h.Handler.HandleDisconnect(err)
""",
    """func (h *handlerWithLogs) HandleDisconnect(err error) {
""", 'handlerWithLogs).HandleDisconnect')
ctl('a2-decorator-drops-error', 'C04', 'A2', 'websocket/metrics.go',
    """	err := f()
	if errors.IsType(err, hwebsocket.ErrTypeMsgSkip) {
		return err
	}""",
    """	err := f()
	if errors.IsType(err, hwebsocket.ErrTypeMsgSkip) {
		return nil
	}""", 'handlerWithMetrics')
ctl('a2-receiver-called-twice', 'C08', 'A2', 'websocket/metrics.go',
    """		msg, n, err := receive()
		if err != nil {
			wsReceiveError.""",
    """		msg, n, err := receive()
		if err != nil {
			msg, n, err = receive()
		}
		if err != nil {
			wsReceiveError.""", 'handlerWithMetrics).Receiver')


EN = 'models/entity.go'
SE = 'models/session.go'
# ---- component store contracts
ctl('s-add-overwrites', 'C12', 'S-Add', EN,
    """	if _, ok := s.entityComponents[ec.EntityComponentTypeId][ec.EntityId]; ok {
		return errors.New("entity component is already added").
			WithType(hwebsocket.ErrEntityComponentTypeAlreadyAdded).
			WithTag("id", ec.EntityComponentTypeId).
			WithTag("entity_id", ec.EntityId)
	}
	s.entityComponents[ec.EntityComponentTypeId][ec.EntityId] = ec
""",
    """	s.entityComponents[ec.EntityComponentTypeId][ec.EntityId] = ec
""", 'Add', 'duplicate check dropped')
ctl('s-add-store-then-refuse', 'C12', 'S-Add', EN,
    """	if _, ok := s.entityComponents[ec.EntityComponentTypeId][ec.EntityId]; ok {
		return errors.New("entity component is already added").""",
    """	if _, ok := s.entityComponents[ec.EntityComponentTypeId][ec.EntityId]; ok {
		s.entityComponents[ec.EntityComponentTypeId][ec.EntityId] = ec
		return errors.New("entity component is already added").""", 'Add:refusal-pure')
ctl('s-update-upserts', 'C12', 'S-Update', EN,
    """	_, ok = entityComponents[ec.EntityId]
	if !ok {
		return errors.New("entity component has not been added").
			WithTag("id", ec.EntityComponentTypeId).
			WithTag("entity_id", ec.EntityId)
	}

	s.entityComponents[ec.EntityComponentTypeId][ec.EntityId] = ec""",
    """	_ = entityComponents
	s.entityComponents[ec.EntityComponentTypeId][ec.EntityId] = ec""", 'Update', 'update of a component that was never added inserts it')
ctl('s-delete-reports-after', 'C12', 'S-Delete', EN,
    """	_, ok = entityComponents[entityID]
	delete(entityComponents, entityID)
	return ok""",
    """	delete(entityComponents, entityID)
	_, ok = entityComponents[entityID]
	return !ok""", 'Delete')
ctl('s-cascade-first-type-only', 'C12', 'S-DeleteByEntity', EN,
    """	for _, ecs := range s.entityComponents {
		delete(ecs, entityID)
	}""",
    """	for _, ecs := range s.entityComponents {
		delete(ecs, entityID)
		break
	}""", 'DeleteByEntityID')
ctl('s-list-skips', 'C12', 'S-List', EN,
    """	for _, ec := range s.entityComponents[entityComponentTypeID] {
		list = append(list, ec)
	}""",
    """	for _, ec := range s.entityComponents[entityComponentTypeID] {
		if len(ec.Data) == 0 {
			continue
		}
		list = append(list, ec)
	}""", 'List')
ctl('d4-addtype-not-idempotent', 'C12', 'D4', EN,
    """	if eaID, ok := s.idIndex[name]; ok {
		return eaID
	}

	id := s.ids.New()""",
    """	id := s.ids.New()""", 'AddType')
ctl('d4-addtype-one-index', 'C10', 'D4', EN,
    """	s.nameIndex[id] = name
	s.idIndex[name] = id
	return id""",
    """	s.idIndex[name] = id
	return id""", 'AddType')
# ---- subscriptions
ctl('s-subscribe-unregistered', 'C13', 'S-Subscribe', EN,
    """	if _, ok := s.nameIndex[entityComponentTypeID]; !ok {
		return errors.New("entity component type is not added").
			WithType(hwebsocket.ErrEntityComponentTypeNotAdded).
			WithTag("id", entityComponentTypeID)
	}

	if _, ok := s.subscriptions[entityComponentTypeID]; !ok {""",
    """	if _, ok := s.subscriptions[entityComponentTypeID]; !ok {""", 'Subscribe')
ctl('s-unsubscribe-noop', 'C13', 'S-Unsubscribe', EN,
    """	delete(s.subscriptions[entityComponentTypeID], participantID)
}""",
    """	delete(s.subscriptions[participantID], entityComponentTypeID)
}""", 'Unsubscribe')
ctl('s-unsubscribe-all-partial', 'C13', 'S-UnsubscribeAll', EN,
    """	for _, subscriptions := range s.subscriptions {
		delete(subscriptions, participantID)
	}""",
    """	for typeID, subscriptions := range s.subscriptions {
		if typeID == 1 {
			continue
		}
		delete(subscriptions, participantID)
	}""", 'UnsubscribeByParticipant')
ctl('s-notify-always', 'C13', 'S-Notify', EN,
    """	subscriptions := s.subscriptions[entityComponentTypeID]
	if len(subscriptions) == 0 {
		return
	}
""",
    """	subscriptions := s.subscriptions[entityComponentTypeID]
	_ = subscriptions
""", 'Notify')
# ---- ids
ctl('d3-recycled-stays-in-pool', 'C10', 'D3', 'models/id.go',
    """	for id := range g.reusableIDs {
		delete(g.reusableIDs, id)
		return id
	}""",
    """	for id := range g.reusableIDs {
		return id
	}""", 'New')
ctl('d3-entity-id-reused', 'C10', 'D3', SE,
    """	delete(s.entities, e.ID)
}""",
    """	delete(s.entities, e.ID)
	s.entityIDs.Reuse(e.ID)
}""", 'Reuse')
ctl('d3-participant-id-reused', 'C05', 'D3', SE,
    """	delete(s.participants, p.ID)
}""",
    """	delete(s.participants, p.ID)
	s.participantIDs.Reuse(p.ID)
}""", 'Reuse')
# ---- broadcast
ctl('c3-sender-not-skipped', 'C02', 'C3', SE,
    """	for _, p := range s.participants {
		if p == sender {
			continue
		}
		p.Responder.SendMsg(msg)
	}""",
    """	for _, p := range s.participants {
		p.Responder.SendMsg(msg)
	}""", 'Broadcast')
ctl('c3-broadcastto-no-dedupe', 'C14', 'C3', SE,
    """		if _, ok := isParticipantHandled[p.ID]; ok {
			continue
		}
		isParticipantHandled[p.ID] = struct{}{}
""", """		_ = isParticipantHandled
""", 'BroadcastTo')
ctl('c3-broadcastto-sender-served', 'C14', 'C3', SE,
    """		p, ok := s.participants[id]
		if !ok || p == sender {
			continue
		}
""",
    """		p, ok := s.participants[id]
		if !ok {
			continue
		}
""", 'BroadcastTo')
ctl('j6-unknown-id-served', 'C14', 'C3', SE,
    """		p, ok := s.participants[id]
		if !ok || p == sender {
			continue
		}
""",
    """		p := s.participants[id]
		if p == sender {
			continue
		}
""", 'BroadcastTo', 'an id naming nobody in this session is dereferenced / served')
BT_LOCKED = """	// Like Broadcast, deliver under the participant lock: a participant that
	// has left the session must not be served from an earlier snapshot.
	s.participantMutex.RLock()
	defer s.participantMutex.RUnlock()

	isParticipantHandled := make(map[uint32]struct{}, len(participantIds))
	for _, id := range participantIds {
		p, ok := s.participants[id]
		if !ok || p == sender {
			continue
		}
"""
BT_SNAPSHOT = """	isParticipantHandled := make(map[uint32]struct{}, len(participantIds))
	for _, p := range s.GetParticipantsByIDs(participantIds...) {
		if p == sender {
			continue
		}
"""
for prop in ('C03', 'C14', 'C01'):
    ctl('c3-broadcastto-from-snapshot-' + prop.lower(), prop, 'C3', SE, BT_LOCKED, BT_SNAPSHOT, 'BroadcastTo:delivers-under-lock',
        'defect repaired in decbdf7: targeted delivery from a snapshot taken before the recipient left')
ctl('c3-broadcast-from-snapshot', 'C03', 'C3', SE,
    """func (s *Session) Broadcast(sender *Participant, protoMsg hwebsocket.ProtoMsg) {
	s.participantMutex.RLock()
	defer s.participantMutex.RUnlock()
""",
    """func (s *Session) Broadcast(sender *Participant, protoMsg hwebsocket.ProtoMsg) {
	s.participantMutex.RLock()
	s.participantMutex.RUnlock()
""", 'Broadcast', 'the lock is dropped before the delivery loop')
ctl('j6-recipient-resolution', 'C14', 'J6', SE,
    """		p, ok := s.participants[id]
		if ok {
			participants = append(participants, p)
		}""",
    """		p, ok := s.participants[id]
		if !ok {
			participants = append(participants, p)
		}""", 'GetParticipantsByIDs')


DG = 'modules/dagaz/dagaz.go'
# ---- error discipline / nil sub-messages
ctl('err-update-result-dropped', 'C12', 'ERR', RT,
    """	if err := session.GetEntityComponents().Update(&entityComponent); err != nil {
		return nil
	}
""",
    """	session.GetEntityComponents().Update(&entityComponent)
""", 'HandleEntityComponentUpdate', 'the defect fixed by dece733, re-introduced')
ctl('g1-pose-nil-check-removed', 'C11', 'G1', RT,
    """	if update.Pose == nil {
		return nil
	}
""", "", 'HandleEntityUpdatePose', 'the defect fixed by daeaa72, re-introduced')
ctl('g1-entity-add-pose-unchecked', 'C08', 'G1', RT,
    """	if req.Pose != nil {
		entity.SetPose(models.Pose{""",
    """	if req.Persist || req.Pose != nil {
		entity.SetPose(models.Pose{""", 'HandleEntityAdd')
ctl('g1-ray-direct-field', 'C08', 'G1', 'modules/dagaz/math.go',
    """	from := NewVector3fFromProtobuf(protoRay.GetFrom())""",
    """	from := Vector3f{x: protoRay.From.X, y: protoRay.From.Y, z: protoRay.From.Z}""", 'NewRayFromProtobuf')
# ---- custom messages
ctl('h1-limit-off-by-one', 'C14', 'H1', RT,
    """	if len(customMessage.Body) > customMessageMaxSize {""",
    """	if len(customMessage.Body) >= customMessageMaxSize {""", 'HandleCustomMessage')
ctl('h1-limit-constant-changed', 'C14', 'H1', RT,
    """const customMessageMaxSize = 10240""",
    """const customMessageMaxSize = 10 * 1000""", 'HandleCustomMessage')
ctl('h4-body-truncated', 'C14', 'H4', RT,
    """			Body:            customMessage.Body,""",
    """			Body:            customMessage.Body[:len(customMessage.Body)/2*2],""", 'HandleCustomMessage:body')
ctl('h4-wrong-stamp', 'C14', 'H4', RT,
    """			ParticipantId:   participant.ID,
			Body:""",
    """			ParticipantId:   session.ID,
			Body:""", 'HandleCustomMessage:stamp')
ctl('h4-targeted-goes-to-all', 'C14', 'H4', RT,
    """			session.BroadcastTo(participant, &customMessageBroadcast, customMessage.ParticipantIds...)
			return""",
    """			session.BroadcastTo(participant, &customMessageBroadcast, customMessage.ParticipantIds...)""", 'HandleCustomMessage')
# ---- signed latency start
ctl('h2-range-widened', 'C18', 'H2', RT,
    """	if req.IterationCount < 3 || req.IterationCount > 50 {""",
    """	if req.IterationCount < 3 || req.IterationCount > 500 {""", 'HandleSignedLatency:rounds')
ctl('h2-wallet-check-removed', 'C18', 'H2', RT,
    """	if req.WalletAddress == "" {
		respond.Send(&hagallpb.ErrorResponse{
			Type:      hagallpb.MsgType_MSG_TYPE_ERROR_RESPONSE,
			Timestamp: timestamppb.Now(),
			RequestId: req.RequestId,
			Code:      hagallpb.ErrorCode_ERROR_CODE_BAD_REQUEST,
		})
		return nil

	}
""", "", 'HandleSignedLatency:wallet')
ctl('i2-session-id-instead-of-uuid', 'C18', 'I2', RT,
    """		h.currentSession.SessionUUID, h.clientID, req.WalletAddress)""",
    """		h.Sessions.GlobalSessionID(h.currentSession.ID), h.clientID, req.WalletAddress)""", 'HandleSignedLatency:bindings')
# ---- entity actions / assets
ctl('h3-comparison-reversed', 'C16', 'H3', VJ,
    """	if ok && entityAction.Timestamp.AsTime().Before(latestEntityAction.Timestamp.AsTime()) {""",
    """	if ok && entityAction.Timestamp.AsTime().After(latestEntityAction.Timestamp.AsTime()) {""", 'handleSetEntityAction')
ctl('h3-equal-refused', 'C16', 'H3', VJ,
    """	if ok && entityAction.Timestamp.AsTime().Before(latestEntityAction.Timestamp.AsTime()) {""",
    """	if ok && !entityAction.Timestamp.AsTime().After(latestEntityAction.Timestamp.AsTime()) {""", 'handleSetEntityAction')
ctl('h3-lookup-by-name-only', 'C16', 'H3', VJ,
    """	latestEntityAction, ok := m.state.EntityAction(entityAction.EntityId, entityAction.Name)""",
    """	latestEntityAction, ok := m.state.EntityAction(req.RequestId, entityAction.Name)""", 'handleSetEntityAction:lookup-key')
ctl('s-actions-keyed-by-name-only', 'C16', 'S-Actions', 'modules/vikja/state.go',
    """	entityActions, ok := s.entityActions[ea.EntityId]
	if !ok {
		entityActions = make(map[string]*vikjapb.EntityAction)
		s.entityActions[ea.EntityId] = entityActions
	}""",
    """	entityActions, ok := s.entityActions[0]
	if !ok {
		entityActions = make(map[string]*vikjapb.EntityAction)
		s.entityActions[0] = entityActions
	}""", 'SetEntityAction')
ctl('s-assets-keyed-by-instance', 'C16', 'S-Assets', 'modules/odal/state.go',
    """	s.assetInstances[ai.EntityId] = ai""",
    """	s.assetInstances[ai.Id] = ai""", 'SetAssetInstance')
ctl('d5-asset-id-from-request', 'C16', 'D5', OD,
    """		Id:            m.state.NewAssetInstanceID(),""",
    """		Id:            req.RequestId,""", 'handleAssetInstanceAdd')
# ---- snapshot
ctl('c7-snapshot-before-registration', 'C01', 'C7', RT,
    """	session.AddParticipant(participant)
	h.stopFrameHandling = session.HandleFrame(handleFrame)
""",
    """	h.stopFrameHandling = session.HandleFrame(handleFrame)
	defer session.AddParticipant(participant)
""", 'registered-before-snapshot')
ctl('c7-snapshot-without-components', 'C01', 'C7', RT,
    """			EntityComponents: session.GetEntityComponents().ListAll(),""",
    """			EntityComponents: session.GetEntityComponents().List(1),""", 'snapshot-content')
ctl('c7-entity-serialiser-drops-owner', 'C01', 'C7', EN,
    """		Id:            e.ID,
		ParticipantId: e.ParticipantID,""",
    """		Id:            e.ID,
		ParticipantId: e.ID,""", 'ToProtobuf:fields')
ctl('c7-module-state-empty', 'C16', 'C7', OD,
    """		AssetInstances: m.state.AssetInstances(),""",
    """		AssetInstances: nil,""", 'handleParticipantJoin')
ctl('c11-relay-requested-pose-not-stored', 'C11', 'C11-pose', RT,
    """			Pose:            entity.Pose().ToProtobuf(),""",
    """			Pose:            update.Pose,""", 'HandleEntityUpdatePose')
# ---- module init
ctl('j4-grid-reset-on-join', 'C20', 'J4', DG,
    """	m.state = state.(*State)
}""",
    """	m.state = state.(*State)

	m.state.SpatialPartition = NewRegularGrid(1, 1, 2)
}""", 'dagaz.(*Module).Init', 'the defect fixed in dagaz Init, re-introduced')
ctl('j4-state-replaced-on-join', 'C16', 'J4', VJ,
    """	state, ok := s.ModuleState(m.Name())
	if !ok {
		state = s.LoadOrStoreModuleState(m.Name(), &State{})
	}""",
    """	state, ok := s.ModuleState(m.Name())
	if !ok || p.ID == 1 {
		state = &State{}
		s.SetModuleState(m.Name(), state)
	}""", 'vikja.(*Module).Init')
ctl('j4-private-state-on-join', 'C16', 'J3', VJ,
    """	state, ok := s.ModuleState(m.Name())
	if !ok {
		state = s.LoadOrStoreModuleState(m.Name(), &State{})
	}""",
    """	state, ok := s.ModuleState(m.Name())
	if !ok {
		state = &State{}
		s.LoadOrStoreModuleState(m.Name(), state)
	}""", 'vikja.(*Module).Init', 'the module binds to the state it made, not to the one the session says is registered')
ctl('j3-module-keeps-old-session', 'C03', 'J3', OD,
    """func (m *Module) Init(s *models.Session, p *models.Participant) {
	m.currentSession = s
	m.currentParticipant = p
""",
    """func (m *Module) Init(s *models.Session, p *models.Participant) {
	if m.currentSession == nil {
		m.currentSession = s
	}
	m.currentParticipant = p
""", 'odal.(*Module).Init')


HD = 'websocket/handler.go'
# ---- concurrency
ctl('f1-getter-without-lock', 'C09', 'F1', SE,
    """func (s *Session) EntityByID(id uint32) (*Entity, bool) {
	s.entityMutex.RLock()
	defer s.entityMutex.RUnlock()
""",
    """func (s *Session) EntityByID(id uint32) (*Entity, bool) {
""", 'Session.entities')
ctl('f1-write-under-read-lock', 'C09', 'F1', SE,
    """func (s *Session) AddEntity(e *Entity) {
	s.entityMutex.Lock()
	defer s.entityMutex.Unlock()
""",
    """func (s *Session) AddEntity(e *Entity) {
	s.entityMutex.RLock()
	defer s.entityMutex.RUnlock()
""", 'Session.entities')
ctl('f1-grid-lock-dropped', 'C09', 'F1', 'modules/dagaz/state.go',
    """func (s *State) debugInfo() SpatialDebugInfo {
	s.mutex.Lock()
	defer s.mutex.Unlock()

""",
    """func (s *State) debugInfo() SpatialDebugInfo {
""", 'RegularGrid')
ctl('f3-lock-order-inverted', 'C09', 'F3', EN,
    """func (s *EntityComponentStore) ListAll() []*hagallpb.EntityComponent {
	s.mutex.RLock()
	defer s.mutex.RUnlock()
""",
    """func (s *EntityComponentStore) ListAll() []*hagallpb.EntityComponent {
	s.mutex.RLock()
	defer s.mutex.RUnlock()
	s.subscriptionMutex.RLock()
	defer s.subscriptionMutex.RUnlock()
""", 'order[')
ctl('f3-reentrant-read-lock', 'C09', 'F3', SE,
    """	for _, p := range s.participants {
		if p == sender {
			continue
		}
		p.Responder.SendMsg(msg)
	}""",
    """	if s.ParticipantCount() < 2 {
		return
	}
	for _, p := range s.participants {
		if p == sender {
			continue
		}
		p.Responder.SendMsg(msg)
	}""", 'reentrant[Session.participantMutex]')
ctl('f5-guarded-map-handed-out', 'C09', 'F5', SE,
    """func (s *Session) ParticipantCount() int {""",
    """func (s *Session) ParticipantMap() map[uint32]*Participant {
	s.participantMutex.RLock()
	defer s.participantMutex.RUnlock()

	return s.participants
}

func (s *Session) ParticipantCount() int {""", 'ParticipantMap')
ctl('f6-lock-leaked-on-early-return', 'C09', 'F6', EN,
    """func (s *EntityComponentStore) Delete(entityComponentTypeID uint32, entityID uint32) bool {
	s.mutex.Lock()
	defer s.mutex.Unlock()

	entityComponents, ok := s.entityComponents[entityComponentTypeID]
	if !ok {
		return false
	}

	_, ok = entityComponents[entityID]
	delete(entityComponents, entityID)
	return ok
}""",
    """func (s *EntityComponentStore) Delete(entityComponentTypeID uint32, entityID uint32) bool {
	s.mutex.Lock()

	entityComponents, ok := s.entityComponents[entityComponentTypeID]
	if !ok {
		return false
	}

	_, ok = entityComponents[entityID]
	delete(entityComponents, entityID)
	s.mutex.Unlock()
	return ok
}""", 'Delete')
ctl('e8a-check-then-act-split', 'C10', 'E8a', EN,
    """func (s *EntityComponentStore) AddType(name string) uint32 {
	s.mutex.Lock()
	defer s.mutex.Unlock()

	if eaID, ok := s.idIndex[name]; ok {
		return eaID
	}
""",
    """func (s *EntityComponentStore) AddType(name string) uint32 {
	s.mutex.RLock()
	eaID, ok := s.idIndex[name]
	s.mutex.RUnlock()
	if ok {
		return eaID
	}

	s.mutex.Lock()
	defer s.mutex.Unlock()
""", 'AddType')
ctl('f4-main-loop-waits-for-itself', 'C08', 'F4', HD,
    """	select {
	case h.disconnectChan <- err:
	default:
		// A disconnection is already pending: one cause is enough, and the
		// main loop, which also reports failures, must never wait for itself.
	}""",
    """	h.disconnectChan <- err""", 'self-wait[handler.disconnectChan]', 'the defect fixed in handler.disconnect, re-introduced')
ctl('g2-panic-reaches-deferred-close', 'C08', 'G2', HD,
    """			if err := h.safeHandleMessage(ctx, msg, responder); err != nil {""",
    """			if err := h.handleMessage(ctx, msg, responder); err != nil {""", 'deferred-close-vs-panic', 'the defect fixed by safeHandleMessage, re-introduced')
ctl('e5-dispatch-failure-not-reported', 'C08', 'E5', HD,
    """			if err = h.dispatcher.Dispatch(ctx, msg); err != nil {
				h.disconnect(errors.New("dispatching message failed").Wrap(err))
				return
			}""",
    """			if err = h.dispatcher.Dispatch(ctx, msg); err != nil {
				return
			}""", 'startReceiving:failure-reaches-disconnect')
ctl('e5-idle-arm-bypasses-funnel', 'C08', 'E5', HD,
    """		case <-idleTimer.C:
			h.disconnect(errors.New("idle connection").WithTag("duration", h.Handler.IdleTimeout()))
""",
    """		case <-idleTimer.C:
			h.handleDisconnect(errors.New("idle connection").WithTag("duration", h.Handler.IdleTimeout()))
""", 'funnel-in-disconnect-arm')
ctl('e5-funnel-without-cancel', 'C08', 'E5', HD,
    """			h.handleDisconnect(err)
			if ctx.Err() == nil {
				// cancel context so go routines can cleanly exit
				cancel()
			}""",
    """			h.handleDisconnect(err)""", 'funnel-then-exit')
ctl('g5-idle-timer-not-rearmed', 'C08', 'G5', HD,
    """			idleTimer.Stop()
			idleTimer.Reset(idleTimeout)
""",
    """			idleTimer.Stop()
""", 'reset-on-message')
ctl('g6-gauge-never-decremented', 'C08', 'G6', 'websocket/metrics.go',
    """		}).
		Dec()""",
    """		}).
		Add(0)""", 'HandleDisconnect')
ctl('c6-send-queue-drops', 'C02', 'C6', HD,
    """func (h *handler) sendMsg(msg hwebsocket.Msg) {
	h.sendChan <- msg
}""",
    """func (h *handler) sendMsg(msg hwebsocket.Msg) {
	select {
	case h.sendChan <- msg:
	default:
	}
}""", 'sendMsg')
ctl('e2-switch-without-leaving', 'C06', 'E2', RT,
    """	if h.currentParticipant != nil {
		h.leaveSession()
	}

	if !ok {
		session = models.NewSession(""",
    """	if !ok {
		if h.currentParticipant != nil {
			h.leaveSession()
		}
		session = models.NewSession(""", 'HandleParticipantJoin')
ctl('e3-module-delete-unconditional', 'C04', 'E3', VJ,
    """	if _, ok := m.currentSession.EntityByID(req.EntityId); !ok {
		m.state.RemoveEntityActions(req.EntityId)
	}""",
    """	m.state.RemoveEntityActions(req.EntityId)""", 'handleEntityDelete')


SL = 'models/signed_latency.go'
# ---- auth
ctl('i6-handshake-removed', 'C15', 'I6', 'cmd/main.go',
    """		Handshake: hagallhttp.VerifyAuthToken(ctx, hdsClient),
""", "", 'relay-server-handshake')
ctl('i6-smoke-test-unwrapped', 'C15', 'I6', 'cmd/main.go',
    """	service.HandleFunc("/smoke-test", hagallhttp.VerifyAuthTokenHandler(hdsClient, smoketest.HandleSmokeTest(ctx, smoketest.Options{""",
    """	service.HandleFunc("/smoke-test", passthrough(hdsClient, smoketest.HandleSmokeTest(ctx, smoketest.Options{""", 'smoke-test-wrapped',
    'the smoke test mounted behind a wrapper that does not check the token',
    edits=[dict(file='cmd/main.go', old='func pairWithHDS(', new='func passthrough(_ *hds.Client, h http.HandlerFunc) func(http.ResponseWriter, *http.Request) {\n\treturn h\n}\n\nfunc pairWithHDS(')])
ctl('i6-error-ignored-for-empty-token', 'C15', 'I6', 'http/auth.go',
    """			logs.WithClientID(r.Header.Get(httpcmn.HeaderPosemeshClientID)).Warn(err)
			return err
		}""",
    """			logs.WithClientID(r.Header.Get(httpcmn.HeaderPosemeshClientID)).Warn(err)
			if token != "" {
				return err
			}
		}""", 'VerifyAuthToken:gate')
ctl('i6-handler-calls-next-anyway', 'C15', 'I6', 'http/auth.go',
    """			w.WriteHeader(http.StatusUnauthorized)
			return
		}""",
    """			w.WriteHeader(http.StatusUnauthorized)
		}""", 'VerifyAuthTokenHandler:gate')
ctl('i6-token-from-elsewhere', 'C15', 'I6', 'http/auth.go',
    """func VerifyAuthTokenHandler(hdsClient *hds.Client, next http.HandlerFunc) func(http.ResponseWriter, *http.Request) {
	return func(w http.ResponseWriter, r *http.Request) {
		token := httpcmn.GetUserTokenFromHTTPRequest(r)""",
    """func VerifyAuthTokenHandler(hdsClient *hds.Client, next http.HandlerFunc) func(http.ResponseWriter, *http.Request) {
	return func(w http.ResponseWriter, r *http.Request) {
		token := r.Header.Get("X-Access-Token")""", 'VerifyAuthTokenHandler:gate')
# ---- receipts
ctl('i5-blocking-submit', 'C19', 'I5', RT,
    """	select {
	case h.ReceiptChan <- payload:
		respond.Send(&hagallpb.ReceiptResponse{
			Type:      hagallpb.MsgType_MSG_TYPE_RECEIPT_RESPONSE,
			Timestamp: timestamppb.Now(),
			RequestId: req.RequestId,
		})
	default:
		//discard - failsafe if disk is full or whatever
		respond.Send(&hagallpb.ErrorResponse{
			Type:      hagallpb.MsgType_MSG_TYPE_ERROR_RESPONSE,
			Timestamp: timestamppb.Now(),
			RequestId: req.RequestId,
			Code:      hagallpb.ErrorCode_ERROR_CODE_SERVER_TOO_BUSY,
		})
	}
""",
    """	h.ReceiptChan <- payload
	respond.Send(&hagallpb.ReceiptResponse{
		Type:      hagallpb.MsgType_MSG_TYPE_RECEIPT_RESPONSE,
		Timestamp: timestamppb.Now(),
		RequestId: req.RequestId,
	})
""", 'never-blocks')
ctl('i5-payload-altered', 'C19', 'I5', RT,
    """		Hash:      req.GetHash(),
		Signature: req.GetSignature(),""",
    """		Hash:      req.GetSignature(),
		Signature: req.GetHash(),""", 'payload-unchanged')
ctl('i5-invalid-forwarded', 'C19', 'I5', 'receipt/handler.go',
    """						Wrap(err))

				} else {
					rh.ForwardToNCS(ctx, payload)
				}""",
    """						Wrap(err))
				}
				rh.ForwardToNCS(ctx, payload)""", 'invalid-never-forwarded')
ctl('i5-hash-check-dropped', 'C19', 'I5', 'receipt/handler.go',
    """	if !bytes.Equal(hash.Bytes(), payload.Hash) {
		return errors.New("failed to verify receipt hash")
	}
""",
    """	_ = bytes.Equal(hash.Bytes(), payload.Hash)
""", 'VerifyPayload:hash')
ctl('i5-forward-retries', 'C19', 'I5', 'receipt/handler.go',
    """		if err := instrumentReceiptSend(rh.NCSEndpoint, func() error {
			return client.PostReceipt(ctx, payload)
		}); err != nil {
			logs.Warn(errors.New("forward to network credit service failed").Wrap(err))
		}""",
    """		for i := 0; i < 3; i++ {
			if err := instrumentReceiptSend(rh.NCSEndpoint, func() error {
				return client.PostReceipt(ctx, payload)
			}); err != nil {
				logs.Warn(errors.New("forward to network credit service failed").Wrap(err))
			}
		}""", 'ForwardToNCS:once')
# ---- signed latency report
ctl('i4-replay-accepted', 'C18', 'I4', SL,
    """	if !pingRequest.End.IsZero() {
		return errors.New("ping request already answered")
	}
""", "", 'answered-once', 'the defect fixed in OnPing, re-introduced')
ctl('i3-last-from-map-order', 'C18', 'I3', SL,
    """	last = float32(pingRequest.End.Sub(pingRequest.Start).Microseconds())""",
    """	last = latencies[len(latencies)-1]""", 'positional-read[latencies]', 'the defect fixed in OnPing, re-introduced')
ctl('i1-signs-other-bytes', 'C18', 'I1', SL,
    """	signature, err := crypto.Sign(crypto.Keccak256Hash(data).Bytes(), s.privateKey)""",
    """	signature, err := crypto.Sign(crypto.Keccak256Hash([]byte(s.SessionID)).Bytes(), s.privateKey)""", 'signs-what-it-sends')
ctl('i2-report-names-other-client', 'C18', 'I2', SL,
    """		ClientId:       s.ClientID,""",
    """		ClientId:       s.SessionID,""", 'bound-fields')
ctl('i4-round-counted-twice', 'C18', 'I4', SL,
    """	pingRequest.End = time.Now()
	s.Iteration--""",
    """	pingRequest.End = time.Now()
	s.Iteration -= 2""", 'OnPing')
ctl('i2-ping-id-not-recorded', 'C18', 'I2', SL,
    """	pingReqID := uint32(time.Now().UnixNano())
	s.PingRequests[pingReqID] = LatencyMetricsData{""",
    """	pingReqID := uint32(time.Now().UnixNano())
	s.PingRequests[pingReqID+1] = LatencyMetricsData{""", 'id-recorded')
# ---- dagaz
ctl('g3-row-clamp-into-column', 'C08', 'G3', 'modules/dagaz/grid_spatial_partition.go',
    """		cellY = (uint)(math.Min((float64)(cellY), (float64)(len(grid.Grid)-1)))""",
    """		cellX = (uint)(math.Min((float64)(cellY), (float64)(len(grid.Grid)-1)))""", 'IntersectQuad', 'the defect fixed in IntersectQuad, re-introduced')
# ---- Q rules: the ground-plane index (C20)
GSP = 'modules/dagaz/grid_spatial_partition.go'
ctl('q1-z-compared-with-x-bound', 'C20', 'Q1', GSP,
    """	if p.x >= grid.Min.x && p.z >= grid.Min.z && p.x < grid.Max.x && p.z < grid.Max.z {
		return
	}""",
    """	if p.x >= grid.Min.x && p.z >= grid.Min.z && p.x < grid.Max.x && p.z < grid.Max.x {
		return
	}""", 'ExpandToFitPoint:cmp[X~Z]', 'seed C20-3')
ctl('q1-row-from-x-coordinate', 'C20', 'Q1', GSP,
    """		minYGridCoord := (uint)(math.Floor((float64)(minPoint.z-grid.Min.z) / (float64)(grid.Resolution)))
		maxXGridCoord := (uint)(math.Floor((float64)(maxPoint.x-grid.Min.x) / (float64)(grid.Resolution)))
		maxYGridCoord := (uint)(math.Floor((float64)(maxPoint.z-grid.Min.z) / (float64)(grid.Resolution)))

		for i""",
    """		minYGridCoord := (uint)(math.Floor((float64)(minPoint.x-grid.Min.x) / (float64)(grid.Resolution)))
		maxXGridCoord := (uint)(math.Floor((float64)(maxPoint.x-grid.Min.x) / (float64)(grid.Resolution)))
		maxYGridCoord := (uint)(math.Floor((float64)(maxPoint.z-grid.Min.z) / (float64)(grid.Resolution)))

		for i""", 'InsertQuad', 'the first row of a new plane computed from its x coordinate')
ctl('q1-helper-called-across-axes', 'C20', 'Q1', 'modules/dagaz/math.go',
    """				InRangeWithEpsilon(hitPoint.z, minPoint.z, maxPoint.z, 0.0001) {""",
    """				InRangeWithEpsilon(hitPoint.z, minPoint.x, maxPoint.z, 0.0001) {""", 'IntersectQuad:call:', 'through the summary of InRangeWithEpsilon')
ctl('q1-origin-moved-by-other-axis-count', 'C20', 'Q1', GSP,
    """		grid.Min.z = grid.Min.z - (float32)((yCount * (int)(grid.Resolution)))""",
    """		grid.Min.z = grid.Min.z - (float32)((xCount * (int)(grid.Resolution)))""", 'ExpandToFitPoint:arith[X~Z]')
ctl('q1-protobuf-components-crossed', 'C20', 'Q1', 'modules/dagaz/math.go',
    """		y: point.GetY(),
		z: point.GetZ(),""",
    """		y: point.GetZ(),
		z: point.GetY(),""", 'NewVector3fFromProtobuf:store')
ctl('q2-merged-sample-counted', 'C20', 'Q2', GSP,
    """			if hit.Center.Equal(quadToMerge.Center) {
				quadToMerge = nil
				break
			}""",
    """			if hit.Center.Equal(quadToMerge.Center) {
				grid.PlaneCount++
				quadToMerge = nil
				break
			}""", 'InsertQuad:merged-not-counted')
ctl('q2-new-plane-not-counted', 'C20', 'Q2', GSP,
    """		grid.PlaneCount++
	}
}""",
    """	}
}""", 'InsertQuad:new-plane-counted-once')
ctl('q3-region-without-dedup', 'C20', 'Q3', GSP,
    """	quads := make([]*Quad, len(result))
	i := 0
	for k := range result {
		quads[i] = k
		i++
	}

	return quads""",
    """	quads := make([]*Quad, 0, len(result))
	for y := minYGridCoord; y < maxYGridCoord; y++ {
		for x := minXGridCoord; x < maxXGridCoord; x++ {
			quads = append(quads, grid.Grid[y][x]...)
		}
	}

	return quads""", 'GetRegion:result-unique', 'a plane is returned once per cell it covers')
ctl('q3-region-loop-left-early', 'C20', 'Q3', GSP,
    """			for k := 0; k < len(grid.Grid[y][x]); k++ {
				result[grid.Grid[y][x][k]] = true
			}""",
    """			for k := 0; k < len(grid.Grid[y][x]); k++ {
				result[grid.Grid[y][x][k]] = true
				if len(result) >= 64 {
					break
				}
			}""", 'GetRegion:cells-all-visited')
ctl('q4-sample-elements-skipped', 'C20', 'Q4', 'modules/dagaz/state.go',
    """	for _, quad := range quads {
		s.SpatialPartition.InsertQuad(quad)
	}""",
    """	for _, quad := range quads {
		if quad.MergeCount > 0 {
			continue
		}
		s.SpatialPartition.InsertQuad(quad)
	}""", 'insertQuads:every-element')
ctl('q4-region-answer-remembered', 'C20', 'Q4', 'modules/dagaz/state.go',
    """	regionQuads := s.SpatialPartition.GetRegion(min, max)
	regionQuadsProtobuf := make([]*dagazpb.Quad, len(regionQuads))""",
    """	if min == max {
		return nil
	}
	regionQuads := s.SpatialPartition.GetRegion(min, max)
	regionQuadsProtobuf := make([]*dagazpb.Quad, len(regionQuads))""", 'region:answer-from-the-index')
ctl('q5-center-from-extents', 'C20', 'Q5', 'modules/dagaz/math.go',
    """	center := NewVector3fFromProtobuf(protoQuad.GetCenter())
	extents := NewVector3fFromProtobuf(protoQuad.GetExtents())""",
    """	center := NewVector3fFromProtobuf(protoQuad.GetExtents())
	extents := NewVector3fFromProtobuf(protoQuad.GetCenter())""", 'NewQuadFromProtobuf:field')
ctl('q5-region-min-max-crossed', 'C20', 'Q5', 'modules/dagaz/dagaz.go',
    """	regionQuadsProtobuf := m.state.region(NewVector3fFromProtobuf(req.Min), NewVector3fFromProtobuf(req.Max))""",
    """	regionQuadsProtobuf := m.state.region(NewVector3fFromProtobuf(req.Max), NewVector3fFromProtobuf(req.Min))""", 'HandleDagazGetRegion:argument')
ctl('q6-cells-share-one-list', 'C20', 'Q6', GSP,
    """		for i := minYGridCoord; i <= (uint)(math.Min((float64)(maxYGridCoord), (float64)(len(grid.Grid)-1))); i++ {
			for j := minXGridCoord; j <= (uint)(math.Min((float64)(maxXGridCoord), (float64)(len(grid.Grid[i])-1))); j++ {
				grid.Grid[i][j] = append(grid.Grid[i][j], &q)""",
    """		single := []*Quad{&q}
		for i := minYGridCoord; i <= (uint)(math.Min((float64)(maxYGridCoord), (float64)(len(grid.Grid)-1))); i++ {
			for j := minXGridCoord; j <= (uint)(math.Min((float64)(maxXGridCoord), (float64)(len(grid.Grid[i])-1))); j++ {
				if grid.Grid[i][j] == nil {
					grid.Grid[i][j] = single
					continue
				}
				grid.Grid[i][j] = append(grid.Grid[i][j], &q)""", 'InsertQuad:cell-owns-its-list', 'seed C20-15')
ctl('q7-expansion-after-cell-range', 'C20', 'Q7', GSP,
    """	// calculate the min cell and max cell again:
	minPoint = Sub(existingQuad.Center, existingQuad.Extents)
	maxPoint = Add(existingQuad.Center, existingQuad.Extents)""",
    """	// calculate the min cell and max cell again:
	minPoint = Sub(existingQuad.Center, existingQuad.Extents)
	maxPoint = Add(existingQuad.Center, existingQuad.Extents)
	grid.ExpandToFitPoint(&minPoint)
	grid.ExpandToFitPoint(&maxPoint)""", 'mergeQuads:index-after-expansion', 'seed C20-14')
# ---- F2c: container-owning model structs are not copied
ctl('f2c-participant-copied-on-switch', 'C06', 'F2c', RT,
    """	participant := &models.Participant{
		ID:            session.NewParticipantID(),
		Responder:     respond,
		SignedLatency: &models.SignedLatency{},
	}
""",
    """	participant := &models.Participant{
		ID:            session.NewParticipantID(),
		Responder:     respond,
		SignedLatency: &models.SignedLatency{},
	}
	if prev := h.currentParticipant; prev != nil {
		*participant = *prev
		participant.Responder = respond
	}
""", 'HandleParticipantJoin:deref-copy', 'seeds C03-15, C05-15, C06-15')
ctl('f2c-participant-copied-on-switch-c03', 'C03', 'F2c', RT,
    """	participant := &models.Participant{
		ID:            session.NewParticipantID(),
		Responder:     respond,
		SignedLatency: &models.SignedLatency{},
	}
""",
    """	var participant *models.Participant
	if prev := h.currentParticipant; prev != nil {
		cp := *prev
		participant = &cp
	} else {
		participant = &models.Participant{}
	}
	participant.Responder = respond
	participant.SignedLatency = &models.SignedLatency{}
""", 'HandleParticipantJoin:deref-copy')
# ---- G5: every received message reaches the main loop
ctl('g5-message-answered-by-the-receiver', 'C08', 'G5', 'websocket/handler.go',
    """			if err = h.dispatcher.Dispatch(ctx, msg); err != nil {""",
    """			if msg.Type == hagallpb.MsgType_MSG_TYPE_PING_RESPONSE {
				continue
			}
			if err = h.dispatcher.Dispatch(ctx, msg); err != nil {""", 'startReceiving:every-message-dispatched', 'seed C08-16')
ctl('e1-modules-not-told-on-switch-c01', 'C01', 'E1', RT,
    """		m.HandleDisconnect()
""",
    """		_ = m
""", 'leaveSession:modules-told', 'seed C01-14')
# ---- round 8 rules
ctl('s-members-add-evicts-another', 'C02', 'S-Members', 'models/session.go',
    """	s.participants[p.ID] = p
}""",
    """	for id, other := range s.participants {
		if other.Responder == p.Responder {
			delete(s.participants, id)
		}
	}
	s.participants[p.ID] = p
}""", 'AddParticipant:exact', 'seed C02-18')
ctl('s-members-foreign-writer', 'C03', 'S-Members', 'models/session.go',
    """func (s *Session) ParticipantCount() int {
	s.participantMutex.RLock()
	defer s.participantMutex.RUnlock()

	return len(s.participants)
}""",
    """func (s *Session) ParticipantCount() int {
	s.participantMutex.Lock()
	defer s.participantMutex.Unlock()

	for id, p := range s.participants {
		if p == nil {
			delete(s.participants, id)
		}
	}
	return len(s.participants)
}""", 'writer[participants]')
ctl('c7-snapshot-read-before-registration', 'C01', 'C7', RT,
    """	session.AddParticipant(participant)
	h.stopFrameHandling = session.HandleFrame(handleFrame)
""",
    """	entitiesBefore := models.EntitiesToProtobuf(session.Entities())
	_ = entitiesBefore
	session.AddParticipant(participant)
	h.stopFrameHandling = session.HandleFrame(handleFrame)
""", 'reads-after-registration', 'seed C01-19 (the read, wherever its value ends up)')
ctl('e6-frames-cancelled-by-refused-join', 'C11', 'E6', RT,
    """	if h.currentSession != nil && h.Sessions.GlobalSessionID(h.currentSession.ID) == req.SessionId {""",
    """	if h.stopFrameHandling != nil {
		h.stopFrameHandling()
	}
	if h.currentSession != nil && h.Sessions.GlobalSessionID(h.currentSession.ID) == req.SessionId {""",
    'cancels-frames-outside-leave', 'seed C11-17')
ctl('i2-client-id-trimmed', 'C18', 'I2', RT,
    """	h.clientID = req.Header.Get(httpcmn.HeaderPosemeshClientID)""",
    """	h.clientID = strings.ToLower(req.Header.Get(httpcmn.HeaderPosemeshClientID))""",
    'HandleConnect:client-id', 'seed C18-18', edits=[dict(file=RT, old='import (\n\t"context"', new='import (\n\t"strings"\n\t"context"')])
ctl('q8-early-return-after-footprint-change', 'C20', 'Q8', GSP,
    """	// calculate the min cell and max cell again:
	minPoint = Sub(existingQuad.Center, existingQuad.Extents)""",
    """	if existingQuad.Extents.x > 64 {
		return
	}

	// calculate the min cell and max cell again:
	minPoint = Sub(existingQuad.Center, existingQuad.Extents)""", 'mergeQuads:cells-follow-footprint', 'seed C20-17')
ctl('q9-conversion-cleans-components', 'C20', 'Q9', 'modules/dagaz/math.go',
    """		x: point.GetX(),""",
    """		x: float32(math.Max(-1e6, math.Min(1e6, float64(point.GetX())))),""", 'NewVector3fFromProtobuf:verbatim', 'seed C20-18')
ctl('f1-generator-lock-removed', 'C10', 'F1', 'models/id.go',
    """func (g *SequentialIDGenerator) New() uint32 {
	g.mutex.Lock()
	defer g.mutex.Unlock()
""",
    """func (g *SequentialIDGenerator) New() uint32 {
""", 'SequentialIDGenerator', 'seed C10-18 (the generator is shared by everybody who shares its owner)')
ctl('e7-lookup-normalises-the-id', 'C07', 'E7', 'models/session.go',
    """func (s *SessionStore) GetByGlobalID(v string) (*Session, bool) {
	s.initOnce.Do(s.init)
""",
    """func (s *SessionStore) GetByGlobalID(v string) (*Session, bool) {
	s.initOnce.Do(s.init)
	v = strings.ToLower(v)
""", 'GetByGlobalID:verbatim-lookup', 'seed C07-18: a parameter the function re-assigns', edits=[dict(file='models/session.go', old='import (\n\t"context"', new='import (\n\t"strings"\n\t"context"')])
# ---- ids / registry / silent drops / flag set
ctl('d5-asset-id-from-set-size', 'C10', 'D5', 'modules/odal/state.go',
    """	return s.assetInstanceIDs.New()""",
    """	s.assetMutex.RLock()
	defer s.assetMutex.RUnlock()
	return uint32(len(s.assetInstances) + 1)""", 'NewAssetInstanceID')
ctl('d2-owner-reassigned', 'C05', 'D2', RT,
    """	session.AddEntity(entity)
	participant.AddEntity(entity)
""",
    """	session.AddEntity(entity)
	participant.AddEntity(entity)
	if req.Persist {
		entity.ParticipantID = 0
	}
""", 'Entity.ParticipantID')
ctl('e7-lenient-lookup', 'C03', 'E7', SE,
    """	session, ok := s.sessions[v]
	return session, ok""",
    """	session, ok := s.sessions[strings.TrimSpace(v)]
	return session, ok""", 'GetByGlobalID', 'lenient lookup: ids that merely resemble a live id resolve',
    edits=[dict(file='models/session.go', old='import (\n\t"context"\n\t"fmt"\n', new='import (\n\t"context"\n\t"fmt"\n\t"strings"\n')])
ctl('e7-id-released-outside-lock', 'C07', 'E7', SE,
    """	delete(s.sessions, id)
	session.Close()

	s.ids.Reuse(session.ID)

	instrumentDecreaseSessionGauge(session.AppKey)
}""",
    """	delete(s.sessions, id)
	session.Close()
	s.mutex.Unlock()

	s.ids.Reuse(session.ID)

	instrumentDecreaseSessionGauge(session.AppKey)
	s.mutex.Lock()
}""", 'Remove:one-critical-section')
REMOVE_GUARD = """	if registered, ok := s.sessions[id]; !ok || registered != session {
		return
	}
"""
for prop, rule, expect in [('C07', 'E7', 'Remove:idempotent'), ('C10', 'E8', 'leaveSession:session:empty'), ('C09', 'E8', 'leaveSession:session:empty')]:
    ctl('e7-remove-twice-' + prop.lower(), prop, rule, SE, REMOVE_GUARD, "", expect,
        'defect repaired in 5285479: Remove acted on a session that was no longer registered (two simultaneous last departures)')
for mod, lit in [('vikja', '&State{}'), ('odal', '&State{}'), ('dagaz', '&State{SpatialPartition: NewRegularGrid(1, 1, 2)}')]:
    for prop in ('C01', 'C09'):
        ctl('e8-init-two-steps-%s-%s' % (mod, prop.lower()), prop, 'E8', 'modules/%s/%s.go' % (mod, mod),
            "		state = s.LoadOrStoreModuleState(m.Name(), %s)\n" % lit,
            "		state = %s\n		s.SetModuleState(m.Name(), state)\n" % lit,
            'Init:modulestate:missing',
            'defect repaired in bb3d1bf: lookup and registration of the module state in two critical sections')
ctl('j4-loadorstore-replaces', 'C16', 'J4', SE,
    """	if registered, ok := s.moduleStates[moduleName]; ok {
		return registered
	}
	s.moduleStates[moduleName] = state
	return state""",
    """	if registered, ok := s.moduleStates[moduleName]; ok && registered == nil {
		return registered
	}
	s.moduleStates[moduleName] = state
	return state""", 'LoadOrStoreModuleState',
    'an existing module state is replaced by a later joiner')
ctl('j4-loadorstore-split', 'C09', 'E8a', SE,
    """	s.moduleMutex.Lock()
	defer s.moduleMutex.Unlock()

	if registered, ok := s.moduleStates[moduleName]; ok {
		return registered
	}
	s.moduleStates[moduleName] = state
	return state""",
    """	s.moduleMutex.RLock()
	registered, ok := s.moduleStates[moduleName]
	s.moduleMutex.RUnlock()
	if ok {
		return registered
	}
	s.moduleMutex.Lock()
	defer s.moduleMutex.Unlock()
	s.moduleStates[moduleName] = state
	return state""", 'LoadOrStoreModuleState',
    'lookup and registration in two critical sections again, inside the model')
ctl('f5-inner-map-escapes', 'C09', 'F5', 'models/entity.go',
    """	if len(s.entityComponents[entityComponentTypeID]) == 0 {
		return nil
	}
""",
    """	if len(s.InnerOf(entityComponentTypeID)) == 0 {
		return nil
	}
""", 'InnerOf', 'an exported getter hands out the live per-type map (an unexported one that only runs under the lock and whose callers keep the map to themselves is accepted)',
    edits=[dict(file='models/entity.go', old='func (s *EntityComponentStore) ListAll() []*hagallpb.EntityComponent {',
                new='func (s *EntityComponentStore) InnerOf(t uint32) map[uint32]*hagallpb.EntityComponent {\n\tm := s.entityComponents[t]\n\treturn m\n}\n\nfunc (s *EntityComponentStore) ListAll() []*hagallpb.EntityComponent {')])
# ---- round-2 rules
for prop in ('C02', 'C04', 'C01'):
    ctl('b8-accepted-not-applied-' + prop.lower(), prop, 'B8', RT,
        """	session.GetEntityComponents().DeleteByEntityID(entity.ID)
	session.RemoveEntity(entity)
	participant.RemoveEntity(entity)

	respond.Send(&hagallpb.EntityDeleteResponse{""",
        """	if !entity.Persist {
		session.GetEntityComponents().DeleteByEntityID(entity.ID)
		session.RemoveEntity(entity)
		participant.RemoveEntity(entity)
	}

	respond.Send(&hagallpb.EntityDeleteResponse{""", 'HandleEntityDelete:accepted-applies',
        'an explicit delete of a persistent entity is answered with success and not carried out')
for prop in ('C07', 'C08'):
    ctl('e9-membership-after-hooks-' + prop.lower(), prop, 'E9', RT,
        """	h.currentSession = session
	h.currentParticipant = participant

	h.FeatureFlags.IfNotSet(featureflag.FlagDisableSessionState, func() {""",
        """	for _, m := range h.Modules {
		m.Init(session, participant)
	}
	h.currentSession = session
	h.currentParticipant = participant

	h.FeatureFlags.IfNotSet(featureflag.FlagDisableSessionState, func() {""", 'membership-recorded-before-hooks',
        'module hooks run between AddParticipant and the assignment the disconnect path relies on')
ctl('g7-timer-drain-blocks', 'C08', 'G7', HD,
    """			idleTimer.Stop()
			idleTimer.Reset(idleTimeout)
""",
    """			if !idleTimer.Stop() {
				<-idleTimer.C
			}
			idleTimer.Reset(idleTimeout)
""", 'blocks[Timer.C]', 'textbook timer drain: blocks forever when the tick was already consumed by the select')
ctl('g7-receipt-queue-blocks', 'C08', 'G7', RT,
    """	select {
	case h.ReceiptChan <- payload:""",
    """	select {
	case <-ctx.Done():
		return nil
	case h.ReceiptChan <- payload:""", 'blocks[RealtimeHandler.ReceiptChan]',
    'a select without default on the shared receipt queue parks the connection loop while the queue is full',
    edits=[dict(file=RT, old="""	default:
		//discard - failsafe if disk is full or whatever""", new="""	case <-h.discardReceipts():
		//discard - failsafe if disk is full or whatever"""),
           dict(file=RT, old="func (h *RealtimeHandler) HandleWithModule(", new="func (h *RealtimeHandler) discardReceipts() chan struct{} { return nil }\n\nfunc (h *RealtimeHandler) HandleWithModule(")])
ctl('s-assets-keyed-by-instance-id', 'C16', 'S-Assets', 'modules/odal/state.go',
    """	s.assetInstances[ai.EntityId] = ai""",
    """	s.assetInstances[ai.Id] = ai""", 'SetAssetInstance:keyed')
ctl('s-assets-second-writer', 'C16', 'S-Assets', 'modules/odal/state.go',
    """func (s *State) RemoveAssetInstance(entityID uint32) {""",
    """func (s *State) PutAssetInstance(id uint32, ai *odalpb.AssetInstance) {
	s.assetMutex.Lock()
	defer s.assetMutex.Unlock()
	s.assetInstances[id] = ai
}

func (s *State) RemoveAssetInstance(entityID uint32) {""", 'PutAssetInstance:keyed',
    'a new exported writer stores under a caller-chosen key')
ctl('j5-session-in-global', 'C03', 'J5', RT,
    """	h.currentSession = session
	h.currentParticipant = participant

	h.FeatureFlags.IfNotSet(featureflag.FlagDisableSessionState, func() {""",
    """	h.currentSession = session
	h.currentParticipant = participant
	lastJoinedSession = session

	h.FeatureFlags.IfNotSet(featureflag.FlagDisableSessionState, func() {""", 'lastJoinedSession',
    'a package-level variable holds a session: shared by every connection of the process',
    edits=[dict(file=RT, old="func (h *RealtimeHandler) HandleWithModule(", new="var lastJoinedSession *models.Session\n\nfunc (h *RealtimeHandler) HandleWithModule(")])
# ---- rules added from the mutation run and round 3
ctl('b9-unsubscribe-not-performed', 'C13', 'B9', RT,
    """	session.GetEntityComponents().Unsubscribe(req.EntityComponentTypeId, participant.ID)

""", "", 'HandleEntityComponentUnsubscribe:performs', 'unsubscribe acknowledged, subscription kept')
ctl('b9-join-answered-before-member', 'C07', 'B9', RT,
    """	session.AddParticipant(participant)
	h.stopFrameHandling = session.HandleFrame(handleFrame)

	respond.Send(&hagallpb.ParticipantJoinResponse{
		Type:          hagallpb.MsgType_MSG_TYPE_PARTICIPANT_JOIN_RESPONSE,
		Timestamp:     timestamppb.Now(),
		RequestId:     req.RequestId,
		SessionId:     h.Sessions.GlobalSessionID(session.ID),
		SessionUuid:   session.SessionUUID,
		ParticipantId: participant.ID,
	})
""",
    """	respond.Send(&hagallpb.ParticipantJoinResponse{
		Type:          hagallpb.MsgType_MSG_TYPE_PARTICIPANT_JOIN_RESPONSE,
		Timestamp:     timestamppb.Now(),
		RequestId:     req.RequestId,
		SessionId:     h.Sessions.GlobalSessionID(session.ID),
		SessionUuid:   session.SessionUUID,
		ParticipantId: participant.ID,
	})
	session.AddParticipant(participant)
	h.stopFrameHandling = session.HandleFrame(handleFrame)
""", 'HandleParticipantJoin:performs[Session.AddParticipant]', 'join answered with success before the joiner is a member')
ctl('e5-done-at-start', 'C08', 'E5', HD,
    """	wg.Add(1)
	go func() {
		defer wg.Done()
		h.startSending(ctx)
	}()""",
    """	wg.Add(1)
	go func() {
		wg.Done()
		h.startSending(ctx)
	}()""", 'done-when-goroutine-ends')
ctl('e5-surplus-add', 'C08', 'E5', HD,
    """	wg.Add(1)
	go func() {
		defer wg.Done()
		h.startSending(ctx)
	}()""",
    """	wg.Add(2)
	go func() {
		defer wg.Done()
		h.startSending(ctx)
	}()""", 'wait-group-balanced', 'Wait never returns: the handler is wedged after every disconnect')
ctl('g2-panic-swallowed', 'C08', 'G2', HD,
    """			err = errors.New("handling message panicked").WithTag("panic", r)
""", """			_ = r
""", 'recovered-panic-reported')
ctl('i4-end-not-recorded', 'C18', 'I4', 'models/signed_latency.go',
    """	pingRequest.End = time.Now()
""", "", 'end-recorded')
ctl('i4-answered-guard-inverted', 'C18', 'I4', 'models/signed_latency.go',
    """	if !pingRequest.End.IsZero() {""", """	if pingRequest.End.IsZero() {""", 'answered-once')
ctl('i5-empty-field-queued', 'C19', 'I5', RT,
    """	if len(req.GetReceipt()) == 0 || len(req.GetHash()) == 0 || len(req.GetSignature()) == 0 {""",
    """	if len(req.GetReceipt()) == 0 || len(req.GetHash()) == 0 && len(req.GetSignature()) == 0 {""", 'fields-nonempty')
ctl('i5-retry-after-error', 'C19', 'I5', 'receipt/handler.go',
    """		if err := instrumentReceiptSend(rh.NCSEndpoint, func() error {
			return client.PostReceipt(ctx, payload)
		}); err != nil {""",
    """		send := func() error {
			return instrumentReceiptSend(rh.NCSEndpoint, func() error {
				return client.PostReceipt(ctx, payload)
			})
		}
		err := send()
		if err != nil && ctx.Err() == nil {
			err = send()
		}
		if err != nil {""", 'at-most-once-per-path', 'a second attempt after an error can deliver an accepted receipt twice')
ctl('c3-encode-failure-delivered', 'C02', 'C3', SE,
    """		logs.WithTag("message", protoMsg).Debug(err)
		return
	}

	for _, p := range s.participants {""",
    """		logs.WithTag("message", protoMsg).Debug(err)
	}

	for _, p := range s.participants {""", 'nothing-sent-when-encoding-failed')
ctl('e6-slot-from-table-size', 'C11', 'E6', SE,
    """	id := s.frameHandlerIDs.New()
	s.frameHandlers[id] = h""",
    """	id := uint32(len(s.frameHandlers)) + 1
	s.frameHandlers[id] = h""", 'HandleFrame:fresh-slot', 'a slot derived from the table size collides with a live registration after a departure',
    edits=[dict(file=SE, old="\t\tdelete(s.frameHandlers, id)\n\t\ts.frameHandlerIDs.Reuse(id)", new="\t\tdelete(s.frameHandlers, id)")])
ctl('e7-remove-any-registered', 'C07', 'E7', SE,
    """	if registered, ok := s.sessions[id]; !ok || registered != session {""",
    """	if _, ok := s.sessions[id]; !ok {""", 'Remove:idempotent',
    'a stale departure unregisters a newer session that was given the same id')
ctl('b7-unchanged-pose-not-relayed', 'C02', 'B7', RT,
    """	if update.Pose == nil {
		return nil
	}
""",
    """	if update.Pose == nil {
		return nil
	}
	if entity.Pose().PX == update.Pose.Px && entity.Pose().PY == update.Pose.Py && entity.Pose().PZ == update.Pose.Pz {
		return nil
	}
""", 'HandleEntityUpdatePose:silent-drop')
ctl('c4g-flag-names-normalised', 'C17', 'C4g', 'featureflag/featureflag.go',
    """		featureFlag[Flag(f)] = struct{}{}""",
    """		featureFlag[Flag(f+"")[0:len(f)]] = struct{}{}""", 'New:verbatim')


# ---- atomicity, thread classes, frame worker, defer-unlock
ctl('e8-new-check-then-act', 'C07', 'E8', RT,
    """	session.GetEntityComponents().DeleteByEntityID(entity.ID)
	session.RemoveEntity(entity)
	participant.RemoveEntity(entity)

	respond.Send(&hagallpb.EntityDeleteResponse{""",
    """	session.GetEntityComponents().DeleteByEntityID(entity.ID)
	session.RemoveEntity(entity)
	participant.RemoveEntity(entity)
	if session.ParticipantCount() == 0 {
		h.Sessions.Remove(ctx, session)
	}

	respond.Send(&hagallpb.EntityDeleteResponse{""", 'HandleEntityDelete:session:empty')
ctl('f2t-session-tags-unlocked', 'C09', 'F2t', 'websocket/logs.go',
    """func (h *handlerWithLogs) setSessionTags(sessionID, sessionUUID string, participantID uint32) {
	h.tagsMutex.Lock()
	defer h.tagsMutex.Unlock()

""",
    """func (h *handlerWithLogs) setSessionTags(sessionID, sessionUUID string, participantID uint32) {
""", 'handlerWithLogs.', 'the defect fixed in the logging decorator, re-introduced')
ctl('e6-stop-signal-droppable', 'C07', 'E6', SE,
    """		s.frameTicker.Stop()
		s.closeFrameChan <- struct{}{}""",
    """		s.frameTicker.Stop()
		select {
		case s.closeFrameChan <- struct{}{}:
		default:
		}""", 'Close:signal-not-droppable')
ctl('e6-callbacks-after-unlock', 'C08', 'E6', SE,
    """				s.frameMutex.RLock()
				for _, h := range s.frameHandlers {
					h()
				}
				s.frameMutex.RUnlock()""",
    """				s.frameMutex.RLock()
				handlers := make([]func(), 0, len(s.frameHandlers))
				for _, h := range s.frameHandlers {
					handlers = append(handlers, h)
				}
				s.frameMutex.RUnlock()
				for _, h := range handlers {
					h()
				}""", 'StartDispatchFrames')
ctl('f6b-lock-held-after-panic', 'C08', 'F6b', 'modules/dagaz/state.go',
    """func (s *State) insertQuads(quads []Quad) {
	s.mutex.Lock()
	defer s.mutex.Unlock()

	for _, quad := range quads {
		s.SpatialPartition.InsertQuad(quad)
	}
}""",
    """func (s *State) insertQuads(quads []Quad) {
	s.mutex.Lock()
	for _, quad := range quads {
		s.SpatialPartition.InsertQuad(quad)
	}
	s.mutex.Unlock()
}""", 'insertQuads')
ctl('c11-pose-applied-without-pose', 'C11', 'C11-pose', RT,
    """	if update.Pose == nil {
		return nil
	}

	entity.SetPose(models.Pose{
		PX: update.Pose.Px,
		PY: update.Pose.Py,
		PZ: update.Pose.Pz,
		RX: update.Pose.Rx,
		RY: update.Pose.Ry,
		RZ: update.Pose.Rz,
		RW: update.Pose.Rw,
	})""",
    """	entity.SetPose(models.Pose{
		PX: update.Pose.GetPx(),
		PY: update.Pose.GetPy(),
		PZ: update.Pose.GetPz(),
		RX: update.Pose.GetRx(),
		RY: update.Pose.GetRy(),
		RZ: update.Pose.GetRz(),
		RW: update.Pose.GetRw(),
	})""", 'applied-only-with-pose')
ctl('e7-join-notfound-for-live-session', 'C07', 'B4', RT,
    """	session, ok := h.Sessions.GetByGlobalID(req.SessionId)
	if !ok && req.SessionId != "" {""",
    """	session, ok := h.Sessions.GetByGlobalID(req.SessionId)
	if (!ok || len(req.SessionId) > 12) && req.SessionId != "" {""", 'HandleParticipantJoin')

# ---- round-5 seeds: swapped ids, copied lock, lost frame-cancel function
ctl('b10-unsubscribe-args-swapped', 'C13', 'B10', RT,
    """	session.GetEntityComponents().Unsubscribe(req.EntityComponentTypeId, participant.ID)""",
    """	session.GetEntityComponents().Unsubscribe(participant.ID, req.EntityComponentTypeId)""",
    'HandleEntityComponentUnsubscribe:EntityComponentStore.Unsubscribe(arg 0)')
ctl('f6c-value-receiver-copies-mutex', 'C09', 'F6c', 'modules/dagaz/state.go',
    """func (s *State) debugInfo() SpatialDebugInfo {""",
    """func (s State) debugInfo() SpatialDebugInfo {""",
    'debugInfo:receiver')
ctl('e6-frame-cancel-overwritten', 'C08', 'E6', RT,
    """	h.currentSession = session
	h.currentParticipant = participant
""",
    """	h.currentSession = session
	h.currentParticipant = participant
	h.stopFrameHandling = nil
""", 'HandleParticipantJoin:registers-frame-callback')

# ---- round-6 seeds: carried-over module state registered in the new session; row/column bounds crossed
ctl('j3-carried-over-state-registered', 'C16', 'J3', 'modules/odal/odal.go',
    """		state = s.LoadOrStoreModuleState(m.Name(), &State{})""",
    """		if m.state == nil {
			m.state = &State{}
		}
		state = s.LoadOrStoreModuleState(m.Name(), m.state)""",
    'Init:fresh-candidate')
ctl('g3b-column-index-bounded-by-row-count', 'C20', 'G3b', 'modules/dagaz/grid_spatial_partition.go',
    """		if cellX < 0 || cellX >= len(grid.Grid[0]) {
			return nil, -1
		}
		if cellY < 0 || cellY >= len(grid.Grid) {""",
    """		if cellX < 0 || cellX >= len(grid.Grid) {
			return nil, -1
		}
		if cellY < 0 || cellY >= len(grid.Grid[0]) {""",
    'IntersectQuad:bound[cellX]')

# ---- the same breakages registered for C20 (grid sharing / retention clause)
ctl('f1-grid-lock-dropped-c20', 'C20', 'F1', 'modules/dagaz/state.go',
    """func (s *State) debugInfo() SpatialDebugInfo {
	s.mutex.Lock()
	defer s.mutex.Unlock()

""",
    """func (s *State) debugInfo() SpatialDebugInfo {
""", 'RegularGrid')
ctl('f6b-lock-held-after-panic-c20', 'C20', 'F6b', 'modules/dagaz/state.go',
    """func (s *State) insertQuads(quads []Quad) {
	s.mutex.Lock()
	defer s.mutex.Unlock()

	for _, quad := range quads {
		s.SpatialPartition.InsertQuad(quad)
	}
}""",
    """func (s *State) insertQuads(quads []Quad) {
	s.mutex.Lock()
	for _, quad := range quads {
		s.SpatialPartition.InsertQuad(quad)
	}
	s.mutex.Unlock()
}""", 'insertQuads')
ctl('f6c-value-receiver-copies-mutex-c20', 'C20', 'F6c', 'modules/dagaz/state.go',
    """func (s *State) debugInfo() SpatialDebugInfo {""",
    """func (s State) debugInfo() SpatialDebugInfo {""",
    'debugInfo:receiver')
ctl('g3-row-clamp-into-column-c20', 'C20', 'G3', 'modules/dagaz/grid_spatial_partition.go',
    """		cellY = (uint)(math.Min((float64)(cellY), (float64)(len(grid.Grid)-1)))""",
    """		cellX = (uint)(math.Min((float64)(cellY), (float64)(len(grid.Grid)-1)))""", 'IntersectQuad', 'the defect fixed in IntersectQuad, re-introduced')
# ---- ids / registry / silent drops / flag set

# ---- round 9 rules
ctl('g8-frame-limit-lowered', 'C14', 'G8', 'websocket/handler.go',
    """	handler := handler{
		Conn:    conn,
		Handler: h,
	}

	handler.Handle(ctx)""",
    """	handler := handler{
		Conn:    conn,
		Handler: h,
	}
	conn.MaxPayloadBytes = 16 << 10

	handler.Handle(ctx)""", 'frame-limit-not-lowered', 'seed C14-21')
ctl('g8-frame-limit-lowered-c04', 'C04', 'G8', 'websocket/handler.go',
    """	handler := handler{
		Conn:    conn,
		Handler: h,
	}

	handler.Handle(ctx)""",
    """	handler := handler{
		Conn:    conn,
		Handler: h,
	}
	conn.MaxPayloadBytes = len(conn.Request().URL.Path) + 65536

	handler.Handle(ctx)""", 'frame-limit-not-lowered', 'seed C04-21 (a limit computed at run time)')
ctl('e6-session-closed-by-a-context-callback', 'C11', 'E6', 'models/session.go',
    """	instrumentCountSession(session.AppKey)
	return nil""",
    """	instrumentCountSession(session.AppKey)
	context.AfterFunc(ctx, session.Close)
	return nil""", 'session-closed-only-where-it-ends', 'seed C11-21')
ctl('g2-recover-in-a-helper', 'C08', 'G2', 'websocket/handler.go',
    """	defer func() {
		if r := recover(); r != nil {
			err = errors.New("handling message panicked").WithTag("panic", r)
		}
	}()

	return h.handleMessage(ctx, msg, responder)
}""",
    """	defer func() {
		if perr := panicAsError(); perr != nil {
			err = perr
		}
	}()

	return h.handleMessage(ctx, msg, responder)
}

func panicAsError() error {
	if r := recover(); r != nil {
		return errors.New("handling message panicked").WithTag("panic", r)
	}
	return nil
}""", 'recover-called-by-the-deferred-function', 'seeds C08-5, C08-13')
ctl('g6-label-set-after-increment', 'C08', 'G6', 'websocket/metrics.go',
    """	req := conn.Request()
	h.appKey = httpcmn.GetAppKeyFromHagallUserToken(httpcmn.GetUserTokenFromHTTPRequest(req))

	wsConnectedClients.
		With(prometheus.Labels{
			publicEndpointLabel: h.publicEndpoint,
			appKeyLabel:         h.appKey,
		}).
		Inc()

	h.Handler.HandleConnect(conn)
}""",
    """	wsConnectedClients.
		With(prometheus.Labels{
			publicEndpointLabel: h.publicEndpoint,
			appKeyLabel:         h.appKey,
		}).
		Inc()

	h.Handler.HandleConnect(conn)
	req := conn.Request()
	h.appKey = httpcmn.GetAppKeyFromHagallUserToken(httpcmn.GetUserTokenFromHTTPRequest(req))
}""", 'labels-set-before-increment', 'seed C08-12')
ctl('s-list-answered-from-a-kept-list', 'C01', 'S-List', 'models/entity.go',
    """	var list []*hagallpb.EntityComponent
	for _, ecs := range s.entityComponents {
		for _, ec := range ecs {
			list = append(list, ec)
		}
	}
	return list
}""",
    """	var list []*hagallpb.EntityComponent
	if len(s.idIndex) > 64 {
		return lastListing
	}
	for _, ecs := range s.entityComponents {
		for _, ec := range ecs {
			list = append(list, ec)
		}
	}
	lastListing = list
	return list
}

var lastListing []*hagallpb.EntityComponent""", 'ListAll:built-now', 'seed C01-16')
ctl('j5-receipt-forwarder-per-connection', 'C19', 'J5', 'cmd/main.go',
    """			defer conn.Close()

			var rh hwebsocket.Handler""",
    """			defer conn.Close()
			receiptHandler.HandleReceipts(ctx)

			var rh hwebsocket.Handler""", 'receipt-forwarder-started-once', 'seed C19-21')
ctl('j5-session-store-per-connection', 'C03', 'J5', 'cmd/main.go',
    """			defer conn.Close()

			var rh hwebsocket.Handler""",
    """			defer conn.Close()
			sessions := sessions

			var rh hwebsocket.Handler""", 'session-store-shared')

ctl('g9-write-deadline-set-once', 'C08', 'G9', 'websocket/realtime.go',
    """	h.conn = conn
}""",
    """	h.conn = conn
	conn.SetWriteDeadline(time.Now().Add(h.ClientIdleTimeout))
}""", 'deadline-armed-per-operation', 'seed C08-25')

ctl('q10-merge-before-the-grid-is-fitted', 'C20', 'Q10', 'modules/dagaz/grid_spatial_partition.go',
    """	// fit the min & max:
	grid.ExpandToFitPoint(&minPoint)
	grid.ExpandToFitPoint(&maxPoint)
""",
    """""", 'fitted-before-written', 'seed C20-24',
    edits=[dict(file='modules/dagaz/grid_spatial_partition.go',
                old="""	if quadToMerge == &q {
		// case of append:
""",
                new="""	if quadToMerge == &q {
		// case of append:
		grid.ExpandToFitPoint(&minPoint)
		grid.ExpandToFitPoint(&maxPoint)
""")])
ctl('i2-measurement-object-carried-over', 'C18', 'I2', 'websocket/realtime.go',
    """	participant := &models.Participant{
		ID:            session.NewParticipantID(),
		Responder:     respond,
		SignedLatency: &models.SignedLatency{},
	}""",
    """	signedLatency := &models.SignedLatency{}
	if h.currentParticipant != nil {
		signedLatency = h.currentParticipant.SignedLatency
	}
	participant := &models.Participant{
		ID:            session.NewParticipantID(),
		Responder:     respond,
		SignedLatency: signedLatency,
	}""", 'measurement-object-created-with-the-participant', 'seed C18-23')
ctl('e6-frame-cancel-handed-to-a-context-callback', 'C11', 'E6', 'websocket/realtime.go',
    """	h.stopFrameHandling = session.HandleFrame(handleFrame)
""",
    """	h.stopFrameHandling = session.HandleFrame(handleFrame)
	context.AfterFunc(ctx, h.stopFrameHandling)
""", 'frame-cancel-not-handed-on', 'seed C11-25')

ctl('g10-send-queue-not-drained-on-exit', 'C09', 'G10', 'websocket/handler.go',
    """	defer func() {
		for len(h.sendChan) != 0 {
			<-h.sendChan
		}
	}()
""",
    """""", 'sendChan:drained-when-its-consumer-stops', 'seeds C07-28, C08-28, C09-28')
ctl('g11-sync-clock-period-from-a-request-header', 'C08', 'G11', 'websocket/realtime.go',
    """	return h.ClientSyncClockInterval
}""",
    """	if h.conn != nil {
		if d, err := time.ParseDuration(h.conn.Request().Header.Get("posemesh-sync-clock-interval")); err == nil {
			return d
		}
	}
	return h.ClientSyncClockInterval
}""", 'period-from-configuration', 'seed C08-26')

ctl('q4-region-answered-from-memory', 'C20', 'Q4', 'modules/dagaz/dagaz.go',
    """	regionQuadsProtobuf := m.state.region(NewVector3fFromProtobuf(req.Min), NewVector3fFromProtobuf(req.Max))
""",
    """	regionQuadsProtobuf := lastRegionAnswer
	if regionQuadsProtobuf == nil {
		regionQuadsProtobuf = m.state.region(NewVector3fFromProtobuf(req.Min), NewVector3fFromProtobuf(req.Max))
	}
""", 'HandleDagazGetRegion:answer-from-the-index', 'seed C20-26',
    edits=[dict(file='modules/dagaz/dagaz.go',
                old="""func (m *Module) Name() string {""",
                new="""var lastRegionAnswer []*dagazpb.Quad

func (m *Module) Name() string {""")])
ctl('q11-cell-shortened-without-the-found-test', 'C20', 'Q11', 'modules/dagaz/grid_spatial_partition.go',
    """	contains, index := arrayContains(grid.Grid[y][x], toRemove)
	if contains {
		grid.Grid[y][x][index] = grid.Grid[y][x][len(grid.Grid[y][x])-1]
		grid.Grid[y][x] = grid.Grid[y][x][:len(grid.Grid[y][x])-1]
	}""",
    """	_, index := arrayContains(grid.Grid[y][x], toRemove)
	grid.Grid[y][x][index] = grid.Grid[y][x][len(grid.Grid[y][x])-1]
	grid.Grid[y][x] = grid.Grid[y][x][:len(grid.Grid[y][x])-1]""", 'cell-shrinks-by-what-was-found', 'seed C20-28')
ctl('h3-action-refused-on-a-count-before-lookup', 'C16', 'H3', 'modules/vikja/vikja.go',
    """	latestEntityAction, ok := m.state.EntityAction(entityAction.EntityId, entityAction.Name)
""",
    """	if len(m.state.EntityActions()) >= 4096 {
		respond.Send(&hagallpb.ErrorResponse{
			Type:      hagallpb.MsgType_MSG_TYPE_ERROR_RESPONSE,
			Timestamp: timestamppb.Now(),
			RequestId: req.RequestId,
			Code:      hagallpb.ErrorCode_ERROR_CODE_TOO_LARGE,
		})
		return nil
	}
	latestEntityAction, ok := m.state.EntityAction(entityAction.EntityId, entityAction.Name)
""", 'refused-before-lookup', 'seed C16-26')

os.makedirs(OUT, exist_ok=True)
bad = 0
names = set()
for c in C:
    assert c['name'] not in names, c['name']
    names.add(c['name'])
    src = open(os.path.join(REPO, c['file'])).read()
    n = src.count(c['old'])
    if n != 1:
        print('STALE', c['name'], 'old snippet occurs', n, 'times')
        bad += 1
    json.dump(c, open(os.path.join(OUT, c['name'] + '.json'), 'w'), indent=1)
for f in os.listdir(OUT):
    if f.endswith('.json') and f[:-5] not in names:
        os.remove(os.path.join(OUT, f))
print(len(C), 'controls written,', bad, 'stale')
sys.exit(1 if bad else 0)
