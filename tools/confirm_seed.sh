#!/bin/bash
# usage: tools/confirm_seed.sh <seed-dir (patch.diff, demo_test.go, notes.txt)> <id> <property>
# Confirms in a scratch worktree: builds + whole suite passes with the change; demo fails with it and
# passes without it. On success stores /verif/seeded/<id>/ and removes the worktree.
set -u
SRC="$1"; ID="$2"; PROP="$3"
export GOFLAGS=-mod=mod GOPROXY=off GOSUMDB=off GOTOOLCHAIN=local
WT=/tmp/confirm-$ID
git -C /repo worktree remove --force $WT >/dev/null 2>&1
git -C /repo worktree add --detach $WT HEAD -q || exit 2
cleanup() { git -C /repo worktree remove --force $WT >/dev/null 2>&1; }
trap cleanup EXIT
cd $WT
PKG=$(grep -io 'package dir[a-z]*[: ]*[a-z/]*\|belongs in[^a-z]*[a-z/]*\|goes in[^a-z]*[a-z/]*\|in the `[a-z/]*` package\|directory: *[a-z/]*' "$SRC/notes.txt" | head -1 | grep -o '[a-z/]*$')
if [ -z "$PKG" ] || [ ! -d "$WT/$PKG" ]; then PKG=$(head -1 "$SRC/demo_test.go" | awk '{print $2}'); [ "$PKG" = "websocket" ] || [ -d "$WT/$PKG" ] || PKG=websocket; fi
# the package clause of the demo decides
DECL=$(grep -m1 '^package ' "$SRC/demo_test.go" | awk '{print $2}')
case "$DECL" in websocket|websocket_test) PKG=websocket;; models|models_test) PKG=models;; vikja) PKG=modules/vikja;; odal) PKG=modules/odal;; dagaz) PKG=modules/dagaz;; receipt) PKG=receipt;; featureflag) PKG=featureflag;; http|http_test) PKG=http;; smoketest) PKG=smoketest;; main) PKG=cmd;; esac
git apply "$SRC/patch.diff" || { echo "RESULT $ID patch-does-not-apply"; exit 1; }
go build ./... || { echo "RESULT $ID build-fails"; exit 1; }
SUITE=$(go test -vet=off -count=1 ./... 2>&1)
SUITE_OK=yes
if echo "$SUITE" | grep -q "^FAIL\|^--- FAIL"; then
  # tolerate the known flaky test only
  if echo "$SUITE" | grep "^--- FAIL" | grep -vq "TestHandlerHandleSignedLatency"; then SUITE_OK=no; fi
fi
cp "$SRC/demo_test.go" "$WT/$PKG/zz_seed_demo_test.go"
RUNPAT=$(grep -o '^func Test[A-Za-z0-9_]*' "$WT/$PKG/zz_seed_demo_test.go" | sed 's/func //' | paste -sd'|')
WITH=$(go test -vet=off -count=1 -run "^($RUNPAT)\$" ./$PKG/ 2>&1); WITH_FAIL=no; echo "$WITH" | grep -q "^--- FAIL\|^FAIL\|panic:" && WITH_FAIL=yes
git apply -R "$SRC/patch.diff"
WITHOUT=$(go test -vet=off -count=1 -run "^($RUNPAT)\$" ./$PKG/ 2>&1); WITHOUT_PASS=no; echo "$WITHOUT" | grep -q "^ok" && WITHOUT_PASS=yes
echo "RESULT $ID suite_passes_with_change=$SUITE_OK demo_fails_with_change=$WITH_FAIL demo_passes_without=$WITHOUT_PASS pkg=$PKG tests=$RUNPAT"
if [ "$SUITE_OK" = yes ] && [ "$WITH_FAIL" = yes ] && [ "$WITHOUT_PASS" = yes ]; then
  D=/verif/seeded/$ID; mkdir -p $D
  cp "$SRC/patch.diff" $D/patch.diff; cp "$SRC/demo_test.go" $D/demo_test.go; cp "$SRC/notes.txt" $D/notes.txt
  python3 - "$D" "$ID" "$PROP" "$PKG" "$RUNPAT" <<'PY'
import json,sys,re
d,i,p,pkg,tests=sys.argv[1:6]
notes=open(d+'/notes.txt').read()
m=re.search(r'(?is)(what is needed to manifest|needs?)[:\s]*(.{20,400}?)(\n\n|$)',notes)
meta={"id":i,"breaks_property":p,"source":"independent sub-agent given only the property text and a scratch worktree",
 "demo_package":pkg,"demo_tests":tests.split('|'),
 "needs_to_manifest":(m.group(2).strip() if m else "see notes.txt"),
 "confirmed":{"builds":True,"existing_suite_passes_with_change":True,"demo_fails_with_change":True,"demo_passes_without_change":True,
              "how":"tools/confirm_seed.sh in a scratch worktree of /repo HEAD: git apply patch; go build ./...; go test ./...; demo run with and without the patch"}}
json.dump(meta,open(d+'/meta.json','w'),indent=1)
PY
else
  echo "$WITH" | tail -5; echo "$WITHOUT" | tail -5; echo "$SUITE" | grep "FAIL" | head
fi
