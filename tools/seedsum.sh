#!/bin/sh
# usage: tools/seedsum.sh <patch.diff> <own property>   -> one line: own=<rules firing in the own property> others=<props>
OUT=$(/verif/tools/seedcheck.sh "$1" 2>&1 | grep -v KNOWN)
OWN=$(echo "$OUT" | grep "^$2: " | sed 's/.*rule=\([A-Za-z0-9-]*\) site=\([^ ]*\).*/\1@\2/' | cut -c1-110 | sort -u | head -4 | paste -sd' ')
OTH=$(echo "$OUT" | grep -o "^C[0-9]*" | sort -u | paste -sd,)
UND=$(echo "$OUT" | grep -c "^UNDECIDED")
ERR=$(echo "$OUT" | grep -i "does not apply\|not clean" | head -1)
echo "own=[$OWN] fired_in=[$OTH] undecided=$UND $ERR"
