#!/usr/bin/env python3
"""Rewrites the rules column of the DESIGN.md section-4 table from the registrations in checker/props.go
(rows C15 and C17, which are described in prose, are left alone)."""
import re
keeps = {}
for line in open('/verif/checker/props.go'):
    m = re.match(r'\s*"(C\d\d)": \{Rules:', line)
    if not m:
        continue
    km = re.search(r'Keep: kp\{([^}]*)\}', line)
    if not km:
        continue
    ks = re.findall(r'"([^"]+)"', km.group(1))
    sites = {}
    sm = line.find('Sites:')
    if sm >= 0:
        for x in re.finditer(r'"([^"]+)": \{([^}]*)\}', line[sm + len('Sites: map[string][]string{'):]):
            sites[x.group(1)] = re.findall(r'"([^"]+)"', x.group(2))
    keeps[m.group(1)] = (ks, sites)
s = open('/verif/DESIGN.md').read()
def fmt(k, sites):
    k2 = k + "*" if k in ("S-", "B", "E8", "Q", "C4") else k
    if k in sites:
        return "%s (%s)" % (k2, ", ".join(x.rstrip('.:') for x in sites[k]))
    return k2
def key(k):
    m = re.match(r'([A-Z]+)-?(\d*)', k)
    return (m.group(1), int(m.group(2) or 0), k)
out = []
for line in s.split('\n'):
    m = re.match(r'\| (C\d\d) \| (.*?) \|(.*)\|$', line)
    if m and m.group(1) in keeps and m.group(1) not in ("C15", "C17"):
        ks, sites = keeps[m.group(1)]
        line = "| %s | %s |%s|" % (m.group(1), ", ".join(fmt(k, sites) for k in sorted(ks, key=key)), m.group(3))
    out.append(line)
open('/verif/DESIGN.md', 'w').write('\n'.join(out))
