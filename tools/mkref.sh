#!/bin/sh
# Regenerates checker/ref_known.go: the unexported functions and types of the reference tree (/repo HEAD)
# with their fingerprints, used to re-attach a name to a renamed function or type (checker/names.go).
set -e
export GOFLAGS=-mod=mod GOPROXY=off GOSUMDB=off GOTOOLCHAIN=local GOWORK=off
cd /verif/checker
go build -o /tmp/hagcheck_ref . && /tmp/hagcheck_ref refnames /repo > /tmp/ref_known.go.new
mv /tmp/ref_known.go.new ref_known.go && gofmt -w ref_known.go && rm -f /tmp/hagcheck_ref
