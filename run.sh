#!/bin/sh
# usage: ./run.sh <property> <quick|thorough>
# Rebuilds the checker if its sources are newer than the binary, then analyses /repo's working tree.
set -u
cd "$(dirname "$0")"
export GOFLAGS=-mod=mod GOPROXY=off GOSUMDB=off GOTOOLCHAIN=local GOWORK=off
BIN=/verif/bin/hagcheck
if [ ! -x "$BIN" ] || [ -n "$(find checker -name '*.go' -newer "$BIN" 2>/dev/null | head -1)" ] || [ checker/go.mod -nt "$BIN" ]; then
  (cd checker && go build -o "$BIN" .) || { echo "UNDECIDED property=$1 reason=checker build failed"; exit 2; }
fi
exec "$BIN" -property "$1" -tier "${2:-${VERIF_TIER:-quick}}" -repo /repo -verif /verif
